(* StoredDbOpsAlias7.v — MapImpl::insert of an absent key with EVERY branch of multi_map.rs modelled.

     so_map_rehash   MultiMapImpl::rehash(capacity): new = max(capacity, 64); current < new: grow = data.resize(new) then
                     rehash_values(current, new); current > new: shrink = rehash_values(current, new) then data.resize(new);
                     equal: nothing.  data.resize = DbMapData::resize: the three vectors resized with Empty / K::default() /
                     T::default() (kdef / vdef)
     so_map_grow     `if self.len() >= self.max_len() { self.rehash(storage, self.capacity() * 2)? }`
     so_map_code     the so_map_rest of the code: so_map_grow, so_map_rip

   so_map_grow_spec: on a represented table, if OpenMap.v's rehash to twice the capacity returns Done m1, the program ends in
   a represented table whose open-addressing map is m1.
   so_map_insert_absent_full: so_map_insert with so_map_code on a represented table satisfying C19's invariant PInv (minimum
   capacity 64), for a key no Valid slot holds: the table left is the one OpenMap.v's insert_or_replace computes (PInv again;
   the pairs are (key, value) :: the old ones as a multiset) — NO side condition on grow or probe cycles; assumed only: the
   elements (key, value, the two defaults) are valid, len + 1 < 2^64, and when the table grows the three vectors of
   max(2 * capacity, 64) slots stay below 2^64 bytes (so_grow_ok). *)
From Coq Require Import List NArith ZArith Arith Bool Lia Permutation.
Import ListNotations.
From Agdb Require Import Bytes BytesProofs Records RecordsProofs Storage StorageSpec StorageLayout
  Collections CollWp CollBytes CollVecBase CollVecOps CollVec CollVec2 CollElems CollSep CollMap CollMapHist
  OpenMap OpenMapProofs OpenMapSpec OpenMapRefineBase OpenMapRefineOps OpenMapRefineStep OpenMapRefine
  StoredDb StoredDbRep StoredDbProbe StoredDbOpsAlias StoredDbOpsAlias4 StoredDbOpsAlias5 StoredDbOpsAlias6.
From Coq Require Import ZifyBool ZifyNat ZifyN.
Ltac Zify.zify_post_hook ::= Z.div_mod_to_equations.
Open Scope N_scope.

Section GrowProg.
  Variables K V : Type.
  Variable EK : cv_elem K.
  Variable EV : cv_elem V.
  Variable h : K -> N.
  Variable kdef : K.
  Variable vdef : V.

  Definition so_map_rehash (d : cm_data) (cap : N) : cprog cm_data :=
    let cur := cm_capacity d in
    let newcap := N.max cap 64 in
    match cur ?= newcap with
    | Lt => d' <~ cm_resize K V EK EV kdef vdef d newcap ;;
            so_rehash_values K V EK EV h d' (N.to_nat cur) (N.to_nat newcap) ;;~ CRet d'
    | Gt => so_rehash_values K V EK EV h d (N.to_nat cur) (N.to_nat newcap) ;;~ cm_resize K V EK EV kdef vdef d newcap
    | Eq => CRet d
    end.

  Definition so_map_grow (d : cm_data) : cprog cm_data := so_map_rehash d (cm_capacity d * 2).

  Definition so_map_code : so_map_rest := {| smr_grow := so_map_grow; smr_rehash_in_place := so_map_rip K V EK EV h |}.
End GrowProg.

Section ResizeSlots.
  Variables K V : Type.

  Lemma ct_slots_repeat (kdef : K) (vdef : V) : forall m,
    ct_slots K V (repeat StEmpty m) (repeat kdef m) (repeat vdef m) = repeat Empty m.
  Proof. induction m as [|m IH]; cbn [repeat ct_slots]; [reflexivity|]. rewrite IH. reflexivity. Qed.

  Lemma ct_slots_app (kdef : K) (vdef : V) : forall (ls : list cm_st) (lk : list K) (lv : list V) m,
    length lk = length ls -> length lv = length ls ->
    ct_slots K V (ls ++ repeat StEmpty m) (lk ++ repeat kdef m) (lv ++ repeat vdef m) = ct_slots K V ls lk lv ++ repeat Empty m.
  Proof.
    induction ls as [|s ls IH]; intros [|k lk] [|v lv] m H1 H2; cbn [length] in *; try discriminate.
    - cbn [app ct_slots]. apply ct_slots_repeat.
    - cbn [app ct_slots]. f_equal. apply IH; congruence.
  Qed.

  Lemma ct_slots_resize (kdef : K) (vdef : V) (ls : list cm_st) (lk : list K) (lv : list V) n :
    length lk = length ls -> length lv = length ls -> (length ls <= n)%nat ->
    ct_slots K V (cl_resize ls n StEmpty) (cl_resize lk n kdef) (cl_resize lv n vdef)
    = ct_slots K V ls lk lv ++ repeat Empty (n - length ls).
  Proof.
    intros H1 H2 Hn. unfold cl_resize. rewrite !firstn_all2 by lia. rewrite H1, H2. apply ct_slots_app; auto.
  Qed.
End ResizeSlots.

Section GrowProof.
  Variables K V : Type.
  Variable EK : cv_elem K.
  Variable EV : cv_elem V.
  Variable LK : elem_law EK.
  Variable LV : elem_law EV.
  Variable keqb : K -> K -> bool.
  Variable veqb : V -> V -> bool.
  Variable h : K -> N.
  Variable kdef : K.
  Variable vdef : V.
  Variable fl : bool.
  Hypothesis keqb_eq : forall a b, keqb a b = true <-> a = b.
  Hypothesis veqb_eq : forall a b, veqb a b = true <-> a = b.
  Hypothesis kdef_ok : el_valid LK kdef.
  Hypothesis vdef_ok : el_valid LV vdef.

  Notation msepT := (msep K V EK EV LK LV).
  Notation mrepT := (mrep K V EK EV LK LV).
  Notation mfootT := (mfoot K V EK EV LK LV).
  Notation slotsT := (ct_slots K V).

  (* DbMapData::resize at any transaction depth *)
  Lemma so_cm_resize_spec d ss ks vs ls lk lv c sp (Q : cres cm_data -> spec -> Prop) :
    msepT (hp sp) d ss ks vs ls lk lv ->
    8 + 1 * c < two64 -> 8 + ce_size EK * c < two64 -> 8 + ce_size EV * c < two64 ->
    (forall d' ss' ks' vs' sp',
        msepT (hp sp') d' ss' ks' vs' (cl_resize ls (N.to_nat c) StEmpty) (cl_resize lk (N.to_nat c) kdef) (cl_resize lv (N.to_nat c) vdef) ->
        cm_index d' = cm_index d -> cm_len d' = cm_len d -> sdepth sp' = sdepth sp ->
        frame (hp sp) (hp sp') (mfootT d ss ks vs) (mfootT d' ss' ks' vs') -> Q (CrOk d') sp') ->
    cwp fl (cm_resize K V EK EV kdef vdef d c) sp Q.
  Proof.
    intros HS F1 F2 F3 HQ. destruct d as [di dl hs0 hk0 hv0]. unfold cm_resize. apply cwp_bind.
    eapply cv_resize_spec; [exact (ms_s _ _ _ _ _ _ _ _ _ _ _ _ _ _ HS)|exact I|exact F1|].
    intros hs ss' sp1 R1 I1 D1 Fr1. cbn [kont].
    destruct (msep_update_s K V EK EV LK LV _ _ _ _ _ _ _ _ _ _ _ _ HS I1 R1 Fr1) as [HS1 Ff1].
    apply cwp_bind.
    eapply cv_resize_spec; [exact (ms_k _ _ _ _ _ _ _ _ _ _ _ _ _ _ HS1)|exact kdef_ok|exact F2|].
    intros hk ks' sp2 R2 I2 D2 Fr2. cbn [kont].
    destruct (msep_update_k K V EK EV LK LV _ _ _ _ _ _ _ _ _ _ _ _ HS1 I2 R2 Fr2) as [HS2 Ff2].
    apply cwp_bind.
    eapply cv_resize_spec; [exact (ms_v _ _ _ _ _ _ _ _ _ _ _ _ _ _ HS2)|exact vdef_ok|exact F3|].
    intros hv vs' sp3 R3 I3 D3 Fr3. cbn [kont cwp].
    destruct (msep_update_v K V EK EV LK LV _ _ _ _ _ _ _ _ _ _ _ _ HS2 I3 R3 Fr3) as [HS3 Ff3].
    eapply HQ; [exact HS3|reflexivity|reflexivity|lia|eapply frame_trans; [exact Ff1|eapply frame_trans; [exact Ff2|exact Ff3]]].
  Qed.

  (* the vectors of the grown table fit *)
  Definition so_grow_ok (t : cm_table K V) : Prop :=
    let c := N.max (lenN (ct_states t) * 2) 64 in
    8 + 1 * c < two64 /\ 8 + ce_size EK * c < two64 /\ 8 + ce_size EV * c < two64.

  Lemma so_map_grow_spec d ss ks vs t m1 sp (Q : cres cm_data -> spec -> Prop) :
    mrepT (hp sp) d ss ks vs t ->
    rehash K V h 64 (ct_omap K V t) (capacity K V (ct_omap K V t) * 2) = Done m1 ->
    so_grow_ok t ->
    (forall d1 ss1 ks1 vs1 t1 sp1,
        mrepT (hp sp1) d1 ss1 ks1 vs1 t1 -> cm_index d1 = cm_index d -> ct_omap K V t1 = m1 -> ct_len t1 = ct_len t ->
        sdepth sp1 = sdepth sp -> frame (hp sp) (hp sp1) (mfootT d ss ks vs) (mfootT d1 ss1 ks1 vs1) -> Q (CrOk d1) sp1) ->
    cwp fl (so_map_grow K V EK EV h kdef vdef d) sp Q.
  Proof.
    intros HM Hg (G1 & G2 & G3) HQ.
    pose proof (mr_sep _ _ _ _ _ _ _ _ _ _ _ _ HM) as HS.
    destruct (mr_same _ _ _ _ _ _ _ _ _ _ _ _ HM) as [SK SV]. pose proof (mr_len _ _ _ _ _ _ _ _ _ _ _ _ HM) as HL.
    assert (Hcap : cm_capacity d = lenN (ct_states t)).
    { unfold cm_capacity. exact (vr_len _ _ _ _ _ _ _ (ms_s _ _ _ _ _ _ _ _ _ _ _ _ _ _ HS)). }
    set (sl := slotsT (ct_states t) (ct_keys t) (ct_values t)) in *.
    assert (Lsl : length sl = length (ct_states t)) by (apply ct_slots_length; auto).
    unfold rehash, capacity, ct_omap in Hg. cbn [slots len] in Hg. fold sl in Hg.
    set (cur := length sl) in *. set (newcap := Nat.max (cur * 2) 64) in *.
    assert (Hlt : (cur < newcap)%nat) by (unfold newcap; lia).
    rewrite (proj2 (Nat.compare_lt_iff cur newcap) Hlt) in Hg.
    unfold rehash_values in Hg.
    destruct (rehash_loop K V h (rehash_fuel cur newcap) cur newcap (sl ++ repeat Empty (newcap - cur)) (repeat false newcap) 0)
      as [sl1|] eqn:HRL; [|discriminate].
    injection Hg as <-.
    unfold so_map_grow, so_map_rehash. rewrite Hcap.
    assert (EcN : N.to_nat (lenN (ct_states t)) = cur) by (unfold lenN, cur; lia).
    assert (EnN : N.to_nat (N.max (lenN (ct_states t) * 2) 64) = newcap) by (unfold newcap; lia).
    destruct (N.compare_spec (lenN (ct_states t)) (N.max (lenN (ct_states t) * 2) 64)) as [X|X|X]; try lia.
    apply cwp_bind.
    eapply so_cm_resize_spec; [exact HS|exact G1|exact G2|exact G3|].
    intros d' ss' ks' vs' sp1 HS1 Hi1 Hl1 Hd1 Hf1. cbn [kont].
    rewrite EcN, EnN in *.
    assert (Esl : slotsT (cl_resize (ct_states t) newcap StEmpty) (cl_resize (ct_keys t) newcap kdef) (cl_resize (ct_values t) newcap vdef)
                  = sl ++ repeat Empty (newcap - cur)).
    { rewrite ct_slots_resize by (auto; lia). fold sl. rewrite <- Lsl. reflexivity. }
    rewrite <- Esl in HRL.
    apply cwp_bind. unfold so_rehash_values.
    eapply (so_rehash_loop_spec K V EK EV LK LV keqb h fl d' cur newcap ltac:(lia));
      [exact HS1|rewrite !cl_resize_length; reflexivity|rewrite !cl_resize_length; reflexivity|rewrite cl_resize_length; lia|
       rewrite cl_resize_length; lia|lia|exact HRL|].
    intros ss3 ks3 vs3 ls3 lk3 lv3 sp3 HS3 A3 B3 C3 E3 D3 F3. cbn [kont cwp].
    eapply (HQ d' ss3 ks3 vs3 {| ct_states := ls3; ct_keys := lk3; ct_values := lv3; ct_len := ct_len t |}).
    - constructor; cbn [ct_states ct_keys ct_values ct_len]; [exact HS3|congruence|split; [exact A3|exact B3]].
    - exact Hi1.
    - unfold ct_omap. cbn [ct_states ct_keys ct_values ct_len]. rewrite E3. reflexivity.
    - reflexivity.
    - lia.
    - eapply frame_trans; [exact Hf1|exact F3].
  Qed.

  Lemma so_key_absent_perm (sl sl1 : list (slot K V)) key :
    Permutation (entries K V sl1) (entries K V sl) -> so_key_absent K V keqb sl key -> so_key_absent K V keqb sl1 key.
  Proof.
    intros HPm Ha j k v Hj.
    assert (Hlt : (j < length sl1)%nat).
    { destruct (Nat.lt_ge_cases j (length sl1)) as [X|X]; [exact X|]. rewrite nth_overflow in Hj by exact X. discriminate. }
    pose proof (entries_nth_in K V sl1 j k v Hlt Hj) as Hin.
    destruct (entries_in_nth K V sl k v (Permutation_in _ HPm Hin)) as (p & _ & Hv).
    exact (Ha p k v Hv).
  Qed.

  Theorem so_map_insert_absent_full d ss ks vs t key nv sp (Q : cres (cm_data * option V) -> spec -> Prop) :
    mrepT (hp sp) d ss ks vs t -> PInv K V h 64 (ct_omap K V t) ->
    so_key_absent K V keqb (slotsT (ct_states t) (ct_keys t) (ct_values t)) key ->
    el_valid LK key -> el_valid LV nv -> ct_len t + 1 < two64 ->
    (so_max_len (lenN (ct_states t)) <= ct_len t -> so_grow_ok t) ->
    (forall d' ss' ks' vs' t' sp',
        mrepT (hp sp') d' ss' ks' vs' t' -> cm_index d' = cm_index d -> PInv K V h 64 (ct_omap K V t') ->
        Permutation (sd_table_entries t') ((key, nv) :: sd_table_entries t) ->
        sdepth sp' = sdepth sp -> frame (hp sp) (hp sp') (mfootT d ss ks vs) (mfootT d' ss' ks' vs') ->
        Q (CrOk (d', None)) sp') ->
    cwp fl (so_map_insert K V EK EV keqb h (so_map_code K V EK EV h kdef vdef) d key nv) sp Q.
  Proof.
    intros HM HP Habs VK VV Hlen Hgo HQ.
    assert (Hmin : (4 <= 64)%nat) by lia.
    pose proof (mr_sep _ _ _ _ _ _ _ _ _ _ _ _ HM) as HS.
    destruct (mr_same _ _ _ _ _ _ _ _ _ _ _ _ HM) as [SK SV]. pose proof (mr_len _ _ _ _ _ _ _ _ _ _ _ _ HM) as HL.
    assert (Hcap : cm_capacity d = lenN (ct_states t)).
    { unfold cm_capacity. exact (vr_len _ _ _ _ _ _ _ (ms_s _ _ _ _ _ _ _ _ _ _ _ _ _ _ HS)). }
    rewrite so_map_insert_unfold.
    apply cwp_bind. apply hwp_transaction. intros sp0 Hm0 Hd0. cbn [kont].
    assert (HM0 : mrepT (hp sp0) d ss ks vs t).
    { constructor; [eapply msep_heq; [exact HS|exact Hm0]|exact HL|auto]. }
    rewrite Hcap, HL.
    destruct (N.leb_spec (so_max_len (lenN (ct_states t))) (ct_len t)) as [X|X].
    - (* the table grows *)
      cbn [so_map_code smr_grow]. apply cwp_bind.
      set (sl := slotsT (ct_states t) (ct_keys t) (ct_values t)) in *.
      assert (Lsl : length sl = length (ct_states t)) by (apply ct_slots_length; auto).
      destruct HP as [[Hcv Hc] Hch].
      pose proof (cv_le_length K V (slots (ct_omap K V t))) as Hle. fold (capacity K V (ct_omap K V t)) in Hle.
      destruct (rehash_good K V keqb veqb h 64 om_fixed keqb_eq veqb_eq Hmin (ct_omap K V t) (capacity K V (ct_omap K V t) * 2) Hcv)
        as (m1 & Hr & Hc1 & Hl1 & HG & HPm); [lia|exact Hch|].
      eapply so_map_grow_spec; [exact HM0|exact Hr|exact (Hgo X)|].
      intros d1 ss1 ks1 vs1 t1 sp1 HM1 Hi1 Em1 El1 Hd1 Hf1. cbn [kont].
      destruct (mr_same _ _ _ _ _ _ _ _ _ _ _ _ HM1) as [SK1 SV1].
      assert (Ecap1 : length (ct_states t1) = Nat.max (length sl * 2) 64).
      { pose proof Hc1 as Y. rewrite <- Em1 in Y. unfold capacity, ct_omap in Y. cbn [slots] in Y.
        rewrite ct_slots_length in Y by auto. fold sl in Y. exact Y. }
      eapply (so_map_insert_body_spec K V EK EV LK LV keqb veqb h 64 fl keqb_eq veqb_eq Hmin _ d1 ss1 ks1 vs1 t1);
        [exact HM1|rewrite Em1; exact (Good_PInv K V h 64 om_fixed Hmin m1 HG)| | |reflexivity|exact VK|exact VV|rewrite El1; exact Hlen|
         lia|lia|].
      + eapply so_key_absent_perm; [|exact Habs].
        change (entries K V (slotsT (ct_states t1) (ct_keys t1) (ct_values t1))) with (abs K V (ct_omap K V t1)).
        rewrite Em1. exact HPm.
      + unfold so_no_grow, so_max_len, lenN. rewrite El1, Ecap1.
        unfold capacity, ct_omap in Hc, Hcv. cbn [slots len] in Hc, Hcv. fold sl in Hc, Hcv.
        destruct Hc as [Hc|Hc].
        * assert (sl = []) by (destruct sl; [reflexivity|discriminate]). subst sl. rewrite H in Hcv. cbn in Hcv. rewrite H. cbn [length]. lia.
        * lia.
      + intros d' ss' ks' vs' t' sp' HM' Hi' HP' Hperm' Hd' Hf'.
        eapply HQ; [exact HM'|congruence|exact HP'| |lia|].
        * eapply Permutation_trans; [exact Hperm'|]. apply perm_skip.
          rewrite !(sd_table_entries_iter_all K V). rewrite Em1. exact HPm.
        * eapply frame_trans; [apply frame_refl; exact Hm0|]. eapply frame_trans; [exact Hf1|exact Hf'].
    - (* it has room *)
      cbn [cbind].
      eapply (so_map_insert_body_spec K V EK EV LK LV keqb veqb h 64 fl keqb_eq veqb_eq Hmin _ d ss ks vs t);
        [exact HM0|exact HP|exact Habs|exact X|reflexivity|exact VK|exact VV|exact Hlen|lia|lia|].
      intros d' ss' ks' vs' t' sp' HM' Hi' HP' Hperm' Hd' Hf'.
      eapply HQ; [exact HM'|exact Hi'|exact HP'|exact Hperm'|lia|].
      eapply frame_trans; [apply frame_refl; exact Hm0|exact Hf'].
  Qed.
End GrowProof.
