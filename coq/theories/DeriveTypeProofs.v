(* DeriveTypeProofs.v — C22: values of derived user types read back unchanged (model DeriveType.v). *)
From Agdb Require Import Bytes BytesProofs Utf8 Codec CodecProofs DbValue Graph DbModel Search Queries DeriveType.
From Agdb Require Import DbFrameProofs KvProofs KvDbProofs DbValueEqProofs KvSelectProofs DbInvProofs.
From Coq Require Import Lia ZifyBool ZifyNat ZifyN.
Open Scope N_scope.

(* ------------------------------------------------------------------ small helpers *)
Lemma bytes_eqb_refl (a : bytes) : bytes_eqb a a = true.
Proof. now apply bytes_eqb_eq. Qed.

Lemma bytes_eqb_neq (a b : bytes) : a <> b -> bytes_eqb a b = false.
Proof. intros H. destruct (bytes_eqb a b) eqn:E; [|reflexivity]. apply bytes_eqb_eq in E. contradiction. Qed.

Lemma omap_map_ok {A B} (f : A -> outcome B) (g : B -> A) (l : list B) :
  (forall x, In x l -> f (g x) = Ok x) -> omap f (map g l) = Ok l.
Proof.
  induction l as [|x l IH]; intros H; cbn [map omap]; [reflexivity|].
  rewrite (H x (or_introl eq_refl)). cbn [obind]. rewrite IH; [reflexivity|].
  intros y Hy. apply H. now right.
Qed.

Lemma opt_all_map_some {A B} (f : A -> option B) (g : B -> A) (l : list B) :
  (forall x, f (g x) = Some x) -> opt_all f (map g l) = Some l.
Proof. intros H. induction l as [|x l IH]; cbn [map opt_all]; [reflexivity|]. now rewrite H, IH. Qed.

(* ------------------------------------------------------------------ conversions *)
Lemma dbvalue_ty_ok : ty_ok (TVec dbvalue_ty) = true.
Proof. reflexivity. Qed.

Lemma deser_enc p t v : ty_ok t = true -> has_type t v = true -> deser p t (enc v) = Ok v.
Proof.
  intros Ht Hv. unfold deser. rewrite <- (app_nil_r (enc v)).
  now rewrite (roundtrip p guards_fixed t v [] Ht Hv).
Qed.

Lemma enc_vvec_nonempty (l : list val) : exists b r, enc (VVec l) = b :: r.
Proof. cbn [enc]. unfold le64. cbn [le app]. eexists. eexists. reflexivity. Qed.

(* a derive(DbValue) value as a DbValue, serialized inside a Vec<DbValue> *)
Definition wrap (v : val) : val := val_of_dbvalue (DBytes (enc v)).

Lemma wrap_has_type v : size v <? two60 = true -> has_type dbvalue_ty (wrap v) = true.
Proof.
  intros H. unfold wrap, val_of_dbvalue, dbvalue_ty. cbn [has_type pick_types has_types Nat.ltb Nat.leb].
  rewrite <- size_enc, H. reflexivity.
Qed.

Lemma wrap_back v : dbvalue_of_val (wrap v) = Some (DBytes (enc v)).
Proof. reflexivity. Qed.

Lemma opt_all_wrap (l : list val) : opt_all dbvalue_of_val (map wrap l) = Some (map (fun v => DBytes (enc v)) l).
Proof. induction l as [|v l IH]; cbn [map opt_all]; [reflexivity|]. now rewrite wrap_back, IH. Qed.

Lemma lenN_map {A B} (f : A -> B) (l : list A) : lenN (map f l) = lenN l.
Proof. unfold lenN. now rewrite map_length. Qed.

Lemma vec_items_custom p (l : list val) :
  forallb (fun v => size v <? two60) l = true -> lenN l <? two60 = true -> l <> [] ->
  vec_items p (DBytes (enc (VVec (map wrap l)))) = Ok (map (fun v => DBytes (enc v)) l).
Proof.
  intros Hs Hn Hne. unfold vec_items.
  destruct (enc_vvec_nonempty (map wrap l)) as (b & r & E). rewrite E, <- E.
  rewrite deser_enc.
  - cbn [obind]. now rewrite opt_all_wrap.
  - exact dbvalue_ty_ok.
  - cbn [has_type]. rewrite lenN_map, Hn, andb_true_r. rewrite forallb_forall. intros x Hx.
    apply in_map_iff in Hx. destruct Hx as (v & <- & Hv). apply wrap_has_type.
    rewrite forallb_forall in Hs. now apply Hs.
Qed.

(* narrowing succeeds on widened values, every kind reads back exactly what was written *)
Theorem conv_roundtrip p k v : fval_ok k v = true -> from_dbvalue p k (to_dbvalue v) = Ok v.
Proof.
  intros H. destruct k, v; try discriminate; cbn [fval_ok] in H; cbn [to_dbvalue from_dbvalue].
  - reflexivity.
  - reflexivity.
  - reflexivity.
  - unfold to_u32. cbn [to_u64 obind]. now rewrite H.
  - unfold to_i32. cbn [to_i64 obind]. now rewrite H.
  - cbn [to_bool obind]. destruct b; reflexivity.
  - reflexivity.
  - reflexivity.
  - cbn [vec_items obind]. rewrite omap_map_ok; [reflexivity|]. intros; reflexivity.
  - cbn [vec_items obind]. rewrite omap_map_ok; [reflexivity|]. intros; reflexivity.
  - cbn [vec_items obind]. rewrite omap_map_ok; [reflexivity|]. intros; reflexivity.
  - cbn [vec_items obind]. rewrite omap_map_ok; [reflexivity|]. intros; reflexivity.
  - cbn [vec_items obind]. rewrite omap_map_ok; [reflexivity|].
    intros x Hx. rewrite forallb_forall in H. unfold to_i32. cbn [to_i64 obind]. now rewrite (H x Hx).
  - cbn [vec_items obind]. rewrite omap_map_ok; [reflexivity|].
    intros x Hx. rewrite forallb_forall in H. unfold to_u32. cbn [to_u64 obind]. now rewrite (H x Hx).
  - cbn [vec_items obind]. rewrite map_map.
    rewrite (omap_map_ok to_bool (fun b => DU64 (b2u b))).
    + reflexivity.
    + intros x _. destruct x; reflexivity.
  - apply andb_true_iff in H. destruct H as [Ht Hv]. unfold custom_of. now rewrite deser_enc.
  - apply andb_true_iff in H. destruct H as [H Hn]. apply andb_true_iff in H. destruct H as [Ht Hl].
    destruct l as [|v0 l0]; [reflexivity|].
    change (match v0 :: l0 with [] => DBytes [] | _ :: _ => DBytes (enc (VVec (map (fun v => val_of_dbvalue (DBytes (enc v))) (v0 :: l0)))) end)
      with (DBytes (enc (VVec (map wrap (v0 :: l0))))).
    rewrite vec_items_custom.
    + cbn [obind]. rewrite omap_map_ok; [reflexivity|].
      intros x Hx. unfold custom_of. rewrite forallb_forall in Hl. specialize (Hl x Hx).
      apply andb_true_iff in Hl. destruct Hl as [H1 _]. now apply deser_enc.
    + rewrite forallb_forall in *. intros x Hx. specialize (Hl x Hx). apply andb_true_iff in Hl. tauto.
    + exact Hn.
    + discriminate.
Qed.

(* ------------------------------------------------------------------ struct descriptions *)
Section FdescInd.
  Variable P : fdesc -> Prop.
  Hypothesis Hplain : forall n k, P (DPlain n k).
  Hypothesis Hopt : forall n k, P (DOpt n k).
  Hypothesis Hflat : forall fs, Forall P fs -> P (DFlatten fs).
  Hypothesis Hskip : forall b, P (DSkip b).
  Hypothesis Hid : forall b, P (DId b).
  Fixpoint fdesc_ind' (d : fdesc) : P d :=
    match d with
    | DPlain n k => Hplain n k
    | DOpt n k => Hopt n k
    | DFlatten fs =>
        Hflat fs ((fix go (l : list fdesc) : Forall P l :=
                     match l with
                     | [] => Forall_nil P
                     | x :: r => Forall_cons x (fdesc_ind' x) (go r)
                     end) fs)
    | DSkip b => Hskip b
    | DId b => Hid b
    end.
End FdescInd.

(* the keys a struct stores under (field names after rename, through flatten) *)
Fixpoint names_f (d : fdesc) : list bytes :=
  match d with
  | DPlain n _ => [n]
  | DOpt n _ => [n]
  | DFlatten fs => flat_map names_f fs
  | _ => []
  end.
Definition names (fs : list fdesc) : list bytes := flat_map names_f fs.

Definition fields_values (fs : list fdesc) (l : list sval) : list kv := zip_fields to_values_f (@app kv) [] fs l.

(* `stored` answers the lookups of the struct's keys as the value demands *)
Fixpoint agree (stored : list kv) (d : fdesc) (v : sval) {struct d} : Prop :=
  match d, v with
  | DPlain n _, SPlain x => find_key n stored = Some (to_dbvalue x)
  | DOpt n _, SOpt (Some x) => find_key n stored = Some (to_dbvalue x)
  | DOpt n _, SOpt None => find_key n stored = None
  | DFlatten fs, SFlat l => zip_fields (agree stored) and True fs l
  | _, _ => True
  end.
Definition agree_all (stored : list kv) (fs : list fdesc) (l : list sval) : Prop :=
  zip_fields (agree stored) and True fs l.

Lemma from_f_flatten p id kvs fs :
  from_f p id kvs (DFlatten fs) = obind (omap (from_f p id kvs) fs) (fun l => Ok (SFlat l)).
Proof.
  cbn [from_f]. f_equal. induction fs as [|d fs IH]; cbn [omap]; [reflexivity|]. now rewrite IH.
Qed.

(* A: lookups as demanded => from_db_element rebuilds the value *)
Lemma from_agree p id stored : forall d v,
  sval_ok d v = true -> agree stored d v -> from_f p id stored d = Ok (norm_f id v).
Proof.
  induction d as [n k|n k|fs IH|b|b] using fdesc_ind'; intros v Hok Hag; destruct v; try discriminate;
    cbn [sval_ok] in Hok.
  - cbn [agree] in Hag. cbn [from_f norm_f]. rewrite Hag. now rewrite conv_roundtrip.
  - destruct o as [x|]; cbn [agree] in Hag; cbn [from_f norm_f]; rewrite Hag; [now rewrite conv_roundtrip|reflexivity].
  - rewrite from_f_flatten. cbn [norm_f agree] in *.
    apply andb_true_iff in Hok. destruct Hok as [Hlen Hok]. apply Nat.eqb_eq in Hlen.
    assert (H : omap (from_f p id stored) fs = Ok (map (norm_f id) l)).
    { revert l Hlen Hok Hag. induction IH as [|d fs Hd _ IHfs]; intros [|x l] Hlen Hok Hag; try discriminate; [reflexivity|].
      cbn [zip_fields] in Hok, Hag. apply andb_true_iff in Hok. destruct Hok as [Hx Hl]. destruct Hag as [Ax Al].
      cbn [omap map]. rewrite (Hd x Hx Ax). cbn [obind]. rewrite (IHfs l); [reflexivity|..]; auto. }
    now rewrite H.
  - reflexivity.
  - reflexivity.
Qed.

Lemma from_agree_all p id stored fs l :
  svals_ok fs l = true -> agree_all stored fs l -> from_element p id stored fs = Ok (norm id l).
Proof.
  intros Hok Hag. pose proof (from_agree p id stored (DFlatten fs) (SFlat l) Hok Hag) as H.
  rewrite from_f_flatten in H. unfold from_element, norm. cbn [norm_f] in H.
  destruct (omap (from_f p id stored) fs); cbn [obind] in H; congruence.
Qed.

(* find_key on concatenations *)
Lemma find_key_app n a b :
  find_key n (a ++ b) = match find_key n a with Some v => Some v | None => find_key n b end.
Proof.
  unfold find_key. induction a as [|x a IH]; cbn [app find]; [reflexivity|].
  destruct (match fst x with DString s => bytes_eqb s n | _ => false end); [reflexivity|exact IH].
Qed.

(* a struct only stores under its own keys *)
Lemma find_key_foreign n : forall d v, ~ In n (names_f d) -> find_key n (to_values_f d v) = None.
Proof.
  induction d as [m k|m k|fs IH|b|b] using fdesc_ind'; intros v Hn; destruct v; try reflexivity; cbn [to_values_f names_f] in *.
  - unfold find_key. cbn [find fst]. rewrite bytes_eqb_neq; [reflexivity|]. intros ->. apply Hn. now left.
  - destruct o; [|reflexivity]. unfold find_key. cbn [find fst]. rewrite bytes_eqb_neq; [reflexivity|]. intros ->. apply Hn. now left.
  - revert l Hn. induction IH as [|d fs Hd _ IHfs]; intros [|x l] Hn; try reflexivity.
    cbn [zip_fields flat_map] in *. rewrite find_key_app, Hd, IHfs; [reflexivity|..];
      intros Hin; apply Hn; apply in_or_app; auto.
Qed.

(* C: agree only depends on the lookups of the struct's own keys *)
Lemma agree_ext s1 s2 : forall d v,
  (forall n, In n (names_f d) -> find_key n s1 = find_key n s2) -> agree s1 d v -> agree s2 d v.
Proof.
  induction d as [m k|m k|fs IH|b|b] using fdesc_ind'; intros v He Ha; destruct v; try exact I; cbn [agree names_f] in *.
  - rewrite <- He; [exact Ha|now left].
  - destruct o; (rewrite <- He; [exact Ha|now left]).
  - revert l He Ha. induction IH as [|d fs Hd _ IHfs]; intros [|x l] He Ha; try exact I.
    cbn [zip_fields flat_map] in *. destruct Ha as [A1 A2]. split.
    + apply Hd; [|exact A1]. intros n Hn. apply He. apply in_or_app. now left.
    + apply IHfs; [|exact A2]. intros n Hn. apply He. apply in_or_app. now right.
Qed.

Lemma NoDup_app_l {A} (a b : list A) : NoDup (a ++ b) -> NoDup a.
Proof.
  induction a as [|x a IH]; intros H; [constructor|]. inversion H; subst. constructor; [|now apply IH].
  intros Hin. apply H2. apply in_or_app. now left.
Qed.
Lemma NoDup_app_r {A} (a b : list A) : NoDup (a ++ b) -> NoDup b.
Proof. induction a as [|x a IH]; intros H; [exact H|]. inversion H; subst. now apply IH. Qed.
Lemma NoDup_app_disj {A} (a b : list A) x : NoDup (a ++ b) -> In x a -> In x b -> False.
Proof.
  induction a as [|y a IH]; intros H Ha Hb; [destruct Ha|]. inversion H; subst. destruct Ha as [->|Ha].
  - apply H2. apply in_or_app. now right.
  - now apply IH.
Qed.

(* B: the pairs of to_db_values, in any context that does not use the struct's keys, answer the lookups as demanded *)
Lemma agree_self : forall d v pre post,
  sval_ok d v = true -> NoDup (names_f d) ->
  (forall n, In n (names_f d) -> find_key n pre = None /\ find_key n post = None) ->
  agree (pre ++ to_values_f d v ++ post) d v.
Proof.
  induction d as [m k|m k|fs IH|b|b] using fdesc_ind'; intros v pre post Hok Hnd Hctx; destruct v; try discriminate;
    cbn [sval_ok] in Hok; cbn [agree to_values_f names_f] in *; try exact I.
  - rewrite find_key_app. destruct (Hctx m (or_introl eq_refl)) as [-> _].
    unfold find_key. cbn [app find fst]. now rewrite bytes_eqb_refl.
  - destruct (Hctx m (or_introl eq_refl)) as [Hp Hq]. destruct o as [x|].
    + rewrite find_key_app, Hp. unfold find_key. cbn [app find fst]. now rewrite bytes_eqb_refl.
    + cbn [app]. now rewrite find_key_app, Hp, Hq.
  - apply andb_true_iff in Hok. destruct Hok as [Hlen Hok]. apply Nat.eqb_eq in Hlen.
    revert l pre Hlen Hok Hnd Hctx. induction IH as [|d fs Hd _ IHfs]; intros [|x l] pre Hlen Hok Hnd Hctx; try discriminate; [exact I|].
    cbn [zip_fields flat_map] in *. apply andb_true_iff in Hok. destruct Hok as [Hx Hl].
    split.
    + rewrite <- app_assoc. apply Hd; [exact Hx|now apply NoDup_app_l in Hnd|].
      intros n Hn. split; [apply Hctx; apply in_or_app; now left|].
      rewrite find_key_app.
      pose proof (find_key_foreign n (DFlatten fs) (SFlat l)) as Hf. cbn [to_values_f names_f] in Hf.
      rewrite Hf.
      * apply Hctx. apply in_or_app. now left.
      * intros Hin. exact (NoDup_app_disj _ _ n Hnd Hn Hin).
    + replace (pre ++ (to_values_f d x ++ zip_fields to_values_f (@app kv) [] fs l) ++ post)
        with ((pre ++ to_values_f d x) ++ zip_fields to_values_f (@app kv) [] fs l ++ post)
        by (now rewrite <- !app_assoc).
      apply IHfs; [now injection Hlen|exact Hl|now apply NoDup_app_r in Hnd|].
      intros n Hn. split; [|apply Hctx; apply in_or_app; now right].
      rewrite find_key_app. destruct (Hctx n) as [-> _]; [apply in_or_app; now right|].
      apply find_key_foreign. intros Hin. exact (NoDup_app_disj _ _ n Hnd Hin Hn).
Qed.

Lemma agree_self_all fs l pre post :
  svals_ok fs l = true -> NoDup (names fs) ->
  (forall n, In n (names fs) -> find_key n pre = None /\ find_key n post = None) ->
  agree_all (pre ++ fields_values fs l ++ post) fs l.
Proof. intros Hok Hnd Hctx. exact (agree_self (DFlatten fs) (SFlat l) pre post Hok Hnd Hctx). Qed.

(* ------------------------------------------------------------------ the round trip *)
(* the stored pairs themselves, between unrelated pairs (other keys of the element, a DbElement's
   "db_element_id" pair): nothing around them may answer one of the struct's keys *)
Theorem roundtrip_context p id fs l pre post :
  NoDup (names fs) -> svals_ok fs l = true ->
  (forall n, In n (names fs) -> find_key n pre = None /\ find_key n post = None) ->
  from_element p id (pre ++ fields_values fs l ++ post) fs = Ok (norm id l).
Proof. intros Hnd Hok Hctx. apply from_agree_all; [exact Hok|]. now apply agree_self_all. Qed.

(* any pair list that answers the lookups of the struct's keys like the list of to_db_values does:
   extra unrelated pairs, any order that keeps the first occurrence of each of the struct's keys *)
Theorem roundtrip_lookup p id fs l stored :
  NoDup (names fs) -> svals_ok fs l = true ->
  (forall n, In n (names fs) -> find_key n stored = find_key n (fields_values fs l)) ->
  from_element p id stored fs = Ok (norm id l).
Proof.
  intros Hnd Hok Hl. apply from_agree_all; [exact Hok|].
  apply (agree_ext (fields_values fs l) stored (DFlatten fs) (SFlat l)).
  - intros n Hn. symmetry. now apply Hl.
  - pose proof (agree_self_all fs l [] [] Hok Hnd) as H. rewrite app_nil_r in H. apply H. intros; split; reflexivity.
Qed.

(* what insert().element(&v) stores and select returns: to_db_values (with the element id pair of a
   #[derive(DbElement)] type, whose key must not be a field name) *)
Theorem roundtrip p id element fs l :
  NoDup (names fs) -> svals_ok fs l = true ->
  (element = None \/ ~ In element_id_key (names fs)) ->
  from_element p id (to_values element fs l) fs = Ok (norm id l).
Proof.
  intros Hnd Hok Hel. unfold to_values. fold (fields_values fs l).
  pose proof (roundtrip_context p id fs l [] (match element with Some n => [(DString element_id_key, DString n)] | None => [] end) Hnd Hok) as H.
  cbn [app] in H. apply H. intros n Hn. split; [reflexivity|].
  destruct element as [e|]; [|reflexivity].
  destruct Hel as [Hel|Hel]; [discriminate|].
  unfold find_key. cbn [find fst]. rewrite bytes_eqb_neq; [reflexivity|]. intros E. apply Hel. now rewrite E.
Qed.

(* ------------------------------------------------------------------ update through db_id *)
(* `insert().element(&v)` with db_id = Some(id) builds InsertValuesQuery { ids: [id], values: Multi([to_db_values]) }
   (query_builder/insert.rs); on an existing element that is insert_values_id = insert-or-replace per key *)
Section Update.
  Variable rv : revision.
  Open Scope Z_scope.

  Lemma kvs_get_insert_or_replace_same s i x :
    kvs_get (snd (kvs_insert_or_replace s i x)) i =
    match replace_first (kvs_get s i) x with Some (_, l') => l' | None => kvs_get s i ++ [x] end.
  Proof.
    unfold kvs_insert_or_replace. destruct (replace_first (kvs_get s i) x) as [[old l']|]; cbn [snd].
    - rewrite kvs_get_set. now rewrite abs_eqb_refl.
    - rewrite kvs_get_insert_value. now rewrite abs_eqb_refl.
  Qed.

  Lemma fold_upsert kvs : forall s i,
    kvs_get (fold_left (fun s x => snd (kvs_insert_or_replace s i x)) kvs s) i = upsert_pairs (kvs_get s i) kvs.
  Proof.
    induction kvs as [|x kvs IH]; intros s i; cbn [fold_left]; [reflexivity|].
    rewrite IH, kvs_get_insert_or_replace_same. unfold upsert_pairs. reflexivity.
  Qed.

  Lemma insert_kvs_replace_same d id kvs :
    kvs_get (vals (insert_kvs_replace d id kvs)) id = upsert_pairs (kvs_get (vals d) id) kvs.
  Proof.
    unfold insert_kvs_replace. rewrite insert_kvs_replace_vals, reserve_kv_vals, fold_upsert.
    now rewrite kvs_get_reserve.
  Qed.

  Lemma insert_kvs_replace_ga d id kvs : same_ga d (insert_kvs_replace d id kvs).
  Proof.
    unfold insert_kvs_replace.
    apply (fold_left_inv (fun a => same_ga d a)); [apply reserve_kv_ga|].
    intros acc x _ H. eapply same_ga_trans; [exact H|apply insert_or_replace_key_value_ga].
  Qed.

  Theorem update_by_id d id kvs :
    graph_index (gr d) id = true ->
    exists d', exec rv d (InsertValues (Ids [QId id]) (Multi [kvs])) = (d', QOk (lenZ kvs) []) /\
      gr d' = gr d /\ aliases d' = aliases d /\
      (forall j, Z.abs id <> Z.abs j -> kvs_get (vals d') j = kvs_get (vals d) j) /\
      kvs_get (vals d') id = upsert_pairs (kvs_get (vals d) id) kvs.
  Proof.
    intros Hg. exists (commit (insert_kvs_replace d id kvs)).
    split.
    - unfold exec, exec_in_txn. cbn [is_mutating exec_mut_step insert_values length Nat.eqb negb combine st_fold fst snd].
      unfold insert_values_q. cbn [db_id]. rewrite Hg. unfold insert_values_id. cbn [fst snd]. reflexivity.
    - destruct (insert_kvs_replace_ga d id kvs) as [G A]. repeat split.
      + exact G.
      + exact A.
      + intros j Hj. cbn [commit clear_undo vals]. now apply insert_kvs_replace_other.
      + cbn [commit clear_undo vals]. apply insert_kvs_replace_same.
  Qed.
End Update.


(* ------------------------------------------------------------------ db_keys: the recorded defect and its repair *)
(* struct Inner { p: Option<u64>, q: i64 }   struct Outer { db_id: Option<DbId>, t: u64, #[agdb(flatten)] inner: Inner } *)
Definition w_fs : list fdesc := [DId true; DPlain [x74] KU64; DFlatten [DOpt [x70] KU64; DPlain [x71] KI64]].
Definition w_val : list sval := [SId None; SPlain (FU64 32); SFlat [SOpt (Some (FU64 5)); SPlain (FI64 286)]].
(* struct AllOpt { m: Option<u64> }   struct Outer2 { k: u64, #[agdb(flatten)] inner: AllOpt } *)
Definition w2_fs : list fdesc := [DPlain [x6b] KU64; DFlatten [DOpt [x6d] KU64]].
Definition w2_val : list sval := [SPlain (FU64 1); SFlat [SOpt (Some (FU64 5))]].

Definition select_then_read (fixed : bool) (fs : list fdesc) (l : list sval) : outcome (list sval) :=
  obind (select_pairs (db_keys fixed fs) (to_values None fs l)) (fun sel => from_element Release 1 sel fs).

Lemma keys_pinned_refuted :
  (* the pinned macro asks for the outer key only: the flattened required field is missing -> error *)
  db_keys false w_fs = [[x74]] /\ select_then_read false w_fs w_val = Err /\
  (* all-optional flattened struct: the stored Some(5) silently reads back as None *)
  db_keys false w2_fs = [[x6b]] /\ select_then_read false w2_fs w2_val = Ok [SPlain (FU64 1); SFlat [SOpt None]] /\
  (* repaired: all keys are selected, the values read back *)
  db_keys true w_fs = [] /\ select_then_read true w_fs w_val = Ok (norm 1 w_val) /\
  db_keys true w2_fs = [] /\ select_then_read true w2_fs w2_val = Ok (norm 1 w2_val).
Proof. vm_compute. repeat split. Qed.

(* ------------------------------------------------------------------ non-vacuity *)
(* #[derive(DbElement)] struct E { db_id: Option<DbId>, n: u32, #[agdb(rename = "nm")] name: String, tags: Vec<String>,
     opt: Option<i32> (None), flags: Vec<bool>, cv: CV { a: u64, s: String }, vcv: Vec<CV> (two), evc: Vec<CV> (empty),
     #[agdb(skip)] cache: u64, #[agdb(flatten)] inner: { x: f64, y: Option<Vec<u8>> } } *)
Definition ex_cv : ty := TStruct [TU64; TStr].
Definition ex_fs : list fdesc :=
  [DId true; DPlain [x6e] KU32; DPlain [x6e; x6d] KStr; DPlain [x74] KVecStr; DOpt [x6f] KI32; DPlain [x66] KVecBool;
   DPlain [x63] (KCustom ex_cv); DPlain [x76] (KVecCustom ex_cv); DPlain [x65] (KVecCustom ex_cv); DSkip false;
   DFlatten [DPlain [x78] KF64; DOpt [x79] KBytes]].
Definition ex_val : list sval :=
  [SId None; SPlain (FU32 4294967295); SPlain (FStr [x61; x62]); SPlain (FVecStr [[x61]; []]); SOpt None;
   SPlain (FVecBool [true; false]); SPlain (FCustom (VStruct [VU64 7; VStr [x7a]]));
   SPlain (FVecCustom [VStruct [VU64 1; VStr []]; VStruct [VU64 2; VStr [x71]]]); SPlain (FVecCustom []); SSkip;
   SFlat [SPlain (FF64 9221120237041090560); SOpt (Some (FBytes [x00; xff]))]].

Lemma ex_nodup : NoDup (names ex_fs).
Proof. cbv [names ex_fs flat_map names_f app]. repeat constructor; cbn [In]; intuition discriminate. Qed.

Lemma example_roundtrip :
  NoDup (names ex_fs) /\ svals_ok ex_fs ex_val = true /\ ~ In element_id_key (names ex_fs) /\
  length (to_values (Some [x45]) ex_fs ex_val) = 10%nat /\
  from_element Release 5 (to_values (Some [x45]) ex_fs ex_val) ex_fs = Ok (norm 5 ex_val) /\
  (* pairs of other keys in front, the struct's pairs in another order: same value *)
  from_element Debug 5 ((DI64 1, DU64 1) :: (DString [x7a; x7a], DI64 0) :: rev (to_values (Some [x45]) ex_fs ex_val)) ex_fs
    = Ok (norm 5 ex_val).
Proof.
  split; [exact ex_nodup|]. split; [vm_compute; reflexivity|]. split.
  - cbv [names ex_fs flat_map names_f app element_id_key]. cbn [In]. intuition discriminate.
  - vm_compute. repeat split.
Qed.

(* the update: an existing element with an old value, updated by a value whose option is None *)
Lemma example_update :
  upsert_pairs [(DString [x6e], DU64 1); (DI64 9, DI64 9); (DString [x6f], DI64 (-3))]
               (to_values None [DId true; DPlain [x6e] KU32; DOpt [x6f] KI32; DPlain [x7a] KBool]
                          [SId (Some 4%Z); SPlain (FU32 2); SOpt None; SPlain (FBool true)])
  = [(DString [x6e], DU64 2); (DI64 9, DI64 9); (DString [x6f], DI64 (-3)); (DString [x7a], DU64 1)].
Proof. vm_compute. reflexivity. Qed.

(* ------------------------------------------------------------------ select().elements::<T>(): the selection by db_keys *)
(* no Option field anywhere (through flatten) *)
Fixpoint plain_f (d : fdesc) : bool :=
  match d with
  | DOpt _ _ => false
  | DFlatten fs => forallb plain_f fs
  | _ => true
  end.

Fixpoint keys_go (l : list fdesc) : option (list bytes) :=
  match l with
  | [] => Some []
  | DPlain n _ :: r => option_map (cons n) (keys_go r)
  | (DFlatten _ as d') :: r =>
      let k := struct_keys true d' in
      if is_nil k then None else option_map (app k) (keys_go r)
  | _ :: r => keys_go r
  end.

Lemma struct_keys_unfold fs :
  struct_keys true (DFlatten fs) =
  if existsb own_option fs then [] else match keys_go fs with Some k => k | None => [] end.
Proof.
  cbn [struct_keys]. destruct (existsb own_option fs); [reflexivity|].
  match goal with |- match ?a with _ => _ end = match ?b with _ => _ end => assert (E : a = b); [|now rewrite E] end.
  induction fs as [|d fs IH]; [reflexivity|].
  destruct d; cbn [keys_go andb]; rewrite <- ?IH; reflexivity.
Qed.

Local Opaque struct_keys.
(* a non-empty key list is exactly the struct's keys, and then the struct has no Option field at all *)
Lemma keys_nonempty : forall d,
  match d with
  | DFlatten fs => struct_keys true d <> [] -> struct_keys true d = names_f d /\ plain_f d = true
  | _ => True
  end.
Proof.
  induction d as [n k|n k|fs IH|b|b] using fdesc_ind'; try exact I.
  rewrite struct_keys_unfold. destruct (existsb own_option fs) eqn:Eo; [intros H; now contradiction H|].
  cbn [names_f plain_f].
  assert (G : forall k, keys_go fs = Some k -> k = flat_map names_f fs /\ forallb plain_f fs = true).
  { clear -IH Eo. induction IH as [|d fs Hd _ IHfs]; intros k Hk.
    - cbn [keys_go] in Hk. inversion Hk. split; reflexivity.
    - cbn [existsb] in Eo. apply orb_false_iff in Eo. destruct Eo as [Eo1 Eo2]. specialize (IHfs Eo2).
      destruct d as [n kd|n kd|gs|b|b]; cbn [keys_go flat_map names_f forallb plain_f] in *.
      + destruct (keys_go fs) as [k'|]; [|discriminate]. cbn [option_map] in Hk. inversion Hk; subst.
        destruct (IHfs k' eq_refl) as [-> ->]. split; reflexivity.
      + discriminate.
      + destruct (is_nil (struct_keys true (DFlatten gs))) eqn:En; [discriminate|].
        destruct (keys_go fs) as [k'|]; [|discriminate]. cbn [option_map] in Hk. inversion Hk; subst.
        destruct (IHfs k' eq_refl) as [-> ->].
        assert (Hne : struct_keys true (DFlatten gs) <> []) by (intros E; rewrite E in En; discriminate).
        destruct (Hd Hne) as [E1 E2]. cbn [names_f plain_f] in E1, E2. rewrite E1, E2. split; reflexivity.
      + destruct (IHfs k Hk) as [-> ->]. split; reflexivity.
      + destruct (IHfs k Hk) as [-> ->]. split; reflexivity. }
  destruct (keys_go fs) as [k|]; [|intros H; now contradiction H].
  intros _. exact (G k eq_refl).
Qed.

Local Transparent struct_keys.

Lemma db_keys_cases fs :
  db_keys true fs = [] \/ (db_keys true fs = names fs /\ forallb plain_f fs = true).
Proof.
  unfold db_keys. destruct (struct_keys true (DFlatten fs)) eqn:E; [now left|right].
  pose proof (keys_nonempty (DFlatten fs)) as H. cbn beta iota in H. rewrite E in H.
  destruct H as [H1 H2]; [discriminate|]. cbn [names_f plain_f] in H1, H2. split; [exact H1|exact H2].
Qed.

(* without Option fields every key of the struct is stored *)
Lemma plain_found : forall d v n,
  plain_f d = true -> sval_ok d v = true -> In n (names_f d) -> exists x, In (DString n, x) (to_values_f d v).
Proof.
  induction d as [m k|m k|fs IH|b|b] using fdesc_ind'; intros v n Hp Hok Hn; destruct v; try discriminate;
    cbn [names_f to_values_f plain_f sval_ok] in *; try (now destruct Hn).
  - destruct Hn as [->|[]]. eexists. now left.
  - apply andb_true_iff in Hok. destruct Hok as [Hlen Hok]. apply Nat.eqb_eq in Hlen.
    revert l Hlen Hok Hp Hn. induction IH as [|d fs Hd _ IHfs]; intros [|x l] Hlen Hok Hp Hn; try discriminate; [destruct Hn|].
    cbn [zip_fields flat_map forallb] in *. apply andb_true_iff in Hok. destruct Hok as [Hx Hl].
    apply andb_true_iff in Hp. destruct Hp as [Hp1 Hp2]. apply in_app_or in Hn. destruct Hn as [Hn|Hn].
    + destruct (Hd x n Hp1 Hx Hn) as [y Hy]. exists y. apply in_or_app. now left.
    + destruct (IHfs l) as [y Hy]; auto. exists y. apply in_or_app. now right.
Qed.

Lemma find_key_in_some n l x : In (DString n, x) l -> find_key n l <> None.
Proof.
  unfold find_key. induction l as [|y l IH]; intros H; [destruct H|]. cbn [find].
  destruct H as [->|H].
  - cbn [fst]. now rewrite bytes_eqb_refl.
  - destruct (match fst y with DString s => bytes_eqb s n | _ => false end); [discriminate|now apply IH].
Qed.

(* ---- the key-ordered selection keeps the first occurrence of every requested String key ---- *)
Definition is_key (n : bytes) (x : kv) : bool := match fst x with DString s => bytes_eqb s n | _ => false end.

Lemma find_key_find n l : find_key n l = match find (is_key n) l with Some x => Some (snd x) | None => None end.
Proof. reflexivity. Qed.

Lemma is_key_eq n x : is_key n x = true -> fst x = DString n.
Proof.
  unfold is_key. destruct (fst x) eqn:E; try discriminate. intros H. apply bytes_eqb_eq in H. now subst.
Qed.

Lemma dstring_eqb a b : dbv_eqb (DString a) (DString b) = bytes_eqb a b.
Proof.
  unfold dbv_eqb. cbn [dbv_cmp]. destruct (bytes_eqb a b) eqn:E.
  - apply bytes_eqb_eq in E. subst. now rewrite DbValueEqProofs.bscmp_refl.
  - destruct (bytes_cmp a b) eqn:C; try reflexivity. apply DbValueEqProofs.bytes_cmp_eq in C. subst.
    now rewrite bytes_eqb_refl in E.
Qed.

Lemma position_in keys n : In n keys -> forall s, exists m, position (map DString keys) (DString n) s = Some m.
Proof.
  induction keys as [|k keys IH]; intros H s; [destruct H|]. cbn [map position]. rewrite dstring_eqb.
  destruct (bytes_eqb k n) eqn:E; [eauto|]. destruct H as [->|H]; [now rewrite bytes_eqb_refl in E|]. apply IH. exact H.
Qed.

Lemma find_filter_none {A} (P Q : A -> bool) l : find P l = None -> find P (filter Q l) = None.
Proof.
  induction l as [|x l IH]; cbn [find filter]; [reflexivity|].
  destruct (P x) eqn:E; [discriminate|]. intros H. destruct (Q x); cbn [find]; [rewrite E|]; now apply IH.
Qed.

Lemma find_filter_implied {A} (P Q : A -> bool) l : (forall x, P x = true -> Q x = true) -> find P (filter Q l) = find P l.
Proof.
  intros H. induction l as [|x l IH]; cbn [find filter]; [reflexivity|].
  destruct (P x) eqn:E.
  - rewrite (H x E). cbn [find]. now rewrite E.
  - destruct (Q x); cbn [find]; [rewrite E|]; exact IH.
Qed.

Lemma find_filter_excluded {A} (P Q : A -> bool) l : (forall x, P x = true -> Q x = false) -> find P (filter Q l) = None.
Proof.
  intros H. induction l as [|x l IH]; cbn [find filter]; [reflexivity|].
  destruct (Q x) eqn:E; [|exact IH]. cbn [find]. destruct (P x) eqn:E2; [|exact IH]. rewrite (H x E2) in E. discriminate.
Qed.

Lemma find_app {A} (P : A -> bool) a b : find P (a ++ b) = match find P a with Some x => Some x | None => find P b end.
Proof. induction a as [|x a IH]; cbn [app find]; [reflexivity|]. destruct (P x); [reflexivity|exact IH]. Qed.

Lemma select_keeps_first keys n stored :
  In n keys ->
  find_key n (kvs_values_by_keys [stored] 0 (map DString keys)) = find_key n stored.
Proof.
  intros Hin. rewrite KvSelectProofs.kvs_values_by_keys_buckets.
  change (kvs_get [stored] 0) with stored.
  destruct (position_in keys n Hin 0%nat) as [m0 Hm0].
  pose proof (KvSelectProofs.position_bounds _ _ _ _ Hm0) as Hb.
  set (dkeys := map DString keys) in *.
  set (g := fun m : nat => filter (fun p : kv => KvSelectProofs.pos_is dkeys (fst p) m) stored).
  rewrite !find_key_find. f_equal.
  (* buckets other than m0 hold no pair with key n; bucket m0 holds them all, in order *)
  assert (Hother : forall m, m <> m0 -> find (is_key n) (g m) = None).
  { intros m Hm. apply find_filter_excluded. intros x Hx. apply is_key_eq in Hx. rewrite Hx.
    unfold KvSelectProofs.pos_is. rewrite Hm0. apply Nat.eqb_neq. lia. }
  assert (Hm : find (is_key n) (g m0) = find (is_key n) stored).
  { apply find_filter_implied. intros x Hx. apply is_key_eq in Hx. rewrite Hx.
    unfold KvSelectProofs.pos_is. rewrite Hm0. apply Nat.eqb_refl. }
  assert (Hseq : In m0 (seq 0 (length dkeys))) by (apply in_seq; lia).
  assert (G : forall ms, In m0 ms -> find (is_key n) (flat_map g ms) = find (is_key n) stored).
  { induction ms as [|m ms IH]; intros Hi; [destruct Hi|]. cbn [flat_map]. rewrite find_app.
    destruct (Nat.eq_dec m m0) as [->|Hne].
    - rewrite Hm. destruct (find (is_key n) stored) eqn:E; [reflexivity|].
      (* nothing anywhere *)
      clear -E. induction ms as [|m ms IH]; [reflexivity|]. cbn [flat_map]. rewrite find_app.
      unfold g at 1. rewrite (find_filter_none _ _ _ E). exact IH.
    - rewrite (Hother m Hne). apply IH. destruct Hi as [->|Hi]; [contradiction|exact Hi]. }
  now rewrite (G _ Hseq).
Qed.

Lemma select_no_missing keys stored :
  (forall n, In n keys -> find_key n stored <> None) ->
  existsb (fun k => negb (existsb (fun x : kv => dbv_eqb (fst x) k) (kvs_values_by_keys [stored] 0 (map DString keys))))
          (map DString keys) = false.
Proof.
  intros H. apply not_true_iff_false. intros E. apply existsb_exists in E. destruct E as (k & Hk & Hneg).
  apply in_map_iff in Hk. destruct Hk as (n & <- & Hn).
  apply negb_true_iff in Hneg.
  pose proof (select_keeps_first keys n stored Hn) as Hs. specialize (H n Hn).
  rewrite (find_key_find n (kvs_values_by_keys [stored] 0 (map DString keys))) in Hs.
  destruct (find (is_key n) (kvs_values_by_keys [stored] 0 (map DString keys))) as [x|] eqn:F.
  - apply find_some in F. destruct F as [Fi Fk]. apply is_key_eq in Fk.
    assert (C : existsb (fun x0 : kv => dbv_eqb (fst x0) (DString n)) (kvs_values_by_keys [stored] 0 (map DString keys)) = true).
    { apply existsb_exists. exists x. split; [exact Fi|]. rewrite Fk. apply DbValueEqProofs.dbv_eqb_refl. }
    congruence.
  - symmetry in Hs. exact (H Hs).
Qed.

(* "selecting it back as that type": select().elements::<T>().ids(id) = SelectValuesQuery { keys: T::db_keys(), ids: [id] }
   on the element's pairs, then from_db_element — with the repaired db_keys *)
Theorem select_roundtrip p id fs l stored :
  NoDup (names fs) -> svals_ok fs l = true ->
  (forall n, In n (names fs) -> find_key n stored = find_key n (fields_values fs l)) ->
  exists sel, select_pairs (db_keys true fs) stored = Ok sel /\ from_element p id sel fs = Ok (norm id l).
Proof.
  intros Hnd Hok Hl. destruct (db_keys_cases fs) as [E|[E Hp]]; rewrite E.
  - exists stored. split; [reflexivity|]. now apply roundtrip_lookup.
  - (* all keys requested, all of them stored *)
    assert (Hfound : forall n, In n (names fs) -> find_key n stored <> None).
    { intros n Hn. rewrite (Hl n Hn).
      destruct (plain_found (DFlatten fs) (SFlat l) n Hp Hok Hn) as [x Hx]. exact (find_key_in_some n _ x Hx). }
    unfold select_pairs. remember (names fs) as ks eqn:En in |- *. destruct ks as [|k0 ks].
    + exists stored. split; [reflexivity|]. now apply roundtrip_lookup.
    + rewrite En. rewrite (select_no_missing (names fs) stored Hfound), andb_false_r.
      eexists. split; [reflexivity|]. apply roundtrip_lookup; [exact Hnd|exact Hok|].
      intros n Hn. rewrite select_keeps_first by exact Hn. now apply Hl.
Qed.

(* `select_pairs` IS the select query of the validated database model on the element's pairs:
   Transaction::exec(SelectValuesQuery { keys, ids: [id] }) = Queries.exec_select *)
Section SelectLink.
  Variable rv : revision.

  Lemma kvs_values_by_keys_local s i keys :
    kvs_values_by_keys s i keys = kvs_values_by_keys [kvs_get s i] 0 keys.
  Proof. reflexivity. Qed.

  Theorem select_is_query d id keys :
    graph_index (gr d) id = true ->
    exec_select rv d (SelectValues (map DString keys) (Ids [QId id])) =
    match select_pairs keys (kvs_get (vals d) id) with
    | Ok sel => QOk 1 [elem d id sel]
    | _ => QErr ENotFound
    end.
  Proof.
    intros Hg. unfold exec_select, select_values. cbn [resolve_ids resolve_all db_id]. rewrite Hg.
    destruct keys as [|k ks].
    - cbn [map length Nat.eqb negb andb existsb select_pairs]. rewrite andb_false_r. reflexivity.
    - unfold select_pairs. rewrite <- kvs_values_by_keys_local.
      set (dk := map DString (k :: ks)). cbn [negb andb].
      change (match dk with [] => kvs_get (vals d) id | _ :: _ => kvs_values_by_keys (vals d) id dk end)
        with (kvs_values_by_keys (vals d) id dk).
      destruct (negb (length (kvs_values_by_keys (vals d) id dk) =? length dk)%nat &&
                existsb (fun k0 => negb (existsb (fun x : kv => dbv_eqb (fst x) k0) (kvs_values_by_keys (vals d) id dk))) dk);
        reflexivity.
  Qed.
End SelectLink.

(* ------------------------------------------------------------------ insert, then select as the type: end to end on the database model *)
Section EndToEnd.
  Variable rv : revision.

  (* insert().element(&v) with db_id = None: InsertValuesQuery { ids: [Id(0)], values: Multi([to_db_values(v)]) } creates
     a node; select().elements::<T>().ids(id) on the new element reads the value back *)
  Theorem insert_select_roundtrip p d element fs l :
    DbInvProofs.Inv d ->
    NoDup (names fs) -> svals_ok fs l = true -> (element = None \/ ~ In element_id_key (names fs)) ->
    let kvs := to_values element fs l in
    exists id d1,
      exec rv d (InsertValues (Ids [QId 0]) (Multi [kvs])) = (d1, QOk (lenZ kvs) [elem d1 id []]) /\
      graph_index (gr d1) id = true /\ kvs_get (vals d1) id = kvs /\
      exists sel,
        exec_select rv d1 (SelectValues (map DString (db_keys true fs)) (Ids [QId id])) = QOk 1 [elem d1 id sel] /\
        from_element p id sel fs = Ok (norm id l).
  Proof.
    intros HI Hnd Hok Hel kvs.
    destruct (DbInvProofs.insert_node_db_Inv d HI) as (_ & Hpos & Hlive & Hempty & _).
    destruct (insert_node_db d) as [id d0] eqn:En. cbn [fst snd] in *.
    set (d3 := insert_kvs_new d0 id kvs).
    exists id, (commit d3).
    assert (Hga : gr d3 = gr d0) by (apply (DbInvProofs.insert_kvs_new_ga d0 id kvs)).
    assert (Hkv : kvs_get (vals (commit d3)) id = kvs).
    { cbn [commit clear_undo vals]. unfold d3. rewrite insert_kvs_new_get, abs_eqb_refl, Hempty. reflexivity. }
    assert (Hgi : graph_index (gr (commit d3)) id = true).
    { cbn [commit clear_undo gr]. rewrite Hga. exact Hlive. }
    split; [|split; [exact Hgi|split; [exact Hkv|]]].
    - unfold exec, exec_in_txn. cbn [is_mutating exec_mut_step insert_values length Nat.eqb negb combine st_fold fst snd].
      unfold insert_values_q. cbn [db_id graph_index Z.ltb Z.compare Z.eqb]. unfold insert_values_new. rewrite En.
      fold d3. cbn [fst snd app Z.add]. reflexivity.
    - destruct (select_roundtrip p id fs l kvs Hnd Hok) as (sel & Hs & Hf).
      + intros n Hn. unfold kvs, to_values. fold (fields_values fs l). rewrite find_key_app.
        destruct (find_key n (fields_values fs l)) as [v|] eqn:E; [reflexivity|].
        destruct element as [e|]; [|reflexivity]. destruct Hel as [Hel|Hel]; [discriminate|].
        unfold find_key. cbn [find fst]. rewrite bytes_eqb_neq; [reflexivity|]. intros E2. apply Hel. now rewrite E2.
      + exists sel. split; [|exact Hf]. rewrite (select_is_query rv (commit d3) id (db_keys true fs) Hgi), Hkv, Hs. reflexivity.
  Qed.
End EndToEnd.
