(* UndoGraphLinkIn.v — C13: linking a detached edge at the head of its target's in-list
   (update_to_edge); mirror image of rep_link_out. *)
From Agdb Require Import Bytes BytesProofs DbValue Graph DbModel UndoBase UndoObs UndoKv UndoGraphBase UndoGraph UndoGraphAlloc UndoGraphEdge.
From Coq Require Import Permutation ZifyBool ZifyNat ZifyN.
Ltac Zify.zify_post_hook ::= Z.div_mod_to_equations.
Open Scope Z_scope.

Lemma rep_link_in g a Xo Xi e f t :
  rep_x g a Xo Xi -> 0 < e -> ak a e = KEdge f t -> Xi e ->
  rep_x (update_to_edge g t (- e)) (a_set_in a t (e :: ain a t)) Xo (fun x => Xi x /\ x <> e).
Proof.
  intros R He Hk Hx.
  pose proof (r_lens _ _ _ _ R) as Hl. pose proof (r_cap _ _ _ _ R) as Hcap.
  destruct (rep_edge_arrays _ _ _ _ R e f t He Hk) as (Her & Hefm & Hefr & Heto & Hf & Ht).
  destruct (r_edge _ _ _ _ R e f t He Hk) as (_ & _ & Kf & Kt).
  destruct (rep_node_range _ _ _ _ R t Ht Kt) as (Htr' & Htfm & Htfr).
  destruct (r_in _ _ _ _ R t Ht Kt) as (Hct & Hndt & Hdegt).
  assert (Hte : t <> e) by (intros ->; congruence).
  set (g' := update_to_edge g t (- e)).
  assert (Hl' : lens_ok g').
  { unfold g', update_to_edge. auto using lens_set_tmeta, lens_set_to. }
  assert (Hcp : capacity g' = capacity g).
  { unfold g', update_to_edge. rewrite cap_set_tmeta, cap_set_to, cap_set_tmeta. reflexivity. }
  assert (Hto : forall j, 0 <= j -> to g' j = if t =? j then e else to g j).
  { intros j Hj. unfold g', update_to_edge. rewrite to_set_tmeta, set_tmeta_opp, Z.opp_involutive.
    rewrite to_set_to by (auto using lens_set_tmeta; rewrite ?cap_set_tmeta; lia). rewrite to_set_tmeta. reflexivity. }
  assert (Htm : forall j, 0 <= j -> tmeta g' j = if t =? j then tmeta g t + 1 else if e =? j then to g t else tmeta g j).
  { intros j Hj. unfold g', update_to_edge. rewrite set_tmeta_opp, Z.opp_involutive.
    rewrite tmeta_set_tmeta by (auto using lens_set_tmeta, lens_set_to; rewrite ?cap_set_to, ?cap_set_tmeta; lia).
    rewrite !tmeta_set_to. rewrite !tmeta_set_tmeta by (auto; lia).
    destruct (Z.eqb_spec e t); [congruence|]. reflexivity. }
  assert (Hfr : forall j, from g' j = from g j) by reflexivity.
  assert (Hfm : forall j, fmeta g' j = fmeta g j) by reflexivity.
  assert (Hnot : forall n, 0 < n -> ak a n = KNode -> ~ In e (ain a n)).
  { intros n Hn Hkn Hin. apply (r_in_mem _ _ _ _ R) in Hin; tauto. }
  assert (Hmem : forall n x, 0 < n -> ak a n = KNode -> In x (ain a n) -> 0 < x /\ x <> t /\ x <> e).
  { intros n x Hn Hkn Hin. pose proof (rep_in_range _ _ _ _ R n x Hn Hkn Hin).
    destruct (rep_in_edge _ _ _ _ R n x Hn Hkn Hin) as (f' & Hf').
    repeat split; [lia | intros ->; congruence | intros ->; exact (Hnot n Hn Hkn Hin)]. }
  constructor; cbn [a_set_in ak aout ain acount afree acap].
  - assumption.
  - rewrite Hcp. assumption.
  - rewrite Hcp. apply (r_acap _ _ _ _ R).
  - rewrite (r_count _ _ _ _ R). unfold node_count. rewrite Htm by lia.
    destruct (Z.eqb_spec t 0); [lia|]. destruct (Z.eqb_spec e 0); [lia|]. reflexivity.
  - apply (r_free _ _ _ _ R).
  - apply (r_free_nd _ _ _ _ R).
  - intros x Hxf. rewrite Hcp. destruct (r_free_in _ _ _ _ R x Hxf) as (Hr & Hneg & H1 & H2 & H3).
    pose proof (rep_free_kind _ _ _ _ R x Hxf).
    rewrite Hfm, Hfr, Hto, Htm by lia.
    destruct (Z.eqb_spec t x); [congruence|]. destruct (Z.eqb_spec e x); [congruence|]. auto.
  - intros i Hi. rewrite (r_kind _ _ _ _ R) by assumption. symmetry.
    destruct (Z.eq_dec i t) as [->|Hit].
    + rewrite <- (r_kind _ _ _ _ R), Kt by assumption. apply slot_kind_node; [assumption|].
      rewrite Hcp, Hfm, Hfr. lia.
    + apply slot_kind_ext; auto.
      rewrite Hto by lia. destruct (Z.eqb_spec t i); [congruence|]. reflexivity.
  - intros n Hn Hkn. apply (r_out _ _ _ _ R); assumption.
  - intros n Hn Hkn. destruct (r_in _ _ _ _ R n Hn Hkn) as (Hc & Hnd & Hdeg).
    destruct (Z.eq_dec n t) as [->|Hnt].
    + rewrite upd_same. rewrite Hto, Htm by lia. rewrite Z.eqb_refl. repeat split.
      * constructor; [assumption|]. rewrite Htm by lia. destruct (Z.eqb_spec t e); [congruence|]. rewrite Z.eqb_refl.
        eapply chain_ext; [exact Hc|]. intros x Hin. destruct (Hmem t x Ht Kt Hin) as (Hx0 & Hxt & Hxe).
        rewrite Htm by lia. destruct (Z.eqb_spec t x); [congruence|]. destruct (Z.eqb_spec e x); [congruence|]. reflexivity.
      * constructor; [apply Hnot; assumption | assumption].
      * cbn [length]. lia.
    + rewrite upd_other by assumption. rewrite Hto, Htm by lia.
      destruct (Z.eqb_spec t n); [congruence|].
      assert (n <> e) by (intros ->; congruence). destruct (Z.eqb_spec e n); [congruence|].
      repeat split; try assumption.
      eapply chain_ext; [exact Hc|]. intros x Hin. destruct (Hmem n x Hn Hkn Hin) as (Hx0 & Hxt & Hxe).
      rewrite Htm by lia. destruct (Z.eqb_spec t x); [congruence|]. destruct (Z.eqb_spec e x); [congruence|]. reflexivity.
  - intros n x Hn Hkn. apply (r_out_mem _ _ _ _ R); assumption.
  - intros n x Hn Hkn. destruct (Z.eq_dec n t) as [->|Hnt].
    + rewrite upd_same. cbn [In]. rewrite (r_in_mem _ _ _ _ R) by assumption. split.
      * intros [<-|(Hx0 & Hex & Hnx)].
        -- split; [assumption|]. split; [eauto|]. intros (_ & Hc). congruence.
        -- split; [assumption|]. split; [assumption|]. tauto.
      * intros (Hx0 & Hex & Hnx). destruct (Z.eq_dec x e) as [->|Hxe]; [left; reflexivity|].
        right. split; [assumption|]. split; [assumption|]. intros Hc. apply Hnx. tauto.
    + rewrite upd_other by assumption. rewrite (r_in_mem _ _ _ _ R) by assumption. split.
      * intros (Hx0 & Hex & Hnx). split; [assumption|]. split; [assumption|]. tauto.
      * intros (Hx0 & Hex & Hnx). split; [assumption|]. split; [assumption|].
        intros Hc. apply Hnx. split; [assumption|]. intros ->. destruct Hex as (f' & Hf'). congruence.
  - apply (r_edge _ _ _ _ R).
Qed.
