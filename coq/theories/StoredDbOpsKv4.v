(* StoredDbOpsKv4.v — proofs (stored database, part 23): DbKeyValues::remove as a program over the storage, for an element
   that HAS a property vector (slot <> 0: every element inserted through the public API, which reserves capacity) or lies
   beyond the slot vector: the element's vector is freed (every out-of-line record of its pairs, the vector record), the
   slot vector is popped when it was the last slot, else the slot is set to 0 — DbModel's kvs_remove.
   (For a LAST slot that is 0 the code does nothing while kvs_remove pops it: excluded by the hypothesis; see the report.) *)
From Coq Require Import Permutation.
From Agdb Require Import Bytes BytesProofs Utf8 Codec DbValue ValueIndex Graph DbModel Records RecordsProofs Storage StorageSpec
  StorageLayout Collections CollValues CollWp CollBytes CollVecBase CollVecOps CollVec CollVec2 CollElems CollSep CollMap
  CollGraph CollValuesProofs StoredDb StoredDbRep StoredDbLoad StoredDbFrame StoredDbOps StoredDbOpsKv StoredDbOpsKv2.
From Coq Require Import ZifyBool ZifyNat ZifyN.
Ltac Zify.zify_post_hook ::= Z.div_mod_to_equations.
Open Scope N_scope.
Arguments N.add : simpl never.
Arguments N.mul : simpl never.
Arguments N.sub : simpl never.
Arguments N.of_nat : simpl never.
Arguments N.to_nat : simpl never.
Arguments N.eqb : simpl never.
Arguments N.ltb : simpl never.
Arguments N.leb : simpl never.
Arguments N.div : simpl never.

(* the model's function on a slot position *)
Definition kvs_remove_nth (s : kvstore) (n : nat) : kvstore :=
  if Nat.eqb (S n) (length s) then removelast s else if Nat.ltb n (length s) then kvs_set_nth s n [] else s.
Lemma kvs_remove_model s i : kvs_remove s i = kvs_remove_nth s (zabs_nat i).
Proof. reflexivity. Qed.

(* the element has a property vector, or lies beyond the slot vector *)
Definition so_slot_valid (vi : list N) (n : nat) : Prop := (length vi <= n)%nat \/ nth n vi 0 <> 0.

Lemma cl_remove_last {A} (a : list A) x : cl_remove (a ++ [x]) (length a) = a.
Proof. unfold cl_remove. rewrite firstn_app, Nat.sub_diag, firstn_all. cbn [firstn]. rewrite app_nil_r. rewrite skipn_all2; [apply app_nil_r|rewrite app_length; cbn; lia]. Qed.

Section KvRemove.
  Variable fl : bool.

  Theorem so_kv_remove_spec vh vs vi vw kvs index sp (Q : cres cv_vec -> spec -> Prop) :
    kvrep (hp sp) vh vs vi vw kvs -> so_slot_valid vi (N.to_nat index) ->
    (forall vh1 vs1 vi1 vw1 sp',
        kvrep (hp sp') vh1 vs1 vi1 vw1 (kvs_remove_nth kvs (N.to_nat index)) ->
        cv_index vh1 = cv_index vh -> sdepth sp' = sdepth sp ->
        frame (hp sp) (hp sp') (kvfoot vh vs vw) (kvfoot vh1 vs1 vw1) -> Q (CrOk vh1) sp') ->
    cwp fl (so_kv_remove vh index) sp Q.
  Proof.
    intros H Hval HQ. pose proof H as [A B C].
    destruct (sd_kv_rep_lengths _ _ _ _ B) as [L1 L2].
    pose proof (vr_len _ _ _ _ _ _ _ A) as Hlen. unfold lenN in Hlen.
    unfold so_kv_remove, so_kv_valid_index.
    apply cwp_bind. destruct (N.ltb_spec index (cv_len vh)) as [Hlt|Hge].
    2:{ cbn [cwp kont negb]. unfold kvs_remove_nth in HQ.
        destruct (Nat.eqb_spec (S (N.to_nat index)) (length kvs)); [lia|]. destruct (Nat.ltb_spec (N.to_nat index) (length kvs)); [lia|].
        eapply (HQ vh vs vi vw sp); [exact H|reflexivity|reflexivity|apply frame_refl; intros j; reflexivity]. }
    assert (Hn : (N.to_nat index < length kvs)%nat) by lia.
    destruct (sd_kv_rep_at _ _ _ _ _ B Hn) as (ia & i & ib & a & w & b & ka & l & kb & Evi & Evw & Ekvs & Lia & La & Lka & Ba & Bs & Bb).
    subst vi vw kvs.
    assert (Ei : nth (N.to_nat index) (ia ++ i :: ib) 0 = i) by (rewrite <- Lia; apply nth_mid).
    destruct Hval as [X|Hnz]; [rewrite app_length in X; cbn [length] in X; lia|]. rewrite Ei in Hnz.
    apply cwp_bind. eapply cv_value_spec; [exact A|]. rewrite <- Lia, nth_error_mid. cbn [kont cwp].
    destruct w as [[k bss]|]; cbn [sd_kv_slot_rep] in Bs; [|destruct Bs as [X _]; contradiction].
    destruct Bs as (_ & Hki & HR). destruct (N.eqb_spec i 0) as [X|_]; [contradiction|]. cbn [negb].
    (* kvs *)
    apply cwp_bind. unfold so_kv_kvs. apply cwp_bind. eapply cv_value_spec; [exact A|]. rewrite <- Lia, nth_error_mid. cbn [kont].
    rewrite <- Hki. eapply cv_from_storage_spec; [exact HR|]. intros k' HR' Hi' Hl'. cbn [kont].
    (* the vector is freed *)
    apply cwp_bind. eapply cv_remove_from_storage_spec; [exact HR'|]. intros sp1 D1 F1. cbn [kont].
    assert (F1' : frame (hp sp) (hp sp1) (slotfoot (Some (k, bss))) []).
    { cbn [slotfoot]. unfold foot in *. rewrite <- Hi'. exact F1. }
    destruct (kv_step_slot _ _ vh vs ia i ib a (Some (k, bss)) b ka l kb [] H (eq_trans La (eq_sym Lia)) (eq_trans Lka (eq_sym Lia)) F1' (NoDup_nil _))
      as (A1 & Ba1 & Bb1 & N1 & Fr1).
    cbn [app] in N1, Fr1.
    assert (Hlive : live_all (hp sp1) (sd_kv_foot a ++ sd_kv_foot b)).
    { apply live_all_app. split; [eapply sd_kv_live; exact Ba1|eapply sd_kv_live; exact Bb1]. }
    rewrite app_length in Hlen. cbn [length] in Hlen.
    destruct (N.eqb_spec (cv_len vh - 1) index) as [Elast|Nlast].
    - (* the last slot: the slot vector is popped *)
      assert (Eib : ib = []) by (destruct ib; [reflexivity|cbn [length] in Hlen; lia]).
      assert (Eb : b = []) by (destruct b; [reflexivity|rewrite !app_length in L1; cbn [length] in L1; lia]).
      assert (Ekb : kb = []) by (destruct kb; [reflexivity|rewrite !app_length in L2; cbn [length] in L2; lia]).
      subst ib b kb.
      apply cwp_bind. eapply cv_remove_spec; [exact A1|]. rewrite <- Lia, nth_error_mid.
      intros vs2 sp2 R2 D2 F2. cbn [kont cwp fst]. rewrite cl_remove_last in R2.
      destruct (kv_step_vec_raw (hp sp1) (hp sp2) vh vs _ vs2 _ (sd_kv_foot a ++ sd_kv_foot []) N1 Hlive R2 F2) as (N2 & Fr2 & Same).
      cbn [sd_kv_foot] in *. rewrite app_nil_r in *.
      assert (Ek : kvs_remove_nth (ka ++ [l]) (N.to_nat index) = ka).
      { unfold kvs_remove_nth. rewrite app_length. cbn [length]. destruct (Nat.eqb_spec (S (N.to_nat index)) (length ka + 1)); [|lia]. apply removelast_last. }
      rewrite Ek in HQ.
      eapply (HQ _ vs2 ia a sp2); [|reflexivity|congruence|].
      + constructor; [exact R2| |exact N2].
        eapply sd_transport_kv; [exact Ba1|]. intros j Hj. apply Same. exact Hj.
      + eapply frame_trans; [exact Fr1|]. unfold kvfoot. exact Fr2.
    - (* not the last slot: the slot becomes 0 *)
      apply cwp_bind. eapply cv_replace_spec; [exact A1|cbn; unfold two64; lia|]. rewrite <- Lia, nth_error_mid.
      intros vs2 sp2 R2 D2 F2. cbn [kont cwp]. rewrite cl_upd_mid in R2.
      destruct (kv_step_vec_raw (hp sp1) (hp sp2) vh vs vh vs2 _ (sd_kv_foot a ++ sd_kv_foot b) N1 Hlive R2 F2) as (N2 & Fr2 & Same).
      assert (Ek : kvs_remove_nth (ka ++ l :: kb) (N.to_nat index) = ka ++ [] :: kb).
      { unfold kvs_remove_nth. rewrite !app_length in *. cbn [length] in *.
        destruct (Nat.eqb_spec (S (N.to_nat index)) (length ka + S (length kb))); [lia|].
        destruct (Nat.ltb_spec (N.to_nat index) (length ka + S (length kb))); [|lia]. rewrite <- Lka, kvs_set_nth_mid. reflexivity. }
      rewrite Ek in HQ.
      eapply (HQ vh vs2 (ia ++ 0 :: ib) (a ++ None :: b) sp2); [|reflexivity|congruence|].
      + constructor; [exact R2| |unfold kvfoot; rewrite sd_kv_foot_mid; cbn [slotfoot app]; exact N2].
        apply sd_kv_rep_mid.
        * eapply sd_transport_kv; [exact Ba1|]. intros j Hj. apply Same. apply in_or_app. left. exact Hj.
        * cbn [sd_kv_slot_rep]. split; reflexivity.
        * eapply sd_transport_kv; [exact Bb1|]. intros j Hj. apply Same. apply in_or_app. right. exact Hj.
      + eapply frame_trans; [exact Fr1|]. unfold kvfoot. rewrite sd_kv_foot_mid. cbn [slotfoot app]. exact Fr2.
  Qed.
End KvRemove.
