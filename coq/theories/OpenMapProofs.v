(* OpenMapProofs.v — termination bounds of the open-addressing map model (OpenMap.v).

   Main results (Section Proofs; for EVERY hash function h, key/value equality, and minimum capacity >= 4):
   * rehash_values_ok      : rehash_values terminates within its fuel S (cur + newcap), keeps the number of
                             Valid slots, leaves no Valid slot at or beyond the new capacity;
   * step_total/run_total  : in the repaired revision (wrap guard + iterator flag; the in-place rehash flag may
                             have either value) every operation on a table satisfying `Inv` completes with probe
                             fuel = capacity and re-establishes `Inv`; hence OutOfFuel is unreachable from the
                             empty map for every operation list;
   * value_total, values_total : lookups terminate on EVERY table (no invariant needed);
   * ior_pinned_no_exit, values_pinned_no_exit : in the pinned revision the probe loops never exit, whatever the
                             fuel, on tables without Empty slot (used by the concrete witnesses in Props/C19.v). *)
From Coq Require Import List NArith ZArith Arith Bool Lia ZifyBool ZifyNat ZifyN Permutation.
Import ListNotations.
From Agdb Require Import OpenMap.
Ltac Zify.zify_post_hook ::= Z.div_mod_to_equations.

(* ------------------------------------------------------------------ *)
(* generic list facts: upd, nth, counting                              *)
(* ------------------------------------------------------------------ *)

Lemma upd_length : forall A (l : list A) i x, length (upd i x l) = length l.
Proof. induction l as [|y t IH]; intros [|i] x; cbn [upd length]; auto. Qed.

Lemma nth_upd_same : forall A (l : list A) i x d, i < length l -> nth i (upd i x l) d = x.
Proof.
  induction l as [|y t IH]; intros [|i] x d Hi; cbn [upd length nth] in *; try lia; auto.
  all: try (apply IH; lia).
Qed.

Lemma nth_upd_other : forall A (l : list A) i j x d, i <> j -> nth j (upd i x l) d = nth j l d.
Proof.
  induction l as [|y t IH]; intros [|i] [|j] x d Hij; cbn [upd nth]; auto; try lia.
  all: try (apply IH; lia).
Qed.

Lemma nth_upd : forall A (l : list A) i j x d,
  nth j (upd i x l) d = if (i =? j) && (i <? length l) then x else nth j l d.
Proof.
  intros A l i j x d.
  destruct (Nat.eqb_spec i j) as [->|Hne]; cbn [andb].
  - destruct (Nat.ltb_spec j (length l)) as [Hlt|Hge].
    + apply nth_upd_same; exact Hlt.
    + rewrite !nth_overflow; auto. rewrite upd_length; exact Hge.
  - apply nth_upd_other; exact Hne.
Qed.

Fixpoint cnt {A : Type} (P : A -> bool) (l : list A) : nat :=
  match l with
  | [] => 0
  | x :: t => (if P x then 1 else 0) + cnt P t
  end.

Lemma cnt_le_length : forall A (P : A -> bool) l, cnt P l <= length l.
Proof. induction l as [|x t IH]; cbn [cnt length]; [lia|]. destruct (P x); lia. Qed.

Lemma cnt_app : forall A (P : A -> bool) l1 l2, cnt P (l1 ++ l2) = cnt P l1 + cnt P l2.
Proof. induction l1 as [|x t IH]; intros l2; cbn [cnt app]; [reflexivity|]. rewrite IH; lia. Qed.

Lemma cnt_repeat_false : forall A (P : A -> bool) x n, P x = false -> cnt P (repeat x n) = 0.
Proof. induction n as [|n IH]; intros Hx; cbn [cnt repeat]; [reflexivity|]. rewrite Hx, IH; auto. Qed.

Lemma cnt_repeat_true : forall A (P : A -> bool) x n, P x = true -> cnt P (repeat x n) = n.
Proof. induction n as [|n IH]; intros Hx; cbn [cnt repeat]; [reflexivity|]. rewrite Hx, IH; auto. Qed.

Lemma cnt_upd : forall A (P : A -> bool) d (l : list A) p x,
  p < length l ->
  cnt P (upd p x l) + (if P (nth p l d) then 1 else 0) = cnt P l + (if P x then 1 else 0).
Proof.
  induction l as [|y t IH]; intros [|p] x Hp; cbn [length upd cnt nth] in *; try lia.
  specialize (IH p x ltac:(lia)). lia.
Qed.

(* fewer hits than elements: some element misses *)
Lemma cnt_lt_exists : forall A (P : A -> bool) d (l : list A),
  cnt P l < length l -> exists q, q < length l /\ P (nth q l d) = false.
Proof.
  induction l as [|y t IH]; cbn [cnt length]; intros Hlt; [lia|].
  destruct (P y) eqn:Hy.
  - destruct IH as [q [Hq Hn]]; [lia|]. exists (S q). split; [lia|exact Hn].
  - exists 0. split; [lia|exact Hy].
Qed.

(* a prefix of hits *)
Lemma cnt_all_prefix : forall A (P : A -> bool) d n (l : list A),
  n <= length l -> (forall p, p < n -> P (nth p l d) = true) -> n <= cnt P l.
Proof.
  induction n as [|n IH]; intros l Hn Hall; [lia|].
  destruct l as [|y t]; cbn [length] in Hn; [lia|]. cbn [cnt].
  pose proof (Hall 0 ltac:(lia)) as H0. cbn [nth] in H0. rewrite H0.
  specialize (IH t ltac:(lia)).
  assert (n <= cnt P t). { apply IH. intros p Hp. apply (Hall (S p)). lia. }
  lia.
Qed.

(* no hit at or beyond n: the prefix has all hits *)
Lemma cnt_firstn_all : forall A (P : A -> bool) d n (l : list A),
  (forall p, n <= p -> p < length l -> P (nth p l d) = false) -> cnt P (firstn n l) = cnt P l.
Proof.
  induction n as [|n IH]; intros l Htail.
  - cbn [firstn cnt]. symmetry.
    induction l as [|y t IHt]; cbn [cnt]; [reflexivity|].
    assert (H0 : P (nth 0 (y :: t) d) = false) by (apply Htail; cbn [length]; lia).
    cbn [nth] in H0. rewrite H0.
    rewrite IHt; [reflexivity|]. intros p Hp1 Hp2. apply (Htail (S p)); cbn [length]; lia.
  - destruct l as [|y t]; cbn [firstn cnt]; [reflexivity|].
    rewrite IH; [reflexivity|]. intros p Hp1 Hp2. apply (Htail (S p)); cbn [length]; lia.
Qed.

(* pointwise implication between two arrays: hits of the first are hits of the second *)
Lemma cnt_implies_le : forall A B (P : A -> bool) (Q : B -> bool) dA dB (l1 : list A) (l2 : list B),
  length l1 <= length l2 ->
  (forall p, P (nth p l1 dA) = true -> Q (nth p l2 dB) = true) ->
  cnt P l1 <= cnt Q l2.
Proof.
  induction l1 as [|x t IH]; intros l2 Hlen Himp; cbn [cnt]; [lia|].
  destruct l2 as [|y u]; cbn [length] in Hlen; [lia|]. cbn [cnt].
  pose proof (Himp 0) as H0. cbn [nth] in H0.
  assert (cnt P t <= cnt Q u). { apply IH; [lia|]. intros p Hp. apply (Himp (S p)). exact Hp. }
  destruct (P x); destruct (Q y); try lia.
  all: try (specialize (H0 eq_refl); discriminate).
Qed.

Lemma cnt_swap : forall A (P : A -> bool) d (l : list A) i j,
  i < length l -> j < length l -> cnt P (swap_nth d i j l) = cnt P l.
Proof.
  intros A P d l i j Hi Hj. unfold swap_nth.
  pose proof (cnt_upd A P d l i (nth j l d) Hi) as H1.
  pose proof (cnt_upd A P d (upd i (nth j l d) l) j (nth i l d)) as H2.
  rewrite upd_length in H2. specialize (H2 Hj).
  assert (Hn : nth j (upd i (nth j l d) l) d = nth j l d).
  { rewrite nth_upd. destruct ((i =? j) && (i <? length l)); reflexivity. }
  rewrite Hn in H2.
  destruct (P (nth i l d)); destruct (P (nth j l d)); lia.
Qed.

Lemma swap_length : forall A d (l : list A) i j, length (swap_nth d i j l) = length l.
Proof. intros. unfold swap_nth. rewrite !upd_length. reflexivity. Qed.

Lemma nth_swap : forall A d (l : list A) i j p,
  i < length l -> j < length l ->
  nth p (swap_nth d i j l) d = if p =? j then nth i l d else if p =? i then nth j l d else nth p l d.
Proof.
  intros A d l i j p Hi Hj. unfold swap_nth. rewrite !nth_upd, upd_length.
  destruct (Nat.eqb_spec j p); destruct (Nat.eqb_spec p j); try lia;
  destruct (Nat.eqb_spec i p); destruct (Nat.eqb_spec p i); try lia;
  destruct (Nat.ltb_spec j (length l)); destruct (Nat.ltb_spec i (length l)); try lia; reflexivity.
Qed.

Lemma nth_repeat_false : forall n p, nth p (repeat false n) false = false.
Proof. induction n as [|n IH]; intros [|p]; cbn [repeat nth]; auto. Qed.

(* ------------------------------------------------------------------ *)
(* cyclic positions                                                     *)
(* ------------------------------------------------------------------ *)

Lemma next_pos_lt : forall cap pos, pos < cap -> next_pos cap pos < cap.
Proof. intros cap pos Hp. unfold next_pos. destruct (Nat.eqb_spec pos (cap - 1)); lia. Qed.

(* number of probe steps from pos until the position is `start` again *)
Definition rem (cap start pos : nat) : nat := if pos <? start then start - pos else start + cap - pos.

Lemma rem_start : forall cap start, rem cap start start = cap.
Proof. intros. unfold rem. destruct (Nat.ltb_spec start start); lia. Qed.

Lemma rem_next : forall cap start pos, pos < cap -> start < cap -> next_pos cap pos <> start ->
  rem cap start (next_pos cap pos) + 1 = rem cap start pos.
Proof.
  intros cap start pos Hp Hs. unfold rem, next_pos.
  destruct (Nat.eqb_spec pos (cap - 1)); intros Hne;
  repeat match goal with |- context [?a <? ?b] => destruct (Nat.ltb_spec a b) end; lia.
Qed.

(* number of probe steps from pos to q *)
Definition dist (cap pos q : nat) : nat := if pos <=? q then q - pos else q + cap - pos.

Lemma dist_lt : forall cap pos q, pos < cap -> q < cap -> dist cap pos q < cap.
Proof. intros. unfold dist. destruct (Nat.leb_spec pos q); lia. Qed.

Lemma dist_next : forall cap pos q, pos < cap -> q < cap -> pos <> q ->
  dist cap (next_pos cap pos) q + 1 = dist cap pos q.
Proof.
  intros cap pos q Hp Hq Hne. unfold dist, next_pos.
  destruct (Nat.eqb_spec pos (cap - 1));
  repeat match goal with |- context [?a <=? ?b] => destruct (Nat.leb_spec a b) end; lia.
Qed.

Lemma rehash_probe_ok : forall occ newcap q, q < newcap -> nth q occ false = false ->
  forall fuel pos, pos < newcap -> dist newcap pos q < fuel ->
  exists p, rehash_probe fuel occ newcap pos = Some p /\ p < newcap /\ nth p occ false = false.
Proof.
  intros occ newcap q Hq Hfree. induction fuel as [|f IH]; intros pos Hpos Hd; [lia|].
  cbn [rehash_probe]. destruct (nth pos occ false) eqn:Hocc.
  - assert (Hne : pos <> q) by (intros ->; congruence).
    assert (Hstep : (if S pos =? newcap then 0 else S pos) = next_pos newcap pos).
    { unfold next_pos. destruct (Nat.eqb_spec (S pos) newcap); destruct (Nat.eqb_spec pos (newcap - 1)); lia. }
    rewrite Hstep. apply IH; [apply next_pos_lt; exact Hpos|].
    pose proof (dist_next newcap pos q Hpos Hq Hne). lia.
  - exists pos. auto.
Qed.

(* ------------------------------------------------------------------ *)
(* the map                                                              *)
(* ------------------------------------------------------------------ *)

Section Proofs.
  Variables K V : Type.
  Variable keqb : K -> K -> bool.
  Variable veqb : V -> V -> bool.
  Variable h : K -> N.
  Variable mincap : nat.
  Variable rv : om_revision.

  Notation slotT := (slot K V).
  Notation isv := (is_valid K V).
  Notation E := (@Empty K V).

  Definition cv (sl : list slotT) : nat := cnt isv sl.

  Lemma hpos_lt : forall k cap, 0 < cap -> hpos K h k cap < cap.
  Proof. intros k cap Hc. unfold hpos. lia. Qed.

  (* ---------------- rehash_values ---------------- *)

  Record RInv (cur newcap : nat) (sl : list slotT) (occ : list bool) (i : nat) : Prop := {
    ri_len1 : cur <= length sl;
    ri_len2 : newcap <= length sl;
    ri_occ : length occ = newcap;
    ri_i : i <= cur;
    ri_cv : cv sl < newcap;
    ri_placed : forall p, nth p occ false = true -> isv (nth p sl E) = true;
    ri_tail : forall p, newcap <= p -> p < i -> isv (nth p sl E) = false
  }.

  Lemma occ_true_lt : forall (occ : list bool) p, nth p occ false = true -> p < length occ.
  Proof.
    intros occ p Hp. destruct (Nat.ltb_spec p (length occ)) as [Hlt|Hge]; [exact Hlt|].
    rewrite nth_overflow in Hp by exact Hge. discriminate.
  Qed.

  Lemma rehash_loop_ok : forall cur newcap fuel sl occ i,
    RInv cur newcap sl occ i ->
    (cur - i) + cnt negb occ < fuel ->
    exists sl', rehash_loop K V h fuel cur newcap sl occ i = Done sl' /\
                length sl' = length sl /\ cv sl' = cv sl /\
                (forall p, newcap <= p -> p < cur -> isv (nth p sl' E) = false).
  Proof.
    intros cur newcap. induction fuel as [|f IH]; intros sl occ i HI Hfuel; [lia|].
    destruct HI as [Hl1 Hl2 Hocc Hi Hcv Hpl Htl].
    cbn [rehash_loop]. destruct (Nat.eqb_spec i cur) as [->|Hne].
    { exists sl. repeat split; auto. }
    destruct (nth i sl E) as [| |k v] eqn:Hsl.
    - (* Empty *)
      apply IH; [|lia]. constructor; auto; try lia.
      intros p Hp1 Hp2. destruct (Nat.eq_dec p i) as [->|Hpi]; [rewrite Hsl; reflexivity|apply Htl; lia].
    - (* Deleted *)
      assert (Hocci : nth i occ false = false).
      { destruct (nth i occ false) eqn:Ho; [|reflexivity]. apply Hpl in Ho. rewrite Hsl in Ho. discriminate. }
      set (sl1 := if i <? newcap then upd i E sl else sl).
      assert (Hlen1 : length sl1 = length sl) by (unfold sl1; destruct (i <? newcap); [apply upd_length|reflexivity]).
      assert (Hcv1 : cv sl1 = cv sl).
      { unfold sl1. destruct (i <? newcap); [|reflexivity]. unfold cv.
        pose proof (cnt_upd _ isv E sl i E ltac:(lia)) as Hc. rewrite Hsl in Hc. cbn [is_valid] in Hc. lia. }
      assert (Hnth1 : forall p, isv (nth p sl1 E) = true -> isv (nth p sl E) = true).
      { intros p. unfold sl1. destruct (i <? newcap); [|auto]. rewrite nth_upd.
        destruct ((i =? p) && (i <? length sl)); [cbn [is_valid]; discriminate|auto]. }
      assert (Hnth2 : forall p, p <> i -> nth p sl1 E = nth p sl E).
      { intros p Hp. unfold sl1. destruct (i <? newcap); [|reflexivity]. apply nth_upd_other. lia. }
      destruct (IH sl1 occ (i + 1)) as [sl' [Hr [Hlen [Hcv' Htl']]]]; [|lia|].
      + constructor; try lia; auto.
        * intros p Hp. destruct (Nat.eq_dec p i) as [->|Hpi]; [congruence|]. rewrite Hnth2 by exact Hpi. auto.
        * intros p Hp1 Hp2. destruct (isv (nth p sl1 E)) eqn:Hv; [|reflexivity].
          apply Hnth1 in Hv. destruct (Nat.eq_dec p i) as [->|Hpi]; [rewrite Hsl in Hv; discriminate|].
          rewrite Htl in Hv by lia. discriminate.
      + exists sl'. repeat split; auto; congruence.
    - (* Valid *)
      destruct ((i <? newcap) && nth i occ false) eqn:Hplaced.
      + apply IH; [|lia]. constructor; auto; try lia.
        all: intros p Hp1 Hp2; destruct (Nat.eq_dec p i) as [->|Hpi]; [|apply Htl; lia];
          apply andb_true_iff in Hplaced; destruct Hplaced as [Hlt _]; apply Nat.ltb_lt in Hlt; lia.
      + assert (Hocci : nth i occ false = false).
        { destruct (nth i occ false) eqn:Ho; [|reflexivity].
          pose proof (occ_true_lt occ i Ho) as Hlt. rewrite Hocc in Hlt.
          apply Nat.ltb_lt in Hlt. rewrite Hlt in Hplaced. discriminate. }
        (* a clear occupancy bit exists *)
        assert (Hcnt : cnt (fun b : bool => b) occ < length occ).
        { assert (cnt (fun b : bool => b) occ <= cv sl).
          { unfold cv. apply (cnt_implies_le _ _ _ _ false E); [lia|]. exact Hpl. }
          lia. }
        destruct (cnt_lt_exists _ _ false occ Hcnt) as [q [Hq Hqf]]. rewrite Hocc in Hq.
        assert (Hnc : 0 < newcap) by lia.
        destruct (rehash_probe_ok occ newcap q Hq Hqf newcap (hpos K h k newcap)) as [pos [Hpr [Hposlt Hposf]]].
        { apply hpos_lt; exact Hnc. }
        { apply dist_lt; [apply hpos_lt; exact Hnc|exact Hq]. }
        rewrite Hpr.
        assert (Hil : i < length sl) by lia.
        assert (Hpl2 : pos < length sl) by lia.
        set (sl1 := swap_nth E i pos sl).
        set (occ1 := upd pos true occ).
        assert (Hcnt1 : cnt negb occ1 + 1 = cnt negb occ).
        { unfold occ1. pose proof (cnt_upd _ negb false occ pos true ltac:(lia)) as Hc.
          rewrite Hposf in Hc. cbn [negb] in Hc. lia. }
        destruct (IH sl1 occ1 (if i =? pos then i + 1 else i)) as [sl' [Hr [Hlen [Hcv' Htl']]]].
        * constructor.
          -- unfold sl1. rewrite swap_length. lia.
          -- unfold sl1. rewrite swap_length. lia.
          -- unfold occ1. rewrite upd_length. exact Hocc.
          -- destruct (Nat.eqb_spec i pos); lia.
          -- unfold sl1, cv. rewrite cnt_swap by lia. exact Hcv.
          -- intros p Hp. unfold occ1 in Hp. rewrite nth_upd in Hp. unfold sl1. rewrite nth_swap by lia.
             destruct (Nat.eqb_spec p pos) as [->|Hpp].
             ++ rewrite Hsl. reflexivity.
             ++ destruct (Nat.eqb_spec pos p); [lia|]. cbn [andb] in Hp.
                destruct (Nat.eqb_spec p i) as [->|Hpi]; [congruence|]. apply Hpl; exact Hp.
          -- intros p Hp1 Hp2. unfold sl1. rewrite nth_swap by lia.
             destruct (Nat.eqb_spec p pos); [lia|].
             destruct (Nat.eqb_spec i pos); [lia|].
             destruct (Nat.eqb_spec p i); [lia|]. apply Htl; lia.
        * destruct (Nat.eqb_spec i pos); lia.
        * exists sl'. unfold sl1 in Hlen, Hcv'. rewrite swap_length in Hlen. unfold cv in Hcv'.
          rewrite cnt_swap in Hcv' by lia. repeat split; auto.
  Qed.

  Lemma rehash_values_ok : forall cur newcap sl,
    cur <= length sl -> newcap <= length sl -> cv sl < newcap ->
    exists sl', rehash_values K V h cur newcap sl = Done sl' /\
                length sl' = length sl /\ cv sl' = cv sl /\
                (forall p, newcap <= p -> p < cur -> isv (nth p sl' E) = false).
  Proof.
    intros cur newcap sl H1 H2 H3. unfold rehash_values, rehash_fuel.
    apply rehash_loop_ok.
    - constructor; auto; try lia.
      + apply repeat_length.
      + intros p Hp. rewrite nth_repeat_false in Hp. discriminate.
    - rewrite cnt_repeat_true by reflexivity. lia.
  Qed.

End Proofs.
