(* OpenMapProofs.v — termination bounds of the open-addressing map model (OpenMap.v).

   Main results (Section Proofs; for EVERY hash function h, key/value equality, and minimum capacity >= 4):
   * rehash_values_ok      : rehash_values terminates within its fuel S (cur + newcap), keeps the number of
                             Valid slots, leaves no Valid slot at or beyond the new capacity;
   * step_total/run_total  : in the repaired revision (wrap guard + iterator flag; the in-place rehash flag may
                             have either value) every operation on a table satisfying `Inv` completes with probe
                             fuel = capacity and re-establishes `Inv`; hence OutOfFuel is unreachable from the
                             empty map for every operation list;
   * rehash_entries, rehash_in_place_entries : rehash keeps, for every predicate, the number of stored pairs
                             satisfying it (= the multiset of stored pairs);
   * value_total, values_total : lookups terminate on EVERY table (no invariant needed);
   * ior_pinned_no_exit, values_pinned_no_exit : in the pinned revision the probe loops never exit, whatever the
                             fuel, on tables without Empty slot (used by the concrete witnesses in Props/C19.v). *)
From Coq Require Import List NArith ZArith Arith Bool Lia ZifyBool ZifyNat ZifyN Permutation.
Import ListNotations.
From Agdb Require Import OpenMap.
Ltac Zify.zify_post_hook ::= Z.div_mod_to_equations.

(* ------------------------------------------------------------------ *)
(* generic list facts: upd, nth, counting                              *)
(* ------------------------------------------------------------------ *)

Lemma upd_length : forall A (l : list A) i x, length (upd i x l) = length l.
Proof. induction l as [|y t IH]; intros [|i] x; cbn [upd length]; auto. Qed.

Lemma nth_upd_same : forall A (l : list A) i x d, i < length l -> nth i (upd i x l) d = x.
Proof.
  induction l as [|y t IH]; intros [|i] x d Hi; cbn [upd length nth] in *; try lia; auto.
  all: try (apply IH; lia).
Qed.

Lemma nth_upd_other : forall A (l : list A) i j x d, i <> j -> nth j (upd i x l) d = nth j l d.
Proof.
  induction l as [|y t IH]; intros [|i] [|j] x d Hij; cbn [upd nth]; auto; try lia.
  all: try (apply IH; lia).
Qed.

Lemma nth_upd : forall A (l : list A) i j x d,
  nth j (upd i x l) d = if (i =? j) && (i <? length l) then x else nth j l d.
Proof.
  intros A l i j x d.
  destruct (Nat.eqb_spec i j) as [->|Hne]; cbn [andb].
  - destruct (Nat.ltb_spec j (length l)) as [Hlt|Hge].
    + apply nth_upd_same; exact Hlt.
    + rewrite !nth_overflow; auto. rewrite upd_length; exact Hge.
  - apply nth_upd_other; exact Hne.
Qed.

Fixpoint cnt {A : Type} (P : A -> bool) (l : list A) : nat :=
  match l with
  | [] => 0
  | x :: t => (if P x then 1 else 0) + cnt P t
  end.

Lemma cnt_le_length : forall A (P : A -> bool) l, cnt P l <= length l.
Proof. induction l as [|x t IH]; cbn [cnt length]; [lia|]. destruct (P x); lia. Qed.

Lemma cnt_app : forall A (P : A -> bool) l1 l2, cnt P (l1 ++ l2) = cnt P l1 + cnt P l2.
Proof. induction l1 as [|x t IH]; intros l2; cbn [cnt app]; [reflexivity|]. rewrite IH; lia. Qed.

Lemma cnt_repeat_false : forall A (P : A -> bool) x n, P x = false -> cnt P (repeat x n) = 0.
Proof. induction n as [|n IH]; intros Hx; cbn [cnt repeat]; [reflexivity|]. rewrite Hx, IH; auto. Qed.

Lemma cnt_repeat_true : forall A (P : A -> bool) x n, P x = true -> cnt P (repeat x n) = n.
Proof. induction n as [|n IH]; intros Hx; cbn [cnt repeat]; [reflexivity|]. rewrite Hx, IH; auto. Qed.

Lemma cnt_upd : forall A (P : A -> bool) d (l : list A) p x,
  p < length l ->
  cnt P (upd p x l) + (if P (nth p l d) then 1 else 0) = cnt P l + (if P x then 1 else 0).
Proof.
  induction l as [|y t IH]; intros [|p] x Hp; cbn [length upd cnt nth] in *; try lia.
  specialize (IH p x ltac:(lia)). lia.
Qed.

(* fewer hits than elements: some element misses *)
Lemma cnt_lt_exists : forall A (P : A -> bool) d (l : list A),
  cnt P l < length l -> exists q, q < length l /\ P (nth q l d) = false.
Proof.
  induction l as [|y t IH]; cbn [cnt length]; intros Hlt; [lia|].
  destruct (P y) eqn:Hy.
  - destruct IH as [q [Hq Hn]]; [lia|]. exists (S q). split; [lia|exact Hn].
  - exists 0. split; [lia|exact Hy].
Qed.

(* a prefix of hits *)
Lemma cnt_all_prefix : forall A (P : A -> bool) d n (l : list A),
  n <= length l -> (forall p, p < n -> P (nth p l d) = true) -> n <= cnt P l.
Proof.
  induction n as [|n IH]; intros l Hn Hall; [lia|].
  destruct l as [|y t]; cbn [length] in Hn; [lia|]. cbn [cnt].
  pose proof (Hall 0 ltac:(lia)) as H0. cbn [nth] in H0. rewrite H0.
  specialize (IH t ltac:(lia)).
  assert (n <= cnt P t). { apply IH. intros p Hp. apply (Hall (S p)). lia. }
  lia.
Qed.

(* no hit at or beyond n: the prefix has all hits *)
Lemma cnt_firstn_all : forall A (P : A -> bool) d n (l : list A),
  (forall p, n <= p -> p < length l -> P (nth p l d) = false) -> cnt P (firstn n l) = cnt P l.
Proof.
  induction n as [|n IH]; intros l Htail.
  - cbn [firstn cnt]. symmetry.
    induction l as [|y t IHt]; cbn [cnt]; [reflexivity|].
    assert (H0 : P (nth 0 (y :: t) d) = false) by (apply Htail; cbn [length]; lia).
    cbn [nth] in H0. rewrite H0.
    rewrite IHt; [reflexivity|]. intros p Hp1 Hp2. apply (Htail (S p)); cbn [length]; lia.
  - destruct l as [|y t]; cbn [firstn cnt]; [reflexivity|].
    rewrite IH; [reflexivity|]. intros p Hp1 Hp2. apply (Htail (S p)); cbn [length]; lia.
Qed.

(* pointwise implication between two arrays: hits of the first are hits of the second *)
Lemma cnt_implies_le : forall A B (P : A -> bool) (Q : B -> bool) dA dB (l1 : list A) (l2 : list B),
  length l1 <= length l2 ->
  (forall p, P (nth p l1 dA) = true -> Q (nth p l2 dB) = true) ->
  cnt P l1 <= cnt Q l2.
Proof.
  induction l1 as [|x t IH]; intros l2 Hlen Himp; cbn [cnt]; [lia|].
  destruct l2 as [|y u]; cbn [length] in Hlen; [lia|]. cbn [cnt].
  pose proof (Himp 0) as H0. cbn [nth] in H0.
  assert (cnt P t <= cnt Q u). { apply IH; [lia|]. intros p Hp. apply (Himp (S p)). exact Hp. }
  destruct (P x); destruct (Q y); try lia.
  all: try (specialize (H0 eq_refl); discriminate).
Qed.

Lemma cnt_swap : forall A (P : A -> bool) d (l : list A) i j,
  i < length l -> j < length l -> cnt P (swap_nth d i j l) = cnt P l.
Proof.
  intros A P d l i j Hi Hj. unfold swap_nth.
  pose proof (cnt_upd A P d l i (nth j l d) Hi) as H1.
  pose proof (cnt_upd A P d (upd i (nth j l d) l) j (nth i l d)) as H2.
  rewrite upd_length in H2. specialize (H2 Hj).
  assert (Hn : nth j (upd i (nth j l d) l) d = nth j l d).
  { rewrite nth_upd. destruct ((i =? j) && (i <? length l)); reflexivity. }
  rewrite Hn in H2.
  destruct (P (nth i l d)); destruct (P (nth j l d)); lia.
Qed.

Lemma swap_length : forall A d (l : list A) i j, length (swap_nth d i j l) = length l.
Proof. intros. unfold swap_nth. rewrite !upd_length. reflexivity. Qed.

Lemma nth_swap : forall A d (l : list A) i j p,
  i < length l -> j < length l ->
  nth p (swap_nth d i j l) d = if p =? j then nth i l d else if p =? i then nth j l d else nth p l d.
Proof.
  intros A d l i j p Hi Hj. unfold swap_nth. rewrite !nth_upd, upd_length.
  destruct (Nat.eqb_spec j p); destruct (Nat.eqb_spec p j); try lia;
  destruct (Nat.eqb_spec i p); destruct (Nat.eqb_spec p i); try lia;
  destruct (Nat.ltb_spec j (length l)); destruct (Nat.ltb_spec i (length l)); try lia; reflexivity.
Qed.

Lemma nth_repeat_false : forall n p, nth p (repeat false n) false = false.
Proof. induction n as [|n IH]; intros [|p]; cbn [repeat nth]; auto. Qed.

(* ------------------------------------------------------------------ *)
(* cyclic positions                                                     *)
(* ------------------------------------------------------------------ *)

Lemma next_pos_lt : forall cap pos, pos < cap -> next_pos cap pos < cap.
Proof. intros cap pos Hp. unfold next_pos. destruct (Nat.eqb_spec pos (cap - 1)); lia. Qed.

(* number of probe steps from pos until the position is `start` again *)
Definition rem (cap start pos : nat) : nat := if pos <? start then start - pos else start + cap - pos.

Lemma rem_start : forall cap start, rem cap start start = cap.
Proof. intros. unfold rem. destruct (Nat.ltb_spec start start); lia. Qed.

Lemma rem_next : forall cap start pos, pos < cap -> start < cap -> next_pos cap pos <> start ->
  rem cap start (next_pos cap pos) + 1 = rem cap start pos.
Proof.
  intros cap start pos Hp Hs. unfold rem, next_pos.
  destruct (Nat.eqb_spec pos (cap - 1)); intros Hne;
  repeat match goal with |- context [?a <? ?b] => destruct (Nat.ltb_spec a b) end; lia.
Qed.

(* number of probe steps from pos to q *)
Definition dist (cap pos q : nat) : nat := if pos <=? q then q - pos else q + cap - pos.

Lemma dist_lt : forall cap pos q, pos < cap -> q < cap -> dist cap pos q < cap.
Proof. intros. unfold dist. destruct (Nat.leb_spec pos q); lia. Qed.

Lemma dist_next : forall cap pos q, pos < cap -> q < cap -> pos <> q ->
  dist cap (next_pos cap pos) q + 1 = dist cap pos q.
Proof.
  intros cap pos q Hp Hq Hne. unfold dist, next_pos.
  destruct (Nat.eqb_spec pos (cap - 1));
  repeat match goal with |- context [?a <=? ?b] => destruct (Nat.leb_spec a b) end; lia.
Qed.

Lemma rehash_probe_ok : forall occ newcap q, q < newcap -> nth q occ false = false ->
  forall fuel pos, pos < newcap -> dist newcap pos q < fuel ->
  exists p, rehash_probe fuel occ newcap pos = Some p /\ p < newcap /\ nth p occ false = false.
Proof.
  intros occ newcap q Hq Hfree. induction fuel as [|f IH]; intros pos Hpos Hd; [lia|].
  cbn [rehash_probe]. destruct (nth pos occ false) eqn:Hocc.
  - assert (Hne : pos <> q) by (intros ->; congruence).
    assert (Hstep : (if S pos =? newcap then 0 else S pos) = next_pos newcap pos).
    { unfold next_pos. destruct (Nat.eqb_spec (S pos) newcap); destruct (Nat.eqb_spec pos (newcap - 1)); lia. }
    rewrite Hstep. apply IH; [apply next_pos_lt; exact Hpos|].
    pose proof (dist_next newcap pos q Hpos Hq Hne). lia.
  - exists pos. auto.
Qed.

(* ------------------------------------------------------------------ *)
(* the map                                                              *)
(* ------------------------------------------------------------------ *)

Section Proofs.
  Variables K V : Type.
  Variable keqb : K -> K -> bool.
  Variable veqb : V -> V -> bool.
  Variable h : K -> N.
  Variable mincap : nat.
  Variable rv : om_revision.

  Notation slotT := (slot K V).
  Notation isv := (is_valid K V).
  Notation E := (@Empty K V).

  Definition cv (sl : list slotT) : nat := cnt isv sl.

  Lemma hpos_lt : forall k cap, 0 < cap -> hpos K h k cap < cap.
  Proof. intros k cap Hc. unfold hpos. lia. Qed.

  (* ---------------- rehash_values ---------------- *)

  Record RInv (cur newcap : nat) (sl : list slotT) (occ : list bool) (i : nat) : Prop := {
    ri_len1 : cur <= length sl;
    ri_len2 : newcap <= length sl;
    ri_occ : length occ = newcap;
    ri_i : i <= cur;
    ri_cv : cv sl < newcap;
    ri_placed : forall p, nth p occ false = true -> isv (nth p sl E) = true;
    ri_tail : forall p, newcap <= p -> p < i -> isv (nth p sl E) = false
  }.

  Lemma occ_true_lt : forall (occ : list bool) p, nth p occ false = true -> p < length occ.
  Proof.
    intros occ p Hp. destruct (Nat.ltb_spec p (length occ)) as [Hlt|Hge]; [exact Hlt|].
    rewrite nth_overflow in Hp by exact Hge. discriminate.
  Qed.

  Lemma rehash_loop_ok : forall cur newcap fuel sl occ i,
    RInv cur newcap sl occ i ->
    (cur - i) + cnt negb occ < fuel ->
    exists sl', rehash_loop K V h fuel cur newcap sl occ i = Done sl' /\
                length sl' = length sl /\ cv sl' = cv sl /\
                (forall p, newcap <= p -> p < cur -> isv (nth p sl' E) = false).
  Proof.
    intros cur newcap. induction fuel as [|f IH]; intros sl occ i HI Hfuel; [lia|].
    destruct HI as [Hl1 Hl2 Hocc Hi Hcv Hpl Htl].
    cbn [rehash_loop]. destruct (Nat.eqb_spec i cur) as [->|Hne].
    { exists sl. repeat split; auto. }
    destruct (nth i sl E) as [| |k v] eqn:Hsl.
    - (* Empty *)
      apply IH; [|lia]. constructor; auto; try lia.
      intros p Hp1 Hp2. destruct (Nat.eq_dec p i) as [->|Hpi]; [rewrite Hsl; reflexivity|apply Htl; lia].
    - (* Deleted *)
      assert (Hocci : nth i occ false = false).
      { destruct (nth i occ false) eqn:Ho; [|reflexivity]. apply Hpl in Ho. rewrite Hsl in Ho. discriminate. }
      set (sl1 := if i <? newcap then upd i E sl else sl).
      assert (Hlen1 : length sl1 = length sl) by (unfold sl1; destruct (i <? newcap); [apply upd_length|reflexivity]).
      assert (Hcv1 : cv sl1 = cv sl).
      { unfold sl1. destruct (i <? newcap); [|reflexivity]. unfold cv.
        pose proof (cnt_upd _ isv E sl i E ltac:(lia)) as Hc. rewrite Hsl in Hc. cbn [is_valid] in Hc. lia. }
      assert (Hnth1 : forall p, isv (nth p sl1 E) = true -> isv (nth p sl E) = true).
      { intros p. unfold sl1. destruct (i <? newcap); [|auto]. rewrite nth_upd.
        destruct ((i =? p) && (i <? length sl)); [cbn [is_valid]; discriminate|auto]. }
      assert (Hnth2 : forall p, p <> i -> nth p sl1 E = nth p sl E).
      { intros p Hp. unfold sl1. destruct (i <? newcap); [|reflexivity]. apply nth_upd_other. lia. }
      destruct (IH sl1 occ (i + 1)) as [sl' [Hr [Hlen [Hcv' Htl']]]]; [|lia|].
      + constructor; try lia; auto.
        * intros p Hp. destruct (Nat.eq_dec p i) as [->|Hpi]; [congruence|]. rewrite Hnth2 by exact Hpi. auto.
        * intros p Hp1 Hp2. destruct (isv (nth p sl1 E)) eqn:Hv; [|reflexivity].
          apply Hnth1 in Hv. destruct (Nat.eq_dec p i) as [->|Hpi]; [rewrite Hsl in Hv; discriminate|].
          rewrite Htl in Hv by lia. discriminate.
      + exists sl'. repeat split; auto; congruence.
    - (* Valid *)
      destruct ((i <? newcap) && nth i occ false) eqn:Hplaced.
      + apply IH; [|lia]. constructor; auto; try lia.
        all: intros p Hp1 Hp2; destruct (Nat.eq_dec p i) as [->|Hpi]; [|apply Htl; lia];
          apply andb_true_iff in Hplaced; destruct Hplaced as [Hlt _]; apply Nat.ltb_lt in Hlt; lia.
      + assert (Hocci : nth i occ false = false).
        { destruct (nth i occ false) eqn:Ho; [|reflexivity].
          pose proof (occ_true_lt occ i Ho) as Hlt. rewrite Hocc in Hlt.
          apply Nat.ltb_lt in Hlt. rewrite Hlt in Hplaced. discriminate. }
        (* a clear occupancy bit exists *)
        assert (Hcnt : cnt (fun b : bool => b) occ < length occ).
        { assert (cnt (fun b : bool => b) occ <= cv sl).
          { unfold cv. apply (cnt_implies_le _ _ _ _ false E); [lia|]. exact Hpl. }
          lia. }
        destruct (cnt_lt_exists _ _ false occ Hcnt) as [q [Hq Hqf]]. rewrite Hocc in Hq.
        assert (Hnc : 0 < newcap) by lia.
        destruct (rehash_probe_ok occ newcap q Hq Hqf newcap (hpos K h k newcap)) as [pos [Hpr [Hposlt Hposf]]].
        { apply hpos_lt; exact Hnc. }
        { apply dist_lt; [apply hpos_lt; exact Hnc|exact Hq]. }
        rewrite Hpr.
        assert (Hil : i < length sl) by lia.
        assert (Hpl2 : pos < length sl) by lia.
        set (sl1 := swap_nth E i pos sl).
        set (occ1 := upd pos true occ).
        assert (Hcnt1 : cnt negb occ1 + 1 = cnt negb occ).
        { unfold occ1. pose proof (cnt_upd _ negb false occ pos true ltac:(lia)) as Hc.
          rewrite Hposf in Hc. cbn [negb] in Hc. lia. }
        destruct (IH sl1 occ1 (if i =? pos then i + 1 else i)) as [sl' [Hr [Hlen [Hcv' Htl']]]].
        * constructor.
          -- unfold sl1. rewrite swap_length. lia.
          -- unfold sl1. rewrite swap_length. lia.
          -- unfold occ1. rewrite upd_length. exact Hocc.
          -- destruct (Nat.eqb_spec i pos); lia.
          -- unfold sl1, cv. rewrite cnt_swap by lia. exact Hcv.
          -- intros p Hp. unfold occ1 in Hp. rewrite nth_upd in Hp. unfold sl1. rewrite nth_swap by lia.
             destruct (Nat.eqb_spec p pos) as [->|Hpp].
             ++ rewrite Hsl. reflexivity.
             ++ destruct (Nat.eqb_spec pos p); [lia|]. cbn [andb] in Hp.
                destruct (Nat.eqb_spec p i) as [->|Hpi]; [congruence|]. apply Hpl; exact Hp.
          -- intros p Hp1 Hp2. unfold sl1. rewrite nth_swap by lia.
             destruct (Nat.eqb_spec p pos); [lia|].
             destruct (Nat.eqb_spec i pos); [lia|].
             destruct (Nat.eqb_spec p i); [lia|]. apply Htl; lia.
        * destruct (Nat.eqb_spec i pos); lia.
        * exists sl'. unfold sl1 in Hlen, Hcv'. rewrite swap_length in Hlen. unfold cv in Hcv'.
          rewrite cnt_swap in Hcv' by lia. repeat split; auto.
  Qed.

  Lemma rehash_values_ok : forall cur newcap sl,
    cur <= length sl -> newcap <= length sl -> cv sl < newcap ->
    exists sl', rehash_values K V h cur newcap sl = Done sl' /\
                length sl' = length sl /\ cv sl' = cv sl /\
                (forall p, newcap <= p -> p < cur -> isv (nth p sl' E) = false).
  Proof.
    intros cur newcap sl H1 H2 H3. unfold rehash_values, rehash_fuel.
    apply rehash_loop_ok.
    - constructor; auto; try lia.
      + apply repeat_length.
      + intros p Hp. rewrite nth_repeat_false in Hp. discriminate.
    - rewrite cnt_repeat_true by reflexivity. lia.
  Qed.

  (* ---------------- rehash_values keeps the multiset of stored pairs ---------------- *)

  (* number of stored pairs satisfying Q; with Q = "equal to (k, v)" this is the multiplicity of (k, v) *)
  Definition count_entries (Q : K -> V -> bool) (sl : list slotT) : nat :=
    cnt (fun s => match s with Valid k v => Q k v | _ => false end) sl.

  Lemma rehash_probe_lt : forall occ newcap fuel pos p,
    0 < newcap -> pos < newcap -> rehash_probe fuel occ newcap pos = Some p -> p < newcap.
  Proof.
    intros occ newcap. induction fuel as [|f IH]; intros pos p Hn Hpos Hr; cbn [rehash_probe] in Hr; [discriminate|].
    destruct (nth pos occ false).
    - apply IH in Hr; auto. destruct (Nat.eqb_spec (S pos) newcap); lia.
    - inversion Hr; subst. exact Hpos.
  Qed.

  Lemma rehash_loop_entries : forall (Q : K -> V -> bool) cur newcap, 0 < newcap ->
    forall fuel sl occ i sl',
      i <= cur -> cur <= length sl -> newcap <= length sl ->
      rehash_loop K V h fuel cur newcap sl occ i = Done sl' ->
      count_entries Q sl' = count_entries Q sl.
  Proof.
    intros Q cur newcap Hn. unfold count_entries.
    set (P := fun s : slotT => match s with Valid k v => Q k v | _ => false end).
    induction fuel as [|f IH]; intros sl occ i sl' Hi Hc Hnc Hr; cbn [rehash_loop] in Hr; [discriminate|].
    destruct (Nat.eqb_spec i cur) as [->|Hne]; [inversion Hr; reflexivity|].
    destruct (nth i sl E) as [| |k v] eqn:Hsl.
    - apply IH in Hr; auto; lia.
    - destruct (i <? newcap).
      + apply IH in Hr; try rewrite upd_length; try lia. rewrite Hr.
        pose proof (cnt_upd _ P E sl i E ltac:(lia)) as Hu. rewrite Hsl in Hu. cbn in Hu. lia.
      + apply IH in Hr; auto; lia.
    - destruct ((i <? newcap) && nth i occ false).
      + apply IH in Hr; auto; lia.
      + destruct (rehash_probe newcap occ newcap (hpos K h k newcap)) as [pos|] eqn:Hp; [|discriminate].
        pose proof (rehash_probe_lt _ _ _ _ _ Hn (hpos_lt k newcap Hn) Hp) as Hpos.
        apply IH in Hr; try rewrite swap_length; try lia.
        * rewrite Hr. apply cnt_swap; lia.
        * destruct (Nat.eqb_spec i pos); lia.
  Qed.

  Lemma rehash_values_entries : forall Q cur newcap sl sl',
    0 < newcap -> cur <= length sl -> newcap <= length sl ->
    rehash_values K V h cur newcap sl = Done sl' ->
    count_entries Q sl' = count_entries Q sl.
  Proof.
    intros Q cur newcap sl sl' Hn Hc Hnc Hr. unfold rehash_values in Hr.
    apply (rehash_loop_entries Q cur newcap Hn) in Hr; auto. lia.
  Qed.

  (* ---------------- counting Valid slots under single updates ---------------- *)

  Lemma cv_upd_valid : forall sl p k v, p < length sl -> isv (nth p sl E) = false ->
    cv (upd p (Valid k v) sl) = cv sl + 1.
  Proof.
    intros sl p k v Hp Hn. unfold cv. pose proof (cnt_upd _ isv E sl p (Valid k v) Hp) as Hc.
    rewrite Hn in Hc. cbn [is_valid] in Hc. lia.
  Qed.

  Lemma cv_upd_replace : forall sl p k v, p < length sl -> isv (nth p sl E) = true ->
    cv (upd p (Valid k v) sl) = cv sl.
  Proof.
    intros sl p k v Hp Hn. unfold cv. pose proof (cnt_upd _ isv E sl p (Valid k v) Hp) as Hc.
    rewrite Hn in Hc. cbn [is_valid] in Hc. lia.
  Qed.

  Lemma cv_upd_deleted : forall sl p, p < length sl -> isv (nth p sl E) = true ->
    cv (upd p (@Deleted K V) sl) + 1 = cv sl.
  Proof.
    intros sl p Hp Hn. unfold cv. pose proof (cnt_upd _ isv E sl p (@Deleted K V) Hp) as Hc.
    rewrite Hn in Hc. cbn [is_valid] in Hc. lia.
  Qed.

  Lemma cv_le_length : forall sl, cv sl <= length sl.
  Proof. intros. apply cnt_le_length. Qed.

  Lemma cv_app_empty : forall sl n, cv (sl ++ repeat E n) = cv sl.
  Proof. intros. unfold cv. rewrite cnt_app, cnt_repeat_false by reflexivity. lia. Qed.

  (* ---------------- rehash ---------------- *)

  Notation omapT := (omap K V).
  Notation cap := (capacity K V).

  Lemma rehash_ok : forall (m : omapT) c,
    cv (slots m) = len m -> len m < Nat.max c mincap ->
    exists m', rehash K V h mincap m c = Done m' /\
               cap m' = Nat.max c mincap /\ len m' = len m /\ cv (slots m') = len m'.
  Proof.
    intros m c Hcv Hlt. unfold rehash, capacity.
    destruct (Nat.compare_spec (length (slots m)) (Nat.max c mincap)) as [Heq|Hl|Hg].
    - exists m. auto.
    - destruct (rehash_values_ok (length (slots m)) (Nat.max c mincap)
                  (slots m ++ repeat E (Nat.max c mincap - length (slots m))))
        as [sl' [Hr [Hlen [Hcv' _]]]].
      + rewrite app_length. lia.
      + rewrite app_length, repeat_length. lia.
      + rewrite cv_app_empty. lia.
      + rewrite Hr. eexists. split; [reflexivity|]. cbn [slots len].
        rewrite Hlen, Hcv', cv_app_empty, app_length, repeat_length. repeat split; lia.
    - destruct (rehash_values_ok (length (slots m)) (Nat.max c mincap) (slots m))
        as [sl' [Hr [Hlen [Hcv' Htl]]]]; try lia.
      rewrite Hr. eexists. split; [reflexivity|]. cbn [slots len].
      rewrite firstn_length. split; [lia|]. split; [reflexivity|].
      unfold cv. rewrite (cnt_firstn_all _ isv E).
      + fold (cv sl'). lia.
      + intros p Hp1 Hp2. apply Htl; lia.
  Qed.

  Lemma rehash_in_place_ok : forall (m : omapT),
    cv (slots m) = len m -> len m < cap m ->
    exists m', rehash_in_place K V h m = Done m' /\
               cap m' = cap m /\ len m' = len m /\ cv (slots m') = len m'.
  Proof.
    intros m Hcv Hlt. unfold rehash_in_place, capacity in *.
    destruct (rehash_values_ok (length (slots m)) (length (slots m)) (slots m))
      as [sl' [Hr [Hlen [Hcv' _]]]]; try lia.
    rewrite Hr. eexists. split; [reflexivity|]. cbn [slots len]. repeat split; lia.
  Qed.

  Lemma not_valid_count : forall (Q : K -> V -> bool) (s : slotT),
    isv s = false -> match s with Valid k v => Q k v | _ => false end = false.
  Proof. intros Q [| |k v] Hs; cbn [is_valid] in Hs; [reflexivity|reflexivity|discriminate]. Qed.

  (* rehash (grow / shrink / nothing) keeps the multiset of stored (key, value) pairs *)
  Theorem rehash_entries : forall (Q : K -> V -> bool) (m m' : omapT) c,
    cv (slots m) = len m -> len m < Nat.max c mincap ->
    rehash K V h mincap m c = Done m' ->
    count_entries Q (slots m') = count_entries Q (slots m).
  Proof.
    intros Q m m' c Hcv Hlt. unfold rehash, capacity.
    destruct (Nat.compare_spec (length (slots m)) (Nat.max c mincap)) as [Heq|Hl|Hg]; intros Hr.
    - inversion Hr; reflexivity.
    - destruct (rehash_values K V h (length (slots m)) (Nat.max c mincap)
                  (slots m ++ repeat E (Nat.max c mincap - length (slots m)))) as [sl'|] eqn:Hv; [|discriminate].
      inversion Hr; subst m'; cbn [slots].
      apply (rehash_values_entries Q) in Hv; try rewrite app_length, ?repeat_length; try lia.
      rewrite Hv. unfold count_entries. rewrite cnt_app, cnt_repeat_false by reflexivity. lia.
    - destruct (rehash_values_ok (length (slots m)) (Nat.max c mincap) (slots m))
        as [sl' [Hv [Hlen [Hcv' Htl]]]]; try lia.
      rewrite Hv in Hr. inversion Hr; subst m'; cbn [slots].
      apply (rehash_values_entries Q) in Hv; try lia.
      rewrite <- Hv. unfold count_entries. apply (cnt_firstn_all _ _ E).
      intros p Hp1 Hp2. apply not_valid_count. apply Htl; lia.
  Qed.

  Theorem rehash_in_place_entries : forall (Q : K -> V -> bool) (m m' : omapT),
    0 < cap m -> rehash_in_place K V h m = Done m' ->
    count_entries Q (slots m') = count_entries Q (slots m).
  Proof.
    intros Q m m' Hc. unfold rehash_in_place, capacity in *.
    destruct (rehash_values K V h (length (slots m)) (length (slots m)) (slots m)) as [sl'|] eqn:Hv; [|discriminate].
    intros Hr. inversion Hr; subst m'; cbn [slots].
    apply (rehash_values_entries Q) in Hv; auto.
  Qed.

  (* the reachable-state invariant *)
  Definition Inv (m : omapT) : Prop :=
    cv (slots m) = len m /\ (cap m = 0 \/ (mincap <= cap m /\ len m < cap m)).

  Lemma Inv_empty : Inv empty_map.
  Proof. split; [reflexivity|left; reflexivity]. Qed.

  Hypothesis Hmin : 4 <= mincap.

  Lemma reclaim_ok : forall (m : omapT),
    cv (slots m) = len m -> mincap <= cap m -> len m < cap m ->
    exists m', reclaim K V h mincap rv m = Done m' /\
               cap m' = cap m /\ len m' = len m /\ cv (slots m') = len m'.
  Proof.
    intros m Hcv Hmc Hlt. unfold reclaim. destruct (fix_rehash_in_place rv).
    - apply rehash_in_place_ok; assumption.
    - destruct (rehash_ok m (cap m) Hcv ltac:(lia)) as [m' [Hr [Hc [Hl Hcv']]]].
      exists m'. repeat split; auto. lia.
  Qed.

  Lemma grow_if_full_ok : forall (m : omapT), Inv m ->
    exists m1, grow_if_full K V h mincap m = Done m1 /\
               cv (slots m1) = len m1 /\ len m1 = len m /\ mincap <= cap m1 /\ len m1 + 1 < cap m1.
  Proof.
    intros m [Hcv Hc]. unfold grow_if_full, max_len.
    pose proof (cv_le_length (slots m)) as Hle. fold (cap m) in Hle.
    destruct (Nat.leb_spec (cap m * 15 / 16) (len m)) as [Hfull|Hroom].
    - destruct (rehash_ok m (cap m * 2) Hcv ltac:(lia)) as [m' [Hr [Hc' [Hl Hcv']]]].
      exists m'. repeat split; auto; lia.
    - exists m. repeat split; auto; lia.
  Qed.

  Lemma shrink_ok : forall (m : omapT),
    cv (slots m) = len m -> mincap <= cap m -> len m < cap m ->
    exists m', shrink_if_sparse K V h mincap m = Done m' /\ Inv m'.
  Proof.
    intros m Hcv Hmc Hlt. unfold shrink_if_sparse, min_len.
    destruct (Nat.leb_spec (len m) (cap m * 7 / 16)) as [Hs|Hs].
    - destruct (rehash_ok m (cap m / 2) Hcv ltac:(lia)) as [m' [Hr [Hc' [Hl Hcv']]]].
      exists m'. split; [exact Hr|]. split; [exact Hcv'|]. right. lia.
    - exists m. split; [reflexivity|]. split; [exact Hcv|]. right. lia.
  Qed.

  (* ---------------- insert (free_index) ---------------- *)

  Lemma free_index_loop_ok : forall sl c q, q < c -> isv (nth q sl E) = false ->
    forall fuel pos, pos < c -> dist c pos q < fuel ->
    exists p, free_index_loop K V fuel sl c pos = Done p /\ p < c /\ isv (nth p sl E) = false.
  Proof. clear Hmin.
    intros sl c q Hq Hfree. induction fuel as [|f IH]; intros pos Hpos Hd; [lia|].
    cbn [free_index_loop]. destruct (nth pos sl E) as [| |k v] eqn:Hs.
    - exists pos. rewrite Hs. auto.
    - exists pos. rewrite Hs. auto.
    - assert (Hne : pos <> q) by (intros ->; rewrite Hs in Hfree; discriminate).
      apply IH; [apply next_pos_lt; exact Hpos|].
      pose proof (dist_next c pos q Hpos Hq Hne). lia.
  Qed.

  Lemma insert_ok : forall (m : omapT) k v, Inv m ->
    exists m', insert K V h mincap m k v = Done m' /\ Inv m'.
  Proof.
    intros m k v HI. unfold insert, insert_fuel, probe_fuel.
    destruct (grow_if_full_ok m HI) as [m1 [Hg [Hcv [Hl [Hmc Hroom]]]]]. rewrite Hg.
    assert (Hex : cnt isv (slots m1) < length (slots m1)) by (fold (cv (slots m1)); fold (cap m1); lia).
    destruct (cnt_lt_exists _ isv E (slots m1) Hex) as [q [Hq Hqf]].
    assert (Hc0 : 0 < cap m1) by lia.
    destruct (free_index_loop_ok (slots m1) (cap m1) q Hq Hqf (cap m1) (hpos K h k (cap m1)))
      as [p [Hf [Hp Hpf]]].
    { apply hpos_lt; exact Hc0. }
    { apply dist_lt; [apply hpos_lt; exact Hc0|exact Hq]. }
    rewrite Hf. eexists. split; [reflexivity|]. unfold do_insert, Inv, capacity. cbn [slots len].
    rewrite upd_length, cv_upd_valid by assumption. split; [lia|]. right. unfold capacity in *. lia.
  Qed.

  (* ---------------- wrap-guarded probe loops ---------------- *)

  Lemma rem_ge1 : forall c start pos, pos < c -> start < c -> 1 <= rem c start pos.
  Proof. clear Hmin. intros. unfold rem. destruct (Nat.ltb_spec pos start); lia. Qed.

  Section Guarded.
    Hypothesis Hguard : fix_insert_wrap_guard rv = true.

    Lemma ior_loop_ok : forall c start k pred nv, start < c ->
      forall fuel sl pos free,
        length sl = c -> pos < c -> rem c start pos <= fuel ->
        (forall p, free = Some p -> p < c /\ isv (nth p sl E) = false) ->
        exists r, ior_loop K V keqb rv fuel sl c start k pred nv pos free = Done r /\
                  length (ior_slots K V r) = c /\ cv (ior_slots K V r) = cv sl /\
                  (forall p, ior_free K V r = Some p -> p < c /\ isv (nth p (ior_slots K V r) E) = false).
    Proof. clear Hmin.
      intros c start k pred nv Hs. induction fuel as [|f IH]; intros sl pos free Hlen Hpos Hrem Hfree.
      { pose proof (rem_ge1 c start pos Hpos Hs). lia. }
      cbn [ior_loop]. rewrite Hguard. cbn [andb].
      assert (Hcont : forall free', (forall p, free' = Some p -> p < c /\ isv (nth p sl E) = false) ->
        exists r, (if next_pos c pos =? start
                   then Done {| ior_free := free'; ior_ret := None; ior_slots := sl; ior_full_cycle := true |}
                   else ior_loop K V keqb rv f sl c start k pred nv (next_pos c pos) free') = Done r /\
                  length (ior_slots K V r) = c /\ cv (ior_slots K V r) = cv sl /\
                  (forall p, ior_free K V r = Some p -> p < c /\ isv (nth p (ior_slots K V r) E) = false)).
      { intros free' Hfree'. destruct (Nat.eqb_spec (next_pos c pos) start) as [Heq|Hne].
        - eexists. split; [reflexivity|]. cbn [ior_slots ior_free]. auto.
        - apply IH; auto; [apply next_pos_lt; exact Hpos|].
          pose proof (rem_next c start pos Hpos Hs Hne). lia. }
      destruct (nth pos sl E) as [| |k' v'] eqn:Hsl.
      - eexists. split; [reflexivity|]. cbn [ior_slots ior_free]. repeat split; auto.
        + inversion H; subst; exact Hpos.
        + inversion H; subst. rewrite Hsl. reflexivity.
      - apply Hcont. intros p Hp. destruct free as [p0|].
        + apply Hfree. exact Hp.
        + inversion Hp; subst. rewrite Hsl. auto.
      - destruct (keqb k' k && pred v').
        + eexists. split; [reflexivity|]. cbn [ior_slots ior_free].
          rewrite upd_length, cv_upd_replace by (try lia; rewrite Hsl; reflexivity).
          repeat split; auto; discriminate.
        + apply Hcont. exact Hfree.
    Qed.

    Lemma insert_or_replace_ok : forall (m : omapT) k pred nv, Inv m ->
      exists m' r, insert_or_replace K V keqb h mincap rv m k pred nv = Done (m', r) /\ Inv m'.
    Proof.
      intros m k pred nv HI. unfold insert_or_replace, insert_or_replace_fuel, probe_fuel.
      destruct (grow_if_full_ok m HI) as [m1 [Hg [Hcv [Hl [Hmc Hroom]]]]]. rewrite Hg.
      assert (Hc0 : 0 < cap m1) by lia.
      pose proof (hpos_lt k (cap m1) Hc0) as Hst.
      destruct (ior_loop_ok (cap m1) (hpos K h k (cap m1)) k pred nv Hst (cap m1) (slots m1)
                  (hpos K h k (cap m1)) None) as [r [Hr [Hlen [Hcvr Hfr]]]]; auto.
      { rewrite rem_start. lia. }
      { intros p Hp. discriminate. }
      rewrite Hr.
      set (m2 := match ior_free K V r with
                 | Some pos => do_insert K V (ior_slots K V r) (len m1) pos k nv
                 | None => {| slots := ior_slots K V r; len := len m1 |}
                 end).
      assert (Hm2 : cv (slots m2) = len m2 /\ cap m2 = cap m1 /\ len m2 <= len m1 + 1).
      { unfold m2. destruct (ior_free K V r) as [p|] eqn:Hfree.
        - destruct (Hfr p eq_refl) as [Hp Hpv]. unfold do_insert, capacity. cbn [slots len].
          rewrite upd_length, cv_upd_valid by (try lia; exact Hpv). unfold capacity in *. lia.
        - unfold capacity. cbn [slots len]. unfold capacity in *. lia. }
      destruct Hm2 as [Hcv2 [Hcap2 Hlen2]].
      destruct (ior_full_cycle K V r && fix_rehash_in_place rv).
      - destruct (rehash_in_place_ok m2 Hcv2 ltac:(lia)) as [m3 [Hr3 [Hc3 [Hl3 Hcv3]]]].
        rewrite Hr3. exists m3, (ior_ret K V r). split; [reflexivity|].
        split; [exact Hcv3|]. right. lia.
      - exists m2, (ior_ret K V r). split; [reflexivity|]. split; [exact Hcv2|]. right. lia.
    Qed.
  End Guarded.

  (* ---------------- remove_key ---------------- *)

  Lemma remove_key_loop_ok : forall c start k, start < c ->
    forall fuel sl pos n,
      length sl = c -> pos < c -> rem c start pos <= fuel -> cv sl = n ->
      exists sl' n' full, remove_key_loop K V keqb fuel sl c start k pos n = Done (sl', n', full) /\
                          length sl' = c /\ cv sl' = n' /\ n' <= n.
  Proof. clear Hmin.
    intros c start k Hs. induction fuel as [|f IH]; intros sl pos n Hlen Hpos Hrem Hcv.
    { pose proof (rem_ge1 c start pos Hpos Hs). lia. }
    cbn [remove_key_loop].
    assert (Hcont : forall sl1 n1, length sl1 = c -> cv sl1 = n1 -> n1 <= n ->
      exists sl' n' full,
        (if next_pos c pos =? start then Done (sl1, n1, true)
         else remove_key_loop K V keqb f sl1 c start k (next_pos c pos) n1) = Done (sl', n', full) /\
        length sl' = c /\ cv sl' = n' /\ n' <= n).
    { intros sl1 n1 Hl1 Hc1 Hn1. destruct (Nat.eqb_spec (next_pos c pos) start) as [Heq|Hne].
      - exists sl1, n1, true. auto.
      - destruct (IH sl1 (next_pos c pos) n1) as [sl' [n' [full [Hr [Hl' [Hc' Hn']]]]]]; auto.
        + apply next_pos_lt; exact Hpos.
        + pose proof (rem_next c start pos Hpos Hs Hne). lia.
        + exists sl', n', full. repeat split; auto. lia. }
    destruct (nth pos sl E) as [| |k' v'] eqn:Hsl.
    - exists sl, n, false. auto.
    - apply Hcont; auto.
    - destruct (keqb k' k).
      + assert (Hv : isv (nth pos sl E) = true) by (rewrite Hsl; reflexivity).
        pose proof (cv_upd_deleted sl pos ltac:(lia) Hv) as Hd.
        apply Hcont; [rewrite upd_length; exact Hlen|lia|lia].
      + apply Hcont; auto.
  Qed.

  Lemma remove_key_ok : forall (m : omapT) k, Inv m ->
    exists m', remove_key K V keqb h mincap rv m k = Done m' /\ Inv m'.
  Proof.
    intros m k HI. unfold remove_key, remove_key_fuel, probe_fuel.
    destruct (Nat.eqb_spec (cap m) 0) as [Hz|Hnz]; [exists m; auto|].
    destruct HI as [Hcv [Hc|[Hmc Hlt]]]; [lia|].
    pose proof (hpos_lt k (cap m) ltac:(lia)) as Hst.
    destruct (remove_key_loop_ok (cap m) (hpos K h k (cap m)) k Hst (cap m) (slots m)
                (hpos K h k (cap m)) (len m)) as [sl [n [full [Hr [Hlen [Hcvn Hn]]]]]]; auto.
    { rewrite rem_start. lia. }
    rewrite Hr.
    destruct (Nat.eqb_spec n (len m)) as [Heq|Hne].
    - assert (Hm1 : exists m2, (if full && true then reclaim K V h mincap rv {| slots := sl; len := len m |}
                                 else Done {| slots := sl; len := len m |}) = Done m2 /\ Inv m2).
      { destruct full; cbn [andb].
        - destruct (reclaim_ok {| slots := sl; len := len m |}) as [m2 [Hr2 [Hc2 [Hl2 Hcv2]]]];
            unfold capacity in *; cbn [slots len] in *; try lia.
          exists m2. split; [exact Hr2|]. split; [exact Hcv2|]. right. unfold capacity. lia.
        - eexists. split; [reflexivity|]. split; cbn [slots len]; [lia|]. right.
          unfold capacity in *. cbn [slots]. lia. }
      destruct Hm1 as [m2 [Hr2 HI2]]. rewrite Hr2. exists m2. auto.
    - rewrite andb_false_r. cbn [slots].
      apply shrink_ok; unfold capacity in *; cbn [slots len]; lia.
  Qed.

  (* ---------------- remove_value ---------------- *)

  Lemma remove_value_loop_ok : forall c start k v, start < c ->
    forall fuel sl pos, pos < c -> rem c start pos <= fuel ->
      exists r, remove_value_loop K V keqb veqb fuel sl c start k v pos = Done r /\
                (forall p b, r = (Some p, b) -> p < c /\ isv (nth p sl E) = true).
  Proof. clear Hmin.
    intros c start k v Hs. induction fuel as [|f IH]; intros sl pos Hpos Hrem.
    { pose proof (rem_ge1 c start pos Hpos Hs). lia. }
    cbn [remove_value_loop].
    assert (Hcont : exists r,
      (if next_pos c pos =? start then Done (None, true)
       else remove_value_loop K V keqb veqb f sl c start k v (next_pos c pos)) = Done r /\
      (forall p b, r = (Some p, b) -> p < c /\ isv (nth p sl E) = true)).
    { destruct (Nat.eqb_spec (next_pos c pos) start) as [Heq|Hne].
      - eexists. split; [reflexivity|]. intros p b Hpb. discriminate.
      - apply IH; [apply next_pos_lt; exact Hpos|].
        pose proof (rem_next c start pos Hpos Hs Hne). lia. }
    destruct (nth pos sl E) as [| |k' v'] eqn:Hsl.
    - eexists. split; [reflexivity|]. intros p b Hpb. discriminate.
    - exact Hcont.
    - destruct (keqb k' k && veqb v' v).
      + eexists. split; [reflexivity|]. intros p b Hpb. inversion Hpb; subst. rewrite Hsl. auto.
      + exact Hcont.
  Qed.

  Lemma remove_value_ok : forall (m : omapT) k v, Inv m ->
    exists m', remove_value K V keqb veqb h mincap rv m k v = Done m' /\ Inv m'.
  Proof.
    intros m k v HI. unfold remove_value, remove_value_fuel, probe_fuel.
    destruct (Nat.eqb_spec (cap m) 0) as [Hz|Hnz]; [exists m; auto|].
    pose proof HI as [Hcv [Hc|[Hmc Hlt]]]; [lia|].
    pose proof (hpos_lt k (cap m) ltac:(lia)) as Hst.
    destruct (remove_value_loop_ok (cap m) (hpos K h k (cap m)) k v Hst (cap m) (slots m)
                (hpos K h k (cap m))) as [r [Hr Hfound]]; auto.
    { rewrite rem_start. lia. }
    rewrite Hr. destruct r as [[p|] full].
    - destruct (Hfound p full eq_refl) as [Hp Hpv]. unfold remove_index.
      pose proof (cv_upd_deleted (slots m) p Hp Hpv) as Hd.
      apply shrink_ok; unfold capacity in *; cbn [slots len]; rewrite ?upd_length; lia.
    - destruct full.
      + destruct (reclaim_ok m Hcv Hmc Hlt) as [m2 [Hr2 [Hc2 [Hl2 Hcv2]]]].
        exists m2. split; [exact Hr2|]. split; [exact Hcv2|]. right. lia.
      + exists m. auto.
  Qed.

  (* ---------------- lookups: every table ---------------- *)

  Lemma value_loop_total : forall c start k, start < c ->
    forall fuel sl pos, pos < c -> rem c start pos <= fuel ->
      exists r, value_loop K V keqb fuel sl c start k pos = Done r.
  Proof. clear Hmin.
    intros c start k Hs. induction fuel as [|f IH]; intros sl pos Hpos Hrem.
    { pose proof (rem_ge1 c start pos Hpos Hs). lia. }
    cbn [value_loop].
    assert (Hcont : exists r, (if start =? next_pos c pos then Done None
                               else value_loop K V keqb f sl c start k (next_pos c pos)) = Done r).
    { destruct (Nat.eqb_spec start (next_pos c pos)) as [Heq|Hne]; [eauto|].
      apply IH; [apply next_pos_lt; exact Hpos|].
      pose proof (rem_next c start pos Hpos Hs ltac:(lia)). lia. }
    destruct (nth pos sl E) as [| |k' v']; [eauto|exact Hcont|].
    destruct (keqb k' k); [eauto|exact Hcont].
  Qed.

  Theorem value_total : forall (m : omapT) k, exists r, value K V keqb h m k = Done r.
  Proof. clear Hmin.
    intros m k. unfold value, value_fuel, probe_fuel.
    destruct (Nat.eqb_spec (cap m) 0) as [Hz|Hnz]; [eauto|].
    pose proof (hpos_lt k (cap m) ltac:(lia)) as Hst.
    apply value_loop_total; auto. rewrite rem_start. lia.
  Qed.

  Lemma values_loop_total : fix_iter_finished rv = true ->
    forall c start k, start < c ->
    forall fuel sl pos acc, pos < c -> rem c start pos <= fuel ->
      exists r, values_loop K V keqb rv fuel sl c start k pos acc = Done r.
  Proof. clear Hmin.
    intros Hfin c start k Hs. induction fuel as [|f IH]; intros sl pos acc Hpos Hrem.
    { pose proof (rem_ge1 c start pos Hpos Hs). lia. }
    cbn [values_loop]. rewrite Hfin. cbn [andb].
    assert (Hcont : forall acc', exists r, (if start =? next_pos c pos then Done acc'
                               else values_loop K V keqb rv f sl c start k (next_pos c pos) acc') = Done r).
    { intros acc'. destruct (Nat.eqb_spec start (next_pos c pos)) as [Heq|Hne]; [eauto|].
      apply IH; [apply next_pos_lt; exact Hpos|].
      pose proof (rem_next c start pos Hpos Hs ltac:(lia)). lia. }
    destruct (nth pos sl E) as [| |k' v']; [eauto|apply Hcont|].
    destruct (keqb k' k); [apply Hcont|apply Hcont].
  Qed.

  Theorem values_total : fix_iter_finished rv = true ->
    forall (m : omapT) k, exists r, values K V keqb h rv m k = Done r.
  Proof. clear Hmin.
    intros Hfin m k. unfold values, values_fuel, probe_fuel.
    destruct (Nat.eqb_spec (cap m) 0) as [Hz|Hnz]; [eauto|].
    pose proof (hpos_lt k (cap m) ltac:(lia)) as Hst.
    apply values_loop_total; auto. rewrite rem_start. lia.
  Qed.

  (* ---------------- all histories ---------------- *)

  Lemma reserve_ok : forall (m : omapT) c, Inv m ->
    exists m', reserve K V h mincap m c = Done m' /\ Inv m'.
  Proof.
    intros m c HI. unfold reserve. destruct (Nat.ltb_spec (cap m) c) as [Hlt|Hge]; [|exists m; auto].
    pose proof HI as [Hcv Hc].
    pose proof (cv_le_length (slots m)) as Hle. fold (cap m) in Hle.
    destruct (rehash_ok m c Hcv ltac:(lia)) as [m' [Hr [Hc' [Hl Hcv']]]].
    exists m'. split; [exact Hr|]. split; [exact Hcv'|]. right. lia.
  Qed.

  Theorem step_total :
    fix_insert_wrap_guard rv = true -> fix_iter_finished rv = true ->
    forall (m : omapT) (o : op K V), Inv m ->
      exists m', step K V keqb veqb h mincap rv m o = Done m' /\ Inv m'.
  Proof.
    intros Hguard Hfin m o HI. unfold step. destruct o as [k v|k p v|k|k v|c|k|k]; cbn [step_fuel].
    - apply insert_ok; exact HI.
    - destruct (insert_or_replace_ok Hguard m k p v HI) as [m' [r [Hr HI']]].
      unfold insert_or_replace in Hr. rewrite Hr. exists m'. auto.
    - apply remove_key_ok; exact HI.
    - apply remove_value_ok; exact HI.
    - apply reserve_ok; exact HI.
    - destruct (value_total m k) as [r Hr]. unfold value in Hr. rewrite Hr. exists m. auto.
    - destruct (values_total Hfin m k) as [r Hr]. unfold values in Hr. rewrite Hr. exists m. auto.
  Qed.

  Theorem run_total_from :
    fix_insert_wrap_guard rv = true -> fix_iter_finished rv = true ->
    forall (ops : list (op K V)) (m : omapT), Inv m ->
      exists m', run K V keqb veqb h mincap rv m ops = Done m' /\ Inv m'.
  Proof.
    intros Hguard Hfin. unfold run. induction ops as [|o r IH]; intros m HI; cbn [run_fuel].
    - exists m. auto.
    - destruct (step_total Hguard Hfin m o HI) as [m1 [Hs HI1]]. unfold step in Hs. rewrite Hs.
      apply IH; exact HI1.
  Qed.

  Theorem run_total :
    fix_insert_wrap_guard rv = true -> fix_iter_finished rv = true ->
    forall ops : list (op K V),
      exists m', run K V keqb veqb h mincap rv empty_map ops = Done m' /\ Inv m'.
  Proof. intros Hguard Hfin ops. apply run_total_from; auto. apply Inv_empty. Qed.

  (* ---------------- pinned revision: loops that never exit ---------------- *)

  (* a slot at which the pinned insert_or_replace probe continues *)
  Definition blocks_ior (k : K) (pred : V -> bool) (s : slotT) : bool :=
    match s with
    | Empty => false
    | Deleted => true
    | Valid k' v' => negb (keqb k' k && pred v')
    end.

  Lemma nth_forallb : forall (P : slotT -> bool) sl p, forallb P sl = true -> p < length sl -> P (nth p sl E) = true.
  Proof.
    intros P sl p Hall Hp. rewrite forallb_forall in Hall. apply Hall. apply nth_In. exact Hp.
  Qed.

  Lemma ior_pinned_no_exit : fix_insert_wrap_guard rv = false ->
    forall c start k pred nv sl, length sl = c -> forallb (blocks_ior k pred) sl = true ->
    forall fuel pos free, pos < c ->
      ior_loop K V keqb rv fuel sl c start k pred nv pos free = OutOfFuel.
  Proof. clear Hmin.
    intros Hflag c start k pred nv sl Hlen Hall. induction fuel as [|f IH]; intros pos free Hpos; [reflexivity|].
    cbn [ior_loop]. rewrite Hflag. cbn [andb].
    pose proof (nth_forallb _ sl pos Hall ltac:(lia)) as Hb.
    destruct (nth pos sl E) as [| |k' v']; cbn [blocks_ior] in Hb; [discriminate| |].
    - apply IH. apply next_pos_lt. exact Hpos.
    - apply negb_true_iff in Hb. rewrite Hb. apply IH. apply next_pos_lt. exact Hpos.
  Qed.

  (* no Empty slot, the key (with a value accepted by the predicate) absent, no growth due:
     the pinned insert_or_replace exhausts EVERY fuel *)
  Theorem insert_or_replace_pinned_hangs : fix_insert_wrap_guard rv = false ->
    forall (m : omapT) k pred nv,
      0 < cap m -> len m < max_len (cap m) -> forallb (blocks_ior k pred) (slots m) = true ->
      forall fuel : nat -> nat, insert_or_replace_fuel K V keqb h mincap rv fuel m k pred nv = OutOfFuel.
  Proof. clear Hmin.
    intros Hflag m k pred nv Hc Hroom Hall fuel. unfold insert_or_replace_fuel, grow_if_full.
    destruct (Nat.leb_spec (max_len (cap m)) (len m)) as [Hfull|_]; [lia|].
    rewrite (ior_pinned_no_exit Hflag (cap m)); auto.
    apply hpos_lt. exact Hc.
  Qed.

  Definition matches (k : K) (s : slotT) : bool :=
    match s with Valid k' _ => keqb k' k | _ => false end.

  Lemma values_pinned_no_exit : fix_iter_finished rv = false ->
    forall c start k sl, length sl = c ->
      forallb (fun s => negb (is_empty K V s)) sl = true ->
      forallb (fun p => negb (start =? next_pos c p) || matches k (nth p sl E)) (seq 0 c) = true ->
      forall fuel pos acc, pos < c -> values_loop K V keqb rv fuel sl c start k pos acc = OutOfFuel.
  Proof. clear Hmin.
    intros Hflag c start k sl Hlen Hne Hlast. induction fuel as [|f IH]; intros pos acc Hpos; [reflexivity|].
    cbn [values_loop]. rewrite Hflag. cbn [andb].
    pose proof (nth_forallb _ sl pos Hne ltac:(lia)) as Hb.
    assert (Hl : negb (start =? next_pos c pos) || matches k (nth pos sl E) = true).
    { rewrite forallb_forall in Hlast. apply (Hlast pos). apply in_seq. lia. }
    pose proof (next_pos_lt c pos Hpos) as Hnp.
    destruct (nth pos sl E) as [| |k' v']; cbn [is_empty negb matches] in *; [discriminate| |].
    - rewrite orb_false_r in Hl. apply negb_true_iff in Hl. rewrite Hl. apply IH. exact Hnp.
    - destruct (keqb k' k).
      + apply IH. exact Hnp.
      + rewrite orb_false_r in Hl. apply negb_true_iff in Hl. rewrite Hl. apply IH. exact Hnp.
  Qed.

  (* no Empty slot and a value of the key in the slot just before the key's first slot:
     the pinned iterator yields values for EVERY fuel *)
  Theorem values_pinned_hangs : fix_iter_finished rv = false ->
    forall (m : omapT) k,
      0 < cap m ->
      forallb (fun s => negb (is_empty K V s)) (slots m) = true ->
      forallb (fun p => negb (hpos K h k (cap m) =? next_pos (cap m) p) || matches k (nth p (slots m) E))
              (seq 0 (cap m)) = true ->
      forall fuel : nat -> nat, values_fuel K V keqb h rv fuel m k = OutOfFuel.
  Proof. clear Hmin.
    intros Hflag m k Hc Hne Hlast fuel. unfold values_fuel.
    destruct (Nat.eqb_spec (cap m) 0) as [Hz|_]; [lia|].
    apply (values_pinned_no_exit Hflag (cap m)); auto.
    apply hpos_lt. exact Hc.
  Qed.

End Proofs.
