(* StoredDbOpsRemove.v — proofs (stored database, part 24): the removal of an EDGE through the public API (DbImpl::remove_id
   on an edge id: graph.remove_edge, then remove_all_values = DbKeyValues::remove; none of the edge's keys indexed) as the
   program so_q_remove (inside transaction_mut's storage transaction) keeps the database stored and computes DbModel's
   remove_edge_db followed by remove_all_values. *)
From Coq Require Import Permutation.
From Agdb Require Import Bytes BytesProofs Utf8 Codec DbValue ValueIndex Graph DbModel Records RecordsProofs Storage StorageSpec
  StorageLayout StorageWp StorageRefine StorageProofs Collections CollValues CollWp CollBytes CollVecBase CollVecOps CollVec CollVec2
  CollElems CollSep CollMap CollGraph CollValuesProofs StoredDb StoredDbRep StoredDbLoad StoredDbProofs StoredDbFrame StoredDbOps
  StoredDbOpsGraph StoredDbOpsGraph2 StoredDbOpsGraph3 StoredDbOpsGraph4 StoredDbOpsDb StoredDbOpsKv StoredDbOpsKv2 StoredDbOpsKv3
  StoredDbOpsKv4 StoredDbOpsDb2 StoredDbOpsDb3 StoredDbOpsQuery.
From Coq Require Import ZifyBool ZifyNat ZifyN.
Ltac Zify.zify_post_hook ::= Z.div_mod_to_equations.
Open Scope N_scope.
Arguments N.add : simpl never.
Arguments N.mul : simpl never.
Arguments N.sub : simpl never.
Arguments N.of_nat : simpl never.
Arguments N.to_nat : simpl never.
Arguments N.eqb : simpl never.
Arguments N.ltb : simpl never.
Arguments N.leb : simpl never.
Arguments N.div : simpl never.

(* remove_all_values when none of the element's keys is indexed: only the values (and the undo stack) change *)
Lemma remove_all_values_fold id : forall (l : list kv) (d : db),
  (forall x, In x l -> idx_find (indexes d) (fst x) = None) ->
  let d1 := fold_left (fun acc (x : kv) => push_undo (index_remove_if acc (fst x) (snd x) id) (CInsertKeyValue id x)) l d in
  gr d1 = gr d /\ aliases d1 = aliases d /\ vals d1 = vals d /\ indexes d1 = indexes d.
Proof.
  induction l as [|x t IH]; intros d Hn; cbn [fold_left]; [repeat split|].
  assert (E : indexes (push_undo (index_remove_if d (fst x) (snd x) id) (CInsertKeyValue id x)) = indexes d).
  { unfold index_remove_if, idx_remove_id. cbn [push_undo with_indexes indexes]. apply idx_update_not_indexed. apply Hn. left. reflexivity. }
  destruct (IH (push_undo (index_remove_if d (fst x) (snd x) id) (CInsertKeyValue id x))) as (E1 & E2 & E3 & E4).
  { intros y Hy. rewrite E. apply Hn. right. exact Hy. }
  cbn zeta in *. rewrite E1, E2, E3, E4. unfold index_remove_if. cbn [push_undo with_indexes gr aliases vals]. repeat split. exact E.
Qed.

Lemma remove_all_values_fields d id :
  (forall x, In x (kvs_get (vals d) id) -> idx_find (indexes d) (fst x) = None) ->
  gr (remove_all_values d id) = gr d /\ aliases (remove_all_values d id) = aliases d /\
  vals (remove_all_values d id) = kvs_remove (vals d) id /\ indexes (remove_all_values d id) = indexes d.
Proof.
  intros Hn. unfold remove_all_values. destruct (remove_all_values_fold id (kvs_get (vals d) id) d Hn) as (E1 & E2 & E3 & E4).
  cbn zeta in *. cbn [with_vals gr aliases vals indexes]. rewrite E3. repeat split; assumption.
Qed.

Section Remove.
  Variable fl : bool.

  Theorem so_q_remove_edge_stored root d w h e sp :
    stored_db_w (hp sp) root d w -> so_handles h w -> (e < 0)%Z ->
    so_graph_ok (gr d) -> so_remove_edge_ok (gr d) e ->
    so_slot_valid (sw_vi w) (zabs_nat e) ->
    (forall x, In x (kvs_get (vals d) e) -> idx_find (indexes d) (fst x) = None) ->
    cwp fl (so_q_remove h e) sp
        (fun r sp' => exists G' h' w', Graph.remove_edge (gr d) e = Some G' /\ r = CrOk h' /\
                        stored_db_w (hp sp') root (remove_all_values (fst (remove_edge_db d e)) e) w' /\
                        so_handles h' w' /\ sdepth sp' = sdepth sp /\
                        frame (hp sp) (hp sp') (sd_foot root w) (sd_foot root w')).
  Proof.
    intros H Hh He OK Hrm Hslot Hnix. unfold so_q_remove.
    apply cwp_bind. apply hwp_transaction. intros sp0 Hm0 Hd0. cbn [kont].
    destruct (Z.ltb_spec e 0) as [_|X]; [|lia].
    apply cwp_bind. eapply so_remove_edge_stored; [eapply stored_db_w_heq; [exact Hm0|exact H]|exact Hh|exact OK|exact Hrm|].
    intros G' EG s1 sp1 H1 D1 F1. cbn [kont].
    assert (Hh1 : so_handles h (sd_with_graph w (sw_g w) s1)) by (destruct Hh as [A B]; split; [exact A|exact B]).
    apply cwp_bind. destruct Hh as [Hg Hv]. rewrite Hv.
    change (sw_vh w) with (sw_vh (sd_with_graph w (sw_g w) s1)).
    eapply so_kv_remove_spec; [exact (stored_kvrep _ _ _ _ H1)|rewrite zabs_as_u64; exact Hslot|].
    rewrite zabs_as_u64, <- kvs_remove_model.
    intros vh2 vs2 vi2 vw2 sp2 HK I2 D2 F2. cbn [kont].
    destruct (sd_values_update _ _ root _ _ vh2 vs2 vi2 vw2 _ H1 I2 HK F2) as [H2 Fr2].
    apply cwp_bind. apply hwp_commit; [lia|lia|]. intros sp3 Hm3 Hd3. cbn [kont cwp].
    exists G', (so_with_values h vh2), (sd_with_values (sd_with_graph w (sw_g w) s1) vh2 vs2 vi2 vw2).
    split; [exact EG|]. split; [reflexivity|]. split.
    - eapply stored_db_w_heq; [exact Hm3|]. unfold remove_edge_db. rewrite EG. cbn [fst].
      set (d1 := push_undo (with_gr d G') (CInsertEdge (edge_from (gr d) e) (edge_to (gr d) e))).
      destruct (remove_all_values_fields d1 e) as (E1 & E2 & E3 & E4); [exact Hnix|].
      eapply stored_db_w_same; [exact H2| | | |]; cbn [with_vals gr aliases vals indexes]; rewrite ?E1, ?E2, ?E3, ?E4; reflexivity.
    - split; [split; [exact Hg|reflexivity]|]. split; [lia|].
      eapply frame_trans; [apply frame_refl; exact Hm0|]. eapply frame_trans; [exact F1|]. eapply frame_trans; [exact Fr2|apply frame_refl; exact Hm3].
  Qed.
End Remove.

(* ---------------- the public removal of a NODE without edges and without alias ---------------- *)
Lemma edge_list_zero next fuel : edge_list next fuel 0 = [].
Proof. destruct fuel; reflexivity. Qed.

Lemma node_edges_isolated d n : from (gr d) n = 0%Z -> to (gr d) n = 0%Z -> node_edges d n = [].
Proof.
  intros Ef Et. unfold node_edges, out_edges, in_edges, first_edge_from, first_edge_to. rewrite Ef, Et.
  change (- 0)%Z with 0%Z. rewrite !edge_list_zero. reflexivity.
Qed.

Section RemoveNode.
  Variable fl : bool.

  Theorem so_q_remove_isolated_node_stored root d w h n sp :
    stored_db_w (hp sp) root d w -> so_handles h w -> (0 < n)%Z ->
    so_graph_ok (gr d) -> is_node (gr d) n = true ->
    from (gr d) n = 0%Z -> to (gr d) n = 0%Z -> (1 <= tmeta (gr d) 0)%Z ->
    so_slot_valid (sw_vi w) (zabs_nat n) ->
    (forall x, In x (kvs_get (vals d) n) -> idx_find (indexes d) (fst x) = None) ->
    cwp fl (so_q_remove h n) sp
        (fun r sp' => exists h' w', r = CrOk h' /\
                        stored_db_w (hp sp') root (remove_all_values (fst (remove_node_db d n None)) n) w' /\
                        snd (remove_node_db d n None) = None /\
                        so_handles h' w' /\ sdepth sp' = sdepth sp /\
                        frame (hp sp) (hp sp') (sd_foot root w) (sd_foot root w')).
  Proof.
    intros H Hh Hn OK Nn Ef Et Hc Hslot Hnix. unfold so_q_remove.
    apply cwp_bind. apply hwp_transaction. intros sp0 Hm0 Hd0. cbn [kont].
    destruct (Z.ltb_spec n 0) as [X|_]; [lia|].
    apply cwp_bind. eapply so_remove_isolated_node_stored; [eapply stored_db_w_heq; [exact Hm0|exact H]|exact Hh|exact OK|intros _; auto|].
    intros G' EG s1 sp1 H1 D1 F1. cbn [kont].
    apply cwp_bind. destruct Hh as [Hg Hv]. rewrite Hv.
    change (sw_vh w) with (sw_vh (sd_with_graph w (sw_g w) s1)).
    eapply so_kv_remove_spec; [exact (stored_kvrep _ _ _ _ H1)|rewrite zabs_as_u64; exact Hslot|].
    rewrite zabs_as_u64, <- kvs_remove_model.
    intros vh2 vs2 vi2 vw2 sp2 HK I2 D2 F2. cbn [kont].
    destruct (sd_values_update _ _ root _ _ vh2 vs2 vi2 vw2 _ H1 I2 HK F2) as [H2 Fr2].
    apply cwp_bind. apply hwp_commit; [lia|lia|]. intros sp3 Hm3 Hd3. cbn [kont cwp].
    assert (ER : remove_node_db d n None = (push_undo (with_gr d G') CInsertNode, None)).
    { unfold remove_node_db. rewrite Nn. cbn [negb]. rewrite (node_edges_isolated d n Ef Et). cbn [fold_left]. rewrite EG. reflexivity. }
    exists (so_with_values h vh2), (sd_with_values (sd_with_graph w (sw_g w) s1) vh2 vs2 vi2 vw2).
    split; [reflexivity|]. rewrite ER. cbn [fst snd]. split.
    - eapply stored_db_w_heq; [exact Hm3|].
      set (d1 := push_undo (with_gr d G') CInsertNode).
      destruct (remove_all_values_fields d1 n) as (E1 & E2 & E3 & E4); [exact Hnix|].
      eapply stored_db_w_same; [exact H2| | | |]; cbn [with_vals gr aliases vals indexes]; rewrite ?E1, ?E2, ?E3, ?E4; reflexivity.
    - split; [reflexivity|]. split; [split; [exact Hg|reflexivity]|]. split; [lia|].
      eapply frame_trans; [apply frame_refl; exact Hm0|]. eapply frame_trans; [exact F1|]. eapply frame_trans; [exact Fr2|apply frame_refl; exact Hm3].
  Qed.
End RemoveNode.
