(* InvSimProofs.v — bridge between the two developments about database states:
   the joint invariant `Inv` of C09 / C10 / C11 (DbInvProofs.v: graph wf, aliases a bijection onto
   nodes, no duplicate keys, indexes exact) and the simulation relation `sim` of C13 (UndoDb.v).
   (1) the vocabulary of the two sides agrees (unique keys, unique index keys, existence of ids);
   (2) what Inv gives the C13 primitives: every pair of an existing element is listed in the index
       on its key (`idx_has`, the side condition of the removal / replacement primitives);
   (3) `Inv` is invariant under `sim`, given that the graph is well formed and the alias map is
       structurally a bijection (both are preserved by every undo command, see RollbackInvProofs.v). *)
From Agdb Require Import Bytes BytesProofs DbValue Graph DbModel Search Queries Revisions
  GraphSim GraphWf AliasProofs ImapProofs KvProofs KvDbProofs KvSelectProofs
  IndexProofs IndexDbProofs IndexDb3Proofs IndexDb4Proofs IndexInvProofs DbInvProofs.
From Agdb Require Import UndoBase UndoObs UndoAlias UndoKv UndoGraphBase UndoGraph UndoAbs UndoDb UndoBridge
  UndoStepsKv UndoStepsKv2.
From Coq Require Import Permutation ZifyBool ZifyNat ZifyN.
Ltac Zify.zify_post_hook ::= Z.div_mod_to_equations.
Open Scope Z_scope.

(* ---------- unique keys: the boolean and the NoDup formulation ---------- *)
Lemma has_key_false_iff l k : KvProofs.has_key l k = false <-> ~ UndoKv.has_key l k.
Proof.
  unfold KvProofs.has_key, UndoKv.has_key. induction l as [|y r IH]; cbn [existsb map In]; [tauto|].
  destruct (dbv_eqb_spec (fst y) k) as [E|NE]; cbn [orb].
  - split; [discriminate|intros H; exfalso; apply H; now left].
  - rewrite IH. tauto.
Qed.

Lemma keys_distinct_iff l : keys_distinct l <-> keys_ok l.
Proof.
  unfold keys_ok. induction l as [|x r IH]; cbn [keys_distinct map].
  - split; [constructor|trivial].
  - rewrite NoDup_cons_iff, IH, has_key_false_iff. reflexivity.
Qed.

Lemma mem_false_iff (x : dbvalue) l : mem dbv_eqb x l = false <-> ~ In x l.
Proof.
  induction l as [|y r IH]; cbn [mem In]; [tauto|].
  destruct (dbv_eqb_spec y x) as [E|NE]; cbn [orb].
  - split; [discriminate|intros H; exfalso; apply H; now left].
  - rewrite IH. tauto.
Qed.

Lemma vals_distinct_iff l : vals_distinct l <-> NoDup l.
Proof.
  induction l as [|x r IH]; cbn [vals_distinct].
  - split; [constructor|trivial].
  - rewrite NoDup_cons_iff, IH, mem_false_iff. reflexivity.
Qed.

Lemma idx_distinct_iff d : idx_distinct d <-> idx_ok (indexes d).
Proof. unfold idx_distinct, idx_keys_distinct, idx_ok. apply vals_distinct_iff. Qed.

(* ---------- existence of ids in terms of slot kinds ---------- *)
Lemma is_node_slot_kind g i : is_node g i = match slot_kind g i with KNode => true | _ => false end.
Proof.
  unfold is_node, slot_kind. destruct (valid_index g i); [|reflexivity]. cbn [andb].
  destruct (Z.ltb_spec (from g i) 0); destruct (Z.leb_spec 0 (from g i)); try reflexivity; lia.
Qed.

Lemma is_edge_slot_kind g i : is_edge g i = match slot_kind g i with KEdge _ _ => true | _ => false end.
Proof.
  unfold is_edge, slot_kind. destruct (valid_index g i); [|reflexivity]. cbn [andb].
  destruct (from g i <? 0); reflexivity.
Qed.

Lemma graph_index_kinds g g' : (forall i, slot_kind g i = slot_kind g' i) -> forall i, graph_index g i = graph_index g' i.
Proof.
  intros H i. unfold graph_index. rewrite !is_node_slot_kind, !is_edge_slot_kind, H. reflexivity.
Qed.

(* ---------- (2) Inv gives the index side condition ---------- *)
Lemma length_pos_in {A} (l : list A) : (0 < length l)%nat -> exists x, In x l.
Proof. destruct l as [|x r]; cbn [length]; [lia|]. intros _. exists x. now left. Qed.

Lemma in_length_pos {A} (x : A) (l : list A) : In x l -> (0 < length l)%nat.
Proof. destruct l; cbn [In length]; [tauto|lia]. Qed.

Lemma cntP_pos_in ids P id : (0 < cntP ids P id)%nat -> exists p, In p ids /\ P (fst p) = true /\ snd p = id.
Proof.
  unfold cntP. intros H. apply length_pos_in in H. destruct H as [p Hp].
  apply filter_In in Hp. destruct Hp as [Hin Hb]. apply andb_true_iff in Hb. exists p. split; [exact Hin|]. split; [tauto|lia].
Qed.

Lemma cntK_pos l key P x : In x l -> dbv_eqb (fst x) key = true -> P (snd x) = true -> (0 < cntK l key P)%nat.
Proof.
  intros Hin Hk HP. unfold cntK. apply (in_length_pos x).
  apply filter_In. split; [exact Hin|]. now rewrite Hk, HP.
Qed.

Lemma idx_has_of_exact d id x :
  idx_exact d -> live d id = true -> In x (kvs_get (vals d) id) -> idx_has d id x.
Proof.
  intros He Hl Hin ids Hf.
  pose proof (He (fst x) ids Hf (fun w => dbv_eqb w (snd x)) (respects_eqb (snd x)) id) as Hc.
  rewrite Hl in Hc.
  assert (Hpos : (0 < cntP ids (fun w => dbv_eqb w (snd x)) id)%nat).
  { rewrite Hc. apply (cntK_pos _ _ _ x Hin); apply UndoBase.dbv_eqb_refl. }
  destruct (cntP_pos_in _ _ _ Hpos) as (p & Hp & Hv & Hid).
  apply UndoBase.dbv_eqb_eq in Hv. destruct p as [v i]. cbn [fst snd] in *. subst. exact Hp.
Qed.

Lemma idx_has_all_of_Inv d id : Inv d -> live d id = true -> idx_has_all d id.
Proof. intros Hd Hl x Hx. apply idx_has_of_exact; [apply Hd|exact Hl|exact Hx]. Qed.

(* idx_has_all looks only at values and indexes *)
Lemma idx_has_all_frame d d' id :
  vals d' = vals d -> indexes d' = indexes d -> idx_has_all d id -> idx_has_all d' id.
Proof. intros Ev Ei H x Hx ids Hids. rewrite Ev in Hx. rewrite Ei in Hids. exact (H x Hx ids Hids). Qed.

(* ---------- (3) Inv is invariant under sim ---------- *)
Lemma cntP_perm ids ids' P id : Permutation ids ids' -> cntP ids P id = cntP ids' P id.
Proof. intros H. unfold cntP. apply Permutation_length. now apply Permutation_filter'. Qed.

Lemma cntK_perm l l' key P : Permutation l l' -> cntK l key P = cntK l' key P.
Proof. intros H. unfold cntK. apply Permutation_length. now apply Permutation_filter'. Qed.

Theorem Inv_of_sim d d' :
  Inv d -> UndoDb.sim d' d -> wf (gr d') -> alias_bij d' -> Inv d'.
Proof.
  intros (H1 & H2 & H3 & H4 & (IA & IB & IC)) S Hwf Hbij.
  pose proof (sim_obs_eq _ _ S) as O. destruct O as [Og Ov Oa Ok Oi].
  destruct S as [_ _ (Vk & _ & _) (Ik & _ & _)].
  assert (Hlive : forall i, live d' i = live d i).
  { intros i. unfold live. apply graph_index_kinds. apply (go_kind _ _ Og). }
  split; [exact Hwf|]. split; [exact Hbij|]. split; [|split; [|split; [|split]]].
  - intros a id Ha. rewrite Oa in Ha. destruct (H3 a id Ha) as [Hp Hn]. split; [exact Hp|].
    rewrite is_node_slot_kind in *. now rewrite (go_kind _ _ Og).
  - intros i. apply keys_distinct_iff. apply Vk.
  - intros key ids' Hf P HP id. pose proof (Oi key) as R. rewrite Hf in R.
    destruct (idx_find (indexes d) key) as [ids|] eqn:Ef; cbn [idx_rel] in R; [|contradiction].
    rewrite (cntP_perm _ _ P id R), (IA key ids Ef P HP id), Hlive.
    destruct (live d id); [|reflexivity]. apply cntK_perm. symmetry. apply Ov.
  - intros i Hi Hi'. rewrite Hlive in Hi, Hi'. pose proof (IB i Hi Hi') as E. pose proof (Ov i) as P. rewrite E in P.
    symmetry in P. now apply Permutation_nil in P.
  - apply idx_distinct_iff. exact Ik.
Qed.
