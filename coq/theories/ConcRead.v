(* ConcRead.v — small-step interleaving semantics of `FileStorage::read` (file_storage.rs) for
   n reader threads over an immutable file.  Definitions only (executable, extracted);
   proofs are in ConcReadProofs.v.

     fn read(&self, pos, len) {
         if pos + len > self.len { return Err(OutOfBounds) }                                         // no lock, no system call
         let mut buffer = vec![0; len];
         if let Ok(_guard) = self.lock.try_lock() {  read_impl(&self.file, pos, &mut buffer)?  }   // shared handle
         else                                      {  read_impl(&self.open_file()?, pos, &mut buffer)?  } // private handle
         Ok(buffer) }
     fn read_impl(file, pos, buffer) { file.seek(Start(pos))?; file.read_exact(buffer)?; Ok(()) }

   The shared handle's cursor is shared state.  Every atomic action below is one system call
   (or the try_lock / guard drop); a schedule is a list of thread ids, each entry runs ONE
   action of that thread.  Readers above the byte store (Storage::value_as_bytes, the
   collection loaders, queries) are deterministic programs that issue reads depending on the
   bytes read before: `prog`.  `use_lock = false` is the mutation the lock guards against:
   every thread uses the shared handle without locking. *)
From Agdb Require Import Bytes.
Local Open Scope nat_scope.

(* seek(Start(cur)) followed by read_exact of len bytes on an immutable file (system call level):
   an empty buffer is always filled; otherwise all len bytes must exist (else UnexpectedEof). *)
Definition sys_read (content : bytes) (cur len : nat) : option bytes :=
  if (len =? 0) || (cur + len <=? length content)
  then Some (firstn len (skipn cur content)) else None.

(* `read` first checks the requested range against the file length (`self.len`, immutable while the file is
   only read; fix: dfdbce3 "rejects a range beyond the file before allocating") *)
Definition in_range (content : bytes) (pos len : nat) : bool := pos + len <=? length content.

(* FileStorage::read(pos, len) run alone: OutOfBounds error, or the bytes *)
Definition file_read (content : bytes) (pos len : nat) : option bytes :=
  if in_range content pos len then sys_read content pos len else None.

(* position of a handle after read_exact (a failed read_exact has consumed the rest of the file) *)
Definition cursor_after (content : bytes) (cur len : nat) : nat :=
  if cur + len <=? length content then cur + len else Nat.max cur (length content).

(* a deterministic reader: returns, or reads (pos,len) and continues with the outcome
   (None = the read failed) *)
Inductive prog (A : Type) : Type :=
| Ret (a : A)
| Rd (pos len : nat) (k : option bytes -> prog A).
Arguments Ret {A} a.
Arguments Rd {A} pos len k.

(* the reader run alone *)
Fixpoint run_seq {A} (content : bytes) (p : prog A) : A :=
  match p with
  | Ret a => a
  | Rd pos len k => run_seq content (k (file_read content pos len))
  end.

(* the reads it issues when run alone, with their results *)
Fixpoint seq_trace {A} (content : bytes) (p : prog A) : list (nat * nat * option bytes) :=
  match p with
  | Ret _ => []
  | Rd pos len k => let r := file_read content pos len in (pos, len, r) :: seq_trace content (k r)
  end.

Fixpoint reads_seq {A} (content : bytes) (p : prog A) : nat :=
  match p with
  | Ret _ => 0
  | Rd pos len k => S (reads_seq content (k (file_read content pos len)))
  end.

(* a fixed list of requests; returns the results in order *)
Fixpoint prog_of_reqs (rs : list (nat * nat)) (acc : list (option bytes)) : prog (list (option bytes)) :=
  match rs with
  | [] => Ret (rev acc)
  | (p, l) :: rs' => Rd p l (fun r => prog_of_reqs rs' (r :: acc))
  end.

(* where a thread is inside `read` *)
Inductive pcst : Type :=
| Idle                       (* next: the range check, then try_lock, for the head read of its program *)
| LSeek                      (* took the lock; next: seek on the SHARED handle *)
| LRead                      (* next: read_exact on the shared handle at the shared cursor *)
| LUnlock (r : option bytes) (* has its result; next: drop the guard and return *)
| POpen                      (* try_lock failed; next: open a private handle *)
| PSeek                      (* next: seek on the private handle *)
| PRead (cur : nat).         (* next: read_exact on the private handle (its own cursor) and return *)

Record thread (A : Type) : Type := mkThread { pc : pcst; code : prog A }.
Arguments mkThread {A} pc code.
Arguments pc {A} t.
Arguments code {A} t.

(* a completed read: thread, pos, len, result *)
Definition entry : Type := (nat * nat * nat * option bytes)%type.

Record state (A : Type) : Type := mkState {
  cursor : nat;                 (* cursor of the shared handle *)
  lock : option nat;            (* holder of FileStorage::lock *)
  threads : list (thread A);
  log : list entry              (* completed reads, oldest first *)
}.
Arguments mkState {A} cursor lock threads log.
Arguments cursor {A} s.
Arguments lock {A} s.
Arguments threads {A} s.
Arguments log {A} s.

Fixpoint upd {X} (l : list X) (i : nat) (x : X) : list X :=
  match l, i with
  | [], _ => []
  | _ :: r, O => x :: r
  | y :: r, S i' => y :: upd r i' x
  end.

(* one atomic action of thread t (no-op for an unknown or finished thread) *)
Definition step {A} (use_lock : bool) (content : bytes) (s : state A) (t : nat) : state A :=
  match nth_error (threads s) t with
  | None => s
  | Some th =>
    match code th with
    | Ret _ => s
    | Rd pos len k =>
      let goto p := upd (threads s) t (mkThread p (code th)) in
      let finish r := upd (threads s) t (mkThread Idle (k r)) in
      match pc th with
      | Idle =>
        if negb (in_range content pos len) then
          mkState (cursor s) (lock s) (finish None) (log s ++ [(t, pos, len, None)])
        else if use_lock then
          match lock s with
          | None => mkState (cursor s) (Some t) (goto LSeek) (log s)
          | Some _ => mkState (cursor s) (lock s) (goto POpen) (log s)
          end
        else mkState (cursor s) (lock s) (goto LSeek) (log s)
      | LSeek => mkState pos (lock s) (goto LRead) (log s)
      | LRead =>
        mkState (cursor_after content (cursor s) len) (lock s)
                (goto (LUnlock (sys_read content (cursor s) len))) (log s)
      | LUnlock r =>
        mkState (cursor s) (if use_lock then None else lock s) (finish r) (log s ++ [(t, pos, len, r)])
      | POpen => mkState (cursor s) (lock s) (goto PSeek) (log s)
      | PSeek => mkState (cursor s) (lock s) (goto (PRead pos)) (log s)
      | PRead cur =>
        let r := sys_read content cur len in
        mkState (cursor s) (lock s) (finish r) (log s ++ [(t, pos, len, r)])
      end
    end
  end.

Definition init {A} (cur0 : nat) (ps : list (prog A)) : state A :=
  mkState cur0 None (map (mkThread Idle) ps) [].

Definition run {A} (use_lock : bool) (content : bytes) (s : state A) (sched : list nat) : state A :=
  fold_left (step use_lock content) sched s.

(* the completed reads of thread t, in order *)
Fixpoint tlog (t : nat) (l : list entry) : list (nat * nat * option bytes) :=
  match l with
  | [] => []
  | (u, pos, len, r) :: l' => if u =? t then (pos, len, r) :: tlog t l' else tlog t l'
  end.

(* request-list instance used by the driver *)
Definition init_reqs (cur0 : nat) (reqs : list (list (nat * nat))) : state (list (option bytes)) :=
  init cur0 (map (fun rs => prog_of_reqs rs []) reqs).

(* entry points of the OCaml driver (extract/m_conc.ml) *)
Definition conc_state : Type := state (list (option bytes)).
Definition conc_init (cur0 : nat) (reqs : list (list (nat * nat))) : conc_state := init_reqs cur0 reqs.
Definition conc_step (use_lock : bool) (content : bytes) (s : conc_state) (t : nat) : conc_state :=
  step use_lock content s t.
Definition conc_pc (s : conc_state) (t : nat) : option pcst := option_map pc (nth_error (threads s) t).
Definition conc_lock (s : conc_state) : option nat := lock s.
Definition conc_result (s : conc_state) (t : nat) : option (list (option bytes)) :=
  match nth_error (threads s) t with
  | Some th => match code th with Ret l => Some l | Rd _ _ _ => None end
  | None => None
  end.
