(* CollMapHist.v — proofs (collections, part 11): every history of the MapData interface of a
   storage-backed map (DbMapData: set_state / set_key / set_value / set_len / resize / swap /
   shrink_to_fit / state / key / value / capacity / len), with reloads (DbMapData::from_storage)
   and maintenance of the storage underneath at will, yields the observations of the plain
   table `ct_run`; the reloaded interface stands for the SAME table, so whatever the map
   algorithms of multi_map.rs compute from it (OpenMap.v: functions of the slot list and len)
   is the same. *)
From Agdb Require Import Bytes BytesProofs Records RecordsProofs Storage StorageSpec StorageLayout StorageWp
  StorageRefine StorageProofs Collections CollWp CollBytes CollVecBase CollVecOps CollVec CollVec2 CollElems
  CollSep CollMap OpenMap.
From Coq Require Import ZifyBool ZifyNat ZifyN.
Ltac Zify.zify_post_hook ::= Z.div_mod_to_equations.
Open Scope N_scope.
Arguments N.add : simpl never.
Arguments N.mul : simpl never.
Arguments N.sub : simpl never.
Arguments N.of_nat : simpl never.
Arguments N.to_nat : simpl never.
Arguments N.eqb : simpl never.
Arguments N.ltb : simpl never.
Arguments N.leb : simpl never.
Arguments N.div : simpl never.

Arguments ct_states {K V}. Arguments ct_keys {K V}. Arguments ct_values {K V}. Arguments ct_len {K V}.
Arguments MoSetState {K V}. Arguments MoSetKey {K V}. Arguments MoSetValue {K V}. Arguments MoSetLen {K V}.
Arguments MoResize {K V}. Arguments MoSwap {K V}. Arguments MoShrink {K V}. Arguments MoState {K V}. Arguments MoKey {K V}.
Arguments MoValue {K V}. Arguments MoCapLen {K V}. Arguments MoReload {K V}. Arguments MoMaint {K V}.
Arguments MbUnit {K V}. Arguments MbState {K V}. Arguments MbKey {K V}. Arguments MbVal {K V}. Arguments MbNums {K V}. Arguments MbErr {K V}.

Lemma nth_error_None_len {A} (l : list A) i : nth_error l (N.to_nat i) = None <-> lenN l <= i.
Proof. rewrite nth_error_None. unfold lenN. lia. Qed.

Section MapHist.
  Variables K V : Type.
  Variable EK : cv_elem K.
  Variable EV : cv_elem V.
  Variable LK : elem_law EK.
  Variable LV : elem_law EV.
  Variable kdef : K.
  Variable vdef : V.
  Hypothesis kdef_ok : el_valid LK kdef.
  Hypothesis vdef_ok : el_valid LV vdef.

  Notation mrep := (mrep K V EK EV LK LV).
  Notation msep := (msep K V EK EV LK LV).
  Notation mfoot := (mfoot K V EK EV LK LV).
  Notation tstep := (ct_step K V kdef vdef).
  Notation trun := (ct_run K V kdef vdef).

  Definition mop_ok (o : cm_op K V) : Prop :=
    match o with
    | MoSetKey _ k => el_valid LK k
    | MoSetValue _ v => el_valid LV v
    | MoSetLen n => n < two64
    | MoResize c => 8 + 1 * c < two64 /\ 8 + ce_size EK * c < two64 /\ 8 + ce_size EV * c < two64
    | _ => True
    end.

  Section Spec.
  Variable fl : bool.

  Lemma mfin_ok {A} (p : cprog A) (d : cm_data) (f : A -> cm_data * cm_obs K V) sp (Q : cres (cm_data * cm_obs K V) -> spec -> Prop) :
    cwp fl p sp (fun r sp' => match r with
                              | CrOk a => Q (CrOk (f a)) sp'
                              | CrErr e => Q (CrOk (d, MbErr e)) sp'
                              | CrDead => False
                              end) ->
    cwp fl (r <~ cp_catch p ;; CRet (match r with Datatypes.inl a => f a | Datatypes.inr e => (d, MbErr e) end)) sp Q.
  Proof. intros H. apply cwp_bind. apply cwp_catch. eapply cwp_mono; [|exact H]. intros [a|e|] sp'; cbn [kont cwp]; auto. Qed.

  Lemma cm_step_spec d ss ks vs t o sp (Q : cres (cm_data * cm_obs K V) -> spec -> Prop) :
    mrep (hp sp) d ss ks vs t -> sdepth sp = 0 -> mop_ok o ->
    (forall d' ss' ks' vs' sp', mrep (hp sp') d' ss' ks' vs' (fst (tstep t o)) -> cm_index d' = cm_index d -> sdepth sp' = 0 ->
        frame (hp sp) (hp sp') (mfoot d ss ks vs) (mfoot d' ss' ks' vs') -> Q (CrOk (d', snd (tstep t o))) sp') ->
    cwp fl (cm_step K V EK EV kdef vdef d o) sp Q.
  Proof.
    intros HM Hd Hok HQ. destruct d as [di dl hs0 hk0 hv0]. set (d := {| cm_index := di; cm_len := dl; cm_states := hs0; cm_keys := hk0; cm_values := hv0 |}) in *. pose proof (mr_sep _ _ _ _ _ _ _ _ _ _ _ _ HM) as HS.
    destruct (mr_same _ _ _ _ _ _ _ _ _ _ _ _ HM) as [SK SV]. pose proof (mr_len _ _ _ _ _ _ _ _ _ _ _ _ HM) as HL.
    assert (HQ0 : forall v, v = snd (tstep t o) -> fst (tstep t o) = t -> Q (CrOk (d, v)) sp).
    { intros v -> El. eapply HQ; [rewrite El; exact HM|reflexivity|exact Hd|apply frame_refl; intros j; reflexivity]. }
    destruct t as [ls lk lv ln]. cbn [ct_states ct_keys ct_values ct_len] in *.
    destruct o; cbn [cm_step ct_step fst snd mop_ok ct_states ct_keys ct_values ct_len] in *.
    - (* set_state *)
      apply mfin_ok. unfold cm_set_state. apply cwp_bind.
      eapply cv_replace_spec; [exact (ms_s _ _ _ _ _ _ _ _ _ _ _ _ _ _ HS)|exact I|].
      destruct (nth_error ls (N.to_nat i)) eqn:En.
      + intros ss' sp' HR' Hd' Hf. cbn [kont cwp].
        destruct (N.leb_spec (lenN ls) i) as [X|_]; [apply nth_error_Some_lt in En; unfold lenN in X; lia|]. cbn [fst snd].
        destruct (msep_update_s K V EK EV LK LV _ _ _ _ _ _ _ _ _ _ _ _ HS eq_refl HR' Hf) as [HS' Hf'].
        eapply HQ; [|reflexivity|lia|exact Hf'].
        constructor; cbn [orb fst snd ct_states ct_keys ct_values ct_len]; [exact HS'|exact HL|rewrite cl_upd_length; auto].
      + cbn [kont]. apply nth_error_None_len in En. destruct (N.leb_spec (lenN ls) i); [|lia]. apply HQ0; reflexivity.
    - (* set_key *)
      apply mfin_ok. unfold cm_set_key. apply cwp_bind.
      eapply cv_replace_spec; [exact (ms_k _ _ _ _ _ _ _ _ _ _ _ _ _ _ HS)|exact Hok|].
      destruct (nth_error lk (N.to_nat i)) eqn:En.
      + intros ks' sp' HR' Hd' Hf. cbn [kont cwp].
        destruct (N.leb_spec (lenN lk) i) as [X|_]; [apply nth_error_Some_lt in En; unfold lenN in X; lia|]. cbn [fst snd].
        destruct (msep_update_k K V EK EV LK LV _ _ _ _ _ _ _ _ _ _ _ _ HS eq_refl HR' Hf) as [HS' Hf'].
        eapply HQ; [|reflexivity|lia|exact Hf'].
        constructor; cbn [orb fst snd ct_states ct_keys ct_values ct_len]; [exact HS'|exact HL|rewrite cl_upd_length; auto].
      + cbn [kont]. apply nth_error_None_len in En. destruct (N.leb_spec (lenN lk) i); [|lia]. apply HQ0; reflexivity.
    - (* set_value *)
      apply mfin_ok. unfold cm_set_value. apply cwp_bind.
      eapply cv_replace_spec; [exact (ms_v _ _ _ _ _ _ _ _ _ _ _ _ _ _ HS)|exact Hok|].
      destruct (nth_error lv (N.to_nat i)) eqn:En.
      + intros vs' sp' HR' Hd' Hf. cbn [kont cwp].
        destruct (N.leb_spec (lenN lv) i) as [X|_]; [apply nth_error_Some_lt in En; unfold lenN in X; lia|]. cbn [fst snd].
        destruct (msep_update_v K V EK EV LK LV _ _ _ _ _ _ _ _ _ _ _ _ HS eq_refl HR' Hf) as [HS' Hf'].
        eapply HQ; [|reflexivity|lia|exact Hf'].
        constructor; cbn [orb fst snd ct_states ct_keys ct_values ct_len]; [exact HS'|exact HL|rewrite cl_upd_length; auto].
      + cbn [kont]. apply nth_error_None_len in En. destruct (N.leb_spec (lenN lv) i); [|lia]. apply HQ0; reflexivity.
    - (* set_len *)
      apply mfin_ok. eapply cm_set_len_spec; [exact HS|exact Hok|]. intros sp' HS' Hd' Hf.
      eapply HQ; [|reflexivity|lia|exact Hf]. constructor; cbn [orb fst snd ct_states ct_keys ct_values ct_len]; auto.
    - (* resize: states, keys, values *)
      destruct Hok as (F1 & F2 & F3).
      apply mfin_ok. unfold cm_resize. apply cwp_bind.
      eapply cv_resize_spec; [exact (ms_s _ _ _ _ _ _ _ _ _ _ _ _ _ _ HS)|exact I|exact F1|].
      intros hs ss' sp1 R1 I1 D1 Fr1. cbn [kont].
      destruct (msep_update_s K V EK EV LK LV _ _ _ _ _ _ _ _ _ _ _ _ HS I1 R1 Fr1) as [HS1 Ff1].
      apply cwp_bind.
      eapply cv_resize_spec; [exact (ms_k _ _ _ _ _ _ _ _ _ _ _ _ _ _ HS1)|exact kdef_ok|exact F2|].
      intros hk ks' sp2 R2 I2 D2 Fr2. cbn [kont].
      destruct (msep_update_k K V EK EV LK LV _ _ _ _ _ _ _ _ _ _ _ _ HS1 I2 R2 Fr2) as [HS2 Ff2].
      apply cwp_bind.
      eapply cv_resize_spec; [exact (ms_v _ _ _ _ _ _ _ _ _ _ _ _ _ _ HS2)|exact vdef_ok|exact F3|].
      intros hv vs' sp3 R3 I3 D3 Fr3. cbn [kont cwp].
      destruct (msep_update_v K V EK EV LK LV _ _ _ _ _ _ _ _ _ _ _ _ HS2 I3 R3 Fr3) as [HS3 Ff3].
      eapply HQ; [|reflexivity|lia|eapply frame_trans; [exact Ff1|eapply frame_trans; [exact Ff2|exact Ff3]]].
      constructor; cbn [orb fst snd ct_states ct_keys ct_values ct_len]; [exact HS3|exact HL|rewrite !cl_resize_length; auto].
    - (* swap *)
      apply mfin_ok. unfold cm_swap.
      destruct (N.eqb_spec i j) as [Eij|Nij].
      + subst j. unfold cv_swap. rewrite N.eqb_refl. cbn [cbind cwp]. apply HQ0; reflexivity.
      + apply cwp_bind. eapply cv_swap_spec; [exact (ms_s _ _ _ _ _ _ _ _ _ _ _ _ _ _ HS)|].
        destruct (N.eqb_spec i j); [contradiction|].
        destruct (nth_error ls (N.to_nat i)) as [sa|] eqn:Ei; [destruct (nth_error ls (N.to_nat j)) as [sb|] eqn:Ej|].
        * (* both in range: the three swaps succeed *)
          assert (Li : (N.to_nat i < length ls)%nat) by (eapply nth_error_Some_lt; eauto).
          assert (Lj : (N.to_nat j < length ls)%nat) by (eapply nth_error_Some_lt; eauto).
          destruct (N.leb_spec (lenN ls) i) as [X|_]; [unfold lenN in X; lia|].
          destruct (N.leb_spec (lenN ls) j) as [X|_]; [unfold lenN in X; lia|]. cbn [orb fst snd].
          destruct (nth_error_lt_Some lk (N.to_nat i)) as (ka & Eki); [lia|]. destruct (nth_error_lt_Some lk (N.to_nat j)) as (kb & Ekj); [lia|].
          destruct (nth_error_lt_Some lv (N.to_nat i)) as (va & Evi); [lia|]. destruct (nth_error_lt_Some lv (N.to_nat j)) as (vb & Evj); [lia|].
          rewrite ?Ei, ?Ej, ?Eki, ?Ekj, ?Evi, ?Evj in HQ.
          intros ss' sp1 R1 D1 Fr1. cbn [kont].
          destruct (msep_update_s K V EK EV LK LV _ _ _ _ _ _ _ _ _ _ _ _ HS eq_refl R1 Fr1) as [HS1 Ff1].
          apply cwp_bind. eapply cv_swap_spec; [exact (ms_k _ _ _ _ _ _ _ _ _ _ _ _ _ _ HS1)|].
          destruct (N.eqb_spec i j); [contradiction|]. rewrite Eki, Ekj.
          intros ks' sp2 R2 D2 Fr2. cbn [kont].
          destruct (msep_update_k K V EK EV LK LV _ _ _ _ _ _ _ _ _ _ _ _ HS1 eq_refl R2 Fr2) as [HS2 Ff2].
          eapply cv_swap_spec; [exact (ms_v _ _ _ _ _ _ _ _ _ _ _ _ _ _ HS2)|].
          destruct (N.eqb_spec i j); [contradiction|]. rewrite Evi, Evj.
          intros vs' sp3 R3 D3 Fr3.
          destruct (msep_update_v K V EK EV LK LV _ _ _ _ _ _ _ _ _ _ _ _ HS2 eq_refl R3 Fr3) as [HS3 Ff3].
          eapply HQ; [|reflexivity|lia|eapply frame_trans; [exact Ff1|eapply frame_trans; [exact Ff2|exact Ff3]]].
          constructor; cbn [orb fst snd ct_states ct_keys ct_values ct_len]; [exact HS3|exact HL|rewrite !cl_upd_length; auto].
        * apply nth_error_None_len in Ej. destruct (N.leb_spec (lenN ls) j); [|lia]. cbn [kont]. rewrite orb_true_r in HQ0. apply HQ0; reflexivity.
        * apply nth_error_None_len in Ei. destruct (N.leb_spec (lenN ls) i); [|lia]. cbn [kont]. apply HQ0; reflexivity.
    - (* shrink_to_fit *)
      apply mfin_ok. unfold cm_shrink_to_fit. apply cwp_bind.
      eapply cv_shrink_spec; [exact (ms_s _ _ _ _ _ _ _ _ _ _ _ _ _ _ HS)|]. intros hs sp1 R1 I1 D1 Fr1. cbn [kont].
      destruct (msep_update_s K V EK EV LK LV _ _ _ _ _ _ _ _ _ _ _ _ HS I1 R1 Fr1) as [HS1 Ff1].
      apply cwp_bind.
      eapply cv_shrink_spec; [exact (ms_k _ _ _ _ _ _ _ _ _ _ _ _ _ _ HS1)|]. intros hk sp2 R2 I2 D2 Fr2. cbn [kont].
      destruct (msep_update_k K V EK EV LK LV _ _ _ _ _ _ _ _ _ _ _ _ HS1 I2 R2 Fr2) as [HS2 Ff2].
      apply cwp_bind.
      eapply cv_shrink_spec; [exact (ms_v _ _ _ _ _ _ _ _ _ _ _ _ _ _ HS2)|]. intros hv sp3 R3 I3 D3 Fr3. cbn [kont cwp].
      destruct (msep_update_v K V EK EV LK LV _ _ _ _ _ _ _ _ _ _ _ _ HS2 I3 R3 Fr3) as [HS3 Ff3].
      eapply HQ; [|reflexivity|lia|eapply frame_trans; [exact Ff1|eapply frame_trans; [exact Ff2|exact Ff3]]].
      constructor; cbn [orb fst snd ct_states ct_keys ct_values ct_len]; auto.
    - (* state *)
      apply mfin_ok. unfold cm_state. eapply cv_value_spec; [exact (ms_s _ _ _ _ _ _ _ _ _ _ _ _ _ _ HS)|].
      destruct (nth_error ls (N.to_nat i)); cbn [fst snd]; apply HQ0; reflexivity.
    - (* key *)
      apply mfin_ok. unfold cm_key. eapply cv_value_spec; [exact (ms_k _ _ _ _ _ _ _ _ _ _ _ _ _ _ HS)|].
      destruct (nth_error lk (N.to_nat i)); cbn [fst snd]; apply HQ0; reflexivity.
    - (* value *)
      apply mfin_ok. unfold cm_value. eapply cv_value_spec; [exact (ms_v _ _ _ _ _ _ _ _ _ _ _ _ _ _ HS)|].
      destruct (nth_error lv (N.to_nat i)); cbn [fst snd]; apply HQ0; reflexivity.
    - (* capacity, len *)
      cbn [cwp]. unfold cm_capacity. rewrite (vr_len _ _ _ _ _ _ _ (ms_s _ _ _ _ _ _ _ _ _ _ _ _ _ _ HS)). rewrite HL. apply HQ0; reflexivity.
    - (* reload *)
      apply mfin_ok. eapply cm_from_storage_spec; [exact HS|]. intros d' HS' Ii Il Ic Ef.
      eapply HQ; [|exact Ii|exact Hd|rewrite Ef; apply frame_refl; intros j; reflexivity].
      constructor; cbn [orb fst snd ct_states ct_keys ct_values ct_len]; [exact HS'|congruence|auto].
    - (* maintenance of the storage *)
      destruct (cv_is_maint o) eqn:Em.
      + apply mfin_ok. apply hwp_maint; [exact Em|exact Hd|]. intros sp' Hm Hd'.
        eapply HQ; [|reflexivity|exact Hd'|apply frame_refl; exact Hm].
        constructor; cbn [orb fst snd ct_states ct_keys ct_values ct_len]; [eapply msep_heq; [exact HS|exact Hm]|exact HL|auto].
      + cbn [cwp]. apply HQ0; reflexivity.
  Qed.

  Lemma ct_run_cons (t : cm_table K V) o l :
    trun t (o :: l) = (fst (trun (fst (tstep t o)) l), snd (tstep t o) :: snd (trun (fst (tstep t o)) l)).
  Proof. cbn [ct_run]. destruct (ct_step K V kdef vdef t o) as [t1 v]. cbn [fst snd]. destruct (ct_run K V kdef vdef t1 l). reflexivity. Qed.

  Theorem cm_run_spec : forall ops d ss ks vs t sp (Q : cres (cm_data * list (cm_obs K V)) -> spec -> Prop),
    mrep (hp sp) d ss ks vs t -> sdepth sp = 0 -> Forall mop_ok ops ->
    (forall d' ss' ks' vs' sp', mrep (hp sp') d' ss' ks' vs' (fst (trun t ops)) -> cm_index d' = cm_index d -> sdepth sp' = 0 ->
        frame (hp sp) (hp sp') (mfoot d ss ks vs) (mfoot d' ss' ks' vs') -> Q (CrOk (d', snd (trun t ops))) sp') ->
    cwp fl (cm_run K V EK EV kdef vdef d ops) sp Q.
  Proof.
    induction ops as [|o l IH]; intros d ss ks vs t sp Q HM Hd Hok HQ.
    - cbn [cm_run cwp]. eapply HQ; [exact HM|reflexivity|exact Hd|]. apply frame_refl. intros j; reflexivity.
    - inversion Hok as [|? ? Ho Hl]; subst. rewrite ct_run_cons in HQ. cbn [fst snd] in HQ. cbn [cm_run]. apply cwp_bind.
      eapply cm_step_spec; [exact HM|exact Hd|exact Ho|].
      intros d1 ss1 ks1 vs1 sp1 HM1 Hi1 Hd1 Hf1. cbn [kont fst snd].
      apply cwp_bind. eapply IH; [exact HM1|exact Hd1|exact Hl|].
      intros d2 ss2 ks2 vs2 sp2 HM2 Hi2 Hd2 Hf2. cbn [kont cwp fst snd].
      eapply HQ; [exact HM2|congruence|exact Hd2|]. eapply frame_trans; eassumption.
  Qed.
  End Spec.

  Definition ct_empty : cm_table K V := {| ct_states := []; ct_keys := []; ct_values := []; ct_len := 0 |}.

  (* ---------------- on the model of storage.rs ---------------- *)
  Theorem cm_history_on_storage (ops : store_ops cdata) (fl : bool) : kind ops fl ->
    forall (l : list (cm_op K V)), Forall mop_ok l ->
    let r := cp_run (st_step cdata ops) (d <~ cm_new ;; cm_run K V EK EV kdef vdef d l) s_init in
    snd r = CrDead \/
    exists d' sp' ss ks vs,
      snd r = CrOk (d', snd (trun ct_empty l)) /\
      Rel (fst r) sp' /\ mrep (hp sp') d' ss ks vs (fst (trun ct_empty l)).
  Proof.
    intros Kd l Hok r.
    destruct (cwp_sound ops fl Kd (d <~ cm_new ;; cm_run K V EK EV kdef vdef d l) s_init spec_init
               (fun r sp' => exists d' ss ks vs, r = CrOk (d', snd (trun ct_empty l)) /\ mrep (hp sp') d' ss ks vs (fst (trun ct_empty l)))
               Rel_init) as [D|(sp' & RL & d' & ss & ks & vs & Er & HR)].
    - apply cwp_bind. apply (cm_new_spec K V EK EV LK LV fl). intros d sp1 HS Hl Hd1 _ _. cbn [kont].
      eapply (cm_run_spec fl l d [] [] [] ct_empty); [|exact Hd1|exact Hok|].
      + constructor; cbn [ct_empty ct_states ct_keys ct_values ct_len]; [exact HS|exact Hl|auto].
      + intros d' ss ks vs sp' HM _ _ _. exists d', ss, ks, vs. auto.
    - left. exact D.
    - right. exists d', sp', ss, ks, vs. auto.
  Qed.
End MapHist.

(* ---------------- the table as the slot list of OpenMap.v ---------------- *)
Section Slots.
  Variables K V : Type.
  Variable kdef : K.
  Variable vdef : V.

  Fixpoint ct_slots (ls : list cm_st) (lk : list K) (lv : list V) : list (slot K V) :=
    match ls, lk, lv with
    | s :: ls', k :: lk', v :: lv' =>
      (match s with StEmpty => Empty | StDeleted => Deleted | StValid => Valid k v end) :: ct_slots ls' lk' lv'
    | _, _, _ => []
    end.

  (* the open-addressing map the interface stands for: every lookup and iteration of OpenMap.v is a
     function of this value, hence of the table alone *)
  Definition ct_omap (t : cm_table K V) : omap K V :=
    {| slots := ct_slots (ct_states t) (ct_keys t) (ct_values t); len := N.to_nat (ct_len t) |}.
End Slots.
