(* StoredDbOpsKv.v — proofs (stored database, part 12): DbKeyValues (db_key_value.rs) as programs over the storage
   (StoredDbOps.v): the vector of element slots + the elements' DbVec<DbKeyValue>.

     kvrep g vh vs vi vw kvs   the values component of stored_db on its own: the slot vector (vrep for u64), one
                               DbVec<DbKeyValue> per non-zero slot (sd_kv_rep), pairwise distinct footprints
     kv_step_vec / kv_step_slot  an operation on the slot vector / on one element's vector under a frame
     so_kv_open_slot_spec      grow the slot vector up to the index (new slots 0), create the element's vector when the
                               slot is 0 (DbVec::new + replace of the slot) or rebuild its handle (from_storage)
     so_kv_insert_value_spec   = DbModel.kvs_insert_value          so_kv_reserve_capacity_spec = DbModel.kvs_reserve *)
From Coq Require Import Permutation.
From Agdb Require Import Bytes BytesProofs Utf8 Codec DbValue ValueIndex Graph DbModel Records RecordsProofs Storage StorageSpec
  StorageLayout Collections CollValues CollWp CollBytes CollVecBase CollVecOps CollVec CollVec2 CollElems CollSep CollMap
  CollGraph CollValuesProofs StoredDb StoredDbRep StoredDbLoad StoredDbFrame StoredDbOps.
From Coq Require Import ZifyBool ZifyNat ZifyN.
Ltac Zify.zify_post_hook ::= Z.div_mod_to_equations.
Open Scope N_scope.
Arguments N.add : simpl never.
Arguments N.mul : simpl never.
Arguments N.sub : simpl never.
Arguments N.of_nat : simpl never.
Arguments N.to_nat : simpl never.
Arguments N.eqb : simpl never.
Arguments N.ltb : simpl never.
Arguments N.leb : simpl never.
Arguments N.div : simpl never.

Notation vrepU := (vrep N ce_u64 law_u64).
Notation footU := (foot N ce_u64 law_u64).
Notation vrepK := (vrep kv ce_dbkv law_dbkv).
Notation footK := (foot kv ce_dbkv law_dbkv).
Notation kvslot := (option (cv_vec * list bytes))%type.

(* ---------------- lists ---------------- *)
Definition kvs_pad (s : kvstore) (n : nat) : kvstore := s ++ repeat [] (S n - length s).

Lemma kvs_set_nth_pad : forall n (s : kvstore) v, kvs_set_nth (kvs_pad s n) n v = kvs_set_nth s n v.
Proof.
  unfold kvs_pad. induction n as [|n IH]; intros [|x t] v; cbn [length Nat.sub repeat app kvs_set_nth].
  - reflexivity.
  - rewrite app_nil_r. reflexivity.
  - f_equal. specialize (IH [] v). cbn [length app] in IH. rewrite Nat.sub_0_r in IH. exact IH.
  - f_equal. apply IH.
Qed.

Lemma kvs_pad_length s n : (n < length (kvs_pad s n))%nat.
Proof. unfold kvs_pad. rewrite app_length, repeat_length. lia. Qed.

Lemma kvs_pad_nth s n : nth n (kvs_pad s n) [] = nth n s [].
Proof.
  unfold kvs_pad. destruct (Nat.lt_ge_cases n (length s)) as [H|H].
  - rewrite app_nth1 by exact H. reflexivity.
  - rewrite app_nth2 by exact H. rewrite (nth_overflow s) by exact H.
    destruct (nth_in_or_default (n - length s) (repeat (@nil kv) (S n - length s)) []) as [I|E]; [|exact E].
    apply repeat_spec in I. exact I.
Qed.

Lemma kvs_pad_in s n : (n < length s)%nat -> kvs_pad s n = s.
Proof. intros H. unfold kvs_pad. replace (S n - length s)%nat with 0%nat by lia. apply app_nil_r. Qed.

Lemma kvs_set_nth_mid (ka : kvstore) l kb v : kvs_set_nth (ka ++ l :: kb) (length ka) v = ka ++ v :: kb.
Proof. induction ka as [|x t IH]; cbn [app length kvs_set_nth]; [reflexivity|rewrite IH; reflexivity]. Qed.

Lemma nth_mid {A} (a : list A) x b d : nth (length a) (a ++ x :: b) d = x.
Proof. rewrite app_nth2 by lia. rewrite Nat.sub_diag. reflexivity. Qed.

Lemma nth_error_mid {A} (a : list A) x b : nth_error (a ++ x :: b) (length a) = Some x.
Proof. rewrite nth_error_app2 by lia. rewrite Nat.sub_diag. reflexivity. Qed.

Lemma cl_upd_mid {A} (a : list A) x b y : cl_upd (a ++ x :: b) (length a) y = a ++ y :: b.
Proof. induction a as [|z t IH]; cbn [app length cl_upd]; [reflexivity|rewrite IH; reflexivity]. Qed.

Lemma split_at {A} (l : list A) n : (n < length l)%nat -> exists a x b, l = a ++ x :: b /\ length a = n.
Proof.
  revert l. induction n as [|n IH]; intros [|y t] H; cbn [length] in H; try lia.
  - exists [], y, t. split; reflexivity.
  - destruct (IH t) as (a & x & b & -> & <-); [lia|]. exists (y :: a), x, b. split; reflexivity.
Qed.

(* ---------------- the footprint of the element vectors ---------------- *)
Definition slotfoot (w : kvslot) : list N := match w with None => [] | Some (h, bss) => footK h bss end.

Lemma sd_kv_foot_cons w r : sd_kv_foot (w :: r) = slotfoot w ++ sd_kv_foot r.
Proof. destruct w as [[h bss]|]; reflexivity. Qed.

Lemma sd_kv_foot_app a b : sd_kv_foot (a ++ b) = sd_kv_foot a ++ sd_kv_foot b.
Proof. induction a as [|w r IH]; [reflexivity|]. cbn [app]. rewrite !sd_kv_foot_cons, IH, app_assoc. reflexivity. Qed.

Lemma sd_kv_foot_mid a w b : sd_kv_foot (a ++ w :: b) = sd_kv_foot a ++ slotfoot w ++ sd_kv_foot b.
Proof. rewrite sd_kv_foot_app, sd_kv_foot_cons. reflexivity. Qed.

Lemma sd_kv_foot_none k : sd_kv_foot (repeat None k) = [].
Proof. induction k as [|k IH]; [reflexivity|exact IH]. Qed.

Lemma sd_kv_rep_lengths g : forall vi vw kvs, sd_kv_rep g vi vw kvs -> length vw = length vi /\ length kvs = length vi.
Proof.
  induction vi as [|i r IH]; intros [|w ws] [|l kvs] H; cbn [sd_kv_rep] in H; try contradiction; [split; reflexivity|].
  destruct H as [_ Hr]. destruct (IH _ _ Hr). cbn [length]. split; congruence.
Qed.

Lemma sd_kv_rep_app g : forall ia a ka ib b kb,
  sd_kv_rep g ia a ka -> sd_kv_rep g ib b kb -> sd_kv_rep g (ia ++ ib) (a ++ b) (ka ++ kb).
Proof.
  induction ia as [|i r IH]; intros [|w ws] [|l kvs] ib b kb H1 H2; cbn [sd_kv_rep app] in *; try contradiction; [exact H2|].
  destruct H1 as [Hs Hr]. split; [exact Hs|]. apply IH; assumption.
Qed.

Lemma sd_kv_rep_split g : forall ia a ka ib b kb,
  length a = length ia -> length ka = length ia ->
  sd_kv_rep g (ia ++ ib) (a ++ b) (ka ++ kb) -> sd_kv_rep g ia a ka /\ sd_kv_rep g ib b kb.
Proof.
  induction ia as [|i r IH]; intros [|w ws] [|l kvs] ib b kb L1 L2 H; cbn [length] in *; try lia; cbn [app sd_kv_rep] in *.
  - split; [exact I|exact H].
  - destruct H as [Hs Hr]. destruct (IH ws kvs ib b kb) as [A B]; [lia|lia|exact Hr|]. split; [split; assumption|exact B].
Qed.

Lemma sd_kv_rep_none g k : sd_kv_rep g (repeat 0 k) (repeat None k) (repeat [] k).
Proof. induction k as [|k IH]; cbn [repeat sd_kv_rep]; [exact I|]. split; [split; reflexivity|exact IH]. Qed.

(* the decomposition at a position *)
Lemma sd_kv_rep_at g vi vw kvs n :
  sd_kv_rep g vi vw kvs -> (n < length kvs)%nat ->
  exists ia i ib a w b ka l kb,
    vi = ia ++ i :: ib /\ vw = a ++ w :: b /\ kvs = ka ++ l :: kb /\ length ia = n /\ length a = n /\ length ka = n /\
    sd_kv_rep g ia a ka /\ sd_kv_slot_rep g i w l /\ sd_kv_rep g ib b kb.
Proof.
  intros H Hn. destruct (sd_kv_rep_lengths _ _ _ _ H) as [L1 L2].
  destruct (split_at vi n) as (ia & i & ib & -> & Lia); [lia|].
  destruct (split_at vw n) as (a & w & b & -> & La); [lia|].
  destruct (split_at kvs n) as (ka & l & kb & -> & Lka); [lia|].
  exists ia, i, ib, a, w, b, ka, l, kb. repeat (split; [first [reflexivity|assumption]|]).
  destruct (sd_kv_rep_split g ia a ka (i :: ib) (w :: b) (l :: kb)) as [A B]; [lia|lia|exact H|].
  cbn [sd_kv_rep] in B. destruct B as [Bs Br]. split; [exact A|]. split; assumption.
Qed.

Lemma sd_kv_rep_mid g ia i ib a w b ka l kb :
  sd_kv_rep g ia a ka -> sd_kv_slot_rep g i w l -> sd_kv_rep g ib b kb ->
  sd_kv_rep g (ia ++ i :: ib) (a ++ w :: b) (ka ++ l :: kb).
Proof. intros A S B. apply sd_kv_rep_app; [exact A|]. cbn [sd_kv_rep]. split; assumption. Qed.

Lemma ownedU bss : owned N ce_u64 law_u64 bss = [].
Proof. unfold owned. induction bss as [|b r IH]; [reflexivity|]. cbn [flat_map]. rewrite IH. reflexivity. Qed.

Lemma footU_eq h bss : footU h bss = [cv_index h].
Proof. unfold foot. rewrite ownedU. reflexivity. Qed.

(* ---------------- the values component ---------------- *)
Definition kvfoot (vh : cv_vec) (vs : list bytes) (vw : list kvslot) : list N := footU vh vs ++ sd_kv_foot vw.

Record kvrep (g : heap) (vh : cv_vec) (vs : list bytes) (vi : list N) (vw : list kvslot) (kvs : kvstore) : Prop := {
  kr_vec : vrepU g vh vs vi;
  kr_kv : sd_kv_rep g vi vw kvs;
  kr_nodup : NoDup (kvfoot vh vs vw)
}.

Lemma kvrep_live g vh vs vi vw kvs : kvrep g vh vs vi vw kvs -> live_all g (kvfoot vh vs vw).
Proof.
  intros [A B _]. apply live_all_app. split; [eapply vrep_live; exact A|eapply sd_kv_live; exact B].
Qed.

Lemma kvrep_heq g g' vh vs vi vw kvs : kvrep g vh vs vi vw kvs -> heq g' g -> kvrep g' vh vs vi vw kvs.
Proof.
  intros [A B C] Hm. constructor; [eapply vrep_heq; eauto| |exact C].
  eapply sd_transport_kv; [exact B|]. intros j _. apply Hm.
Qed.

(* an operation on the slot vector under a frame *)
Lemma kv_step_vec g g' vh vs vi vw kvs vh' vs' vi' :
  kvrep g vh vs vi vw kvs -> vrepU g' vh' vs' vi' -> frame g g' (footU vh vs) (footU vh' vs') ->
  sd_kv_rep g' vi vw kvs /\ NoDup (kvfoot vh' vs' vw) /\ frame g g' (kvfoot vh vs vw) (kvfoot vh' vs' vw).
Proof.
  intros H HR' Hf. pose proof H as [A B C]. unfold kvfoot in *.
  destruct (sep_update g g' [] _ _ (sd_kv_foot vw) Hf C) as (N' & F' & Same).
  { cbn [app]. eapply sd_kv_live. exact B. }
  { eapply vrep_nodup. exact HR'. }
  cbn [app] in *. split; [|split; assumption].
  eapply sd_transport_kv; [exact B|]. exact Same.
Qed.

(* an operation on one element's vector under a frame: F' replaces the slot's footprint *)
Lemma kv_step_slot g g' vh vs ia i ib a w b ka l kb F' :
  kvrep g vh vs (ia ++ i :: ib) (a ++ w :: b) (ka ++ l :: kb) ->
  length a = length ia -> length ka = length ia ->
  frame g g' (slotfoot w) F' -> NoDup F' ->
  vrepU g' vh vs (ia ++ i :: ib) /\ sd_kv_rep g' ia a ka /\ sd_kv_rep g' ib b kb /\
  NoDup (footU vh vs ++ sd_kv_foot a ++ F' ++ sd_kv_foot b) /\
  frame g g' (kvfoot vh vs (a ++ w :: b)) (footU vh vs ++ sd_kv_foot a ++ F' ++ sd_kv_foot b).
Proof.
  intros H La Lka Hf NF'. pose proof H as [A B C]. unfold kvfoot in *. rewrite sd_kv_foot_mid in *.
  destruct (sd_kv_rep_split g ia a ka (i :: ib) (w :: b) (l :: kb) La Lka B) as [Ba Bb]. cbn [sd_kv_rep] in Bb. destruct Bb as [Bs Bb].
  rewrite app_assoc in C.
  destruct (sep_update g g' (footU vh vs ++ sd_kv_foot a) _ _ (sd_kv_foot b) Hf C) as (N' & Fr & Same).
  { apply live_all_app. split; [apply live_all_app; split; [eapply vrep_live; exact A|eapply sd_kv_live; exact Ba]|eapply sd_kv_live; exact Bb]. }
  { exact NF'. }
  rewrite <- !app_assoc in N', Fr. rewrite <- app_assoc in C.
  split; [|split; [|split; [|split]]].
  - eapply vrep_transport; [exact A|]. intros j Hj. apply Same. apply in_or_app. left. apply in_or_app. left. exact Hj.
  - eapply sd_transport_kv; [exact Ba|]. intros j Hj. apply Same. apply in_or_app. left. apply in_or_app. right. exact Hj.
  - eapply sd_transport_kv; [exact Bb|]. intros j Hj. apply Same. apply in_or_app. right. exact Hj.
  - exact N'.
  - rewrite <- !app_assoc in Fr. exact Fr.
Qed.
