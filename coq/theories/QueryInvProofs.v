(* QueryInvProofs.v — every mutating query of Queries.v keeps the combined invariant `Inv`
   (whatever its outcome: the partial state left by a failing query satisfies it too), hence so do
   committed queries and transactions.  The traversal searches (breadth/depth first, path) enter
   through one hypothesis: the ids they return exist (`search_live`). *)
From Agdb Require Import Bytes BytesProofs DbValue Graph DbModel Search Queries Revisions
  GraphArr GraphSim GraphProofs GraphRemove GraphSpec GraphWf GraphC08 GraphLive DbCascadeProofs
  AssocProofs ImapProofs DbFrameProofs AliasProofs AliasQueryProofs DbValueEqProofs KvProofs KvDbProofs KvSelectProofs
  IndexProofs IndexDbProofs IndexDb2Proofs IndexDb3Proofs IndexDb4Proofs IndexInvProofs
  DbInvProofs DbInvRemoveProofs QStepProofs.
From Coq Require Import ZifyBool.
Open Scope Z_scope.

(* the property's quantifier: keys within one insert list are distinct *)
Definition qvalues_ok (v : qvalues) : Prop :=
  match v with Single l => keys_distinct l | Multi ls => Forall keys_distinct ls end.
Definition query_ok (q : query) : Prop :=
  match q with
  | InsertNodes _ v _ _ => qvalues_ok v
  | InsertEdges _ _ v _ _ => qvalues_ok v
  | InsertValues _ v => qvalues_ok v
  | _ => True
  end.

(* every id returned by a search denotes an existing element *)
Definition search_live (rv : revision) : Prop :=
  forall d s ids, Inv d -> search rv d s = SOk ids -> forall id, In id ids -> live d id = true.

Lemma in_combine_both {A B} (l1 : list A) (l2 : list B) x y : In (x, y) (combine l1 l2) -> In x l1 /\ In y l2.
Proof. intros H. split; [eapply in_combine_l|eapply in_combine_r]; exact H. Qed.

Lemma Forall_repeat {A} (P : A -> Prop) x n : P x -> Forall P (repeat x n).
Proof. intros H. induction n; cbn [repeat]; constructor; assumption. Qed.

Section QueryInv.
  Variable rv : revision.
  Hypothesis Hsearch : search_live rv.
  Hypothesis Hfix : fix_alias_nodes_only rv = true.

  Lemma resolve_all_live d l ids : alias_nodes d -> resolve_all d l = ROk ids -> forall id, In id ids -> live d id = true.
  Proof.
    intros Hn. revert ids. induction l as [|q l IH]; intros ids; cbn [resolve_all].
    - intros H. inversion H. intros id [].
    - destruct (db_id d q) as [i|e] eqn:E; [|discriminate].
      destruct (resolve_all d l) as [r|e]; [|discriminate]. intros H. inversion H; subst.
      intros id [<-|Hin]; [now apply (db_id_live d q)|now apply (IH r)].
  Qed.

  Lemma resolve_ids_live d ids l : Inv d -> resolve_ids rv d ids = SOk l -> forall id, In id l -> live d id = true.
  Proof.
    intros Hd. destruct ids as [ql|s]; cbn [resolve_ids].
    - destruct (resolve_all d ql) as [r|e] eqn:E; [|discriminate]. intros H. inversion H; subst.
      apply (resolve_all_live d ql); [apply Hd|exact E].
    - intros H. now apply (Hsearch d s).
  Qed.

  Lemma edge_db_ids_live d ids l : Inv d -> edge_db_ids rv d ids = SOk l -> forall id, In id l -> live d id = true.
  Proof.
    intros Hd. destruct ids as [ql|s]; cbn [edge_db_ids].
    - destruct (resolve_all d ql) as [r|e] eqn:E; [|discriminate]. intros H. inversion H; subst.
      apply (resolve_all_live d ql); [apply Hd|exact E].
    - destruct (search rv d s) as [r|e|] eqn:E; try discriminate. intros H. inversion H; subst.
      intros id Hin. apply filter_In in Hin. now apply (Hsearch d s r Hd E).
  Qed.

  Definition same_gr (d a : db) : Prop := gr a = gr d.
  Definition mono (d a : db) : Prop := forall j, live d j = true -> live a j = true.

  Lemma same_gr_live d a j : same_gr d a -> live a j = live d j.
  Proof. intros H. unfold live. now rewrite H. Qed.

  (* ---------- the per-element steps ---------- *)
  Lemma insert_kvs_replace_step d a id kvs :
    Inv a -> same_gr d a -> live d id = true ->
    Inv (insert_kvs_replace a id kvs) /\ same_gr d (insert_kvs_replace a id kvs).
  Proof.
    intros Ha Hg Hl. split.
    - apply insert_kvs_replace_Inv; [exact Ha|]. now rewrite (same_gr_live d a).
    - unfold same_gr. rewrite <- Hg. unfold insert_kvs_replace.
      apply (fold_left_inv (fun x => gr x = gr a)); [reflexivity|].
      intros b x _ Hb. now rewrite (proj1 (insert_or_replace_key_value_ga b id x)).
  Qed.

  Lemma insert_values_new_Inv a acc alias kvs :
    Inv a -> keys_distinct kvs ->
    Inv (fst (insert_values_new a acc alias kvs)) /\ mono a (fst (insert_values_new a acc alias kvs)).
  Proof.
    intros Ha Hk. unfold insert_values_new.
    pose proof (insert_node_db_Inv a Ha) as H. destruct (insert_node_db a) as [id a1]. cbn [fst snd] in H.
    destruct H as (Ha1 & Hp & Hl & He & Hm).
    set (a2 := match alias with Some al => insert_new_alias a1 id al | None => a1 end).
    assert (Ha2 : Inv a2 /\ gr a2 = gr a1 /\ vals a2 = vals a1).
    { unfold a2. destruct alias as [al|]; [|auto]. split; [now apply insert_new_alias_Inv|split; reflexivity]. }
    destruct Ha2 as (Ha2 & Hg2 & Hv2). cbn [fst]. split.
    - apply insert_kvs_new_Inv; [exact Ha2| | |exact Hk].
      + unfold live. rewrite Hg2. exact Hl.
      + rewrite Hv2. exact He.
    - intros j Hj. unfold live. rewrite (proj1 (insert_kvs_new_ga a2 id kvs)), Hg2. now apply Hm.
  Qed.

  (* ---------- insert nodes ---------- *)
  Lemma insert_nodes_Inv d count values als ids :
    qvalues_ok values -> Inv d -> Inv (step_db (insert_nodes rv d count values als ids)).
  Proof.
    intros Hv Hd. unfold insert_nodes.
    destruct (fix_empty_alias rv && existsb _ als); cbn [step_db]; [exact Hd|].
    destruct (resolve_ids rv d ids) as [query_ids|e|] eqn:Er; cbn [step_db]; try exact Hd.
    set (vals_list := match values with
                      | Single v => repeat v (Nat.max (length query_ids) (Z.to_nat (Z.max count (lenZ als))))
                      | Multi v => v end).
    assert (Hvl : Forall keys_distinct vals_list).
    { unfold vals_list. destruct values as [v|v]; [now apply Forall_repeat|exact Hv]. }
    destruct (Nat.ltb (length vals_list) (length als)); cbn [step_db]; [exact Hd|].
    destruct (negb (Nat.eqb (length query_ids) 0)).
    - destruct (existsb (fun id => id <? 0) query_ids) eqn:Eneg; cbn [step_db]; [exact Hd|].
      destruct (negb (Nat.eqb (length vals_list) (length query_ids))); cbn [step_db]; [exact Hd|].
      unfold ok_elements. cbn [step_db].
      apply (fold_left_inv (fun a => Inv a /\ same_gr d a)); [split; [exact Hd|reflexivity]|].
      intros a [i [id kvs]] Hin [Ha Hg].
      apply in_combine_both in Hin. destruct Hin as [_ Hin]. apply in_combine_both in Hin. destruct Hin as [Hid _].
      pose proof (resolve_ids_live d ids query_ids Hd Er id Hid) as Hl.
      assert (Hp : 0 < id).
      { pose proof (live_nonzero d id Hl). destruct (Z.ltb_spec id 0) as [Hn|Hn]; [|lia].
        exfalso. assert (Hex : existsb (fun id => id <? 0) query_ids = true); [|congruence].
        apply existsb_exists. exists id. split; [exact Hid|lia]. }
      destruct (insert_kvs_replace_step d a id kvs Ha Hg Hl) as [Ha1 Hg1].
      destruct (nth_error als i) as [al|]; [|split; assumption].
      assert (Hl1 : live (insert_kvs_replace a id kvs) id = true) by (rewrite (same_gr_live d _ id Hg1); exact Hl).
      destruct (fix_nodes_ids_alias rv).
      + split; [now apply insert_alias_Inv|]. unfold same_gr. rewrite (proj1 (insert_alias_gvi rv _ id al)). exact Hg1.
      + split; [now apply insert_new_alias_Inv|exact Hg1].
    - match goal with |- context [fold_left ?f ?l ?a0] =>
        assert (H : Inv (fst (fold_left f l a0))) end.
      { apply (fold_left_inv (fun acc : db * list Z => Inv (fst acc))); [exact Hd|].
        intros [a out] [i kvs] Hin Ha. cbn [fst] in *.
        apply in_combine_both in Hin. destruct Hin as [_ Hin].
        assert (Hk : keys_distinct kvs) by (rewrite Forall_forall in Hvl; now apply Hvl).
        destruct (nth_error als i) as [al|].
        - destruct (db_id a (QAlias al)) as [id|e] eqn:Ei.
          + cbn [fst]. apply insert_kvs_replace_Inv; [exact Ha|]. apply (db_id_live a (QAlias al)); [apply Ha|exact Ei].
          + pose proof (insert_values_new_Inv a (0, []) (Some al) kvs Ha Hk) as H. unfold insert_values_new in H.
            destruct (insert_node_db a) as [id a1]. cbn [fst] in *. apply H.
        - pose proof (insert_values_new_Inv a (0, []) None kvs Ha Hk) as H. unfold insert_values_new in H.
          destruct (insert_node_db a) as [id a1]. cbn [fst] in *. apply H. }
      match goal with |- context [fold_left ?f ?l ?a0] => destruct (fold_left f l a0) as [d1 ids_rev] end.
      cbn [fst] in H. unfold ok_elements. cbn [step_db]. exact H.
  Qed.

  (* ---------- insert edges ---------- *)
  Lemma edge_values_ok values n vl : qvalues_ok values -> edge_values values n = ROk vl -> Forall keys_distinct vl.
  Proof.
    intros Hv. unfold edge_values.
    destruct (Nat.eqb _ n); [|discriminate]. intros H. inversion H; subst.
    destruct values as [v|v]; [now apply Forall_repeat|exact Hv].
  Qed.

  Lemma insert_edge_list_Inv d pairs :
    Inv d ->
    (forall f t kvs, In ((f, t), kvs) pairs -> live d f = true /\ live d t = true /\ keys_distinct kvs) ->
    Inv (step_db (insert_edge_list d pairs)).
  Proof.
    intros Hd Hp. unfold insert_edge_list.
    match goal with |- context [st_fold ?f d [] pairs] =>
      assert (H : (fun a => Inv a /\ mono d a) (step_db (st_fold f d [] pairs))) end.
    { apply st_fold_inv; [split; [exact Hd|intros j Hj; exact Hj]|].
      intros a out [[f t] kvs] Hin [Ha Hm]. destruct (Hp f t kvs Hin) as (Hf & Ht & Hk).
      destruct (insert_edge_db a f t) as [[id a1]|e] eqn:Ei; cbn [step_db]; [|split; assumption].
      destruct (insert_edge_db_Inv a f t id a1 Ha (Hm f Hf) (Hm t Ht) Ei) as (Ha1 & Hn & Hl & He & Hm1).
      split; [now apply insert_kvs_new_Inv|].
      intros j Hj. unfold live. rewrite (proj1 (insert_kvs_new_ga a1 id kvs)). apply Hm1. now apply Hm. }
    destruct (st_fold _ d [] pairs) as [d1 out|d1 e|d1]; cbn [step_db] in *; apply H.
  Qed.

  Lemma insert_edges_Inv d from to values each ids :
    qvalues_ok values -> Inv d -> Inv (step_db (insert_edges rv d from to values each ids)).
  Proof.
    intros Hv Hd. unfold insert_edges.
    destruct (resolve_ids rv d ids) as [query_ids|e|] eqn:Er; cbn [step_db]; try exact Hd.
    destruct (negb (Nat.eqb (length query_ids) 0)).
    - destruct (existsb (fun id => 0 <? id) query_ids); cbn [step_db]; [exact Hd|].
      destruct (edge_values values (length query_ids)) as [vl|e]; cbn [step_db]; [|exact Hd].
      unfold ok_elements. cbn [step_db].
      apply (fold_left_inv (fun a => Inv a /\ same_gr d a)); [split; [exact Hd|reflexivity]|].
      intros a [id kvs] Hin [Ha Hg]. apply in_combine_both in Hin. destruct Hin as [Hid _]. cbn [fst snd].
      apply (insert_kvs_replace_step d a id kvs Ha Hg). now apply (resolve_ids_live d ids query_ids Hd Er).
    - destruct (edge_db_ids rv d from) as [fl|e|] eqn:Ef; cbn [step_db]; try exact Hd.
      destruct (edge_db_ids rv d to) as [tl|e|] eqn:Et; cbn [step_db]; try exact Hd.
      set (pairs := if each || negb (Nat.eqb (length fl) (length tl))
                    then flat_map (fun f => map (fun t => (f, t)) tl) fl else combine fl tl).
      assert (Hpairs : forall f t, In (f, t) pairs -> In f fl /\ In t tl).
      { intros f t. unfold pairs. destruct (each || negb (Nat.eqb (length fl) (length tl))).
        - rewrite in_flat_map. intros [f0 [Hf0 Hin]]. apply in_map_iff in Hin.
          destruct Hin as [t0 [Heq Ht0]]. inversion Heq; subst. tauto.
        - apply in_combine_both. }
      destruct (edge_values values (length pairs)) as [vl|e] eqn:Ev; cbn [step_db]; [|exact Hd].
      pose proof (edge_values_ok values _ vl Hv Ev) as Hvl.
      assert (H : Inv (step_db (insert_edge_list d (combine pairs vl)))).
      { apply insert_edge_list_Inv; [exact Hd|]. intros f t kvs Hin. apply in_combine_both in Hin.
        destruct Hin as [Hft Hk]. destruct (Hpairs f t Hft) as [Hf Ht].
        split; [now apply (edge_db_ids_live d from fl Hd Ef)|].
        split; [now apply (edge_db_ids_live d to tl Hd Et)|].
        rewrite Forall_forall in Hvl. now apply Hvl. }
      destruct (insert_edge_list d (combine pairs vl)) as [d1 out|d1 e|d1]; cbn [step_db ok_elements] in *; exact H.
  Qed.

  (* ---------- insert aliases ---------- *)
  Lemma insert_aliases_Inv d ids (als : list bytes) : Inv d -> Inv (step_db (insert_aliases rv d ids als)).
  Proof.
    intros Hd. destruct ids as [l|s]; [|exact Hd]. rewrite insert_aliases_unfold.
    destruct (negb (Nat.eqb _ _)); cbn [step_db]; [exact Hd|].
    assert (H : Inv (step_db (st_fold (ia_step rv) d 0 (combine l als)))).
    { apply st_fold_inv; [exact Hd|]. intros a n [q al] _ Ha. cbn [ia_step].
      destruct al as [|b al]; cbn [step_db]; [exact Ha|].
      destruct (db_id a q) as [id|e] eqn:Ei; cbn [step_db]; [|exact Ha].
      rewrite Hfix. cbn [andb]. destruct (Z.ltb_spec id 0) as [Hn|Hn]; cbn [step_db]; [exact Ha|].
      pose proof (db_id_live a q id (proj1 (proj2 (proj2 Ha))) Ei) as Hl.
      pose proof (live_nonzero a id Hl). apply insert_alias_Inv; [exact Ha|lia|exact Hl]. }
    destruct (st_fold (ia_step rv) d 0 (combine l als)); cbn [step_db] in *; exact H.
  Qed.

  (* ---------- insert values ---------- *)
  Lemma insert_values_q_Inv a acc q kvs :
    Inv a -> keys_distinct kvs -> Inv (step_db (insert_values_q rv a acc q kvs)).
  Proof.
    intros Ha Hk. unfold insert_values_q. destruct (db_id a q) as [id|e] eqn:Ei.
    - unfold insert_values_id. cbn [step_db]. apply insert_kvs_replace_Inv; [exact Ha|].
      apply (db_id_live a q id); [apply Ha|exact Ei].
    - destruct q as [id|al].
      + destruct (id =? 0); cbn [step_db]; [|exact Ha].
        pose proof (insert_values_new_Inv a acc None kvs Ha Hk) as H.
        destruct (insert_values_new a acc None kvs) as [d1 r]. cbn [step_db fst] in *. apply H.
      + destruct (fix_empty_alias rv && _); cbn [step_db]; [exact Ha|].
        pose proof (insert_values_new_Inv a acc (Some al) kvs Ha Hk) as H.
        destruct (insert_values_new a acc (Some al) kvs) as [d1 r]. cbn [step_db fst] in *. apply H.
  Qed.

  Lemma insert_values_Inv d ids values :
    qvalues_ok values -> Inv d -> Inv (step_db (insert_values rv d ids values)).
  Proof.
    intros Hv Hd. unfold insert_values. destruct ids as [l|s].
    - destruct values as [kvs|vl].
      + apply st_fold_inv; [exact Hd|]. intros a acc q _ Ha. now apply insert_values_q_Inv.
      + destruct (negb (Nat.eqb (length l) (length vl))); cbn [step_db]; [exact Hd|].
        apply st_fold_inv; [exact Hd|]. intros a acc [q kvs] Hin Ha. cbn [fst snd].
        apply insert_values_q_Inv; [exact Ha|]. apply in_combine_both in Hin.
        cbn [qvalues_ok] in Hv. rewrite Forall_forall in Hv. now apply Hv.
    - destruct (search rv d s) as [db_ids|e|] eqn:Es; cbn [step_db]; try exact Hd.
      destruct values as [kvs|vl].
      + match goal with |- Inv (step_db (st_fold ?f d ?b db_ids)) =>
          assert (H : (fun a => Inv a /\ same_gr d a) (step_db (st_fold f d b db_ids))) end.
        { apply st_fold_inv; [split; [exact Hd|reflexivity]|]. intros a acc id Hin [Ha Hg].
          unfold insert_values_id. cbn [step_db].
          apply (insert_kvs_replace_step d a id kvs Ha Hg). now apply (Hsearch d s db_ids Hd Es). }
        apply H.
      + destruct (negb (Nat.eqb (length db_ids) (length vl))); cbn [step_db]; [exact Hd|].
        match goal with |- Inv (step_db (st_fold ?f d ?b ?l)) =>
          assert (H : (fun a => Inv a /\ same_gr d a) (step_db (st_fold f d b l))) end.
        { apply st_fold_inv; [split; [exact Hd|reflexivity]|]. intros a acc [id kvs] Hin [Ha Hg].
          unfold insert_values_id. cbn [step_db fst snd]. apply in_combine_both in Hin.
          apply (insert_kvs_replace_step d a id kvs Ha Hg). now apply (Hsearch d s db_ids Hd Es). }
        apply H.
  Qed.

  (* ---------- removals ---------- *)
  Lemma remove_query_Inv d ids : Inv d -> Inv (step_db (remove_query rv d ids)).
  Proof.
    intros Hd. unfold remove_query.
    assert (Hfin : forall r : step Z,
              step_db (match r with StOk d1 n => StOk d1 (n, []) | StErr d1 e => StErr d1 e | StPanic d1 => StPanic d1 end
                       : step (Z * list element)) = step_db r) by (intros [? ?|? ?|?]; reflexivity).
    destruct ids as [l|s].
    - rewrite Hfin. apply st_fold_inv; [exact Hd|]. intros a n q _ Ha.
      pose proof (remove_q_Inv a q Ha) as (Hi & _ & _).
      destruct (remove_q a q) as [a1 [[|]|e]]; cbn [step_db fst] in *; exact Hi.
    - destruct (search rv d s) as [db_ids|e|]; cbn [step_db]; try exact Hd.
      rewrite Hfin. apply st_fold_inv; [exact Hd|]. intros a n id _ Ha.
      pose proof (remove_id_Inv a id Ha) as (Hi & _ & _).
      destruct (remove_id a id) as [a1 [[|]|e]]; cbn [step_db fst] in *; exact Hi.
  Qed.

  Lemma remove_aliases_Inv d als : Inv d -> Inv (step_db (remove_aliases d als)).
  Proof.
    intros Hd. unfold remove_aliases.
    match goal with |- context [fold_left ?f als ?a0] =>
      assert (H : Inv (snd (fold_left f als a0))) end.
    { apply (fold_left_inv (fun acc : Z * db => Inv (snd acc))); [exact Hd|].
      intros [n a] al _ Ha. cbn [fst snd] in *.
      pose proof (remove_alias_Inv a al Ha) as H. destruct (remove_alias a al) as [b a1]. cbn [snd] in *. exact H. }
    match goal with |- context [fold_left ?f als ?a0] => destruct (fold_left f als a0) as [n d1] end.
    cbn [step_db snd] in *. exact H.
  Qed.

  Lemma remove_values_Inv d ids keys : Inv d -> Inv (step_db (remove_values rv d ids keys)).
  Proof.
    intros Hd. unfold remove_values.
    assert (Hfin : forall r : step Z,
              step_db (match r with StOk d1 n => StOk d1 (n, []) | StErr d1 e => StErr d1 e | StPanic d1 => StPanic d1 end
                       : step (Z * list element)) = step_db r) by (intros [? ?|? ?|?]; reflexivity).
    destruct ids as [l|s].
    - rewrite Hfin. apply st_fold_inv; [exact Hd|]. intros a n q _ Ha.
      destruct (db_id a q) as [id|e] eqn:Ei; cbn [step_db]; [|exact Ha].
      pose proof (remove_keys_Inv a id keys Ha (db_id_live a q id (proj1 (proj2 (proj2 Ha))) Ei)) as H.
      destruct (remove_keys a id keys) as [k a1]. cbn [step_db snd] in *. exact H.
    - destruct (search rv d s) as [db_ids|e|] eqn:Es; cbn [step_db]; try exact Hd.
      rewrite Hfin.
      match goal with |- Inv (step_db (st_fold ?f d ?b db_ids)) =>
        assert (H : (fun a => Inv a /\ same_gr d a) (step_db (st_fold f d b db_ids))) end.
      { apply st_fold_inv; [split; [exact Hd|reflexivity]|]. intros a n id Hin [Ha Hg].
        assert (Hl : live a id = true) by (rewrite (same_gr_live d a id Hg); now apply (Hsearch d s db_ids Hd Es)).
        pose proof (remove_keys_Inv a id keys Ha Hl) as H. pose proof (remove_keys_ga a id keys) as G.
        destruct (remove_keys a id keys) as [k a1]. cbn [step_db snd] in *. split; [exact H|].
        unfold same_gr. rewrite (proj1 G). exact Hg. }
      apply H.
  Qed.

  (* ---------- every mutating query ---------- *)
  Theorem exec_mut_step_Inv d q : query_ok q -> Inv d -> Inv (step_db (exec_mut_step rv d q)).
  Proof.
    intros Hq Hd. destruct q; cbn [exec_mut_step query_ok] in *; try exact Hd.
    - now apply insert_nodes_Inv.
    - now apply insert_edges_Inv.
    - now apply insert_aliases_Inv.
    - now apply insert_values_Inv.
    - destruct (insert_index d key) as [[n d1]|e] eqn:Ei; cbn [step_db]; [|exact Hd].
      now apply (insert_index_Inv d key n d1).
    - pose proof (remove_index_Inv d key Hd) as H. destruct (remove_index d key) as [n d1]. exact H.
    - now apply remove_query_Inv.
    - now apply remove_aliases_Inv.
    - now apply remove_values_Inv.
  Qed.

  Lemma exec_in_txn_db d q :
    fst (exec_in_txn rv d q) = if is_mutating q then step_db (exec_mut_step rv d q) else d.
  Proof.
    unfold exec_in_txn. destruct (is_mutating q); [|reflexivity].
    destruct (exec_mut_step rv d q) as [d1 [n els]|d1 e|d1]; reflexivity.
  Qed.

  (* inside a transaction the invariant holds after every query, failing ones included *)
  Theorem exec_in_txn_Inv d q : query_ok q -> Inv d -> Inv (fst (exec_in_txn rv d q)).
  Proof.
    intros Hq Hd. rewrite exec_in_txn_db. destruct (is_mutating q); [now apply exec_mut_step_Inv|exact Hd].
  Qed.

  Lemma Inv_clear_undo d : Inv d -> Inv (clear_undo d).
  Proof. intros H. exact H. Qed.

  (* a query that does not fail is committed: the invariant holds afterwards *)
  Theorem exec_ok_Inv d q :
    query_ok q -> Inv d -> is_failure (snd (exec rv d q)) = false -> Inv (fst (exec rv d q)).
  Proof.
    intros Hq Hd. unfold exec. pose proof (exec_in_txn_Inv d q Hq Hd) as H.
    destruct (exec_in_txn rv d q) as [d1 r]. cbn [fst] in H.
    destruct r as [n els|e|]; cbn [fst snd is_failure].
    - intros _. exact H.
    - destruct (rollback rv d1); cbn [snd is_failure]; discriminate.
    - discriminate.
  Qed.
End QueryInv.
