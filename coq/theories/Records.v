(* Records.v — model of agdb/src/storage/storage_records.rs (StorageRecords):
   the in-memory record table with the free-INDEX list threaded through slot 0
   and the two free-SPACE maps free_pos_size : BTreeMap<u64,u64> and
   free_size_pos : BTreeMap<u64,BTreeSet<u64>>.   Definitions only (extracted).

   BTreeMap / BTreeSet are kept as key-sorted association lists / sorted lists;
   iteration order (range, first, next_back) is the list order.
   The field `free_size` (sum of the free sizes, read only by dead code) is not
   modelled.  `None` results of functions that index the table stand for the
   Rust panic "index out of bounds" (new_record: also Vec::push beyond the capacity limit). *)
From Agdb Require Import Bytes.
Open Scope N_scope.

Record srec := { r_index : N; r_pos : N; r_size : N }.
Definition rec0 : srec := {| r_index := 0; r_pos := 0; r_size := 0 |}.
Definition REC : N := 16.                         (* STORAGE_RECORD_SIZE *)
Definition U64MAX : N := 18446744073709551615.
Definition value_start (r : srec) : N := r_pos r + 16.
Definition r_end (r : srec) : N := r_pos r + 16 + r_size r.

(* ---- BTreeMap<u64, V> as association list sorted by key ---- *)
Fixpoint m_get {V} (m : list (N * V)) (k : N) : option V :=
  match m with
  | [] => None
  | (k', v) :: r => if k' =? k then Some v else m_get r k
  end.
Fixpoint m_put {V} (m : list (N * V)) (k : N) (v : V) : list (N * V) :=
  match m with
  | [] => [(k, v)]
  | (k', v') :: r =>
    if k <? k' then (k, v) :: m
    else if k =? k' then (k, v) :: r
    else (k', v') :: m_put r k v
  end.
Definition m_del {V} (m : list (N * V)) (k : N) : list (N * V) :=
  filter (fun kv => negb (fst kv =? k)) m.
(* range(..k).next_back(): the entry with the greatest key below k *)
Fixpoint m_prev {V} (m : list (N * V)) (k : N) : option (N * V) :=
  match m with
  | [] => None
  | (k', v) :: r =>
    if k' <? k then match m_prev r k with Some x => Some x | None => Some (k', v) end
    else None
  end.

(* ---- BTreeSet<u64> as sorted list ---- *)
Fixpoint s_add (s : list N) (k : N) : list N :=
  match s with
  | [] => [k]
  | k' :: r => if k <? k' then k :: s else if k =? k' then s else k' :: s_add r k
  end.
Definition s_del (s : list N) (k : N) : list N := filter (fun x => negb (x =? k)) s.

Record records := {
  recs : list srec;                 (* records: Vec<StorageRecord>, slot 0 = head of the free-index list *)
  fps : list (N * N);               (* free_pos_size *)
  fsp : list (N * list N)           (* free_size_pos *)
}.

Definition records_new : records := {| recs := [rec0]; fps := []; fsp := [] |}.

Definition rget (rs : records) (i : N) : option srec := nth_error (recs rs) (N.to_nat i).

Fixpoint upd {A} (l : list A) (i : nat) (x : A) : list A :=
  match l, i with
  | [], _ => []
  | _ :: r, O => x :: r
  | y :: r, S j => y :: upd r j x
  end.

Definition set_recs (rs : records) (l : list srec) : records :=
  {| recs := l; fps := fps rs; fsp := fsp rs |}.

Definition head_free (rs : records) : N := r_index (nth 0 (recs rs) rec0).
Definition set_head (l : list srec) (h : N) : list srec :=
  let r0 := nth 0 l rec0 in upd l 0 {| r_index := h; r_pos := r_pos r0; r_size := r_size r0 |}.

(* new_record: pop the free-index list, else append *)
Definition new_record (rs : records) (pos size : N) : option (records * srec) :=
  let h := head_free rs in
  if negb (h =? 0) then
    match rget rs h with
    | None => None                                  (* records[index] out of bounds *)
    | Some rh =>
      let r := {| r_index := h; r_pos := pos; r_size := size |} in
      Some (set_recs rs (upd (set_head (recs rs) (r_index rh)) (N.to_nat h) r), r)
    end
  else if two64 <=? lenN (recs rs) + 1 then None    (* Vec::push: capacity overflow (placed at 2^64 entries) *)
  else
    let r := {| r_index := lenN (recs rs); r_pos := pos; r_size := size |} in
    Some (set_recs rs (recs rs ++ [r]), r).

Definition clear_free (rs : records) : records := {| recs := recs rs; fps := []; fsp := [] |}.

(* is_valid: record.index != 0 && records[record.index].index == record.index *)
Definition is_valid (rs : records) (r : srec) : option bool :=
  if r_index r =? 0 then Some false
  else match rget rs (r_index r) with
       | None => None
       | Some r' => Some (r_index r' =? r_index r)
       end.

(* stable insertion sort by pos (sort_by_key) *)
Fixpoint ins_by_pos (r : srec) (l : list srec) : list srec :=
  match l with
  | [] => [r]
  | x :: t => if r_pos r <? r_pos x then r :: l else x :: ins_by_pos r t
  end.
Definition sort_by_pos (l : list srec) : list srec := fold_right ins_by_pos [] l.

Fixpoint filter_valid (rs : records) (l : list srec) : option (list srec) :=
  match l with
  | [] => Some []
  | r :: t =>
    match is_valid rs r, filter_valid rs t with
    | Some b, Some t' => Some (if b then r :: t' else t')
    | _, _ => None
    end
  end.
(* records(): the valid records sorted by position *)
Definition valid_records (rs : records) : option (list srec) :=
  match filter_valid rs (recs rs) with
  | Some l => Some (sort_by_pos l)
  | None => None
  end.

Definition set_pos (rs : records) (index pos : N) : records :=
  match rget rs index with
  | Some r => set_recs rs (upd (recs rs) (N.to_nat index) {| r_index := r_index r; r_pos := pos; r_size := r_size r |})
  | None => rs
  end.
Definition set_size (rs : records) (index size : N) : records :=
  match rget rs index with
  | Some r => set_recs rs (upd (recs rs) (N.to_nat index) {| r_index := r_index r; r_pos := r_pos r; r_size := size |})
  | None => rs
  end.

(* record(index): Some (Some r) = Ok, Some None = NotFound, None = panic *)
Definition record (rs : records) (index : N) : option (option srec) :=
  match rget rs index with
  | None => Some None
  | Some r => match is_valid rs r with
              | None => None
              | Some true => Some (Some r)
              | Some false => Some None
              end
  end.

Definition free_index (rs : records) (index : N) : records :=
  let next_free := head_free rs in
  match rget rs index with
  | Some _ =>
    let l := upd (recs rs) (N.to_nat index) {| r_index := next_free; r_pos := U64MAX; r_size := r_size (nth (N.to_nat index) (recs rs) rec0) |} in
    set_recs rs (set_head l index)
  | None => rs
  end.

(* ---- free space maps ---- *)
Definition mark_free (rs : records) (pos size : N) : records :=
  {| recs := recs rs;
     fps := m_put (fps rs) pos size;
     fsp := m_put (fsp rs) size (s_add (match m_get (fsp rs) size with Some s => s | None => [] end) pos) |}.

Definition remove_free (rs : records) (pos : N) : records :=
  let size := match m_get (fps rs) pos with Some s => s | None => 0 end in
  {| recs := recs rs;
     fps := m_del (fps rs) pos;
     fsp := match m_get (fsp rs) size with
            | Some ps => let ps' := s_del ps pos in
                         match ps' with [] => m_del (fsp rs) size | _ => m_put (fsp rs) size ps' end
            | None => fsp rs
            end |}.

(* take_free: first entry of free_size_pos (ascending size) from min_size on with
   size = min_size or size >= min_size + 16; its lowest position *)
Fixpoint find_free (m : list (N * list N)) (min_size : N) : option (N * list N) :=
  match m with
  | [] => None
  | (s, ps) :: r =>
    if (min_size <=? s) && ((s =? min_size) || (min_size + 16 <=? s)) then Some (s, ps)
    else find_free r min_size
  end.
Definition take_free (rs : records) (min_size : N) : option (records * (N * N)) :=
  match find_free (fsp rs) min_size with
  | Some (s, p :: _) => Some (remove_free rs p, (p, s))
  | _ => None
  end.

Definition take_free_after (rs : records) (end_pos min_size : N) : option (records * (N * N)) :=
  match m_get (fps rs) end_pos with
  | Some size =>
    if (16 + size =? min_size) || (min_size <=? size) then Some (remove_free rs end_pos, (end_pos, size))
    else None
  | None => None
  end.

(* mark_free_compact: swallow the free regions that follow, then the ones that precede *)
Fixpoint merge_fwd (fuel : nat) (rs : records) (end_pos : N) : records * N :=
  match fuel with
  | O => (rs, end_pos)
  | S f =>
    match m_get (fps rs) end_pos with
    | Some next_size => merge_fwd f (remove_free rs end_pos) (end_pos + 16 + next_size)
    | None => (rs, end_pos)
    end
  end.
Fixpoint merge_bwd (fuel : nat) (rs : records) (pos : N) : records * N :=
  match fuel with
  | O => (rs, pos)
  | S f =>
    match m_prev (fps rs) pos with
    | Some (prev_pos, size) =>
      if prev_pos + 16 + size =? pos then merge_bwd f (remove_free rs prev_pos) prev_pos
      else (rs, pos)
    | None => (rs, pos)
    end
  end.
Definition mark_free_compact (rs : records) (pos size : N) : records * (N * N) :=
  let fuel := S (length (fps rs)) in
  let '(rs1, end_pos) := merge_fwd fuel rs (pos + 16 + size) in
  let '(rs2, pos') := merge_bwd fuel rs1 pos in
  let size' := end_pos - pos' - 16 in
  (mark_free rs2 pos' size', (pos', size')).

(* set_record (used while loading): index 0 = free region, else table entry *)
Definition set_record (rs : records) (r : srec) : records :=
  if r_index r =? 0 then mark_free rs (r_pos r) (r_size r)
  else
    let i := N.to_nat (r_index r) in
    let l := recs rs ++ repeat rec0 (S i - length (recs rs)) in
    set_recs rs (upd l i r).

(* rebuild_free_index: every slot never seen in the file, in increasing order *)
Fixpoint rebuild_from (n : nat) (i : nat) (rs : records) : records :=
  match n with
  | O => rs
  | S n' =>
    let rs' := if r_index (nth i (recs rs) rec0) =? 0 then free_index rs (N.of_nat i) else rs in
    rebuild_from n' (S i) rs'
  end.
Definition rebuild_free_index (rs : records) : records :=
  rebuild_from (length (recs rs) - 1) 1 rs.
