(* IndexProofs.v — C11, part 1: counting entries of an index and of a property list; the index
   list operations (idx_update / idx_find / idx_remove, remove_first_pair). *)
From Agdb Require Import Bytes DbValue Graph DbModel DbValueEqProofs KvProofs KvDbProofs KvSelectProofs.
From Coq Require Import ZifyBool ZifyNat ZifyN.
Open Scope Z_scope.

(* a predicate on values that cannot tell equal values apart *)
Definition respects (P : dbvalue -> bool) : Prop := forall a b, dbv_eqb a b = true -> P a = P b.

Lemma respects_eqb v : respects (fun w => dbv_eqb w v).
Proof. intros a b H. now apply dbv_eqb_congr_l. Qed.

Lemma respects_true : respects (fun _ => true).
Proof. intros a b _. reflexivity. Qed.

(* entries of an index for element `id` whose value satisfies P *)
Definition cntP (ids : list (dbvalue * Z)) (P : dbvalue -> bool) (id : Z) : nat :=
  length (filter (fun p : dbvalue * Z => P (fst p) && (snd p =? id)) ids).

(* pairs of a property list with key `key` whose value satisfies P *)
Definition cntK (l : list kv) (key : dbvalue) (P : dbvalue -> bool) : nat :=
  length (filter (fun x : kv => dbv_eqb (fst x) key && P (snd x)) l).

Definition b2nat (b : bool) : nat := if b then 1%nat else 0%nat.

Lemma cntP_nil P id : cntP [] P id = 0%nat.
Proof. reflexivity. Qed.

Lemma cntP_cons p ids P id : cntP (p :: ids) P id = (b2nat (P (fst p) && (snd p =? id)%Z) + cntP ids P id)%nat.
Proof. unfold cntP. cbn [filter]. destruct (P (fst p) && (snd p =? id)); reflexivity. Qed.

Lemma cntP_app a b P id : cntP (a ++ b) P id = (cntP a P id + cntP b P id)%nat.
Proof. unfold cntP. now rewrite filter_app, app_length. Qed.

Lemma cntK_cons x l key P : cntK (x :: l) key P = (b2nat (dbv_eqb (fst x) key && P (snd x)) + cntK l key P)%nat.
Proof. unfold cntK. cbn [filter]. destruct (dbv_eqb (fst x) key && P (snd x)); reflexivity. Qed.

Lemma cntK_app a b key P : cntK (a ++ b) key P = (cntK a key P + cntK b key P)%nat.
Proof. unfold cntK. now rewrite filter_app, app_length. Qed.

Lemma cntK_nil key P : cntK [] key P = 0%nat.
Proof. reflexivity. Qed.

Lemma cntK_congr l key key' P : dbv_eqb key key' = true -> cntK l key P = cntK l key' P.
Proof.
  intros H. unfold cntK. f_equal. apply filter_ext. intros x. f_equal. now apply dbv_eqb_congr_r.
Qed.

(* P holds for v and respects equality: every entry counted for "= v" is counted for P *)
Lemma cntP_eq_le ids P v id :
  respects P -> P v = true -> (cntP ids (fun w => dbv_eqb w v) id <= cntP ids P id)%nat.
Proof.
  intros HP Hv. induction ids as [|p ids IH]; [reflexivity|]. rewrite !cntP_cons.
  destruct (dbv_eqb (fst p) v) eqn:E; cbn [andb].
  - rewrite (HP (fst p) v E), Hv. cbn [andb]. lia.
  - cbn [b2nat]. lia.
Qed.

(* remove_first_pair removes one entry equal to (v, id), if there is one *)
Lemma cntP_remove_first_pair ids v id P id' :
  respects P ->
  cntP (remove_first_pair ids v id) P id' =
  (cntP ids P id' - b2nat ((0 <? cntP ids (fun w => dbv_eqb w v) id)%nat && P v && (id =? id')%Z))%nat.
Proof.
  intros HP. induction ids as [|[v0 id0] ids IH]; cbn [remove_first_pair]; [reflexivity|].
  destruct (dbv_eqb v0 v && (id0 =? id)) eqn:E.
  - apply andb_true_iff in E. destruct E as [E1 E2]. apply Z.eqb_eq in E2. subst id0.
    rewrite !cntP_cons. cbn [fst snd]. rewrite E1, Z.eqb_refl. cbn [andb b2nat].
    rewrite (HP v0 v E1).
    destruct (Nat.ltb_spec 0 (1 + cntP ids (fun w => dbv_eqb w v) id)); [|lia]. cbn [andb].
    destruct (P v && (id =? id')); cbn [b2nat]; lia.
  - rewrite !cntP_cons, IH. cbn [fst snd]. rewrite E. cbn [b2nat Nat.add].
    destruct ((0 <? cntP ids (fun w => dbv_eqb w v) id)%nat && P v && (id =? id')) eqn:T; cbn [b2nat]; [|lia].
    apply andb_true_iff in T. destruct T as [T T3]. apply andb_true_iff in T. destruct T as [T1 T2].
    apply Z.eqb_eq in T3. subst id'. apply Nat.ltb_lt in T1.
    pose proof (cntP_eq_le ids P v id HP T2). lia.
Qed.

(* ---------- the list of indexes ---------- *)
Definition idx_keys_distinct (ix : list index) : Prop := vals_distinct (map fst ix).

Lemma idx_find_cons k ids r key :
  idx_find ((k, ids) :: r) key = if dbv_eqb k key then Some ids else idx_find r key.
Proof. unfold idx_find. cbn [find fst snd]. now destruct (dbv_eqb k key). Qed.

Lemma idx_find_update ix key f key' :
  idx_find (idx_update ix key f) key' =
  match idx_find ix key' with
  | Some ids => Some (if dbv_eqb key key' then f ids else ids)
  | None => None
  end.
Proof.
  induction ix as [|[k ids] r IH]; cbn [idx_update]; [reflexivity|].
  destruct (dbv_eqb k key) eqn:E.
  - rewrite !idx_find_cons. destruct (dbv_eqb k key') eqn:E'.
    + rewrite <- (dbv_eqb_congr_l k key key' E), E'. reflexivity.
    + destruct (idx_find r key') as [ids'|]; [|reflexivity].
      rewrite <- (dbv_eqb_congr_l k key key' E), E'. reflexivity.
  - rewrite !idx_find_cons. destruct (dbv_eqb k key') eqn:E'.
    + destruct (dbv_eqb key key') eqn:E2; [|reflexivity].
      rewrite (dbv_eqb_congr_r key key' k E2) in E. congruence.
    + exact IH.
Qed.

Lemma idx_find_snoc ix key key' :
  idx_find (ix ++ [(key, [])]) key' =
  match idx_find ix key' with
  | Some ids => Some ids
  | None => if dbv_eqb key key' then Some [] else None
  end.
Proof.
  induction ix as [|[k ids] r IH]; cbn [app].
  - rewrite idx_find_cons. reflexivity.
  - rewrite !idx_find_cons. destruct (dbv_eqb k key'); [reflexivity|exact IH].
Qed.

Lemma idx_find_none_mem ix key : idx_find ix key = None <-> mem dbv_eqb key (map fst ix) = false.
Proof.
  induction ix as [|[k ids] r IH]; cbn [map mem fst]; [unfold idx_find; cbn; tauto|].
  rewrite idx_find_cons. destruct (dbv_eqb k key); cbn [orb]; [split; discriminate|exact IH].
Qed.

Lemma mem_congr (l : list dbvalue) a b : dbv_eqb a b = true -> mem dbv_eqb a l = mem dbv_eqb b l.
Proof.
  intros H. induction l as [|y l IH]; cbn [mem]; [reflexivity|]. rewrite IH. f_equal.
  now apply dbv_eqb_congr_r.
Qed.

Lemma idx_find_remove ix key key' :
  idx_keys_distinct ix ->
  idx_find (idx_remove ix key) key' = if dbv_eqb key key' then None else idx_find ix key'.
Proof.
  unfold idx_keys_distinct. induction ix as [|[k ids] r IH]; cbn [idx_remove map fst vals_distinct].
  - intros _. now destruct (dbv_eqb key key').
  - intros [Hk Hd]. destruct (dbv_eqb k key) eqn:E.
    + rewrite idx_find_cons. destruct (dbv_eqb key key') eqn:E2.
      * apply idx_find_none_mem. rewrite <- (mem_congr (map fst r) k key').
        -- exact Hk.
        -- now apply (dbv_eqb_trans k key key').
      * rewrite <- (dbv_eqb_congr_l k key key' E) in E2. now rewrite E2.
    + rewrite !idx_find_cons, (IH Hd). destruct (dbv_eqb k key') eqn:E'; [|reflexivity].
      destruct (dbv_eqb key key') eqn:E2; [|reflexivity].
      rewrite (dbv_eqb_congr_r key key' k E2) in E. congruence.
Qed.

Lemma idx_update_keys ix key f : map fst (idx_update ix key f) = map fst ix.
Proof.
  induction ix as [|[k ids] r IH]; cbn [idx_update map fst]; [reflexivity|].
  destruct (dbv_eqb k key); cbn [map fst]; [reflexivity|]. now rewrite IH.
Qed.

Lemma idx_update_length ix key f : length (idx_update ix key f) = length ix.
Proof.
  induction ix as [|[k ids] r IH]; cbn [idx_update length]; [reflexivity|].
  destruct (dbv_eqb k key); cbn [length]; [reflexivity|]. now rewrite IH.
Qed.

Lemma mem_false_sub (l l' : list dbvalue) x :
  (forall y, In y l' -> In y l) -> mem dbv_eqb x l = false -> mem dbv_eqb x l' = false.
Proof.
  intros Hsub Hm. induction l' as [|y l' IH]; cbn [mem]; [reflexivity|].
  rewrite IH by (intros z Hz; apply Hsub; now right). rewrite orb_false_r.
  assert (Hy : In y l) by (apply Hsub; now left). clear -Hm Hy.
  induction l as [|z l IH]; [destruct Hy|]. cbn [mem] in Hm. apply orb_false_iff in Hm.
  destruct Hy as [->|Hy]; [tauto|]. apply IH; tauto.
Qed.

Lemma idx_remove_in ix key p : In p (idx_remove ix key) -> In p ix.
Proof.
  induction ix as [|[k ids] r IH]; cbn [idx_remove]; [trivial|].
  destruct (dbv_eqb k key); [now right|]. intros [H|H]; [now left|right; now apply IH].
Qed.

Lemma idx_remove_distinct ix key : idx_keys_distinct ix -> idx_keys_distinct (idx_remove ix key).
Proof.
  unfold idx_keys_distinct. induction ix as [|[k ids] r IH]; cbn [idx_remove map fst vals_distinct]; [trivial|].
  intros [Hk Hd]. destruct (dbv_eqb k key); [exact Hd|].
  cbn [map fst vals_distinct]. split; [|now apply IH].
  apply (mem_false_sub (map fst r)); [|exact Hk].
  intros y Hy. apply in_map_iff in Hy. destruct Hy as [p [<- Hp]].
  apply in_map. now apply (idx_remove_in r key).
Qed.

Lemma vals_distinct_snoc (l : list dbvalue) x :
  vals_distinct l -> mem dbv_eqb x l = false -> vals_distinct (l ++ [x]).
Proof.
  induction l as [|y l IH]; cbn [app vals_distinct mem]; [tauto|].
  intros [Hy Hd] Hx. apply orb_false_iff in Hx. destruct Hx as [Hx1 Hx2]. split; [|now apply IH].
  clear IH Hd. induction l as [|z l IH]; cbn [app mem] in *.
  - rewrite dbv_eqb_sym. now rewrite Hx1.
  - apply orb_false_iff in Hy. apply orb_false_iff in Hx2. rewrite (proj1 Hy). cbn [orb]. apply IH; tauto.
Qed.

Lemma idx_snoc_distinct ix key :
  idx_keys_distinct ix -> idx_find ix key = None -> idx_keys_distinct (ix ++ [(key, [])]).
Proof.
  unfold idx_keys_distinct. intros Hd Hn. rewrite map_app. cbn [map fst].
  apply vals_distinct_snoc; [exact Hd|]. now apply idx_find_none_mem.
Qed.
