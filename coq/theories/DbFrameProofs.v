(* DbFrameProofs.v — which component of the database each DbModel-level function touches
   (frame lemmas), and generic fold principles.  Used by the C09 / C10 / C11 proofs. *)
From Agdb Require Import Bytes DbValue Graph DbModel.
Open Scope Z_scope.

Lemma fold_left_inv {A B} (P : A -> Prop) (f : A -> B -> A) (l : list B) (a : A) :
  P a -> (forall acc x, In x l -> P acc -> P (f acc x)) -> P (fold_left f l a).
Proof.
  revert a. induction l as [|x l IH]; cbn [fold_left]; intros a Ha Hf; [exact Ha|].
  apply IH.
  - apply Hf; [now left|exact Ha].
  - intros acc y Hy. apply Hf. now right.
Qed.

Section Frames.
  Variable rv : revision.

  (* ---- index_insert_if / index_remove_if ---- *)
  Lemma index_insert_if_fields d k v id :
    gr (index_insert_if d k v id) = gr d /\ aliases (index_insert_if d k v id) = aliases d /\
    vals (index_insert_if d k v id) = vals d /\ undo (index_insert_if d k v id) = undo d.
  Proof. repeat split. Qed.

  Lemma index_remove_if_fields d k v id :
    gr (index_remove_if d k v id) = gr d /\ aliases (index_remove_if d k v id) = aliases d /\
    vals (index_remove_if d k v id) = vals d /\ undo (index_remove_if d k v id) = undo d.
  Proof. repeat split. Qed.

  (* ---- key-value mutations leave graph and aliases alone ---- *)
  Definition same_ga (d d' : db) : Prop := gr d' = gr d /\ aliases d' = aliases d.

  Lemma same_ga_refl d : same_ga d d.
  Proof. split; reflexivity. Qed.

  Lemma same_ga_trans d1 d2 d3 : same_ga d1 d2 -> same_ga d2 d3 -> same_ga d1 d3.
  Proof. intros [A B] [C D]. split; congruence. Qed.

  Lemma insert_key_value_ga d id x : same_ga d (insert_key_value d id x).
  Proof. split; reflexivity. Qed.

  Lemma insert_or_replace_key_value_ga d id x : same_ga d (insert_or_replace_key_value d id x).
  Proof.
    unfold insert_or_replace_key_value.
    destruct (kvs_insert_or_replace (vals d) id x) as [[old|] s]; split; reflexivity.
  Qed.

  Lemma reserve_kv_ga d id : same_ga d (reserve_kv d id).
  Proof. split; reflexivity. Qed.

  Lemma remove_all_values_ga d id : same_ga d (remove_all_values d id).
  Proof.
    unfold remove_all_values.
    set (f := fun acc (x : kv) => push_undo (index_remove_if acc (fst x) (snd x) id) (CInsertKeyValue id x)).
    assert (H : same_ga d (fold_left f (kvs_get (vals d) id) d)).
    { apply fold_left_inv; [apply same_ga_refl|].
      intros acc x _ Hacc. eapply same_ga_trans; [exact Hacc|]. split; reflexivity. }
    eapply same_ga_trans; [exact H|]. split; reflexivity.
  Qed.

  Lemma remove_keys_ga d id keys : same_ga d (snd (remove_keys d id keys)).
  Proof.
    unfold remove_keys.
    apply (fold_left_inv (fun acc : Z * db => same_ga d (snd acc))); [apply same_ga_refl|].
    intros [n a] x _ Hacc. cbn [snd] in *.
    destruct (mem dbv_eqb (fst x) keys); cbn [snd]; [|exact Hacc].
    eapply same_ga_trans; [exact Hacc|]. split; reflexivity.
  Qed.

  (* ---- alias mutations leave graph, values and indexes alone ---- *)
  Definition same_gvi (d d' : db) : Prop := gr d' = gr d /\ vals d' = vals d /\ indexes d' = indexes d.

  Lemma insert_new_alias_gvi d id a : same_gvi d (insert_new_alias d id a).
  Proof. repeat split. Qed.

  Lemma insert_alias_gvi d id a : same_gvi d (insert_alias rv d id a).
  Proof.
    unfold insert_alias.
    destruct (imap_key (aliases d) id) as [old|]; cbn zeta;
      destruct (fix_alias_steal_undo rv);
      repeat match goal with |- context [match ?x with Some _ => _ | None => _ end] => destruct x end;
      repeat split.
  Qed.

  Lemma remove_alias_gvi d a : same_gvi d (snd (remove_alias d a)).
  Proof. unfold remove_alias. destruct (imap_value (aliases d) a); repeat split. Qed.

  (* ---- graph mutations ---- *)
  Lemma insert_node_db_fields d :
    aliases (snd (insert_node_db d)) = aliases d /\ vals (snd (insert_node_db d)) = vals d /\
    indexes (snd (insert_node_db d)) = indexes d /\
    gr (snd (insert_node_db d)) = snd (insert_node (gr d)) /\ fst (insert_node_db d) = fst (insert_node (gr d)).
  Proof. unfold insert_node_db. destruct (insert_node (gr d)) as [i g]. repeat split. Qed.

  Lemma insert_edge_db_fields d f t i d' :
    insert_edge_db d f t = ROk (i, d') ->
    exists g, insert_edge (gr d) f t = Some (i, g) /\ gr d' = g /\
              aliases d' = aliases d /\ vals d' = vals d /\ indexes d' = indexes d.
  Proof.
    unfold insert_edge_db. destruct (insert_edge (gr d) f t) as [[i0 g]|]; [|discriminate].
    intros H. inversion H; subst. exists g. repeat split.
  Qed.
End Frames.
