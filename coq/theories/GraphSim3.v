(* GraphSim3.v — the primitive steps on the whole relation rsimF (function level). *)
From Agdb Require Import Bytes Graph GraphArr GraphSim GraphSim2.
From Coq Require Import ZifyBool ZifyNat ZifyN.
Ltac Zify.zify_post_hook ::= Z.div_mod_to_equations.
Open Scope Z_scope.

Lemma used_range n nodes ER j : base n nodes ER -> used nodes ER j -> 0 < j < n.
Proof.
  intros B [Hj|Hj].
  - apply (b_nodes_range _ _ _ B). assumption.
  - apply in_map_iff in Hj. destruct Hj as [x [<- Hx]]. apply (b_ER_range _ _ _ B). assumption.
Qed.

(* the free-list part only looks at slot 0 and at unused slots *)
Lemma freeS_frame n F T FM TM F' T' FM' TM' nodes ER fl cnt :
  base n nodes ER ->
  (forall j, ~ used nodes ER j -> F' j = F j /\ T' j = T j /\ FM' j = FM j /\ TM' j = TM j) ->
  freeS n F T FM TM nodes ER fl cnt -> freeS n F' T' FM' TM' nodes ER fl cnt.
Proof.
  intros B Hext. apply freeS_ext; [tauto|].
  intros j [->|[_ Hj]]; apply Hext; [|assumption].
  intros Hu. pose proof (used_range _ _ _ _ B Hu). lia.
Qed.

Section Steps.
  Variables (n : Z) (F T FM TM : Z -> Z) (nodes : list Z) (PO PI : Z -> Prop)
            (ER EO EI : list aedge) (fl : list Z) (cnt : Z).
  Hypothesis R : rsimF n F T FM TM nodes PO PI ER EO EI fl cnt.


  Lemma rsimF_ext F' T' FM' TM' :
    (forall j, 0 <= j < n -> F' j = F j /\ T' j = T j /\ FM' j = FM j /\ TM' j = TM j) ->
    rsimF n F' T' FM' TM' nodes PO PI ER EO EI fl cnt.
  Proof.
    intros Hext. pose proof R as [R1 R2 R3 R4 R5]. constructor; try assumption.
    - eapply half_ext; [|exact R3]. intros j Hj.
      destruct (Hext j) as [? [? [? ?]]]; [|auto]. pose proof (used_range _ _ _ _ R2 Hj). lia.
    - eapply half_ext; [|exact R4]. intros j Hj.
      destruct (Hext j) as [? [? [? ?]]]; [|auto]. pose proof (used_range _ _ _ _ R2 Hj). lia.
    - eapply freeS_ext; [| |exact R5]; [tauto|]. intros j Hj. apply Hext. lia.
  Qed.

  Lemma rsimF_weaken (PO' PI' : Z -> Prop) :
    (forall m, In m nodes -> PO' m -> PO m) -> (forall m, In m nodes -> PI' m -> PI m) ->
    rsimF n F T FM TM nodes PO' PI' ER EO EI fl cnt.
  Proof.
    intros H1 H2. pose proof R as [R1 R2 R3 R4 R5]. constructor; try assumption.
    - eapply half_weaken; eassumption.
    - eapply half_weaken; eassumption.
  Qed.

  Lemma rsimF_drop_out e :
    In e EO -> ~ PO (esrc e) -> rsimF n F T FM TM nodes PO PI ER (remE (eslot e) EO) EI fl cnt.
  Proof.
    intros H1 H2. pose proof R as [R1 R2 R3 R4 R5]. constructor; try assumption.
    apply half_drop; assumption.
  Qed.

  Lemma rsimF_drop_in e :
    In e EI -> ~ PI (etgt e) -> rsimF n F T FM TM nodes PO PI ER EO (remE (eslot e) EI) fl cnt.
  Proof.
    intros H1 H2. pose proof R as [R1 R2 R3 R4 R5]. constructor; try assumption.
    apply half_drop; assumption.
  Qed.

  Lemma rsimF_cnt c : rsimF n F T FM (upd TM 0 c) nodes PO PI ER EO EI fl c.
  Proof.
    pose proof R as [R1 R2 R3 R4 R5]. constructor; try assumption.
    - eapply half_ext; [|exact R4]. intros j Hj. pose proof (used_range _ _ _ _ R2 Hj).
      rewrite upd_other by lia. auto.
    - eapply freeS_cnt. eassumption.
  Qed.

  Lemma ends_in_nodes x : In x ER -> In (esrc x) nodes /\ In (etgt x) nodes.
  Proof. pose proof R as [_ R2 _ _ _]. apply (b_ends _ _ _ R2). Qed.

  (* ---- link ---- *)
  Lemma rsimF_link_out e :
    In e ER -> ~ In (eslot e) (map eslot EO) ->
    rsimF n (upd F (esrc e) (eslot e)) T
          (upd (upd FM (eslot e) (F (esrc e))) (esrc e) (FM (esrc e) + 1)) TM
          nodes PO PI ER (e :: EO) EI fl cnt.
  Proof.
    intros He Hn. destruct (ends_in_nodes e He) as [Hs Ht].
    pose proof R as [R1 R2 R3 R4 R5]. constructor; try assumption.
    - apply (half_link n); assumption.
    - eapply freeS_frame; [exact R2| |exact R5]. intros j Hj.
      assert (j <> esrc e) by (intros ->; apply Hj; left; assumption).
      assert (j <> eslot e) by (intros ->; apply Hj; right; apply in_map; assumption).
      rewrite !upd_other by assumption. auto.
  Qed.

  Lemma rsimF_link_in e :
    In e ER -> ~ In (eslot e) (map eslot EI) ->
    rsimF n F (upd T (etgt e) (eslot e)) FM
          (upd (upd TM (eslot e) (T (etgt e))) (etgt e) (TM (etgt e) + 1))
          nodes PO PI ER EO (e :: EI) fl cnt.
  Proof.
    intros He Hn. destruct (ends_in_nodes e He) as [Hs Ht].
    pose proof R as [R1 R2 R3 R4 R5]. constructor; try assumption.
    - apply (half_link n); assumption.
    - eapply freeS_frame; [exact R2| |exact R5]. intros j Hj.
      assert (j <> etgt e) by (intros ->; apply Hj; left; assumption).
      assert (j <> eslot e) by (intros ->; apply Hj; right; apply in_map; assumption).
      rewrite !upd_other by assumption. auto.
  Qed.

  (* ---- unlink ---- *)
  Lemma rsimF_unlink_out_head e :
    In e EO -> PO (esrc e) -> F (esrc e) = eslot e ->
    rsimF n (upd F (esrc e) (FM (eslot e))) T (upd FM (esrc e) (FM (esrc e) - 1)) TM
          nodes PO PI ER (remE (eslot e) EO) EI fl cnt.
  Proof.
    intros He HP Hh. pose proof R as [R1 R2 R3 R4 R5].
    assert (HeR : In e ER) by (apply (h_incl _ _ _ _ _ _ _ R3); assumption).
    destruct (ends_in_nodes e HeR) as [Hs Ht].
    constructor; try assumption.
    - apply (half_unlink_head n); assumption.
    - eapply freeS_frame; [exact R2| |exact R5]. intros j Hj.
      assert (j <> esrc e) by (intros ->; apply Hj; left; assumption).
      rewrite !upd_other by assumption. auto.
  Qed.

  Lemma rsimF_unlink_in_head e :
    In e EI -> PI (etgt e) -> T (etgt e) = eslot e ->
    rsimF n F (upd T (etgt e) (TM (eslot e))) FM (upd TM (etgt e) (TM (etgt e) - 1))
          nodes PO PI ER EO (remE (eslot e) EI) fl cnt.
  Proof.
    intros He HP Hh. pose proof R as [R1 R2 R3 R4 R5].
    assert (HeR : In e ER) by (apply (h_incl _ _ _ _ _ _ _ R4); assumption).
    destruct (ends_in_nodes e HeR) as [Hs Ht].
    constructor; try assumption.
    - apply (half_unlink_head n); assumption.
    - eapply freeS_frame; [exact R2| |exact R5]. intros j Hj.
      assert (j <> etgt e) by (intros ->; apply Hj; left; assumption).
      rewrite !upd_other by assumption. auto.
  Qed.

  Lemma rsimF_unlink_out_inner e (fuel : nat) :
    (forall z, FM (- z) = FM z) -> n <= Z.of_nat fuel ->
    In e EO -> PO (esrc e) -> F (esrc e) <> eslot e ->
    exists p', find_prev FM fuel (- F (esrc e)) (eslot e) = Some p' /\ 0 < Z.abs p' < n /\
      Z.abs p' <> esrc e /\
      rsimF n F T (upd (upd FM (Z.abs p') (FM (eslot e))) (esrc e) (FM (esrc e) - 1)) TM
            nodes PO PI ER (remE (eslot e) EO) EI fl cnt.
  Proof.
    intros Hev Hfuel He HP Hh. pose proof R as [R1 R2 R3 R4 R5].
    assert (HeR : In e ER) by (apply (h_incl _ _ _ _ _ _ _ R3); assumption).
    destruct (ends_in_nodes e HeR) as [Hs Ht].
    destruct (half_unlink_inner n esrc F FM nodes PO ER EO e fuel) as [p' [Hf [Hp Hhalf]]]; try assumption.
    exists p'. split; [assumption|]. split.
    { apply (used_range n nodes ER); [assumption|right; assumption]. }
    split.
    { intros E0. apply (b_disj _ _ _ R2 _ Hs). rewrite <- E0. assumption. }
    constructor; try assumption.
    eapply freeS_frame; [exact R2| |exact R5]. intros j Hj.
    assert (j <> esrc e) by (intros ->; apply Hj; left; assumption).
    assert (j <> Z.abs p') by (intros ->; apply Hj; right; assumption).
    rewrite !upd_other by assumption. auto.
  Qed.

  Lemma rsimF_unlink_in_inner e (fuel : nat) :
    (forall z, TM (- z) = TM z) -> n <= Z.of_nat fuel ->
    In e EI -> PI (etgt e) -> T (etgt e) <> eslot e ->
    exists p', find_prev TM fuel (- T (etgt e)) (eslot e) = Some p' /\ 0 < Z.abs p' < n /\
      Z.abs p' <> etgt e /\
      rsimF n F T FM (upd (upd TM (Z.abs p') (TM (eslot e))) (etgt e) (TM (etgt e) - 1))
            nodes PO PI ER EO (remE (eslot e) EI) fl cnt.
  Proof.
    intros Hev Hfuel He HP Hh. pose proof R as [R1 R2 R3 R4 R5].
    assert (HeR : In e ER) by (apply (h_incl _ _ _ _ _ _ _ R4); assumption).
    destruct (ends_in_nodes e HeR) as [Hs Ht].
    destruct (half_unlink_inner n etgt T TM nodes PI ER EI e fuel) as [p' [Hf [Hp Hhalf]]]; try assumption.
    exists p'. split; [assumption|]. split.
    { apply (used_range n nodes ER); [assumption|right; assumption]. }
    split.
    { intros E0. apply (b_disj _ _ _ R2 _ Ht). rewrite <- E0. assumption. }
    constructor; try assumption.
    eapply freeS_frame; [exact R2| |exact R5]. intros j Hj.
    assert (j <> etgt e) by (intros ->; apply Hj; left; assumption).
    assert (j <> Z.abs p') by (intros ->; apply Hj; right; assumption).
    rewrite !upd_other by assumption. auto.
  Qed.

  (* ---- free an unthreaded edge record ---- *)
  Lemma rsimF_free_rec e :
    In e ER -> ~ In (eslot e) (map eslot EO) -> ~ In (eslot e) (map eslot EI) ->
    let s := eslot e in
    rsimF n (upd F s 0) (upd T s 0) (upd (upd FM s (FM 0)) 0 (- s)) (upd TM s 0)
          nodes PO PI (remE s ER) EO EI (if - s =? i64_min then [] else s :: fl) cnt.
  Proof.
    intros He HnO HnI s. pose proof R as [R1 R2 R3 R4 R5].
    pose proof (b_ER_range _ _ _ R2 e He) as Hsr. fold s in Hsr.
    assert (Hincl : forall E, incl E ER -> ~ In s (map eslot E) -> incl E (remE s ER)).
    { intros E Hi Hn x Hx. apply in_remE. split; [auto|]. intros E0. apply Hn. rewrite <- E0. apply in_map. assumption. }
    assert (Hsub : incl (remE s ER) ER).
    { intros x Hx. apply in_remE in Hx. tauto. }
    assert (Hnu : forall j, In j nodes \/ In j (map eslot (remE s ER)) -> j <> s /\ j <> 0).
    { intros j Hj. split.
      - intros ->. destruct Hj as [Hj|Hj].
        + apply (b_disj _ _ _ R2 s Hj). apply in_map. assumption.
        + rewrite map_eslot_remE in Hj. apply in_zrem in Hj. tauto.
      - assert (Hu : used nodes ER j).
        { destruct Hj as [Hj|Hj]; [left; assumption|right]. rewrite map_eslot_remE in Hj. apply in_zrem in Hj. tauto. }
        pose proof (used_range _ _ _ _ R2 Hu). lia. }
    constructor; try assumption.
    - apply base_free_rec. assumption.
    - eapply half_ext; [|eapply half_shrink; [apply incl_refl|exact Hsub| |exact R3]].
      + intros j Hj. destruct (Hnu j Hj). rewrite !upd_other by assumption. auto.
      + apply Hincl; [apply (h_incl _ _ _ _ _ _ _ R3)|assumption].
    - eapply half_ext; [|eapply half_shrink; [apply incl_refl|exact Hsub| |exact R4]].
      + intros j Hj. destruct (Hnu j Hj). rewrite !upd_other by assumption. auto.
      + apply Hincl; [apply (h_incl _ _ _ _ _ _ _ R4)|assumption].
    - eapply freeS_free; [exact R5|assumption| |].
      + right. apply in_map. assumption.
      + intros j. unfold used. rewrite map_eslot_remE, in_zrem. split.
        * intros [Hj|[Hj Hne]]; [|tauto]. split; [left; assumption|].
          intros ->. apply (b_disj _ _ _ R2 s Hj). apply in_map. assumption.
        * tauto.
  Qed.

  (* ---- free an isolated node ---- *)
  Lemma rsimF_free_node m :
    In m nodes -> (forall y, In y ER -> esrc y <> m /\ etgt y <> m) ->
    rsimF n (upd F m 0) (upd T m 0) (upd (upd FM m (FM 0)) 0 (- m)) (upd TM m 0)
          (zrem m nodes) PO PI ER EO EI (if - m =? i64_min then [] else m :: fl) cnt.
  Proof.
    intros Hm Hiso. pose proof R as [R1 R2 R3 R4 R5].
    pose proof (b_nodes_range _ _ _ R2 m Hm) as Hmr.
    assert (Hsub : incl (zrem m nodes) nodes).
    { intros x Hx. apply in_zrem in Hx. tauto. }
    assert (Hnu : forall j, In j (zrem m nodes) \/ In j (map eslot ER) -> j <> m /\ j <> 0).
    { intros j Hj. split.
      - intros ->. destruct Hj as [Hj|Hj].
        + apply in_zrem in Hj. tauto.
        + apply (b_disj _ _ _ R2 m Hm). assumption.
      - assert (Hu : used nodes ER j).
        { destruct Hj as [Hj|Hj]; [left; apply in_zrem in Hj; tauto|right; assumption]. }
        pose proof (used_range _ _ _ _ R2 Hu). lia. }
    constructor; try assumption.
    - apply base_free_node; assumption.
    - eapply half_ext; [|eapply half_shrink; [exact Hsub|apply incl_refl| |exact R3]].
      + intros j Hj. destruct (Hnu j Hj). rewrite !upd_other by assumption. auto.
      + apply (h_incl _ _ _ _ _ _ _ R3).
    - eapply half_ext; [|eapply half_shrink; [exact Hsub|apply incl_refl| |exact R4]].
      + intros j Hj. destruct (Hnu j Hj). rewrite !upd_other by assumption. auto.
      + apply (h_incl _ _ _ _ _ _ _ R4).
    - eapply freeS_free; [exact R5|assumption| |].
      + left. assumption.
      + intros j. unfold used. rewrite in_zrem. split.
        * intros [[Hj Hne]|Hj]; [tauto|]. split; [right; assumption|].
          intros ->. apply (b_disj _ _ _ R2 m Hm). assumption.
        * tauto.
  Qed.
End Steps.

(* ---- allocation ---- *)
Lemma rsimF_alloc_pop n F T FM TM nodes PO PI ER EO EI x rest cnt :
  rsimF n F T FM TM nodes PO PI ER EO EI (x :: rest) cnt ->
  rsimF n F T (upd (upd FM 0 (FM x)) x 0) TM (x :: nodes) PO PI ER EO EI rest cnt.
Proof.
  intros [R1 R2 R3 R4 R5].
  destruct (f_fl _ _ _ _ _ _ _ _ _ R5 x (or_introl eq_refl)) as [Hxr [Hxm [Hxn Hxe]]].
  destruct (f_unused _ _ _ _ _ _ _ _ _ R5 x Hxr Hxn Hxe) as [U1 [U2 [U3 U4]]].
  assert (Hext : forall j, In j nodes \/ In j (map eslot ER) -> j <> x /\ j <> 0).
  { intros j Hj. split; [intros ->; destruct Hj; contradiction|].
    pose proof (used_range _ _ _ _ R2 Hj). lia. }
  constructor; try assumption.
  - apply base_add_node; assumption.
  - apply half_add_node; try assumption.
    + apply upd_same.
    + eapply half_ext; [|exact R3]. intros j Hj. destruct (Hext j Hj). rewrite !upd_other by assumption. auto.
    + intros y Hy. apply (b_ends _ _ _ R2 y Hy).
  - apply half_add_node; try assumption.
    intros y Hy. apply (b_ends _ _ _ R2 y Hy).
  - apply freeS_alloc_pop. assumption.
Qed.

Lemma rsimF_alloc_grow n F T FM TM nodes PO PI ER EO EI cnt :
  F n = 0 -> T n = 0 -> FM n = 0 -> TM n = 0 ->
  rsimF n F T FM TM nodes PO PI ER EO EI [] cnt ->
  rsimF (n + 1) F T FM TM (n :: nodes) PO PI ER EO EI [] cnt.
Proof.
  intros E1 E2 E3 E4 [R1 R2 R3 R4 R5].
  assert (Hnn : ~ In n nodes).
  { intros Hi. pose proof (b_nodes_range _ _ _ R2 n Hi). lia. }
  assert (Hne : ~ In n (map eslot ER)).
  { intros Hi. apply in_map_iff in Hi. destruct Hi as [y [Hy Hi]].
    pose proof (b_ER_range _ _ _ R2 y Hi). lia. }
  constructor; try assumption.
  - lia.
  - apply base_add_node; try assumption; [|lia]. eapply base_grow; [|exact R2]. lia.
  - apply half_add_node; try assumption. intros y Hy. apply (b_ends _ _ _ R2 y Hy).
  - apply half_add_node; try assumption. intros y Hy. apply (b_ends _ _ _ R2 y Hy).
  - apply freeS_alloc_grow; assumption.
Qed.

(* a fresh node s (head of the node list, no edges) becomes the record of edge (s, (f, t)) *)
Lemma rsimF_node_to_rec n F T FM TM nodes PO PI ER EO EI fl cnt s f t :
  rsimF n F T FM TM (s :: nodes) PO PI ER EO EI fl cnt ->
  In f nodes -> In t nodes ->
  (forall y, In y ER -> esrc y <> s /\ etgt y <> s) ->
  rsimF n (upd F s (- f)) (upd T s (- t)) FM TM nodes PO PI ((s, (f, t)) :: ER) EO EI fl cnt.
Proof.
  intros [R1 R2 R3 R4 R5] Hf Ht Hiso. set (x := (s, (f, t)) : aedge).
  constructor; try assumption.
  - apply (base_node_to_rec n nodes ER x); assumption.
  - apply (half_node_to_rec n esrc F FM nodes PO ER EO x); assumption.
  - apply (half_node_to_rec n etgt T TM nodes PI ER EI x); assumption.
  - eapply freeS_ext; [| |exact R5].
    + intros j. unfold used. cbn [map In]. change (eslot x) with s. tauto.
    + intros j Hj.
      assert (j <> s).
      { destruct Hj as [->|[_ Hj]].
        - pose proof (b_nodes_range _ _ _ R2 s (or_introl eq_refl)). lia.
        - intros ->. apply Hj. left. left. reflexivity. }
      rewrite !upd_other by assumption. auto.
Qed.
