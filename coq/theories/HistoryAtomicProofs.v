(* HistoryAtomicProofs.v — C13 for ALL query kinds and the invariant across FAILING queries:
   from a state satisfying `HInv` (= the joint invariant Inv of C09/C10/C11 with graph wf, the C13
   well-formedness db_ok, and an empty undo stack)
     * a failing query is rolled back to an observationally equal state, which satisfies HInv again;
     * a failing transaction (a failing query at any point, or a failure injected after the last query)
       likewise;  a succeeding query / transaction is committed to a state satisfying HInv;
     * hence, by induction, the same at every point of every history of queries and transactions.
   Side conditions: `query_ok` (no insert list names a key twice — C09's quantifier, needed by the
   unique-keys component of both invariants) and the capacity bound 2^63 on the state reached before the
   commit / rollback (ids fit i64; at 2^63 the free-list sentinel i64::MIN would collide with a slot). *)
From Agdb Require Import Bytes BytesProofs DbValue Graph DbModel Search Queries Revisions
  GraphSim GraphWf GraphLive AliasProofs KvProofs KvDbProofs
  IndexProofs IndexDbProofs IndexDb3Proofs IndexInvProofs
  DbInvProofs QStepProofs QueryInvProofs TraversalLiveProofs DbInvariantProofs SliceProofs NoPanicProofs.
From Agdb Require Import UndoBase UndoObs UndoAlias UndoKv UndoGraphBase UndoGraph UndoAbs UndoDb UndoBridge
  UndoMain UndoFinal UndoLift InvSimProofs RollbackInvProofs PstepOpsProofs QueryPstepsProofs.
From Coq Require Import Permutation ZifyBool ZifyNat ZifyN.
Ltac Zify.zify_post_hook ::= Z.div_mod_to_equations.
Open Scope Z_scope.

Definition HInv (d : db) : Prop := Inv d /\ db_ok d /\ undo d = [].

Lemma HInv_new : HInv db_new.
Proof. split; [exact Inv_new|]. split; [exact db_ok_new|reflexivity]. Qed.

(* the strong form of "no observable effect": obs_eq + same degree counters + same ids handed out next *)
Definition restored (d d' : db) : Prop :=
  obs_eq d d' /\
  (forall n, slot_kind (gr d) n = KNode ->
     edge_count_from (gr d) n = edge_count_from (gr d') n /\ edge_count_to (gr d) n = edge_count_to (gr d') n) /\
  (forall k, capacity (gr d) + Z.of_nat k <= two63z -> capacity (gr d') + Z.of_nat k <= two63z ->
     next_slots k (gr d) = next_slots k (gr d')).

(* histories: single queries (each its own transaction) and explicit transactions *)
Inductive hitem := HQuery (q : query) | HTxn (qs : list query) (fail_at_end : bool).

Definition item_ok (it : hitem) : Prop :=
  match it with HQuery q => query_ok q | HTxn qs _ => Forall query_ok qs end.

Section Atomic.
  Variable rv : revision.
  Hypothesis Hrv : fix_rollback_replace rv = true.
  Hypothesis Hsteal : fix_alias_steal_undo rv = true.
  Hypothesis Hfix : fix_alias_nodes_only rv = true.
  Hypothesis Hnia : fix_nodes_ids_alias rv = true.
  Hypothesis Hclamp : fix_slice_clamp rv = true.
  Hypothesis Hsearch : search_live rv.

  Notation reach := (PstepOpsProofs.reach rv).

  (* ---------- the two ways a transaction ends ---------- *)
  Lemma rollback_restores_HInv d d1 :
    HInv d -> Inv d1 -> reach d d1 -> capacity (gr d1) <= two63z ->
    exists d', rollback rv d1 = ROk d' /\ restored d d' /\ HInv d'.
  Proof.
    intros (Hi & Hok & Hu) Hi1 [_ Hr] Hb. pose proof (Hr Hok Hb) as Hp.
    destruct (rollback_restores rv Hrv Hsteal d d1 Hok Hu Hp Hb) as (d' & Hroll & S).
    destruct (sim_observable d' d S) as (Ho & Hdeg & Hnext & Hok').
    destruct (psteps_uok rv Hsteal d d1 Hp (proj1 Hi)) as [_ Hu1]; [unfold uok; rewrite Hu; constructor|].
    destruct (rollback_wf_bij rv d1 d' Hroll Hu1 (proj1 Hi1) (proj1 (proj2 Hi1))) as [W B].
    exists d'. split; [exact Hroll|]. split; [exact (conj Ho (conj Hdeg Hnext))|].
    split; [exact (Inv_of_sim d d' Hi S W B)|]. split; [exact Hok'|]. exact (rollback_undo rv d1 d' Hroll).
  Qed.

  Lemma commit_HInv d d1 :
    HInv d -> Inv d1 -> reach d d1 -> capacity (gr d1) <= two63z -> HInv (commit d1).
  Proof.
    intros (Hi & Hok & Hu) Hi1 [_ Hr] Hb. pose proof (Hr Hok Hb) as Hp.
    destruct (psteps_ok rv Hrv Hsteal d d1 Hok Hp Hb) as [Hok1 _].
    split; [exact Hi1|]. split; [|reflexivity].
    unfold commit, clear_undo. apply sim_undo_irrelevant. apply sim_sym. apply sim_undo_irrelevant. exact Hok1.
  Qed.

  (* ---------- one query as its own transaction ---------- *)
  Theorem exec_atomic d q :
    query_ok q -> HInv d -> capacity (gr (fst (exec_in_txn rv d q))) <= two63z ->
    HInv (fst (exec rv d q)) /\
    (is_failure (snd (exec rv d q)) = true ->
     restored d (fst (exec rv d q)) /\ snd (exec rv d q) = snd (exec_in_txn rv d q)).
  Proof.
    intros Hq Hd Hb. unfold exec.
    pose proof (exec_in_txn_reach rv Hrv Hsteal Hnia Hsearch d q Hq (proj1 Hd)) as Hr.
    pose proof (exec_in_txn_Inv rv Hsearch Hfix d q Hq (proj1 Hd)) as Hi.
    pose proof (exec_in_txn_no_panic rv Hclamp d q) as Hnp.
    destruct (exec_in_txn rv d q) as [d1 r]. cbn [fst snd] in *.
    destruct r as [n els|e|]; [| |congruence].
    - cbn [fst snd is_failure]. split; [now apply (commit_HInv d d1)|discriminate].
    - destruct (rollback_restores_HInv d d1 Hd Hi Hr Hb) as (d' & Hroll & Hres & Hd'). rewrite Hroll.
      cbn [fst snd]. split; [exact Hd'|]. intros _. split; [exact Hres|reflexivity].
  Qed.

  (* C13_exec_failure_restores *)
  Theorem exec_failure_restores_all d q d' e :
    query_ok q -> HInv d -> capacity (gr (fst (exec_in_txn rv d q))) <= two63z ->
    exec rv d q = (d', QErr e) -> restored d d' /\ HInv d'.
  Proof.
    intros Hq Hd Hb He. destruct (exec_atomic d q Hq Hd Hb) as [H1 H2]. rewrite He in H1, H2. cbn [fst snd] in *.
    split; [apply H2; reflexivity|exact H1].
  Qed.

  (* ---------- transactions ---------- *)
  Definition txn_failed (d : db) (qs : list query) (fail_at_end : bool) : bool :=
    negb (snd (txn_run rv d qs []) && negb fail_at_end).

  Theorem transaction_atomic d qs fail_at_end :
    Forall query_ok qs -> HInv d -> capacity (gr (fst (fst (txn_run rv d qs [])))) <= two63z ->
    HInv (fst (transaction rv d qs fail_at_end)) /\
    snd (transaction rv d qs fail_at_end) = snd (fst (txn_run rv d qs [])) /\
    (txn_failed d qs fail_at_end = true -> restored d (fst (transaction rv d qs fail_at_end))).
  Proof.
    intros Hq Hd Hb. unfold transaction, txn_failed.
    pose proof (txn_run_reach rv Hrv Hsteal Hfix Hnia Hsearch qs d [] Hq (proj1 Hd)) as Hr.
    pose proof (txn_run_Inv_sl rv Hsearch Hfix qs d [] Hq (proj1 Hd)) as Hi.
    pose proof (txn_run_no_panic rv Hclamp qs d [] eq_refl) as Hnp.
    destruct (txn_run rv d qs []) as [[d1 results] all_ok]. cbn [fst snd] in *.
    change (existsb (fun r => match r with QPanic => true | _ => false end) results) with (existsb is_panic results).
    rewrite Hnp. destruct (all_ok && negb fail_at_end) eqn:Ec; cbn [negb].
    - cbn [fst snd]. split; [now apply (commit_HInv d d1)|]. split; [reflexivity|discriminate].
    - destruct (rollback_restores_HInv d d1 Hd Hi Hr Hb) as (d' & Hroll & Hres & Hd'). rewrite Hroll.
      cbn [fst snd]. split; [exact Hd'|]. split; [reflexivity|]. intros _. exact Hres.
  Qed.

  (* ---------- histories ---------- *)
  Definition run_item (d : db) (it : hitem) : db :=
    match it with
    | HQuery q => fst (exec rv d q)
    | HTxn qs f => fst (transaction rv d qs f)
    end.

  (* the state before the commit / rollback that ends the item *)
  Definition item_peak (d : db) (it : hitem) : db :=
    match it with
    | HQuery q => fst (exec_in_txn rv d q)
    | HTxn qs f => fst (fst (txn_run rv d qs []))
    end.

  Definition item_failed (d : db) (it : hitem) : bool :=
    match it with
    | HQuery q => is_failure (snd (exec rv d q))
    | HTxn qs f => txn_failed d qs f
    end.

  Definition run_items (d : db) (its : list hitem) : db := fold_left run_item its d.

  (* every id handed out along the history fits i64 *)
  Fixpoint bounded (d : db) (its : list hitem) : Prop :=
    match its with
    | [] => True
    | it :: r => capacity (gr (item_peak d it)) <= two63z /\ bounded (run_item d it) r
    end.

  Theorem item_atomic d it :
    item_ok it -> HInv d -> capacity (gr (item_peak d it)) <= two63z ->
    HInv (run_item d it) /\ (item_failed d it = true -> restored d (run_item d it)).
  Proof.
    intros Hok Hd Hb. destruct it as [q|qs f]; cbn [item_ok run_item item_peak item_failed] in *.
    - destruct (exec_atomic d q Hok Hd Hb) as [H1 H2]. split; [exact H1|]. intros Hf. now apply H2.
    - destruct (transaction_atomic d qs f Hok Hd Hb) as (H1 & _ & H3). now split.
  Qed.

  Lemma run_items_app d l1 l2 : run_items d (l1 ++ l2) = run_items (run_items d l1) l2.
  Proof. unfold run_items. apply fold_left_app. Qed.

  Lemma bounded_app d l1 l2 : bounded d (l1 ++ l2) -> bounded d l1 /\ bounded (run_items d l1) l2.
  Proof.
    revert d. induction l1 as [|it r IH]; intros d H; cbn [app bounded] in *; [now split|].
    destruct H as [H1 H2]. destruct (IH _ H2) as [H3 H4]. split; [now split|exact H4].
  Qed.

  Theorem history_HInv its : forall d,
    Forall item_ok its -> HInv d -> bounded d its -> HInv (run_items d its).
  Proof.
    induction its as [|it r IH]; intros d Hok Hd Hb; [exact Hd|].
    inversion Hok as [|? ? Hok1 Hok2]; subst. destruct Hb as [Hb1 Hb2]. cbn [run_items fold_left].
    apply (IH (run_item d it) Hok2); [|exact Hb2]. apply (item_atomic d it Hok1 Hd Hb1).
  Qed.

  (* C13_history_atomic: at every point of the history *)
  Theorem history_atomic d its pre it post :
    Forall item_ok its -> HInv d -> bounded d its -> its = pre ++ it :: post ->
    let a := run_items d pre in
    HInv a /\ HInv (run_item a it) /\ (item_failed a it = true -> restored a (run_item a it)).
  Proof.
    intros Hok Hd Hb ->. cbv zeta.
    apply Forall_app in Hok. destruct Hok as [Hok1 Hok2]. inversion Hok2 as [|? ? Hok3 _]; subst.
    destruct (bounded_app d pre (it :: post) Hb) as [Hb1 Hb2]. cbn [bounded] in Hb2. destruct Hb2 as [Hb2 _].
    pose proof (history_HInv pre d Hok1 Hd Hb1) as Ha. split; [exact Ha|].
    exact (item_atomic _ it Hok3 Ha Hb2).
  Qed.
End Atomic.

(* ---------- rv_fixed ---------- *)
Definition run_item_fixed := run_item rv_fixed.
Definition run_items_fixed := run_items rv_fixed.

Theorem exec_failure_restores_fixed d q d' e :
  query_ok q -> HInv d -> capacity (gr (fst (exec_in_txn rv_fixed d q))) <= two63z ->
  exec rv_fixed d q = (d', QErr e) -> restored d d' /\ HInv d'.
Proof. exact (exec_failure_restores_all rv_fixed eq_refl eq_refl eq_refl eq_refl eq_refl search_live_fixed d q d' e). Qed.

Theorem transaction_atomic_fixed d qs fail_at_end :
  Forall query_ok qs -> HInv d -> capacity (gr (fst (fst (txn_run rv_fixed d qs [])))) <= two63z ->
  HInv (fst (transaction rv_fixed d qs fail_at_end)) /\
  snd (transaction rv_fixed d qs fail_at_end) = snd (fst (txn_run rv_fixed d qs [])) /\
  (txn_failed rv_fixed d qs fail_at_end = true -> restored d (fst (transaction rv_fixed d qs fail_at_end))).
Proof. exact (transaction_atomic rv_fixed eq_refl eq_refl eq_refl eq_refl eq_refl search_live_fixed d qs fail_at_end). Qed.

Theorem history_HInv_fixed its :
  Forall item_ok its -> bounded rv_fixed db_new its -> HInv (run_items rv_fixed db_new its).
Proof. intros Hok Hb. exact (history_HInv rv_fixed eq_refl eq_refl eq_refl eq_refl eq_refl search_live_fixed its db_new Hok HInv_new Hb). Qed.

Theorem history_atomic_fixed its pre it post :
  Forall item_ok its -> bounded rv_fixed db_new its -> its = pre ++ it :: post ->
  let a := run_items rv_fixed db_new pre in
  HInv a /\ HInv (run_item rv_fixed a it) /\
  (item_failed rv_fixed a it = true -> restored a (run_item rv_fixed a it)).
Proof.
  intros Hok Hb. exact (history_atomic rv_fixed eq_refl eq_refl eq_refl eq_refl eq_refl search_live_fixed db_new its pre it post Hok HInv_new Hb).
Qed.

Theorem history_wf_fixed its :
  Forall item_ok its -> bounded rv_fixed db_new its -> wf (gr (run_items rv_fixed db_new its)).
Proof. intros Hok Hb. apply (history_HInv_fixed its Hok Hb). Qed.
