(* UndoKv.v — C13, the per-element key-value lists and the indexes: pointwise
   specifications of the store operations, permutation congruence under unique keys,
   and the inverse lemmas used by rollback. *)
From Agdb Require Import Bytes BytesProofs DbValue Graph DbModel UndoBase UndoObs.
From Coq Require Import Permutation ZifyBool ZifyNat ZifyN.
Ltac Zify.zify_post_hook ::= Z.div_mod_to_equations.
Open Scope Z_scope.

(* two ids address the same slot *)
Definition same_slot (i j : Z) : bool := Nat.eqb (zabs_nat i) (zabs_nat j).

Lemma same_slot_refl i : same_slot i i = true.
Proof. apply Nat.eqb_refl. Qed.
Lemma same_slot_sym i j : same_slot i j = same_slot j i.
Proof. apply Nat.eqb_sym. Qed.
Lemma same_slot_spec i j : reflect (Z.abs i = Z.abs j) (same_slot i j).
Proof.
  unfold same_slot, zabs_nat. destruct (Nat.eqb_spec (Z.to_nat (Z.abs i)) (Z.to_nat (Z.abs j))); constructor; lia.
Qed.

(* ------------------------------------------------------------------ *)
(* kvstore pointwise                                                    *)

Lemma nth_kvs_set_nth s n v k : nth k (kvs_set_nth s n v) [] = if Nat.eqb n k then v else nth k s [].
Proof.
  revert n k. induction s as [|x r IH]; intros n k.
  - revert k. induction n as [|n IHn]; intros k; cbn [kvs_set_nth].
    + destruct k as [|[|k]]; reflexivity.
    + destruct k as [|k]; [reflexivity|]. cbn [nth Nat.eqb]. rewrite IHn. destruct (Nat.eqb n k); destruct k; reflexivity.
  - destruct n as [|n], k as [|k]; cbn [kvs_set_nth nth Nat.eqb]; try reflexivity. apply IH.
Qed.

Lemma kvs_get_set s i v j : kvs_get (kvs_set s i v) j = if same_slot i j then v else kvs_get s j.
Proof. unfold kvs_get, kvs_set, same_slot. apply nth_kvs_set_nth. Qed.

Lemma kvs_get_insert_value s i x j :
  kvs_get (kvs_insert_value s i x) j = if same_slot i j then kvs_get s i ++ [x] else kvs_get s j.
Proof. unfold kvs_insert_value. apply kvs_get_set. Qed.

Lemma kvs_get_remove_value s i k j :
  kvs_get (kvs_remove_value s i k) j = if same_slot i j then remove_first_key (kvs_get s i) k else kvs_get s j.
Proof. unfold kvs_remove_value. apply kvs_get_set. Qed.

Lemma kvs_get_same s i j : same_slot i j = true -> kvs_get s i = kvs_get s j.
Proof. unfold same_slot, kvs_get. intros H. apply Nat.eqb_eq in H. rewrite H. reflexivity. Qed.

Lemma nth_removelast {A} (l : list A) k d : (S k < length l)%nat -> nth k (removelast l) d = nth k l d.
Proof.
  revert k. induction l as [|x r IH]; intros k H; [cbn in H; lia|].
  destruct r as [|y r']; [cbn in H; lia|].
  cbn [removelast]. destruct k as [|k]; [reflexivity|]. cbn [nth]. apply IH. cbn [length] in *. lia.
Qed.

Lemma removelast_length {A} (l : list A) : length (removelast l) = pred (length l).
Proof.
  induction l as [|x r IH]; [reflexivity|]. destruct r as [|y r']; [reflexivity|].
  cbn [removelast length] in *. rewrite IH. reflexivity.
Qed.

Lemma kvs_get_remove s i j : kvs_get (kvs_remove s i) j = if same_slot i j then [] else kvs_get s j.
Proof.
  unfold kvs_remove. destruct (Nat.eqb_spec (S (zabs_nat i)) (length s)) as [E|NE].
  - unfold kvs_get, same_slot. destruct (Nat.eqb_spec (zabs_nat i) (zabs_nat j)) as [E2|NE2].
    + apply nth_overflow. rewrite removelast_length. lia.
    + destruct (Nat.lt_ge_cases (zabs_nat j) (zabs_nat i)).
      * apply nth_removelast. lia.
      * rewrite !nth_overflow; [reflexivity | lia | rewrite removelast_length; lia].
  - destruct (Nat.ltb_spec (zabs_nat i) (length s)).
    + apply kvs_get_set.
    + destruct (same_slot i j) eqn:E; [|reflexivity].
      unfold kvs_get. apply Nat.eqb_eq in E. rewrite <- E. apply nth_overflow. lia.
Qed.

Lemma kvs_get_reserve s i j : kvs_get (kvs_reserve s i) j = kvs_get s j.
Proof.
  unfold kvs_reserve. destruct (Nat.ltb_spec (zabs_nat i) (length s)); [reflexivity|].
  rewrite kvs_get_set. destruct (same_slot i j) eqn:E; [|reflexivity].
  unfold kvs_get. apply Nat.eqb_eq in E. rewrite <- E. symmetry. apply nth_overflow. lia.
Qed.

(* ------------------------------------------------------------------ *)
(* lists of key-value pairs                                             *)

Definition keys_ok (l : list kv) : Prop := NoDup (map fst l).
Definition has_key (l : list kv) (k : dbvalue) : Prop := In k (map fst l).

Definition key_is (k : dbvalue) (y : kv) : bool := dbv_eqb (fst y) k.

Lemma remove_first_key_absent l k : ~ has_key l k -> remove_first_key l k = l.
Proof.
  unfold has_key. induction l as [|y r IH]; cbn [remove_first_key map In]; [reflexivity|].
  intros H. destruct (dbv_eqb_spec (fst y) k); [tauto|]. rewrite IH; tauto.
Qed.

Lemma remove_first_key_app_last l x : ~ has_key l (fst x) -> remove_first_key (l ++ [x]) (fst x) = l.
Proof.
  unfold has_key. induction l as [|y r IH]; cbn [remove_first_key map In app].
  - rewrite dbv_eqb_refl. reflexivity.
  - intros H. destruct (dbv_eqb_spec (fst y) (fst x)); [tauto|]. rewrite IH; tauto.
Qed.

Lemma remove_first_key_filter l k :
  keys_ok l -> remove_first_key l k = filter (fun y => negb (key_is k y)) l.
Proof.
  unfold keys_ok, key_is. induction l as [|y r IH]; cbn [remove_first_key map filter]; [reflexivity|].
  intros H. inversion H as [|? ? Hn Hr]. subst. destruct (dbv_eqb_spec (fst y) k) as [E|NE]; cbn [negb].
  - subst. rewrite <- IH by assumption. symmetry. apply remove_first_key_absent. exact Hn.
  - rewrite IH by assumption. reflexivity.
Qed.

Lemma Permutation_filter' {A} (f : A -> bool) l l' : Permutation l l' -> Permutation (filter f l) (filter f l').
Proof.
  induction 1; cbn [filter].
  - constructor.
  - destruct (f x); [constructor|]; assumption.
  - destruct (f x), (f y); try constructor; try reflexivity.
  - etransitivity; eassumption.
Qed.

Lemma keys_ok_perm l l' : Permutation l l' -> keys_ok l -> keys_ok l'.
Proof. unfold keys_ok. intros P. apply Permutation_NoDup, Permutation_map, P. Qed.

Lemma has_key_perm l l' k : Permutation l l' -> has_key l k -> has_key l' k.
Proof. unfold has_key. intros P. apply Permutation_in, Permutation_map, P. Qed.

Lemma remove_first_key_perm l l' k :
  keys_ok l -> Permutation l l' -> Permutation (remove_first_key l k) (remove_first_key l' k).
Proof.
  intros Hok P. rewrite !remove_first_key_filter; [apply Permutation_filter', P | eapply keys_ok_perm; eassumption | assumption].
Qed.

Lemma filter_keys_ok f l : keys_ok l -> keys_ok (filter f l).
Proof.
  unfold keys_ok. induction l as [|y r IH]; cbn [filter map]; [auto|].
  intros H. inversion H as [|? ? Hn Hr]. subst. destruct (f y); [|auto].
  cbn [map]. constructor; [|auto]. intros Hin. apply Hn.
  apply in_map_iff in Hin. destruct Hin as (z & Hz & Hin). apply filter_In in Hin.
  apply in_map_iff. exists z. tauto.
Qed.

Lemma remove_first_key_ok l k : keys_ok l -> keys_ok (remove_first_key l k).
Proof. intros H. rewrite remove_first_key_filter by assumption. apply filter_keys_ok, H. Qed.

Lemma remove_first_key_not_has l k : keys_ok l -> ~ has_key (remove_first_key l k) k.
Proof.
  intros H. rewrite remove_first_key_filter by assumption. unfold has_key. intros Hin.
  apply in_map_iff in Hin. destruct Hin as (z & Hz & Hin). apply filter_In in Hin.
  destruct Hin as [_ Hf]. unfold key_is in Hf. rewrite Hz, dbv_eqb_refl in Hf. discriminate.
Qed.

Lemma NoDup_snoc {A} (l : list A) x : NoDup l -> ~ In x l -> NoDup (l ++ [x]).
Proof.
  intros H Hn. apply (Permutation_NoDup (l := x :: l)).
  - apply Permutation_cons_append.
  - constructor; assumption.
Qed.

Lemma keys_ok_app_last l x : keys_ok l -> ~ has_key l (fst x) -> keys_ok (l ++ [x]).
Proof.
  unfold keys_ok, has_key. intros H Hn. rewrite map_app. cbn [map]. apply NoDup_snoc; assumption.
Qed.

(* remove-then-append is a permutation when the pair was there *)
Lemma remove_first_key_then_append l x :
  keys_ok l -> In x l -> Permutation (remove_first_key l (fst x) ++ [x]) l.
Proof.
  unfold keys_ok. induction l as [|y r IH]; cbn [remove_first_key map In]; [tauto|].
  intros H Hin. inversion H as [|? ? Hn Hr]. subst.
  destruct (dbv_eqb_spec (fst y) (fst x)) as [E|NE].
  - destruct Hin as [->|Hin].
    + symmetry. apply Permutation_cons_append.
    + exfalso. apply Hn. rewrite E. apply in_map, Hin.
  - destruct Hin as [->|Hin]; [congruence|]. cbn [app]. constructor. apply IH; assumption.
Qed.

(* replace_first *)
Lemma replace_first_none l x : replace_first l x = None <-> ~ has_key l (fst x).
Proof.
  unfold has_key. induction l as [|y r IH]; cbn [replace_first map In]; [tauto|].
  destruct (dbv_eqb_spec (fst y) (fst x)) as [E|NE].
  - split; [discriminate | tauto].
  - destruct (replace_first r x) as [[old r']|].
    + split; [discriminate|]. intros H. exfalso. apply H. right. destruct IH as [_ IH].
      destruct (in_dec (fun a b => match dbv_eqb_spec a b with ReflectT _ e => left e | ReflectF _ n => right n end)
                       (fst x) (map fst r)); [assumption|]. specialize (IH n). discriminate.
    + split; [|reflexivity]. intros _. destruct IH as [IH _]. specialize (IH eq_refl). tauto.
Qed.

(* the inverse of a replacement is the replacement by the old pair — exactly *)
Lemma replace_first_inverse l x old l' :
  replace_first l x = Some (old, l') -> fst old = fst x /\ replace_first l' old = Some (x, l).
Proof.
  revert l'. induction l as [|y r IH]; intros l' H; cbn [replace_first] in H; [discriminate|].
  destruct (dbv_eqb_spec (fst y) (fst x)) as [E|NE].
  - inversion H. subst. split; [assumption|]. cbn [replace_first].
    destruct (dbv_eqb_spec (fst x) (fst old)); [reflexivity | congruence].
  - destruct (replace_first r x) as [[o r']|] eqn:Er; [|discriminate]. inversion H. subst.
    destruct (IH _ eq_refl) as [Ek Hr]. split; [assumption|].
    cbn [replace_first]. rewrite Ek. destruct (dbv_eqb_spec (fst y) (fst x)); [contradiction|].
    rewrite Hr. reflexivity.
Qed.

(* with unique keys a replacement is a map, and `old` is the pair with that key *)
Lemma replace_first_map l x old l' :
  keys_ok l -> replace_first l x = Some (old, l') ->
  In old l /\ fst old = fst x /\ l' = map (fun y => if key_is (fst x) y then x else y) l.
Proof.
  unfold keys_ok, key_is. revert l'. induction l as [|y r IH]; intros l' Hok H; cbn [replace_first] in H; [discriminate|].
  inversion Hok as [|? ? Hn Hr]. subst. cbn [map].
  destruct (dbv_eqb_spec (fst y) (fst x)) as [E|NE].
  - inversion H. subst. split; [left; reflexivity|]. split; [assumption|]. f_equal.
    symmetry. transitivity (map (fun y : kv => y) r); [|apply map_id]. apply map_ext_in. intros z Hz.
    destruct (dbv_eqb_spec (fst z) (fst x)) as [E2|]; [|reflexivity].
    exfalso. apply Hn. rewrite E, <- E2. apply in_map, Hz.
  - destruct (replace_first r x) as [[o r']|] eqn:Er; [|discriminate]. inversion H. subst.
    destruct (IH _ Hr eq_refl) as (Hin & Ek & El). split; [right; assumption|]. split; [assumption|].
    f_equal. assumption.
Qed.

(* two pairs of a list with unique keys that have the same key are equal *)
Lemma keys_ok_same_key l (a b : kv) : keys_ok l -> In a l -> In b l -> fst a = fst b -> a = b.
Proof.
  unfold keys_ok. induction l as [|y r IH]; [contradiction|].
  intros Hok Ha Hb E. inversion Hok as [|? ? Hn Hr]. subst. cbn [map] in *.
  destruct Ha as [->|Ha], Hb as [->|Hb]; auto.
  - exfalso. apply Hn. rewrite E. apply in_map, Hb.
  - exfalso. apply Hn. rewrite <- E. apply in_map, Ha.
Qed.

Lemma replace_first_perm l1 l2 x old l1' :
  keys_ok l1 -> Permutation l1 l2 -> replace_first l1 x = Some (old, l1') ->
  exists l2', replace_first l2 x = Some (old, l2') /\ Permutation l1' l2'.
Proof.
  intros Hok P H. pose proof (keys_ok_perm _ _ P Hok) as Hok2.
  destruct (replace_first_map _ _ _ _ Hok H) as (Hin & Ek & El).
  destruct (replace_first l2 x) as [[old2 l2']|] eqn:E2.
  - destruct (replace_first_map _ _ _ _ Hok2 E2) as (Hin2 & Ek2 & El2).
    assert (Eo : old2 = old).
    { apply (Permutation_in _ (Permutation_sym P)) in Hin2.
      apply (keys_ok_same_key l1 old2 old Hok Hin2 Hin). congruence. }
    rewrite Eo. exists l2'. split; [reflexivity|]. rewrite El, El2. apply Permutation_map, P.
  - exfalso. apply replace_first_none in E2. apply E2. eapply has_key_perm; [exact P|].
    unfold has_key. rewrite <- Ek. apply in_map, Hin.
Qed.

Lemma replace_first_keys l x old l' : replace_first l x = Some (old, l') -> map fst l' = map fst l.
Proof.
  revert l'. induction l as [|y r IH]; intros l' H; cbn [replace_first] in H; [discriminate|].
  destruct (dbv_eqb_spec (fst y) (fst x)) as [E|NE].
  - inversion H. subst. cbn [map]. congruence.
  - destruct (replace_first r x) as [[o r']|] eqn:Er; [|discriminate]. inversion H. subst.
    cbn [map]. f_equal. apply IH. reflexivity.
Qed.

(* ------------------------------------------------------------------ *)
(* indexes pointwise                                                    *)

Lemma idx_find_update ix key f key' :
  idx_find (idx_update ix key f) key' =
  if dbv_eqb key key' then match idx_find ix key' with Some l => Some (f l) | None => None end
  else idx_find ix key'.
Proof.
  unfold idx_find. induction ix as [|[k ids] r IH]; cbn [idx_update find fst snd].
  - destruct (dbv_eqb key key'); reflexivity.
  - destruct (dbv_eqb_spec k key) as [->|NE]; cbn [find fst snd].
    + destruct (dbv_eqb_spec key key') as [->|]; reflexivity.
    + destruct (dbv_eqb_spec k key') as [->|NE2].
      * destruct (dbv_eqb_spec key key'); [congruence | reflexivity].
      * apply IH.
Qed.

Lemma idx_find_app_new ix key key' :
  idx_find (ix ++ [(key, [])]) key' =
  match idx_find ix key' with Some l => Some l | None => if dbv_eqb key key' then Some [] else None end.
Proof.
  unfold idx_find. induction ix as [|[k ids] r IH]; cbn [app find fst snd].
  - destruct (dbv_eqb key key'); reflexivity.
  - destruct (dbv_eqb k key'); [reflexivity | apply IH].
Qed.

Definition idx_ok (ix : list index) : Prop := NoDup (map fst ix).

Lemma idx_find_none ix key : idx_find ix key = None <-> ~ In key (map fst ix).
Proof.
  unfold idx_find. induction ix as [|[k ids] r IH]; cbn [find map fst snd In]; [tauto|].
  destruct (dbv_eqb_spec k key) as [->|NE]; [split; [discriminate | tauto]|].
  rewrite IH. tauto.
Qed.

Lemma idx_find_remove ix key key' :
  idx_ok ix ->
  idx_find (idx_remove ix key) key' = if dbv_eqb key key' then None else idx_find ix key'.
Proof.
  unfold idx_ok. induction ix as [|[k ids] r IH]; cbn [idx_remove map fst]; intros Hok.
  - destruct (dbv_eqb key key'); reflexivity.
  - inversion Hok as [|? ? Hn Hr]. subst. destruct (dbv_eqb_spec k key) as [->|NE].
    + unfold idx_find at 2. cbn [find fst snd]. destruct (dbv_eqb_spec key key') as [->|].
      * apply idx_find_none, Hn.
      * reflexivity.
    + specialize (IH Hr). unfold idx_find in *. cbn [find fst snd]. destruct (dbv_eqb_spec k key') as [->|NE2].
      * destruct (dbv_eqb_spec key key'); [congruence | reflexivity].
      * apply IH.
Qed.

Lemma idx_update_keys ix key f : map fst (idx_update ix key f) = map fst ix.
Proof.
  induction ix as [|[k ids] r IH]; cbn [idx_update map fst]; [reflexivity|].
  destruct (dbv_eqb k key); cbn [map fst]; congruence.
Qed.

Lemma idx_ok_update ix key f : idx_ok ix -> idx_ok (idx_update ix key f).
Proof. unfold idx_ok. rewrite idx_update_keys. auto. Qed.

Lemma idx_remove_keys_incl ix key k : In k (map fst (idx_remove ix key)) -> In k (map fst ix).
Proof.
  induction ix as [|[k0 ids] r IH]; cbn [idx_remove map fst In]; [auto|].
  destruct (dbv_eqb k0 key); cbn [map fst In]; tauto.
Qed.

Lemma idx_ok_remove ix key : idx_ok ix -> idx_ok (idx_remove ix key).
Proof.
  unfold idx_ok. induction ix as [|[k ids] r IH]; cbn [idx_remove map fst]; intros Hok; [constructor|].
  inversion Hok as [|? ? Hn Hr]. subst. destruct (dbv_eqb k key); [assumption|].
  cbn [map fst]. constructor; [|auto]. intros Hin. apply Hn. eapply idx_remove_keys_incl, Hin.
Qed.

Lemma idx_ok_app_new ix key : idx_ok ix -> idx_find ix key = None -> idx_ok (ix ++ [(key, [])]).
Proof.
  unfold idx_ok. intros Hok Hn. rewrite map_app. cbn [map fst]. apply NoDup_snoc; [assumption|].
  apply idx_find_none, Hn.
Qed.

(* one (value,id) pair removed / appended *)
Lemma remove_first_pair_app_last l v id : Permutation (remove_first_pair (l ++ [(v, id)]) v id) l.
Proof.
  induction l as [|[v' id'] r IH]; cbn [remove_first_pair app].
  - rewrite dbv_eqb_refl, Z.eqb_refl. constructor.
  - destruct (dbv_eqb_spec v' v) as [->|]; cbn [andb].
    + destruct (Zeqb_spec id' id) as [->|].
      * symmetry. apply Permutation_cons_append.
      * constructor. apply IH.
    + constructor. apply IH.
Qed.

Lemma remove_first_pair_then_append l v id :
  In (v, id) l -> Permutation (remove_first_pair l v id ++ [(v, id)]) l.
Proof.
  induction l as [|[v' id'] r IH]; cbn [remove_first_pair In]; [tauto|].
  intros Hin. destruct (dbv_eqb_spec v' v) as [->|NE]; cbn [andb].
  - destruct (Zeqb_spec id' id) as [->|NE2].
    + symmetry. apply Permutation_cons_append.
    + cbn [app]. constructor. apply IH. destruct Hin as [E|]; [congruence | assumption].
  - cbn [app]. constructor. apply IH. destruct Hin as [E|]; [congruence | assumption].
Qed.

Lemma remove_first_pair_absent l v id : ~ In (v, id) l -> remove_first_pair l v id = l.
Proof.
  induction l as [|[v' id'] r IH]; cbn [remove_first_pair In]; [reflexivity|].
  intros Hn. destruct (dbv_eqb_spec v' v) as [->|NE]; cbn [andb].
  - destruct (Zeqb_spec id' id) as [->|NE2]; [tauto|]. rewrite IH; tauto.
  - rewrite IH; tauto.
Qed.

Lemma remove_first_pair_perm l l' v id :
  Permutation l l' -> Permutation (remove_first_pair l v id) (remove_first_pair l' v id).
Proof.
  intros P. destruct (in_dec (fun a b : dbvalue * Z =>
                       match bool_dec (vid_eqb a b) true with
                       | left e => left (proj1 (vid_eqb_eq a b) e)
                       | right n => right (fun e => n (proj2 (vid_eqb_eq a b) e)) end) (v, id) l) as [Hin|Hn].
  - apply (Permutation_app_inv_r [(v, id)]).
    rewrite remove_first_pair_then_append by assumption.
    rewrite remove_first_pair_then_append by (eapply Permutation_in; eassumption). assumption.
  - rewrite !remove_first_pair_absent; [assumption | | assumption].
    intros Hin. apply Hn. eapply Permutation_in; [symmetry|]; eassumption.
Qed.
