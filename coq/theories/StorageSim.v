(* StorageSim.v — C06 at the storage level: the three byte-store back-ends (memory_storage.rs,
   file_storage.rs, file_storage_memory_mapped.rs, modelled literally in Storage.v as mem_raw /
   file_raw / mapped_raw) obey the same laws as the canonical byte store as long as a write does
   not start beyond the end and a read stays inside the data; hence Storage<D> run over any of
   them produces, operation list by operation list, the observations of the canonical model —
   which never leaves that contract (C04). *)
From Agdb Require Import Bytes BytesProofs Records RecordsProofs Storage StorageSpec StorageLayout StorageWp
  StorageRefine StorageProofs.
From Coq Require Import ZifyBool ZifyNat ZifyN.
Ltac Zify.zify_post_hook ::= Z.div_mod_to_equations.
Open Scope N_scope.
Arguments N.add : simpl never.
Arguments N.mul : simpl never.
Arguments N.sub : simpl never.
Arguments N.of_nat : simpl never.
Arguments N.to_nat : simpl never.
Arguments N.eqb : simpl never.
Arguments N.ltb : simpl never.
Arguments N.leb : simpl never.
Arguments N.div : simpl never.

Section Sim.
  Variable T : Type.
  Variable opsT : store_ops T.
  Variable opsC : store_ops cdata.
  Variable rd : T -> cdata -> Prop.
  Hypothesis CN : canon opsC.

  (* the laws of a byte store, relative to the canonical one *)
  Record lawful : Prop := {
    lw_len : forall t d, rd t d -> so_len opsT t = c_len d;
    lw_read : forall t d pos n, rd t d -> pos + n <= lenN (cur d) -> so_read opsT t pos n = c_read d pos n;
    lw_write : forall t d pos bs, rd t d -> pos <= lenN (cur d) ->
               exists t' d', so_write opsT t pos bs = Some t' /\ c_write d pos bs = Some d' /\ rd t' d';
    lw_resize : forall t d n, rd t d -> rd (so_resize opsT t n) (c_resize d n);
    lw_flush : forall t d, rd t d -> rd (so_flush opsT t) (c_flush d);
    lw_reopen : forall t d, rd t d -> rd (so_reopen opsT t) (so_reopen opsC d);
    lw_copy : forall t d, rd t d -> rd (so_copy opsT t) (so_copy opsC d)
  }.
  Hypothesis LW : lawful.

  Definition srel (s1 : storage T) (s2 : ST) : Prop :=
    rd (sdata s1) (sdata s2) /\ rtab s1 = rtab s2 /\ tx s1 = tx s2 /\ version s1 = version s2.

  (* m1 does what m2 does, unless m2 leaves the contract *)
  Definition sim {A} (m1 : M T A) (m2 : MM A) : Prop :=
    forall s1 s2, srel s1 s2 ->
      match m2 s2 with
      | (_, RFault) => True
      | (s2', r) => exists s1', m1 s1 = (s1', r) /\ srel s1' s2'
      end.

  Lemma sim_bind {A B} (m1 : M T A) (m2 : MM A) (f1 : A -> M T B) (f2 : A -> MM B) :
    sim m1 m2 -> (forall a, sim (f1 a) (f2 a)) -> sim (bind T m1 f1) (bind cdata m2 f2).
  Proof.
    intros Hm Hf s1 s2 R. specialize (Hm s1 s2 R). unfold bind.
    destruct (m2 s2) as [s2' [a|e| |]].
    - destruct Hm as (s1' & -> & R'). apply (Hf a s1' s2' R').
    - destruct Hm as (s1' & -> & R'). eauto.
    - destruct Hm as (s1' & -> & R'). eauto.
    - exact I.
  Qed.

  Lemma sim_ret {A} (a : A) : sim (ret T a) (ret cdata a).
  Proof. intros s1 s2 R. unfold ret. eexists; split; [reflexivity|exact R]. Qed.
  Lemma sim_fail {A} (r : rres A) : sim (fail T r) (fail cdata r).
  Proof. intros s1 s2 R. unfold fail. destruct r; try exact I; (eexists; split; [reflexivity|exact R]). Qed.

  Ltac sr := match goal with R : srel _ _ |- _ => destruct R as (Rd & Rr & Rt & Rv) end.

  Lemma sim_get_len : sim (get_len T opsT) (get_len cdata opsC).
  Proof. intros s1 s2 R. pose proof R as (Rd & _). unfold get_len. rewrite (lw_len LW _ _ Rd), (cn_len _ CN). eauto. Qed.
  Lemma sim_get_rtab : sim (get_rtab T) (get_rtab cdata).
  Proof. intros s1 s2 R. pose proof R as (_ & Rr & _). unfold get_rtab. rewrite Rr. eauto. Qed.
  Lemma sim_put_rtab r : sim (put_rtab T r) (put_rtab cdata r).
  Proof. intros s1 s2 (Rd & Rr & Rt & Rv). unfold put_rtab. eexists; split; [reflexivity|]. repeat split; assumption. Qed.
  Lemma sim_dwrite pos bs : sim (dwrite T opsT pos bs) (dwrite cdata opsC pos bs).
  Proof.
    intros s1 s2 (Rd & Rr & Rt & Rv). unfold dwrite. destruct (two64 <=? pos + lenN bs).
    - eexists; split; [reflexivity|]. repeat split; assumption.
    - rewrite (cn_write _ CN). unfold c_write at 1. destruct (N.leb_spec pos (lenN (cur (sdata s2)))); [|exact I].
      destruct (lw_write LW _ _ pos bs Rd H) as (t' & d' & -> & Hc & Rd').
      unfold c_write in Hc. destruct (N.leb_spec pos (lenN (cur (sdata s2)))); [|lia]. injection Hc as <-.
      eexists; split; [reflexivity|]. repeat split; assumption.
  Qed.
  Lemma sim_dread pos n : sim (dread T opsT pos n) (dread cdata opsC pos n).
  Proof.
    intros s1 s2 R. pose proof R as (Rd & _). unfold dread. rewrite (cn_read _ CN). unfold c_read at 1.
    destruct (N.leb_spec (pos + n) (lenN (cur (sdata s2)))); [|exact I].
    rewrite (lw_read LW _ _ pos n Rd H). unfold c_read. destruct (N.leb_spec (pos + n) (lenN (cur (sdata s2)))); [|lia]. eauto.
  Qed.
  Lemma sim_dresize n : sim (dresize T opsT n) (dresize cdata opsC n).
  Proof.
    intros s1 s2 (Rd & Rr & Rt & Rv). unfold dresize. rewrite (cn_resize _ CN). eexists; split; [reflexivity|].
    split; [exact (lw_resize LW _ _ n Rd)|]. repeat split; assumption.
  Qed.
  Lemma sim_dflush : sim (dflush T opsT) (dflush cdata opsC).
  Proof.
    intros s1 s2 (Rd & Rr & Rt & Rv). unfold dflush. rewrite (cn_flush _ CN). eexists; split; [reflexivity|].
    split; [exact (lw_flush LW _ _ Rd)|]. repeat split; assumption.
  Qed.
  Lemma sim_opt_panic {A} (o : option A) : sim (opt_panic T o) (opt_panic cdata o).
  Proof. destruct o; [apply sim_ret|apply sim_fail]. Qed.
  Lemma sim_tx_begin : sim (tx_begin T) (tx_begin cdata).
  Proof.
    intros s1 s2 (Rd & Rr & Rt & Rv). unfold tx_begin. rewrite Rt. destruct (two64 <=? tx s2 + 1);
      (eexists; split; [reflexivity|]); repeat split; assumption.
  Qed.
  Lemma sim_tx_commit id : sim (tx_commit T opsT id) (tx_commit cdata opsC id).
  Proof.
    intros s1 s2 R. pose proof R as (Rd & Rr & Rt & Rv). unfold tx_commit. rewrite Rt.
    destruct (negb (tx s2 =? id)); [eauto|]. destruct (tx s2 =? 0); [eauto|].
    cbn [tx set_tx].
    assert (R' : srel (set_tx T s1 (tx s2 - 1)) (set_tx cdata s2 (tx s2 - 1))) by (repeat split; assumption).
    destruct (tx s2 - 1 =? 0); [|eauto]. apply (sim_dflush _ _ R').
  Qed.
  Lemma sim_lookup i : sim (lookup T i) (lookup cdata i).
  Proof.
    intros s1 s2 R. pose proof R as (_ & Rr & _). unfold lookup. rewrite Rr.
    destruct (record (rtab s2) i) as [[r|]|]; eauto.
  Qed.

  Hint Resolve sim_ret sim_fail sim_get_len sim_get_rtab sim_put_rtab sim_dwrite sim_dread sim_dresize sim_dflush
       sim_opt_panic sim_tx_begin sim_tx_commit sim_lookup : simdb.

  Ltac sim_step :=
    first
      [ solve [auto with simdb]
      | apply sim_bind; [|intros]
      | match goal with
        | |- sim (if ?b then _ else _) (if ?b then _ else _) => destruct b
        | |- sim (match ?x with _ => _ end) (match ?x with _ => _ end) => destruct x
        end ].
  Ltac sims := repeat sim_step.

  Lemma sim_write_record r : sim (write_record T opsT r) (write_record cdata opsC r).
  Proof. unfold write_record. sims. Qed.
  Lemma sim_append bs : sim (append T opsT bs) (append cdata opsC bs).
  Proof. unfold append. sims. Qed.
  Lemma sim_truncate n : sim (truncate T opsT n) (truncate cdata opsC n).
  Proof. unfold truncate. sims. Qed.
  Lemma sim_is_at_end r : sim (is_at_end T opsT r) (is_at_end cdata opsC r).
  Proof. unfold is_at_end. sims. Qed.
  Lemma sim_read_value r : sim (read_value T opsT r) (read_value cdata opsC r).
  Proof. unfold read_value. sims. Qed.
  Hint Resolve sim_write_record sim_append sim_truncate sim_is_at_end sim_read_value : simdb.
  Lemma sim_free_a_region p n : sim (free_a_region T opsT p n) (free_a_region cdata opsC p n).
  Proof. unfold free_a_region. apply sim_bind; [auto with simdb|]. intros rs. destruct (mark_free_compact rs p n) as [rs' [q sz]]. sims. Qed.
  Lemma sim_do_set_size i n : sim (do_set_size T i n) (do_set_size cdata i n).
  Proof. unfold do_set_size. sims. Qed.
  Lemma sim_do_set_pos i n : sim (do_set_pos T i n) (do_set_pos cdata i n).
  Proof. unfold do_set_pos. sims. Qed.
  Hint Resolve sim_free_a_region sim_do_set_size sim_do_set_pos : simdb.
  Lemma sim_update_record r p n : sim (update_record T opsT r p n) (update_record cdata opsC r p n).
  Proof. unfold update_record. sims. Qed.
  Hint Resolve sim_update_record : simdb.
  Lemma sim_move_to_end r n : sim (move_to_end T opsT r n) (move_to_end cdata opsC r n).
  Proof. unfold move_to_end. sims. Qed.
  Lemma sim_enlarge_at_end r n : sim (enlarge_at_end T opsT r n) (enlarge_at_end cdata opsC r n).
  Proof. unfold enlarge_at_end. sims. Qed.
  Lemma sim_enlarge_in_place r n f : sim (enlarge_in_place T opsT r n f) (enlarge_in_place cdata opsC r n f).
  Proof. unfold enlarge_in_place. sims. Qed.
  Lemma sim_enlarge_move_to r n p f : sim (enlarge_move_to T opsT r n p f) (enlarge_move_to cdata opsC r n p f).
  Proof. unfold enlarge_move_to. sims. Qed.
  Hint Resolve sim_move_to_end sim_enlarge_at_end sim_enlarge_in_place sim_enlarge_move_to : simdb.
  Lemma sim_enlarge_value r n : sim (enlarge_value T opsT r n) (enlarge_value cdata opsC r n).
  Proof.
    unfold enlarge_value. apply sim_bind; [auto with simdb|]. intros [|]; [auto with simdb|].
    apply sim_bind; [auto with simdb|]. intros rs.
    destruct (take_free_after rs (r_end r) (n - r_size r)) as [[rs' [q fs]]|]; [sims|].
    destruct (take_free rs n) as [[rs' [q fs]]|]; sims.
  Qed.
  Lemma sim_shrink_value r n : sim (shrink_value T opsT r n) (shrink_value cdata opsC r n).
  Proof. unfold shrink_value. sims. Qed.
  Hint Resolve sim_enlarge_value sim_shrink_value : simdb.
  Lemma sim_ensure_size r o n : sim (ensure_size T opsT r o n) (ensure_size cdata opsC r o n).
  Proof. unfold ensure_size. sims. Qed.
  Lemma sim_erase_bytes p f t n : sim (erase_bytes T opsT p f t n) (erase_bytes cdata opsC p f t n).
  Proof. unfold erase_bytes. sims. Qed.
  Lemma sim_validate_read_size o n v : sim (validate_read_size T o n v) (validate_read_size cdata o n v).
  Proof. unfold validate_read_size. sims. Qed.
  Hint Resolve sim_ensure_size sim_erase_bytes sim_validate_read_size : simdb.

  Lemma sim_insert_bytes bs : sim (insert_bytes T opsT bs) (insert_bytes cdata opsC bs).
  Proof.
    unfold insert_bytes. apply sim_bind; [auto with simdb|]. intros rs.
    destruct (take_free rs (lenN bs)) as [[rs1 [fp fs]]|].
    - apply sim_bind; [auto with simdb|]. intros [rs2 r]. sims.
    - apply sim_bind; [auto with simdb|]. intros len. apply sim_bind; [auto with simdb|]. intros [rs2 r]. sims.
  Qed.
  Lemma sim_insert_bytes_at i o bs : sim (insert_bytes_at T opsT i o bs) (insert_bytes_at cdata opsC i o bs).
  Proof. unfold insert_bytes_at. sims. Qed.
  Lemma sim_value_size i : sim (value_size T i) (value_size cdata i).
  Proof. unfold value_size. sims. Qed.
  Lemma sim_value_at_size i o n : sim (value_as_bytes_at_size T opsT i o n) (value_as_bytes_at_size cdata opsC i o n).
  Proof. unfold value_as_bytes_at_size. sims. Qed.
  Hint Resolve sim_insert_bytes sim_insert_bytes_at sim_value_size sim_value_at_size : simdb.
  Lemma sim_value_at i o : sim (value_as_bytes_at T opsT i o) (value_as_bytes_at cdata opsC i o).
  Proof. unfold value_as_bytes_at. sims. Qed.
  Hint Resolve sim_value_at : simdb.
  Lemma sim_value i : sim (value_as_bytes T opsT i) (value_as_bytes cdata opsC i).
  Proof. unfold value_as_bytes. sims. Qed.
  Lemma sim_move_at i f t n : sim (move_at T opsT i f t n) (move_at cdata opsC i f t n).
  Proof. unfold move_at. sims. Qed.
  Lemma sim_remove i : sim (remove_value T opsT i) (remove_value cdata opsC i).
  Proof. unfold remove_value. sims. Qed.
  Lemma sim_resize i n : sim (resize_value T opsT i n) (resize_value cdata opsC i n).
  Proof. unfold resize_value. sims. Qed.
  Hint Resolve sim_value sim_move_at sim_remove sim_resize : simdb.
  Lemma sim_replace i bs : sim (replace_with_bytes T opsT i bs) (replace_with_bytes cdata opsC i bs).
  Proof. unfold replace_with_bytes. sims. Qed.
  Lemma sim_shrink_index r p : sim (shrink_index T opsT r p) (shrink_index cdata opsC r p).
  Proof. unfold shrink_index. sims. Qed.
  Hint Resolve sim_replace sim_shrink_index : simdb.
  Lemma sim_shrink_all l : forall p, sim (shrink_all T opsT l p) (shrink_all cdata opsC l p).
  Proof. induction l as [|r l IH]; intros p; cbn [shrink_all]; [auto with simdb|]. apply sim_bind; [auto with simdb|]. intros q. apply IH. Qed.
  Hint Resolve sim_shrink_all : simdb.
  Lemma sim_optimize : sim (optimize_storage T opsT) (optimize_storage cdata opsC).
  Proof. unfold optimize_storage. sims. Qed.

  (* loading *)
  Lemma sim_read_record p : sim (read_record T opsT p) (read_record cdata opsC p).
  Proof. unfold read_record. sims. Qed.
  Lemma sim_extract_version r : sim (extract_version T opsT r) (extract_version cdata opsC r).
  Proof. unfold extract_version. sims. Qed.
  Hint Resolve sim_read_record sim_extract_version sim_optimize : simdb.
  Lemma sim_shift_chunks f : forall p, sim (shift_chunks T opsT f p) (shift_chunks cdata opsC f p).
  Proof. induction f as [|f IH]; intros p; cbn [shift_chunks]; [auto with simdb|]. destruct (0 <? p); [|auto with simdb]. sims; try apply IH. Qed.
  Hint Resolve sim_shift_chunks : simdb.
  Lemma sim_set_version v : sim (fun s => (set_version T s v, ROk tt)) (fun s => (set_version cdata s v, ROk tt)).
  Proof. intros s1 s2 (Rd & Rr & Rt & Rv). eexists; split; [reflexivity|]. repeat split; assumption. Qed.
  Lemma sim_validate : sim (validate_or_update_version T opsT) (validate_or_update_version cdata opsC).
  Proof.
    intros s1 s2 R. pose proof R as (Rd & Rr & Rt & Rv). unfold validate_or_update_version. rewrite Rv.
    destruct (CURRENT_VERSION <? version s2); [eauto|]. destruct (version s2 =? CURRENT_VERSION); [eauto|].
    rewrite (lw_len LW _ _ Rd), (cn_len _ CN).
    assert (R' : srel (set_version T s1 CURRENT_VERSION) (set_version cdata s2 CURRENT_VERSION)) by (repeat split; assumption).
    revert R'. generalize (set_version T s1 CURRENT_VERSION) (set_version cdata s2 CURRENT_VERSION). intros u1 u2 R'.
    assert (S : sim (bind T (tx_begin T) (fun id => bind T (dresize T opsT (c_len (sdata s2) + 24)) (fun _ =>
                  bind T (shift_chunks T opsT (S (N.to_nat (c_len (sdata s2) / CHUNK_SIZE))) (c_len (sdata s2))) (fun _ =>
                  bind T (write_record T opsT version_record) (fun _ =>
                  bind T (dwrite T opsT (value_start version_record) (le64 CURRENT_VERSION)) (fun _ => tx_commit T opsT id))))))
                 (bind cdata (tx_begin cdata) (fun id => bind cdata (dresize cdata opsC (c_len (sdata s2) + 24)) (fun _ =>
                  bind cdata (shift_chunks cdata opsC (S (N.to_nat (c_len (sdata s2) / CHUNK_SIZE))) (c_len (sdata s2))) (fun _ =>
                  bind cdata (write_record cdata opsC version_record) (fun _ =>
                  bind cdata (dwrite cdata opsC (value_start version_record) (le64 CURRENT_VERSION)) (fun _ => tx_commit cdata opsC id))))))) by sims.
    exact (S u1 u2 R').
  Qed.
  Hint Resolve sim_validate sim_set_version : simdb.
  Lemma sim_load_records f e : forall p, sim (load_records T opsT f e p) (load_records cdata opsC f e p).
  Proof.
    induction f as [|f IH]; intros p; cbn [load_records]; [auto with simdb|]. destruct (p <? e); [|auto with simdb].
    apply sim_bind; [auto with simdb|]. intros r. destruct (e - p + 16 <? r_size r); [auto with simdb|]. sims; try apply IH.
  Qed.
  Hint Resolve sim_load_records : simdb.
  Lemma sim_read_records : sim (read_records T opsT) (read_records cdata opsC).
  Proof.
    unfold read_records. apply sim_bind; [auto with simdb|]. intros len0. apply sim_bind.
    - destruct (16 <=? len0); [|auto with simdb]. apply sim_bind; [auto with simdb|]. intros vr.
      destruct (r_index vr =? 0); [|auto with simdb]. apply sim_bind; [auto with simdb|]. intros v. apply sim_set_version.
    - intros _. sims.
  Qed.

  Lemma sim_with_data t d : rd t d ->
    match with_data cdata opsC d with
    | (_, RFault) => True
    | (s2', r) => exists s1', with_data T opsT t = (s1', r) /\ srel s1' s2'
    end.
  Proof. intros Rd. unfold with_data. apply sim_read_records. repeat split; cbn; auto. Qed.

  (* one operation *)
  Lemma sim_step s1 s2 o : srel s1 s2 ->
    snd (st_step cdata opsC s2 o) = ObFault \/
    (snd (st_step T opsT s1 o) = snd (st_step cdata opsC s2 o) /\ srel (fst (st_step T opsT s1 o)) (fst (st_step cdata opsC s2 o))).
  Proof.
    intros R.
    assert (G : forall A (f : A -> obs) (m1 : M T A) (m2 : MM A), sim m1 m2 ->
              snd (lift cdata f (m2 s2)) = ObFault \/
              (snd (lift T f (m1 s1)) = snd (lift cdata f (m2 s2)) /\ srel (fst (lift T f (m1 s1))) (fst (lift cdata f (m2 s2))))).
    { intros A f m1 m2 S. specialize (S s1 s2 R). unfold lift. destruct (m2 s2) as [s2' [a|e| |]]; cbn [fst snd to_obs].
      - destruct S as (s1' & -> & R'). right. auto.
      - destruct S as (s1' & -> & R'). right. auto.
      - destruct S as (s1' & -> & R'). right. auto.
      - left; reflexivity. }
    assert (GW : forall t d, rd t d ->
              snd (lift cdata ou (with_data cdata opsC d)) = ObFault \/
              (snd (lift T ou (with_data T opsT t)) = snd (lift cdata ou (with_data cdata opsC d)) /\
               srel (fst (lift T ou (with_data T opsT t))) (fst (lift cdata ou (with_data cdata opsC d))))).
    { intros t d Rd. pose proof (sim_with_data t d Rd) as S. unfold lift. destruct (with_data cdata opsC d) as [s2' [a|e| |]]; cbn [fst snd to_obs].
      - destruct S as (s1' & -> & R'). right. auto.
      - destruct S as (s1' & -> & R'). right. auto.
      - destruct S as (s1' & -> & R'). right. auto.
      - left; reflexivity. }
    destruct o; cbn [st_step]; try solve [apply G; auto with simdb].
    - unfold reopen. apply GW. apply (lw_reopen LW). exact (proj1 R).
    - unfold reopen_copy. apply GW. apply (lw_copy LW). exact (proj1 R).
  Qed.

  (* every history, as long as the canonical run never leaves the contract *)
  Theorem sim_run l : forall s1 s2, srel s1 s2 -> ~ In ObFault (st_run cdata opsC s2 l) ->
    st_run T opsT s1 l = st_run cdata opsC s2 l.
  Proof.
    induction l as [|o t IH]; intros s1 s2 R NF; [reflexivity|]. cbn [st_run] in *.
    destruct (sim_step s1 s2 o R) as [HF|[Ev R']].
    - exfalso. apply NF. destruct (st_step cdata opsC s2 o) as [s2' v]. cbn [snd] in HF. subst v. left; reflexivity.
    - destruct (st_step T opsT s1 o) as [s1' v1], (st_step cdata opsC s2 o) as [s2' v2]. cbn [fst snd] in *. subst v2.
      destruct v1; try reflexivity; f_equal; apply IH; try assumption; intros H; apply NF; right; exact H.
  Qed.
End Sim.

(* ---------- the accepted histories never contain a fault ---------- *)
Lemma accepts_no_fault fl l : forall sp vs, accepts fl sp l vs = true -> ~ In ObFault vs.
Proof.
  induction l as [|o t IH]; intros sp vs H Hin.
  - destruct vs as [|v [|w vs]]; [destruct Hin| |]; cbn [accepts] in H.
    + destruct v; try discriminate. destruct Hin as [Hin|[]]; discriminate.
    + destruct v; discriminate.
  - destruct vs as [|v vs]; [destruct Hin|].
    assert (Hcase : (v = ObPanic /\ vs = []) \/ exists sp', spec_step fl sp o v = Some sp' /\ accepts fl sp' t vs = true).
    { cbn [accepts] in H. destruct v; try (destruct (spec_step fl sp o _) as [sp'|] eqn:E; [right; eauto|discriminate]).
      destruct vs; [left; auto|]. destruct (spec_step fl sp o ObPanic) as [sp'|] eqn:E; [right; eauto|discriminate]. }
    destruct Hcase as [[-> ->]|(sp' & Es & Ha)].
    + destruct Hin as [Hin|[]]; discriminate.
    + destruct Hin as [Ev|Hin]; [subst v; rewrite (proj2 (spec_no_panic fl sp o)) in Es; discriminate|].
      exact (IH sp' vs Ha Hin).
Qed.

(* ---------- the three back-ends are lawful ---------- *)
Lemma mem_write_law (b : bytes) pos bs : pos <= lenN b -> mem_write b pos bs = bs_write b (N.to_nat pos) bs.
Proof.
  intros H. unfold mem_write, bs_write, bs_resize, lenN in *.
  replace (N.to_nat pos - length b)%nat with 0%nat by lia. cbn [repeat app].
  destruct (N.ltb_spec (pos + N.of_nat (length bs)) (N.of_nat (length b))).
  - do 3 f_equal. lia.
  - rewrite app_nil_r, (skipn_all2 (n := (N.to_nat pos + length bs)%nat)) by lia. now rewrite app_nil_r.
Qed.

Lemma file_write_law d pos bs : pos <= lenN (cur d) -> file_write d pos bs = c_write d pos bs.
Proof.
  intros H. unfold file_write, c_write. destruct (N.leb_spec pos (lenN (cur d))); [|lia].
  destruct bs as [|x bs]; [|unfold bs_write; replace (N.to_nat pos - length (cur d))%nat with 0%nat by (unfold lenN in *; lia); reflexivity].
  f_equal. destruct d as [c du]. cbn [cur dur]. f_equal. unfold bs_write. cbn [length app]. rewrite Nat.add_0_r.
  replace (N.to_nat pos - length c)%nat with 0%nat by (unfold lenN in *; cbn in *; lia). cbn [repeat app].
  symmetry. apply firstn_skipn.
Qed.

Definition rd_mem (b : bytes) (d : cdata) : Prop := cur d = b.
Definition rd_file (t d : cdata) : Prop := t = d.
Definition rd_mapped (t : cdata * bytes) (d : cdata) : Prop := fst t = d /\ snd t = cur d.

Theorem mem_lawful : lawful bytes mem_raw ops_mem rd_mem.
Proof.
  constructor; unfold rd_mem; cbn [mem_raw ops_mem so_len so_read so_write so_resize so_flush so_reopen so_copy].
  - intros t d <-. reflexivity.
  - intros t d pos n <- H. reflexivity.
  - intros t d pos bs <- H. eexists _, _. split; [reflexivity|]. unfold c_write. destruct (N.leb_spec pos (lenN (cur d))); [|lia].
    split; [reflexivity|]. cbn [cur]. symmetry. apply mem_write_law. exact H.
  - intros t d n <-. reflexivity.
  - intros t d <-. reflexivity.
  - intros t d <-. reflexivity.
  - intros t d <-. reflexivity.
Qed.

Theorem file_lawful : lawful cdata file_raw ops_file rd_file.
Proof.
  constructor; unfold rd_file; cbn [file_raw ops_file so_len so_read so_write so_resize so_flush so_reopen so_copy].
  - intros t d ->. reflexivity.
  - intros t d pos n -> H. reflexivity.
  - intros t d pos bs -> H. rewrite (file_write_law d pos bs H). unfold c_write. destruct (N.leb_spec pos (lenN (cur d))); [|lia].
    eexists _, _. split; [reflexivity|]. split; reflexivity.
  - intros t d n ->. reflexivity.
  - intros t d ->. reflexivity.
  - intros t d ->. reflexivity.
  - intros t d ->. reflexivity.
Qed.

Theorem mapped_lawful : lawful (cdata * bytes) mapped_raw ops_file rd_mapped.
Proof.
  constructor; unfold rd_mapped; cbn [mapped_raw ops_file so_len so_read so_write so_resize so_flush so_reopen so_copy].
  - intros [f m] d [<- E]. reflexivity.
  - intros [f m] d pos n [<- E] H. cbn [fst snd] in *. subst m. reflexivity.
  - intros [f m] d pos bs [<- E] H. cbn [fst snd] in *. subst m. rewrite (file_write_law f pos bs H).
    unfold c_write. destruct (N.leb_spec pos (lenN (cur f))); [|lia].
    eexists _, _. split; [reflexivity|]. split; [reflexivity|]. cbn [fst snd cur]. split; [reflexivity|apply mem_write_law; exact H].
  - intros [f m] d n [<- E]. cbn [fst snd] in *. subst m. split; reflexivity.
  - intros [f m] d [<- E]. cbn [fst snd] in *. subst m. split; reflexivity.
  - intros [f m] d [<- E]. cbn [fst snd] in *. subst m. split; reflexivity.
  - intros [f m] d [<- E]. cbn [fst snd] in *. subst m. split; reflexivity.
Qed.

(* ---------- identical observations on all back-ends ---------- *)
Theorem backends_agree l :
  st_run bytes mem_raw (fst (with_data bytes mem_raw [])) l = st_run cdata ops_mem (fst init_mem) l /\
  st_run cdata file_raw (fst (with_data cdata file_raw empty_cdata)) l = st_run cdata ops_file (fst init_file) l /\
  st_run (cdata * bytes) mapped_raw (fst (with_data (cdata * bytes) mapped_raw (empty_cdata, []))) l = st_run cdata ops_file (fst init_file) l.
Proof.
  assert (NFm : ~ In ObFault (st_run cdata ops_mem (fst init_mem) l)) by (apply (accepts_no_fault false l spec_init), refines_map_mem).
  assert (NFf : ~ In ObFault (st_run cdata ops_file (fst init_file) l)) by (apply (accepts_no_fault true l spec_init), refines_map_file).
  split; [|split].
  - pose proof (sim_with_data bytes mem_raw ops_mem rd_mem canon_mem mem_lawful [] empty_cdata eq_refl) as S.
    fold init_mem in S. rewrite init_mem_eq in S |- *. destruct S as (s1' & E & R). rewrite E. cbn [fst].
    apply (sim_run bytes mem_raw ops_mem rd_mem canon_mem mem_lawful); [exact R|]. rewrite init_mem_eq in NFm. exact NFm.
  - pose proof (sim_with_data cdata file_raw ops_file rd_file canon_file file_lawful empty_cdata empty_cdata eq_refl) as S.
    fold init_file in S. rewrite init_file_eq in S |- *. destruct S as (s1' & E & R). rewrite E. cbn [fst].
    apply (sim_run cdata file_raw ops_file rd_file canon_file file_lawful); [exact R|]. rewrite init_file_eq in NFf. exact NFf.
  - pose proof (sim_with_data (cdata * bytes) mapped_raw ops_file rd_mapped canon_file mapped_lawful (empty_cdata, []) empty_cdata (conj eq_refl eq_refl)) as S.
    fold init_file in S. rewrite init_file_eq in S |- *. destruct S as (s1' & E & R). rewrite E. cbn [fst].
    apply (sim_run (cdata * bytes) mapped_raw ops_file rd_mapped canon_file mapped_lawful); [exact R|]. rewrite init_file_eq in NFf. exact NFf.
Qed.

(* the memory-like and the file-like store differ only in what a drop does to an open transaction *)
Fixpoint no_reopen (l : list sop) : bool :=
  match l with [] => true | SReopen :: _ => false | _ :: t => no_reopen t end.

Theorem mem_file_agree l : no_reopen l = true -> forall s, st_run cdata ops_mem s l = st_run cdata ops_file s l.
Proof.
  induction l as [|o t IH]; intros H s; [reflexivity|].
  assert (E : st_step cdata ops_mem s o = st_step cdata ops_file s o) by (destruct o; try reflexivity; discriminate H).
  cbn [st_run]. rewrite E. destruct (st_step cdata ops_file s o) as [s' v].
  assert (Ht : no_reopen t = true) by (destruct o; try exact H; discriminate H).
  destruct v; try reflexivity; f_equal; apply IH; exact Ht.
Qed.

(* ---------- C05 at the storage level ---------- *)
Lemma storage_maintenance :
  forall ops, canon ops -> forall s rg, tiles s rg ->
  (snd (reopen_copy cdata ops s) = ROk tt /\ tiles (fst (reopen_copy cdata ops s)) rg) /\
  (tx s = 0 -> dur (sdata s) = cur (sdata s) ->
   snd (reopen cdata ops s) = ROk tt /\ tiles (fst (reopen cdata ops s)) rg) /\
  (snd (optimize_storage cdata ops s) = RPanic \/
   (snd (optimize_storage cdata ops s) = ROk tt /\ tiles (fst (optimize_storage cdata ops s)) (StorageOps.lmap rg) /\
    forall j, j <> 0 -> m_get (StorageOps.lmap rg) j = m_get rg j)).
Proof.
  intros ops CN s rg T. destruct (reopen_preserves ops CN s rg T) as [Hc Hr]. split; [|split].
  - destruct (Hc _ eq_refl) as (A & B & _). auto.
  - intros H1 H2. destruct (Hr H1 H2 _ eq_refl) as (A & B & _). auto.
  - destruct (optimize_tight ops CN s rg T) as [H|(A & B & _ & C & _)]; [left; exact H|right; auto].
Qed.
