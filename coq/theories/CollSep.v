(* CollSep.v — proofs (collections, part 9): composing structures that live side by side in
   one storage.  A vector operation changes exactly its own footprint (`frame`); a neighbour
   whose footprint consists of live records is therefore untouched, and stays disjoint from
   the new footprint (records entering a footprint were free before). *)
From Agdb Require Import Bytes BytesProofs Records RecordsProofs Storage StorageSpec StorageLayout
  Collections CollWp CollBytes CollVecBase CollVecOps CollVec.
From Coq Require Import ZifyBool ZifyNat ZifyN.
Ltac Zify.zify_post_hook ::= Z.div_mod_to_equations.
Open Scope N_scope.

Definition live_all (g : heap) (F : list N) : Prop := forall j, In j F -> g j <> None.

Lemma live_all_app g A B : live_all g (A ++ B) <-> live_all g A /\ live_all g B.
Proof.
  unfold live_all. split.
  - intros H. split; intros j Hj; apply H; apply in_or_app; auto.
  - intros [HA HB] j Hj. apply in_app_or in Hj. destruct Hj; auto.
Qed.

Lemma frame_keeps g g' F F' j : frame g g' F F' -> ~ In j F -> g j <> None -> g' j = g j /\ ~ In j F'.
Proof.
  intros (A1 & A2 & A3) Hj Hl.
  assert (Hn : ~ In j F') by (intros I; apply Hl; apply A2; assumption).
  split; [apply A1; assumption|exact Hn].
Qed.

(* F sits between A and B; all of A and B is live and disjoint from F *)
Lemma frame_extend g g' F F' A B :
  frame g g' F F' -> NoDup (A ++ F ++ B) -> live_all g (A ++ B) ->
  frame g g' (A ++ F ++ B) (A ++ F' ++ B).
Proof.
  intros Hf Hnd Hl. pose proof Hf as (A1 & A2 & A3).
  apply NoDup_app_iff in Hnd. destruct Hnd as (NA & NFB & DA). apply NoDup_app_iff in NFB. destruct NFB as (NF & NB & DF).
  assert (HAB : forall j, In j A \/ In j B -> ~ In j F /\ g j <> None).
  { intros j Hj. split.
    - intros I. destruct Hj as [Hj|Hj]; [apply (DA j Hj); apply in_or_app; auto|apply (DF j I Hj)].
    - apply Hl. apply in_or_app. exact Hj. }
  split; [|split]; intros j; rewrite !in_app_iff.
  - intros H1 H2. apply A1; tauto.
  - intros H2 H1. apply A2; tauto.
  - intros H1 H2. apply A3; tauto.
Qed.

Lemma nodup_frame_update g g' F F' A B :
  frame g g' F F' -> NoDup (A ++ F ++ B) -> NoDup F' -> live_all g (A ++ B) -> NoDup (A ++ F' ++ B).
Proof.
  intros (A1 & A2 & A3) Hnd NF' Hl.
  apply NoDup_app_iff in Hnd. destruct Hnd as (NA & NFB & DA). apply NoDup_app_iff in NFB. destruct NFB as (NF & NB & DF).
  assert (HAB : forall j, In j A \/ In j B -> ~ In j F').
  { intros j Hj I. destruct (in_dec_N j F) as [IF|NIF].
    - destruct Hj as [Hj|Hj]; [apply (DA j Hj); apply in_or_app; auto|apply (DF j IF Hj)].
    - apply (Hl j); [apply in_or_app; exact Hj|apply A2; assumption]. }
  apply NoDup_app_iff. split; [exact NA|]. split.
  - apply NoDup_app_iff. split; [exact NF'|]. split; [exact NB|]. intros j I1 I2. apply (HAB j (or_intror I2) I1).
  - intros j I1 I2. apply in_app_or in I2. destruct I2 as [I2|I2].
    + apply (HAB j (or_introl I1) I2).
    + apply (DA j I1). apply in_or_app. right. exact I2.
Qed.

Lemma live_all_frame g g' F F' X : frame g g' F F' -> live_all g X -> (forall j, In j X -> ~ In j F) -> live_all g' X.
Proof. intros Hf Hl Hd j Hj. destruct (frame_keeps _ _ _ _ j Hf (Hd j Hj) (Hl j Hj)) as [E _]. rewrite E. apply Hl. exact Hj. Qed.

Section VrepSep.
  Variable T : Type.
  Variable E : cv_elem T.
  Variable L : elem_law E.

  Lemma vrep_live g h bss l : vrep T E L g h bss l -> live_all g (foot T E L h bss).
  Proof.
    intros HR j [<-|Hj].
    - destruct (vinv_rec_get T E L _ _ _ _ _ (vr_inv _ _ _ _ _ _ _ HR)) as (s & Hs). congruence.
    - eapply elems_live; [exact (vi_elems _ _ _ _ _ _ _ _ (vr_inv _ _ _ _ _ _ _ HR))|exact Hj].
  Qed.

  Lemma vrep_transport g g' h bss l :
    vrep T E L g h bss l -> (forall j, In j (foot T E L h bss) -> g' j = g j) -> vrep T E L g' h bss l.
  Proof.
    intros [HI H2 H3 H4] Hs. constructor; auto. constructor.
    - destruct (vinv_rec_get T E L _ _ _ _ _ HI) as (s & Hrec). exists s. rewrite Hs; [exact Hrec|left; reflexivity].
    - eapply elems_transport; [exact (vi_elems _ _ _ _ _ _ _ _ HI)|]. intros j Hj. apply Hs. right. exact Hj.
    - exact (vi_nodup _ _ _ _ _ _ _ _ HI).
  Qed.

  Lemma vrep_nodup g h bss l : vrep T E L g h bss l -> NoDup (foot T E L h bss).
  Proof. intros HR. exact (vi_nodup _ _ _ _ _ _ _ _ (vr_inv _ _ _ _ _ _ _ HR)). Qed.

  (* a neighbour's operation with footprint F -> F' disjoint from this vector *)
  Lemma vrep_frame g g' F F' h bss l :
    vrep T E L g h bss l -> frame g g' F F' -> (forall j, In j (foot T E L h bss) -> ~ In j F) ->
    vrep T E L g' h bss l /\ (forall j, In j (foot T E L h bss) -> ~ In j F').
  Proof.
    intros HR Hf Hd. split.
    - eapply vrep_transport; [exact HR|]. intros j Hj.
      exact (proj1 (frame_keeps _ _ _ _ j Hf (Hd j Hj) (vrep_live _ _ _ _ HR j Hj))).
    - intros j Hj. exact (proj2 (frame_keeps _ _ _ _ j Hf (Hd j Hj) (vrep_live _ _ _ _ HR j Hj))).
  Qed.
End VrepSep.
