(* StoredDbRep.v — the whole database as it lies in the record store (layer L3), the
   REPRESENTATION RELATION.  Definitions only (no lemma); it is built from the L2 representation
   predicates, which live in the proof files of the collections, so it is not part of the extracted model.

   stored_db g root d     the heap g (index -> option bytes; `hp sp` of a state of the abstract record map)
                          holds the database d of DbModel.v under the root record `root` (1 in db.rs):

     g root = cr_ser r                     DbStorageIndex {version = 1, graph, aliases.0, aliases.1, indexes, values},
                                           every field a u64
     graph      grep  (CollGraph.v)        index record r.graph + four DbVec<i64> holding EXACTLY the four arrays of gr d
     aliases    mrep  (CollMap.v) twice    DbMapData<String, DbId> at r.aliases.0 and DbMapData<DbId, String> at
                                           r.aliases.1: index record + states / keys / values vectors (String elements
                                           own one record each); the pairs of the Valid slots are, as a MULTISET,
                                           k2v / v2k of aliases d, whose keys are pairwise distinct (a table does not
                                           determine the order in which the model lists its pairs)
     indexes    vrep for 24 raw bytes      DbVec<DbIndexStorageIndex> at r.indexes; entry i = value index of the key
                + per entry dbv_rep, mrep  (16 bytes, C12: inline or one owned record) ++ le64 (index of a
                                           DbMapData<DbValue, DbId>) representing indexes d [i] = (key, ids): SAME
                                           ORDER of the entries, ids as a multiset
     values     vrep for u64               DbVec<StorageIndex> at r.values with one slot per element slot, EXACTLY
                + per slot vrep for kv     |vals d| slots; slot = 0 and the property list is [], or the index of a
                                           DbVec<DbKeyValue> holding EXACTLY the list (order included)
     NoDup (sd_foot root w)                the root record and all footprints (every index record, every vector record,
                                           every record owned by a slot) are pairwise distinct

   Everything is stated on the heap: optimize / drop+open / backup+open keep the map index -> bytes (C05 L1), hence
   stored_db.  The undo stack of d is not represented (it is not persistent). *)
From Coq Require Import Permutation.
From Agdb Require Import Bytes Utf8 Codec DbValue ValueIndex Graph DbModel Records Storage StorageSpec
  Collections CollValues CollWp CollBytes CollVecBase CollVec CollElems CollSep CollMap CollGraph CollValuesProofs StoredDb.
Open Scope N_scope.

Definition sd_arrays (g : graph) : cg_arrays :=
  {| ga_from := g_from g; ga_to := g_to g; ga_from_meta := g_fmeta g; ga_to_meta := g_tmeta g |}.

Definition sd_law24 : elem_law (ce_raw 24) := law_raw 24 eq_refl.

(* ---- a map: the handle, the slot bytes of its three vectors, the table ---- *)
Record sd_mapw (K V : Type) := { mw_d : cm_data; mw_ss : list bytes; mw_ks : list bytes; mw_vs : list bytes; mw_t : cm_table K V }.
Arguments mw_d {K V}. Arguments mw_ss {K V}. Arguments mw_ks {K V}. Arguments mw_vs {K V}. Arguments mw_t {K V}.

Definition sd_table_entries {K V} (t : cm_table K V) : list (K * V) := sd_entries (ct_states t) (ct_keys t) (ct_values t).

Section MapRep.
  Variables K V : Type.
  Variable EK : cv_elem K.
  Variable EV : cv_elem V.
  Variable LK : elem_law EK.
  Variable LV : elem_law EV.

  Definition sd_map_rep (g : heap) (w : sd_mapw K V) (idx : N) (l : list (K * V)) : Prop :=
    mrep K V EK EV LK LV g (mw_d w) (mw_ss w) (mw_ks w) (mw_vs w) (mw_t w) /\
    cm_index (mw_d w) = idx /\
    Permutation (sd_table_entries (mw_t w)) l.
  Definition sd_map_foot (w : sd_mapw K V) : list N := mfoot K V EK EV LK LV (mw_d w) (mw_ss w) (mw_ks w) (mw_vs w).
End MapRep.

Notation sd_rep_a1 := (sd_map_rep bytes Z ce_string ce_i64 law_string law_i64).
Notation sd_rep_a2 := (sd_map_rep Z bytes ce_i64 ce_string law_i64 law_string).
Notation sd_rep_ids := (sd_map_rep dbvalue Z ce_dbvalue ce_i64 law_dbvalue law_i64).
Notation sd_foot_a1 := (sd_map_foot bytes Z ce_string ce_i64 law_string law_i64).
Notation sd_foot_a2 := (sd_map_foot Z bytes ce_i64 ce_string law_i64 law_string).
Notation sd_foot_ids := (sd_map_foot dbvalue Z ce_dbvalue ce_i64 law_dbvalue law_i64).

(* ---- DbIndexes: entry bytes, per-entry map witnesses, the model's index list ---- *)
Definition sd_entry_rep (g : heap) (e : bytes) (w : sd_mapw dbvalue Z) (ix : index) : Prop :=
  exists ixb mi, e = ixb ++ le64 mi /\ mi < two64 /\ dbv_rep g ixb (fst ix) /\ sd_rep_ids g w mi (snd ix).

Fixpoint sd_ix_rep (g : heap) (es : list bytes) (ws : list (sd_mapw dbvalue Z)) (ixs : list index) : Prop :=
  match es, ws, ixs with
  | [], [], [] => True
  | e :: es', w :: ws', ix :: ixs' => sd_entry_rep g e w ix /\ sd_ix_rep g es' ws' ixs'
  | _, _, _ => False
  end.
Fixpoint sd_ix_foot (es : list bytes) (ws : list (sd_mapw dbvalue Z)) : list N :=
  match es, ws with
  | e :: es', w :: ws' => dbv_own (firstn 16 e) ++ sd_foot_ids w ++ sd_ix_foot es' ws'
  | _, _ => []
  end.

(* ---- DbKeyValues: slot values, per-slot vector witnesses, the model's lists ---- *)
Definition sd_kv_slot_rep (g : heap) (i : N) (w : option (cv_vec * list bytes)) (l : list kv) : Prop :=
  match w with
  | None => i = 0 /\ l = []
  | Some (h, bss) => i <> 0 /\ cv_index h = i /\ vrep kv ce_dbkv law_dbkv g h bss l
  end.
Fixpoint sd_kv_rep (g : heap) (idxs : list N) (ws : list (option (cv_vec * list bytes))) (kvs : list (list kv)) : Prop :=
  match idxs, ws, kvs with
  | [], [], [] => True
  | i :: idxs', w :: ws', l :: kvs' => sd_kv_slot_rep g i w l /\ sd_kv_rep g idxs' ws' kvs'
  | _, _, _ => False
  end.
Fixpoint sd_kv_foot (ws : list (option (cv_vec * list bytes))) : list N :=
  match ws with
  | [] => []
  | None :: r => sd_kv_foot r
  | Some (h, bss) :: r => foot kv ce_dbkv law_dbkv h bss ++ sd_kv_foot r
  end.

(* ---- the whole database ---- *)
Record sd_wit := {
  sw_root : cr_root;
  sw_g : cg_data; sw_gs : cg_slots;
  sw_a1 : sd_mapw bytes Z;
  sw_a2 : sd_mapw Z bytes;
  sw_ih : cv_vec; sw_is : list bytes; sw_ie : list bytes; sw_iw : list (sd_mapw dbvalue Z);
  sw_vh : cv_vec; sw_vs : list bytes; sw_vi : list N; sw_vw : list (option (cv_vec * list bytes))
}.

Definition sd_foot (root : N) (w : sd_wit) : list N :=
  root :: gfoot (sw_g w) (sw_gs w) ++ sd_foot_a1 (sw_a1 w) ++ sd_foot_a2 (sw_a2 w) ++
          foot bytes (ce_raw 24) sd_law24 (sw_ih w) (sw_is w) ++ sd_ix_foot (sw_ie w) (sw_iw w) ++
          foot N ce_u64 law_u64 (sw_vh w) (sw_vs w) ++ sd_kv_foot (sw_vw w).

Record stored_db_w (g : heap) (root : N) (d : db) (w : sd_wit) : Prop := {
  sr_root : g root = Some (cr_ser (sw_root w));
  sr_u64 : cr_u64 (sw_root w);
  sr_version : cr_version (sw_root w) = 1;
  sr_graph : grep g (sw_g w) (sw_gs w) (sd_arrays (gr d));
  sr_graph_i : cg_index (sw_g w) = cr_graph (sw_root w);
  sr_a1 : sd_rep_a1 g (sw_a1 w) (cr_aliases1 (sw_root w)) (k2v (aliases d));
  sr_a1_keys : NoDup (map fst (k2v (aliases d)));
  sr_a2 : sd_rep_a2 g (sw_a2 w) (cr_aliases2 (sw_root w)) (v2k (aliases d));
  sr_a2_keys : NoDup (map fst (v2k (aliases d)));
  sr_ix_vec : vrep bytes (ce_raw 24) sd_law24 g (sw_ih w) (sw_is w) (sw_ie w);
  sr_ix_i : cv_index (sw_ih w) = cr_indexes (sw_root w);
  sr_ix : sd_ix_rep g (sw_ie w) (sw_iw w) (indexes d);
  sr_v_vec : vrep N ce_u64 law_u64 g (sw_vh w) (sw_vs w) (sw_vi w);
  sr_v_i : cv_index (sw_vh w) = cr_values (sw_root w);
  sr_v : sd_kv_rep g (sw_vi w) (sw_vw w) (vals d);
  sr_nodup : NoDup (sd_foot root w)
}.

Definition stored_db (g : heap) (root : N) (d : db) : Prop := exists w, stored_db_w g root d w.

(* ---- what a reload determines: everything except the two orders a hash table does not keep ---- *)
Definition sd_index_eqv (a b : index) : Prop := fst a = fst b /\ Permutation (snd a) (snd b).

Record sd_eqv (d d' : db) : Prop := {
  se_graph : gr d = gr d';                                                      (* the four arrays *)
  se_vals : vals d = vals d';                                                   (* every property list, in order *)
  se_alias_value : forall a, imap_value (aliases d) a = imap_value (aliases d') a;
  se_alias_key : forall i, imap_key (aliases d) i = imap_key (aliases d') i;
  se_alias_perm : Permutation (k2v (aliases d)) (k2v (aliases d')) /\ Permutation (v2k (aliases d)) (v2k (aliases d'));
  se_indexes : Forall2 sd_index_eqv (indexes d) (indexes d')                    (* same keys in the same order, ids as multisets *)
}.
