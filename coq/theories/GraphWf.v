(* GraphWf.v — consequences of well-formedness `wf g` (= some abstract multigraph simulates g)
   stated without the abstract graph, for use by the search / termination proofs:
   wf is preserved by every operation, the unlink loops and the edge iterators never run out
   of fuel, adjacency lists are exact. *)
From Agdb Require Import Bytes Graph GraphArr GraphSim GraphSim2 GraphSim3 GraphOps GraphOps2 GraphProofs GraphRemove GraphSpec.
From Coq Require Import FinFun ZifyBool ZifyNat ZifyN.
Ltac Zify.zify_post_hook ::= Z.div_mod_to_equations.
Open Scope Z_scope.

(* ---------- preservation ---------- *)

Lemma wf_insert_node g : wf g -> wf (snd (insert_node g)).
Proof.
  intros [a [fl HS]]. pose proof (insert_node_sim g a fl HS) as H.
  destruct (insert_node g) as [x g']. destruct H as [_ [_ [_ [_ S1]]]]. cbn [snd].
  eexists. eexists. exact S1.
Qed.

Lemma wf_insert_edge g f t i g' :
  wf g -> 0 <= f -> 0 <= t -> insert_edge g f t = Some (i, g') -> wf g'.
Proof.
  intros [a [fl HS]] Hf Ht E.
  destruct (gstep_sim g a fl (GInsertEdge f t) HS (conj Hf Ht)) as [g1 [out [a1 [fl1 [E1 [_ S1]]]]]].
  cbn [gstep] in E1. rewrite E in E1. injection E1 as <- _. exists a1, fl1. exact S1.
Qed.

(* remove_edge never runs out of fuel (the id of an edge is <= 0) *)
Lemma wf_remove_edge g e : wf g -> e <= 0 -> exists g', remove_edge g e = Some g' /\ wf g'.
Proof.
  intros [a [fl HS]] He.
  destruct (gstep_sim g a fl (GRemoveEdge e) HS He) as [g1 [out [a1 [fl1 [E1 [_ S1]]]]]].
  cbn [gstep] in E1. destruct (remove_edge g e) as [g2|]; [|discriminate].
  injection E1 as <- _. exists g2. split; [reflexivity|]. exists a1, fl1. exact S1.
Qed.

(* remove_node never runs out of fuel (the id of a node is >= 0) *)
Lemma wf_remove_node g n : wf g -> 0 <= n -> exists g', remove_node g n = Some g' /\ wf g'.
Proof.
  intros [a [fl HS]] Hn.
  destruct (gstep_sim g a fl (GRemoveNode n) HS Hn) as [g1 [out [a1 [fl1 [E1 [_ S1]]]]]].
  cbn [gstep] in E1. destruct (remove_node g n) as [g2|]; [|discriminate].
  injection E1 as <- _. exists g2. split; [reflexivity|]. exists a1, fl1. exact S1.
Qed.

(* ---------- structure ---------- *)

Lemma wf_edge_ends g e :
  wf g -> is_edge g e = true ->
  0 < edge_from g e /\ is_node g (edge_from g e) = true /\
  0 < edge_to g e /\ is_node g (edge_to g e) = true.
Proof.
  intros [a [fl HS]] He.
  apply (is_edge_iff _ _ _ _ _ _ _ _ _ HS) in He. apply in_map_iff in He. destruct He as [x [Hx He]].
  destruct (sim_edge_ends _ _ _ HS x He) as [E1 E2].
  assert (Ef : edge_from g e = esrc x).
  { rewrite <- E1. unfold edge_from, from. rewrite get_neg, Hx. rewrite get_abs. reflexivity. }
  assert (Et : edge_to g e = etgt x).
  { rewrite <- E2. unfold edge_to, to. rewrite get_neg, Hx. rewrite get_abs. reflexivity. }
  rewrite Ef, Et. destruct (sim_ends _ _ _ HS x He) as [Ha Hb].
  pose proof (sim_nodes_pos _ _ _ HS _ Ha). pose proof (sim_nodes_pos _ _ _ HS _ Hb).
  repeat split; try lia.
  - apply (is_node_iff _ _ _ _ _ _ _ _ _ HS). rewrite Z.abs_eq by lia. assumption.
  - apply (is_node_iff _ _ _ _ _ _ _ _ _ HS). rewrite Z.abs_eq by lia. assumption.
Qed.

Lemma wf_node_edge_disjoint g i : wf g -> is_node g i = true -> is_edge g i = false.
Proof.
  intros [a [fl HS]] Hn. apply (is_node_iff _ _ _ _ _ _ _ _ _ HS) in Hn.
  rewrite <- is_edge_abs. apply (class_node _ _ _ _ _ _ _ _ _ HS). assumption.
Qed.

(* the out-list iterator yields exactly the edges whose source is n, each once
   (so the fuel of edge_list suffices), and the stored count is its length *)
Lemma wf_out_edges g n :
  wf g -> 0 < n -> is_node g n = true ->
  NoDup (out_edges g n) /\
  (forall e, In e (out_edges g n) <-> e < 0 /\ is_edge g e = true /\ edge_from g e = n) /\
  edge_count_from g n = Z.of_nat (length (out_edges g n)).
Proof.
  intros [a [fl HS]] Hp Hn. apply (is_node_iff _ _ _ _ _ _ _ _ _ HS) in Hn. rewrite Z.abs_eq in Hn by lia.
  destruct (sim_out_edges _ _ _ HS n Hn) as [Eo Ec]. rewrite Eo. unfold a_out in *.
  split; [|split; [|exact Ec]].
  - apply FinFun.Injective_map_NoDup; [intros x y; lia|]. apply NoDup_adj. apply (sim_edges_nodup _ _ _ HS).
  - intros e. rewrite in_map_iff. split.
    + intros [s [<- Hs]]. apply in_adj in Hs. destruct Hs as [x [Hx [<- Hk]]].
      pose proof (sim_edges_pos _ _ _ HS x Hx). split; [lia|]. split.
      * apply (is_edge_iff _ _ _ _ _ _ _ _ _ HS). rewrite Z.abs_opp, Z.abs_eq by lia. apply in_map. assumption.
      * rewrite <- Hk. apply (sim_edge_ends _ _ _ HS x Hx).
    + intros [He [Hie Hfrom]].
      apply (is_edge_iff _ _ _ _ _ _ _ _ _ HS) in Hie. rewrite Z.abs_neq in Hie by lia.
      apply in_map_iff in Hie. destruct Hie as [x [Hx Hie]].
      exists (eslot x). split; [lia|]. apply in_adj. exists x. split; [assumption|]. split; [reflexivity|].
      destruct (sim_edge_ends _ _ _ HS x Hie) as [E1 _]. rewrite Hx, Z.opp_involutive in E1. congruence.
Qed.

Lemma wf_in_edges g n :
  wf g -> 0 < n -> is_node g n = true ->
  NoDup (in_edges g n) /\
  (forall e, In e (in_edges g n) <-> e < 0 /\ is_edge g e = true /\ edge_to g e = n) /\
  edge_count_to g n = Z.of_nat (length (in_edges g n)).
Proof.
  intros [a [fl HS]] Hp Hn. apply (is_node_iff _ _ _ _ _ _ _ _ _ HS) in Hn. rewrite Z.abs_eq in Hn by lia.
  destruct (sim_in_edges _ _ _ HS n Hn) as [Eo Ec]. rewrite Eo. unfold a_in in *.
  split; [|split; [|exact Ec]].
  - apply FinFun.Injective_map_NoDup; [intros x y; lia|]. apply NoDup_adj. apply (sim_edges_nodup _ _ _ HS).
  - intros e. rewrite in_map_iff. split.
    + intros [s [<- Hs]]. apply in_adj in Hs. destruct Hs as [x [Hx [<- Hk]]].
      pose proof (sim_edges_pos _ _ _ HS x Hx). split; [lia|]. split.
      * apply (is_edge_iff _ _ _ _ _ _ _ _ _ HS). rewrite Z.abs_opp, Z.abs_eq by lia. apply in_map. assumption.
      * rewrite <- Hk. apply (sim_edge_ends _ _ _ HS x Hx).
    + intros [He [Hie Hfrom]].
      apply (is_edge_iff _ _ _ _ _ _ _ _ _ HS) in Hie. rewrite Z.abs_neq in Hie by lia.
      apply in_map_iff in Hie. destruct Hie as [x [Hx Hie]].
      exists (eslot x). split; [lia|]. apply in_adj. exists x. split; [assumption|]. split; [reflexivity|].
      destruct (sim_edge_ends _ _ _ HS x Hie) as [_ E1]. rewrite Hx, Z.opp_involutive in E1. congruence.
Qed.

(* every element id has magnitude below the capacity; a bound on the number of elements *)
Lemma wf_capacity_pos g : wf g -> 1 <= capacity g.
Proof. intros [a [fl HS]]. apply (r_cap _ _ _ _ _ _ _ _ _ _ _ _ _ (proj2 HS)). Qed.

Lemma wf_node_count g : wf g -> 0 <= node_count g < capacity g.
Proof.
  intros [a [fl HS]]. rewrite (sim_node_count _ _ _ HS).
  destruct (NoDup_range_length (a_nodes a) (length (g_from g))) as [H|[H _]].
  - apply (sim_nodes_nodup _ _ _ HS).
  - intros y Hy. apply (sim_nodes_pos _ _ _ HS y Hy).
  - unfold capacity. lia.
  - pose proof (r_cap _ _ _ _ _ _ _ _ _ _ _ _ _ (proj2 HS)). rewrite H. cbn [length]. lia.
Qed.
