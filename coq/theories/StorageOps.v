(* StorageOps.v — proofs (part 3 of the C04 development): every operation of
   Storage.v preserves the tiling invariant and acts on the live values as the
   abstract map does. *)
From Agdb Require Import Bytes BytesProofs Records RecordsProofs RecordsTableProofs Storage StorageLayout StorageWp.
From Coq Require Import ZifyBool ZifyNat ZifyN.
Ltac Zify.zify_post_hook ::= Z.div_mod_to_equations.
Open Scope N_scope.
Arguments N.add : simpl never.
Arguments N.mul : simpl never.
Arguments N.sub : simpl never.
Arguments N.of_nat : simpl never.
Arguments N.to_nat : simpl never.
Arguments N.eqb : simpl never.
Arguments N.ltb : simpl never.
Arguments N.leb : simpl never.

Ltac st := cbn [sdata cur dur rtab tx version set_cur set_data set_rtab set_tx set_version].
Ltac inl := rewrite ?layout_app, ?in_app_iff; cbn [layout In]; rewrite ?in_app_iff.

(* ---------- the state after a commit ---------- *)
Lemma tiles_committed s rg : tiles (committed s) rg <-> tiles s rg.
Proof. unfold committed. cbn zeta. destruct (tx (set_tx cdata s (tx s - 1)) =? 0); unfold tiles, gtiles; st; tauto. Qed.
Lemma committed_tx s : tx (committed s) = tx s - 1.
Proof. unfold committed. cbn zeta. destruct (tx (set_tx cdata s (tx s - 1)) =? 0); reflexivity. Qed.
Lemma committed_cur s : cur (sdata (committed s)) = cur (sdata s).
Proof. unfold committed. cbn zeta. destruct (tx (set_tx cdata s (tx s - 1)) =? 0); reflexivity. Qed.
Lemma committed_dur s : dur (sdata (committed s)) = if tx s - 1 =? 0 then cur (sdata s) else dur (sdata s).
Proof. unfold committed. cbn zeta. st. destruct (tx s - 1 =? 0); reflexivity. Qed.

(* what an operation promises: the new state tiles, its live values are F, the transaction
   depth is unchanged, and at depth 0 the new content is the durable one *)
Definition opost (s : ST) (F : N -> option bytes) (s' : ST) : Prop :=
  exists rg', tiles s' rg' /\ (forall j, j <> 0 -> m_get rg' j = F j) /\ tx s' = tx s /\
    dur (sdata s') = (if tx s =? 0 then cur (sdata s') else dur (sdata s)).

(* the state reached by the body of an operation that began with tx_begin on s0 *)
Lemma opost_commit s0 s1 F rg' :
  tiles s1 rg' -> (forall j, j <> 0 -> m_get rg' j = F j) ->
  tx s1 = tx s0 + 1 -> dur (sdata s1) = dur (sdata s0) ->
  opost s0 F (committed s1).
Proof.
  intros T HF Htx Hdur. exists rg'. split; [apply tiles_committed; exact T|]. split; [exact HF|].
  rewrite committed_tx, committed_dur, committed_cur, Htx, Hdur.
  replace (tx s0 + 1 - 1) with (tx s0) by lia. auto.
Qed.

(* ---------- facts about a tiling ---------- *)
Lemma tiles_unique s A i v B : tiles s (A ++ (i, v) :: B) -> i <> 0 -> m_get A i = None /\ m_get B i = None.
Proof.
  intros T Hi. destruct (tiles_elim _ _ T) as (_ & _ & [TL _] & _ & _).
  assert (HL : live_at (recs (rtab s)) i = Some (24 + slen A, lenN v)).
  { apply TL; [assumption|]. inl. right; left; reflexivity. }
  split; apply m_get_notin; intros v' Hin.
  - destruct (In_layout 24 _ _ _ Hin) as (q & Hq). pose proof (layout_range _ _ _ _ _ Hq) as R.
    assert (In (q, i, lenN v') (layout 24 (A ++ (i, v) :: B))) by (inl; auto).
    apply TL in H; [|assumption]. rewrite HL in H. injection H as H1 H2. lia.
  - destruct (In_layout (24 + slen A + 16 + lenN v) _ _ _ Hin) as (q & Hq). pose proof (layout_range _ _ _ _ _ Hq) as R.
    assert (In (q, i, lenN v') (layout 24 (A ++ (i, v) :: B))) by (inl; auto).
    apply TL in H; [|assumption]. rewrite HL in H. injection H as H1 H2. lia.
Qed.

Lemma tiles_not_live s rg j : tiles s rg -> j <> 0 -> live_at (recs (rtab s)) j = None -> m_get rg j = None.
Proof.
  intros T Hj HL. destruct (tiles_elim _ _ T) as (_ & _ & [TL _] & _ & _).
  apply m_get_notin. intros v Hin. destruct (In_layout 24 _ _ _ Hin) as (q & Hq).
  apply TL in Hq; [congruence|assumption].
Qed.

Lemma lookup_spec s rg i (Q : ST -> srec -> Prop) (E : ST -> serr -> Prop) :
  tiles s rg ->
  (forall A v B, rg = A ++ (i, v) :: B -> i <> 0 -> m_get A i = None -> m_get B i = None ->
                 Q s {| r_index := i; r_pos := 24 + slen A; r_size := lenN v |}) ->
  (i = 0 \/ m_get rg i = None -> E s SeNotFound) ->
  wp (lookup cdata i) s Q E.
Proof.
  intros T HQ HE. destruct (tiles_elim _ _ T) as (_ & _ & [TL _] & [TW _] & _).
  unfold wp, lookup. rewrite (record_spec _ _ TW).
  destruct (N.eqb_spec i 0) as [->|Hi]; [rewrite live_at_0; auto|].
  destruct (m_get rg i) as [v|] eqn:G.
  - destruct (m_get_split _ _ _ _ G) as (A & B & -> & HA).
    assert (HL : live_at (recs (rtab s)) i = Some (24 + slen A, lenN v)).
    { apply TL; [assumption|]. inl. right; left; reflexivity. }
    rewrite HL. apply (HQ A v B); auto. apply (tiles_unique _ _ _ _ _ T Hi).
  - destruct (live_at (recs (rtab s)) i) as [[q n]|] eqn:HL; [|auto].
    exfalso. apply TL in HL; [|assumption]. apply layout_In in HL. destruct HL as (v & Hin & _).
    exact (m_get_none_In _ _ _ _ G Hin).
Qed.

Lemma gtiles_nil s A B : gtiles s A [] B -> tiles s (A ++ B).
Proof.
  intros (Hcur & Hlen & TR & RW & Hv). apply tiles_intro; auto.
  - rewrite Hcur, ser_app. reflexivity.
  - rewrite layout_app. rewrite lenN_nil, N.add_0_r in TR. exact TR.
Qed.

Lemma m_get_app_none V (a b : list (N * V)) k : m_get (a ++ b) k = None -> m_get a k = None /\ m_get b k = None.
Proof. rewrite m_get_app. destruct (m_get a k); [discriminate|auto]. Qed.

(* the live regions of a region list, in file order *)
Definition lmap (rg : list region) : list region := filter (fun r => negb (fst r =? 0)) rg.

Lemma lmap_app a b : lmap (a ++ b) = lmap a ++ lmap b.
Proof. apply filter_app. Qed.
Lemma lmap_free F : all_free F -> lmap F = [].
Proof.
  induction F as [|[k x] F IH]; intros HF; [reflexivity|].
  unfold lmap. cbn [filter fst]. rewrite (HF k x (or_introl eq_refl)). cbn [negb].
  apply IH. intros i v H. apply (HF i v). right; exact H.
Qed.
Lemma lmap_cons0 x b : lmap ((0, x) :: b) = lmap b.
Proof. reflexivity. Qed.
Lemma lmap_cons_live i v b : i <> 0 -> lmap ((i, v) :: b) = (i, v) :: lmap b.
Proof. intros Hi. unfold lmap. cbn [filter fst]. destruct (N.eqb_spec i 0); [congruence|reflexivity]. Qed.
Lemma m_get_lmap rg j : j <> 0 -> m_get (lmap rg) j = m_get rg j.
Proof.
  intros Hj. induction rg as [|[k x] t IH]; [reflexivity|].
  unfold lmap. cbn [filter fst m_get]. destruct (N.eqb_spec k 0) as [->|Hk]; cbn [negb m_get].
  - destruct (N.eqb_spec 0 j); [congruence|exact IH].
  - destruct (k =? j); [reflexivity|exact IH].
Qed.
Lemma lmap_get_eq a b j : lmap a = lmap b -> j <> 0 -> m_get a j = m_get b j.
Proof. intros E Hj. rewrite <- (m_get_lmap a j Hj), <- (m_get_lmap b j Hj), E. reflexivity. Qed.

(* where the entries of the old layout are after a merge *)
Lemma merge_layout_in A A' F1 B F2 B' X G q i n :
  A = A' ++ F1 -> B = F2 ++ B' -> lenN X + 16 = slen F1 + G + slen F2 ->
  In (q, i, n) (layout 24 A ++ layout (24 + slen A + G) B) ->
  In (q, i, n) (layout (24 + slen A') F1 ++ layout (24 + slen A + G) F2) \/ In (q, i, n) (layout 24 (A' ++ (0, X) :: B')).
Proof.
  intros -> -> HX. rewrite !layout_app. cbn [layout]. rewrite !in_app_iff. cbn [In]. rewrite ?slen_app.
  replace (24 + slen A' + 16 + lenN X) with (24 + (slen A' + slen F1) + G + slen F2) by lia.
  intuition.
Qed.

(* overwriting the size field of a record header *)
Lemma hdr_size_write (pre rest : bytes) i n new P :
  P = (length pre + 8)%nat ->
  bs_write (pre ++ le64 i ++ le64 n ++ rest) P (le64 new) = pre ++ le64 i ++ le64 new ++ rest.
Proof.
  intros ->. rewrite (app_assoc pre (le64 i)). rewrite bs_write_mid.
  - now rewrite <- app_assoc.
  - rewrite app_length, le64_length. reflexivity.
  - now rewrite !le64_length.
Qed.

Section Ops.
  Variable ops : store_ops cdata.
  Hypothesis CN : canon ops.

  (* ---------- insert_bytes ---------- *)
  Lemma insert_spec s rg bs :
    tiles s rg ->
    wp (insert_bytes cdata ops bs) s
       (fun s' idx => idx <> 0 /\ m_get rg idx = None /\
                      opost s (fun j => if j =? idx then Some bs else m_get rg j) s')
       (fun _ _ => False).
  Proof.
    intros T. pose proof (tiles_elim _ _ T) as (Hcur & Hlen & [TL TF] & [TW FW] & Hv).
    unfold insert_bytes. apply wp_bind, wp_get_rtab.
    destruct (take_free (rtab s) (lenN bs)) as [[rs1 [fpos fsize]]|] eqn:TFr.
    - (* a free region is reused *)
      destruct (take_free_spec _ _ _ _ _ FW TFr) as (Hf & Hle & Hsz & ->).
      pose proof Hf as Hf0. apply TF in Hf. destruct (layout_split _ _ _ _ _ Hf) as (A & p & B & -> & Hp & Hpos).
      pose proof (new_record_spec (remove_free (rtab s) fpos) fpos (lenN bs) TW) as NR.
      apply wp_bind, wp_opt_panic. intros [rs2 r] ENR. rewrite ENR in NR.
      destruct NR as (Er & Hj0 & Hj64 & Hjnone & Hlive & TW2 & Hfps2 & Hfsp2).
      set (j := r_index r) in *. cbn [recs remove_free] in Hjnone, Hlive.
      assert (HAj : m_get (A ++ (0, p) :: B) j = None) by (apply (tiles_not_live _ _ _ T Hj0 Hjnone)).
      apply wp_bind, wp_put_rtab. apply wp_bind, wp_tx_begin. intros Htx.
      apply wp_bind. unfold write_record. rewrite Er. cbn [r_pos r_index r_size].
      assert (HcurP : cur (sdata s) = (vrec ++ ser A) ++ enc (0, p) ++ ser B).
      { rewrite Hcur, ser_app. cbn [ser]. now rewrite <- !app_assoc. }
      assert (HfposN : N.to_nat fpos = length (vrec ++ ser A)).
      { rewrite app_length. change (length vrec) with 24%nat. unfold slen, lenN in Hpos. lia. }
      assert (HLEN : lenN (cur (sdata s)) = fpos + 16 + fsize + slen B).
      { rewrite HcurP, !lenN_app, lenN_enc. cbn [snd]. rewrite lenN_vrec. unfold slen in *. lia. }
      apply (wp_dwrite ops CN); [st; lia|]. intros _.
      apply wp_bind. unfold value_start. cbn [r_pos].
      apply (wp_dwrite ops CN).
      { st. unfold lenN. rewrite bs_write_length, app_length, !le64_length. unfold lenN in HLEN. lia. }
      intros _. st.
      assert (Hplace : bs_write (bs_write (cur (sdata s)) (N.to_nat fpos) (le64 j ++ le64 (lenN bs))) (N.to_nat (fpos + 16)) bs
                       = (vrec ++ ser A) ++ (le64 j ++ le64 (lenN bs)) ++ bs ++ skipn (16 + length bs) (enc (0, p)) ++ ser B).
      { rewrite HcurP. apply place_in; [assumption|rewrite app_length, !le64_length; reflexivity| |lia].
        pose proof (lenN_enc (0, p)) as HE. cbn [snd] in HE. unfold lenN in *. lia. }
      rewrite Hplace. clear Hplace.
      set (g := skipn (16 + length bs) (enc (0, p))).
      assert (Hg : lenN g = fsize - lenN bs).
      { unfold g, lenN. rewrite skipn_length. pose proof (lenN_enc (0, p)) as HE. cbn [snd] in HE. unfold lenN in *. lia. }
      (* the state now: regions A, the new record, the rest g of the old free region, regions B *)
      set (s2 := set_cur (set_cur (set_tx cdata (set_rtab cdata s rs2) (tx s + 1)) _) _).
      assert (GT : gtiles s2 (A ++ [(j, bs)]) g B).
      { unfold gtiles, s2. st. split.
        { rewrite ser_app. cbn [ser]. unfold enc. cbn [fst snd]. rewrite <- !app_assoc. reflexivity. }
        split.
        { rewrite <- !app_assoc, !lenN_app, !lenN_le64, lenN_vrec, Hg. rewrite HLEN in Hlen. unfold slen in *. lia. }
        split.
        { rewrite slen_app, slen_cons, slen_nil. cbn [snd].
          replace (24 + (slen A + (16 + lenN bs + 0)) + lenN g) with (fpos + 16 + fsize) by lia.
          split.
          - apply (lrel_update (recs (rtab s)) (recs rs2) (layout 24 (A ++ (0, p) :: B)) _ j (Some (fpos, lenN bs)) Hj0 TL Hlive).
            + intros q i n Hi Hij. inl. rewrite Hp, <- Hpos. intuition congruence.
            + intros q n. inl. rewrite <- Hpos.
              assert (ZA : forall P, ~ In (q, j, n) (layout P A)).
              { intros P H. apply layout_In in H. destruct H as (v & H & _).
                apply (m_get_none_In _ _ _ v) in HAj. apply HAj. apply in_or_app. auto. }
              assert (ZB : forall P, ~ In (q, j, n) (layout P B)).
              { intros P H. apply layout_In in H. destruct H as (v & H & _).
                apply (m_get_none_In _ _ _ v) in HAj. apply HAj. apply in_or_app. right. right. exact H. }
              pose proof (ZA 24). pose proof (ZB (fpos + 16 + fsize)). intuition congruence.
          - intros q n. rewrite Hfps2, fps_remove_free. destruct (N.eqb_spec fpos q) as [<-|Hq].
            + inl. split; [|discriminate]. intros H. exfalso.
              destruct H as [[H|[H|[]]]|H]; [apply layout_range in H; lia|congruence|apply layout_range in H; lia].
            + rewrite <- (TF q n). inl. rewrite Hp, <- Hpos. intuition congruence. }
        split; [|exact Hv].
        split; [exact TW2|]. unfold fwf. rewrite Hfps2, Hfsp2. exact (fwf_remove_free _ _ _ FW Hf0). }
      assert (Htx2 : tx s2 = tx s + 1) by reflexivity.
      assert (Hdur2 : dur (sdata s2) = dur (sdata s)) by reflexivity.
      clearbody s2. clear Hcur HcurP HLEN Hlen.
      destruct (m_get_app_none _ _ _ _ HAj) as [HAj1 HAj2]. cbn [m_get] in HAj2.
      destruct (N.eqb_spec 0 j) as [|_]; [congruence|].
      destruct (N.ltb_spec (lenN bs) fsize) as [Hlt|Hge].
      + (* the rest of the free region stays free *)
        apply wp_bind. unfold r_end. cbn [r_pos r_size r_index].
        replace (fpos + 16 + lenN bs) with (24 + slen (A ++ [(j, bs)]))
          by (rewrite slen_app, slen_cons, slen_nil; cbn [snd]; lia).
        replace (fsize - 16 - lenN bs) with (lenN g - 16) by lia.
        apply (free_a_region_spec ops CN _ _ _ _ _ _ GT); [lia|].
        intros s' A' F1 F2 B' X EA EB HF1 HF2 T' Hlen' Htx' Hdur'.
        destruct (app_last_live _ _ _ _ _ EA HF1 Hj0) as [-> ->]. subst B.
        apply wp_bind, (wp_tx_commit ops CN); [congruence|lia|].
        apply wp_ret. split; [exact Hj0|]. split; [exact HAj|].
        eapply opost_commit; [exact T'| |congruence|congruence].
        intros i Hi. rewrite <- !app_assoc, !m_get_app. cbn [m_get]. rewrite !m_get_app. cbn [m_get].
        rewrite (all_free_get F2 i HF2 Hi).
        destruct (N.eqb_spec 0 i); [congruence|].
        destruct (N.eqb_spec i j) as [->|Hij].
        * rewrite HAj1, N.eqb_refl. reflexivity.
        * destruct (N.eqb_spec j i); [congruence|]. reflexivity.
      + (* the free region is used up *)
        assert (g = []) by (apply lenN_0_nil; lia). subst g. rewrite H in GT.
        apply gtiles_nil in GT. rewrite <- app_assoc in GT. cbn [app] in GT.
        apply wp_bind, wp_ret. apply wp_bind, (wp_tx_commit ops CN); [congruence|lia|].
        apply wp_ret. split; [exact Hj0|]. split; [exact HAj|].
        eapply opost_commit; [exact GT| |congruence|congruence].
        intros i Hi. rewrite !m_get_app. cbn [m_get].
        destruct (N.eqb_spec 0 i); [congruence|].
        destruct (N.eqb_spec i j) as [->|Hij].
        * rewrite HAj1, N.eqb_refl. reflexivity.
        * destruct (N.eqb_spec j i); [congruence|]. reflexivity.
    - (* appended at the end *)
      apply wp_bind, (wp_get_len ops CN).
      set (L := lenN (cur (sdata s))).
      assert (HL : L = 24 + slen rg) by (unfold L; rewrite Hcur, lenN_app, lenN_vrec; reflexivity).
      pose proof (new_record_spec (rtab s) L (lenN bs) TW) as NR.
      apply wp_bind, wp_opt_panic. intros [rs2 r] ENR. rewrite ENR in NR.
      destruct NR as (Er & Hj0 & Hj64 & Hjnone & Hlive & TW2 & Hfps2 & Hfsp2).
      set (j := r_index r) in *.
      assert (HAj : m_get rg j = None) by (apply (tiles_not_live _ _ _ T Hj0 Hjnone)).
      apply wp_bind, wp_put_rtab. apply wp_bind, wp_tx_begin. intros Htx.
      apply wp_bind. unfold write_record. rewrite Er. cbn [r_pos r_index r_size].
      apply (wp_dwrite ops CN); [st; unfold L; lia|]. intros _.
      apply wp_bind. unfold append. apply wp_bind, (wp_get_len ops CN). st.
      assert (HLn : N.to_nat L = length (cur (sdata s))) by (unfold L, lenN; lia).
      assert (Hlen1 : lenN (bs_write (cur (sdata s)) (N.to_nat L) (le64 j ++ le64 (lenN bs))) = L + 16).
      { unfold lenN. rewrite bs_write_length, app_length, !le64_length. unfold L, lenN. lia. }
      rewrite Hlen1.
      apply (wp_dwrite ops CN); [st; rewrite Hlen1; lia|]. intros Hov. st.
      rewrite (place_end (cur (sdata s)) (le64 j ++ le64 (lenN bs)) bs (N.to_nat L) (N.to_nat (L + 16)));
        [|assumption|rewrite app_length, !le64_length; reflexivity|lia].
      set (s2 := set_cur (set_cur (set_tx cdata (set_rtab cdata s rs2) (tx s + 1)) _) _).
      assert (T2 : tiles s2 (rg ++ [(j, bs)])).
      { apply tiles_intro; unfold s2; st.
        - rewrite Hcur, ser_app. cbn [ser]. rewrite app_nil_r. unfold enc. cbn [fst snd]. rewrite <- !app_assoc. reflexivity.
        - rewrite !lenN_app, !lenN_le64. fold L. lia.
        - rewrite layout_app. cbn [layout]. rewrite <- HL. split.
          + apply (lrel_update (recs (rtab s)) (recs rs2) (layout 24 rg) _ j (Some (L, lenN bs)) Hj0 TL Hlive).
            * intros q i n Hi Hij. inl. intuition congruence.
            * intros q n. inl.
              assert (ZA : ~ In (q, j, n) (layout 24 rg)).
              { intros H. apply layout_In in H. destruct H as (v & H & _). exact (m_get_none_In _ _ _ v HAj H). }
              intuition congruence.
          + intros q n. rewrite Hfps2, <- (TF q n). inl. intuition congruence.
        - split; [exact TW2|]. unfold fwf. rewrite Hfps2, Hfsp2. exact FW.
        - exact Hv. }
      assert (Htx2 : tx s2 = tx s + 1) by reflexivity.
      assert (Hdur2 : dur (sdata s2) = dur (sdata s)) by reflexivity.
      clearbody s2.
      apply wp_bind, (wp_tx_commit ops CN); [congruence|lia|].
      apply wp_ret. split; [exact Hj0|]. split; [exact HAj|].
      eapply opost_commit; [exact T2| |congruence|congruence].
      intros i Hi. rewrite m_get_app. cbn [m_get].
      destruct (N.eqb_spec i j) as [->|Hij].
      + rewrite HAj, N.eqb_refl. reflexivity.
      + destruct (N.eqb_spec j i); [congruence|]. destruct (m_get rg i); reflexivity.
  Qed.

  (* ---------- remove ---------- *)
  Lemma remove_spec s rg i :
    tiles s rg ->
    wp (remove_value cdata ops i) s
       (fun s' _ => i <> 0 /\ m_get rg i <> None /\ opost s (fun j => if j =? i then None else m_get rg j) s')
       (fun s' e => e = SeNotFound /\ (i = 0 \/ m_get rg i = None) /\ s' = s).
  Proof.
    intros T. pose proof (tiles_elim _ _ T) as (Hcur & Hlen & [TL TF] & [TW FW] & Hv).
    unfold remove_value. apply wp_bind. apply (lookup_spec s rg i); [exact T| |intros H; auto].
    intros A v B -> Hi HA HB.
    assert (HLi : live_at (recs (rtab s)) i = Some (24 + slen A, lenN v)).
    { apply TL; [assumption|]. inl. right; left; reflexivity. }
    destruct (free_index_spec (rtab s) i _ _ TW HLi) as (Hlive & TW2 & Hfps2 & Hfsp2 & _).
    apply wp_bind, wp_tx_begin. intros Htx.
    apply wp_bind, wp_bind, wp_get_rtab, wp_put_rtab. st.
    apply wp_bind. unfold is_at_end. apply wp_bind, (wp_get_len ops CN). apply wp_ret. st.
    assert (HLEN : lenN (cur (sdata s)) = 24 + slen A + 16 + lenN v + slen B).
    { rewrite Hcur, ser_app. cbn [ser]. rewrite !lenN_app, lenN_enc, lenN_vrec. cbn [snd]. unfold slen. lia. }
    unfold r_end. cbn [r_pos r_size].
    set (s1 := set_rtab cdata (set_tx cdata s (tx s + 1)) (free_index (rtab s) i)).
    (* the table without index i describes the other regions *)
    assert (TR1 : trel (rtab s1) (layout 24 A ++ layout (24 + slen A + 16 + lenN v) B)).
    { unfold s1. st. split.
      - apply (lrel_update (recs (rtab s)) _ (layout 24 (A ++ (i, v) :: B)) _ i None Hi TL Hlive).
        + intros q k n Hk Hki. inl. intuition congruence.
        + intros q n. inl.
          assert (ZA : ~ In (q, i, n) (layout 24 A)).
          { intros H. apply layout_In in H. destruct H as (v' & H & _). exact (m_get_none_In _ _ _ v' HA H). }
          assert (ZB : ~ In (q, i, n) (layout (24 + slen A + 16 + lenN v) B)).
          { intros H. apply layout_In in H. destruct H as (v' & H & _). exact (m_get_none_In _ _ _ v' HB H). }
          intuition congruence.
      - intros q n. rewrite Hfps2, <- (TF q n). inl. intuition congruence. }
    assert (RW1 : rwf (rtab s1)).
    { unfold s1. st. split; [exact TW2|]. unfold fwf. rewrite Hfps2, Hfsp2. exact FW. }
    destruct (N.eqb_spec (lenN (cur (sdata s))) (24 + slen A + 16 + lenN v)) as [Eend|Nend].
    - (* the record is the last region: truncate *)
      assert (B = []) by (apply slen_0; lia). subst B.
      assert (Hc1 : cur (sdata s1) = cur (sdata s)) by reflexivity.
      apply wp_bind. unfold truncate. apply wp_bind, (wp_get_len ops CN). rewrite Hc1.
      destruct (N.ltb_spec (24 + slen A) (lenN (cur (sdata s)))) as [_|]; [|lia].
      apply (wp_dresize ops CN). rewrite Hc1.
      set (s2 := set_cur s1 _).
      assert (T2 : tiles s2 A).
      { apply tiles_intro; unfold s2; st.
        - rewrite Hcur, ser_app, app_assoc. apply bs_resize_prefix.
          rewrite app_length. change (length vrec) with 24%nat. unfold slen, lenN. lia.
        - unfold lenN. rewrite Hcur, ser_app, app_assoc, bs_resize_prefix.
          + unfold lenN in Hlen. rewrite Hcur, ser_app, app_assoc, app_length in Hlen. lia.
          + rewrite app_length. change (length vrec) with 24%nat. unfold slen, lenN. lia.
        - cbn [layout] in TR1. rewrite app_nil_r in TR1. exact TR1.
        - exact RW1.
        - exact Hv. }
      assert (Htx2 : tx s2 = tx s + 1) by reflexivity.
      assert (Hdur2 : dur (sdata s2) = dur (sdata s)) by reflexivity.
      clearbody s2.
      apply (wp_tx_commit ops CN); [congruence|lia|].
      split; [exact Hi|]. split.
      { rewrite m_get_app, HA. cbn [m_get]. rewrite N.eqb_refl. discriminate. }
      eapply opost_commit; [exact T2| |congruence|congruence].
      intros j Hj. rewrite m_get_app. cbn [m_get].
      destruct (N.eqb_spec j i) as [->|Hji]; [exact HA|].
      destruct (N.eqb_spec i j); [congruence|]. destruct (m_get A j); reflexivity.
    - (* the region becomes free *)
      apply wp_bind.
      replace (lenN v) with (lenN (enc (i, v)) - 16) by (rewrite lenN_enc; cbn [snd]; lia).
      assert (GT : gtiles s1 A (enc (i, v)) B).
      { unfold gtiles. split; [unfold s1; st; rewrite Hcur, ser_app; reflexivity|].
        split; [exact Hlen|]. split; [|split; [exact RW1|exact Hv]].
        rewrite lenN_enc. cbn [snd]. replace (24 + slen A + (16 + lenN v)) with (24 + slen A + 16 + lenN v) by lia. exact TR1. }
      apply (free_a_region_spec ops CN _ _ _ _ _ _ GT); [rewrite lenN_enc; lia|].
      intros s' A' F1 F2 B' X EA EB HF1 HF2 T' Hlen' Htx' Hdur'. subst A B.
      apply (wp_tx_commit ops CN); [rewrite Htx'; reflexivity|lia|].
      destruct (m_get_app_none _ _ _ _ HA) as [HA1 _]. destruct (m_get_app_none _ _ _ _ HB) as [_ HB2].
      split; [exact Hi|]. split.
      { rewrite !m_get_app, HA1, (all_free_get F1 i HF1 Hi). cbn [m_get]. rewrite N.eqb_refl. discriminate. }
      eapply opost_commit; [exact T'| |rewrite Htx'; reflexivity|rewrite Hdur'; reflexivity].
      intros j Hj. rewrite !m_get_app. cbn [m_get]. rewrite !m_get_app.
      rewrite (all_free_get F1 j HF1 Hj), (all_free_get F2 j HF2 Hj).
      destruct (N.eqb_spec 0 j); [congruence|].
      destruct (N.eqb_spec j i) as [->|Hji]; [rewrite HA1; exact HB2|].
      destruct (N.eqb_spec i j); [congruence|]. destruct (m_get A' j); reflexivity.
  Qed.

  (* ---------- a value changes its size ---------- *)
  (* index i now holds v'; everything else is as it was; r' is the record of i *)
  Definition vpost (s : ST) (A : list region) (i : N) (B : list region) (v' : bytes) (s' : ST) (r' : srec) : Prop :=
    exists A2 B2, tiles s' (A2 ++ (i, v') :: B2) /\
      r' = {| r_index := i; r_pos := 24 + slen A2; r_size := lenN v' |} /\
      lmap (A2 ++ B2) = lmap (A ++ B) /\
      tx s' = tx s /\ dur (sdata s') = dur (sdata s).

  Lemma frelx_of_tiles s A i v B : tiles s (A ++ (i, v) :: B) -> i <> 0 ->
    frelx (rtab s) (layout 24 A ++ layout (24 + slen A + lenN (enc (i, v))) B) (fun _ => False).
  Proof.
    intros T Hi. destruct (tiles_elim _ _ T) as (_ & _ & [_ TF] & _ & _).
    split; [|intros q []]. intros q n _. rewrite <- (TF q n). inl. rewrite lenN_enc. cbn [snd].
    replace (24 + slen A + (16 + lenN v)) with (24 + slen A + 16 + lenN v) by lia. intuition congruence.
  Qed.

  Lemma cur_split s A i v B : tiles s (A ++ (i, v) :: B) ->
    cur (sdata s) = (vrec ++ ser A ++ le64 i ++ le64 (lenN v)) ++ v ++ ser B /\
    lenN (cur (sdata s)) = 24 + slen A + 16 + lenN v + slen B /\
    length (vrec ++ ser A ++ le64 i ++ le64 (lenN v)) = N.to_nat (24 + slen A + 16).
  Proof.
    intros T. destruct (tiles_elim _ _ T) as (Hcur & _).
    assert (E : cur (sdata s) = (vrec ++ ser A ++ le64 i ++ le64 (lenN v)) ++ v ++ ser B).
    { rewrite Hcur, ser_app. cbn [ser]. unfold enc. cbn [fst snd]. rewrite <- !app_assoc. reflexivity. }
    split; [exact E|]. split.
    - rewrite E, !lenN_app, !lenN_le64, lenN_vrec. unfold slen. lia.
    - rewrite !app_length, !le64_length. change (length vrec) with 24%nat. unfold slen, lenN. lia.
  Qed.

  Lemma move_to_end_spec s A i v B new :
    tiles s (A ++ (i, v) :: B) -> i <> 0 ->
    wp (move_to_end cdata ops {| r_index := i; r_pos := 24 + slen A; r_size := lenN v |} new) s
       (vpost s A i B (pad_to v new)) (fun _ _ => False).
  Proof.
    intros T Hi. pose proof (tiles_elim _ _ T) as (Hcur & Hlen & [TL TF] & [TW FW] & Hv).
    destruct (tiles_unique _ _ _ _ _ T Hi) as [HA HB].
    destruct (cur_split _ _ _ _ _ T) as (Hcur2 & HLEN & HPL).
    unfold move_to_end. apply wp_bind. unfold read_value, value_start. cbn [r_pos r_size].
    apply (wp_dread ops CN); [lia|].
    rewrite Hcur2, bs_read_mid; [|lia|unfold lenN; lia].
    apply wp_bind, (wp_get_len ops CN). apply wp_bind.
    replace (lenN v) with (lenN (enc (i, v)) - 16) at 1 by (rewrite lenN_enc; cbn [snd]; lia).
    apply (free_region_low ops CN s A (enc (i, v)) B (fun _ => False)).
    { rewrite Hcur, ser_app. reflexivity. }
    { exact Hlen. }
    { rewrite lenN_enc. lia. }
    { exact FW. }
    { apply frelx_of_tiles; assumption. }
    { tauto. }
    intros s1 A' F1 F2 B' X EA EB HF1 HF2 _ Hcur1 HX Hlen1 FW1 [TRf1 _] HR1 Htx1 Hdur1 Hver1.
    set (L := lenN (cur (sdata s))) in *. set (rg1 := A' ++ (0, X) :: B') in *.
    assert (HL1 : L = 24 + slen rg1).
    { rewrite <- Hlen1, Hcur1, lenN_app, lenN_vrec. reflexivity. }
    apply wp_bind. unfold update_record. cbn [r_index r_pos r_size].
    apply wp_bind. unfold do_set_pos. apply wp_bind, wp_get_rtab, wp_put_rtab.
    apply wp_bind. unfold do_set_size. apply wp_bind, wp_get_rtab, wp_put_rtab. st.
    apply wp_bind. unfold write_record. cbn [r_index r_pos r_size].
    apply (wp_dwrite ops CN); [st; lia|]. intros _. apply wp_ret.
    apply wp_bind. unfold append. apply wp_bind, (wp_get_len ops CN). st.
    assert (HLn : N.to_nat L = length (cur (sdata s1))) by (unfold lenN in Hlen1; lia).
    assert (Hlen2 : lenN (bs_write (cur (sdata s1)) (N.to_nat L) (le64 i ++ le64 new)) = L + 16).
    { unfold lenN. rewrite bs_write_length, app_length, !le64_length. unfold lenN in Hlen1. lia. }
    rewrite Hlen2.
    apply (wp_dwrite ops CN); [st; rewrite Hlen2; lia|]. intros Hov. st.
    rewrite (place_end (cur (sdata s1)) (le64 i ++ le64 new) (pad_to v new) (N.to_nat L) (N.to_nat (L + 16)));
      [|assumption|rewrite app_length, !le64_length; reflexivity|lia].
    apply wp_ret.
    destruct (set_pos_spec (rtab s1) i L ltac:(rewrite HR1; exact TW)) as (Hl1 & TWa & Hfa & Hsa & _).
    destruct (set_size_spec (set_pos (rtab s1) i L) i new TWa) as (Hl2 & TWb & Hfb & Hsb & _).
    assert (HLi : live_at (recs (rtab s)) i = Some (24 + slen A, lenN v)).
    { apply TL; [assumption|]. inl. right; left; reflexivity. }
    exists rg1, []. split.
    { apply tiles_intro; st.
      - rewrite Hcur1, ser_app. cbn [ser]. rewrite app_nil_r. unfold enc. cbn [fst snd].
        rewrite lenN_pad_to, <- !app_assoc. reflexivity.
      - rewrite !lenN_app, !lenN_le64, lenN_pad_to, Hlen1. fold L. rewrite lenN_pad_to in Hov. lia.
      - rewrite layout_app. cbn [layout]. rewrite <- HL1, lenN_pad_to. split.
        + apply (lrel_update (recs (rtab s)) _ (layout 24 (A ++ (i, v) :: B)) _ i (Some (L, new)) Hi TL).
          * intros k. rewrite Hl2. destruct (N.eqb_spec k i) as [->|Hk].
            -- rewrite Hl1, N.eqb_refl, HR1, HLi. reflexivity.
            -- rewrite Hl1. destruct (N.eqb_spec k i); [congruence|]. rewrite HR1. reflexivity.
          * intros q k n Hk Hki. rewrite in_app_iff. cbn [In]. unfold rg1.
            rewrite (merge_layout_same A A' F1 B F2 B' X (lenN (enc (i, v))) EA EB HF1 HF2 HX q k n Hk).
            inl. rewrite lenN_enc. cbn [snd].
            replace (24 + slen A + (16 + lenN v)) with (24 + slen A + 16 + lenN v) by lia. intuition congruence.
          * intros q n. rewrite in_app_iff. cbn [In]. unfold rg1.
            rewrite (merge_layout_same A A' F1 B F2 B' X (lenN (enc (i, v))) EA EB HF1 HF2 HX q i n Hi).
            rewrite in_app_iff.
            assert (ZA : ~ In (q, i, n) (layout 24 A)).
            { intros H. apply layout_In in H. destruct H as (v' & H & _). exact (m_get_none_In _ _ _ v' HA H). }
            assert (ZB : forall P, ~ In (q, i, n) (layout P B)).
            { intros P H. apply layout_In in H. destruct H as (v' & H & _). exact (m_get_none_In _ _ _ v' HB H). }
            pose proof (ZB (24 + slen A + lenN (enc (i, v)))). intuition congruence.
        + intros q n. rewrite Hfb, Hfa, in_app_iff. cbn [In]. rewrite <- (TRf1 q n ltac:(tauto)). intuition congruence.
      - split; [exact TWb|]. unfold fwf. rewrite Hfb, Hsb, Hfa, Hsa. exact FW1.
      - congruence. }
    split; [rewrite lenN_pad_to; f_equal; exact HL1|].
    split.
    { rewrite app_nil_r. unfold rg1. subst A B. rewrite !lmap_app, lmap_cons0, (lmap_free F1 HF1), (lmap_free F2 HF2).
      rewrite app_nil_r. reflexivity. }
    split; [exact Htx1|exact Hdur1].
  Qed.

  Lemma enlarge_at_end_spec s A i v new :
    tiles s (A ++ [(i, v)]) -> i <> 0 -> lenN v < new ->
    wp (enlarge_at_end cdata ops {| r_index := i; r_pos := 24 + slen A; r_size := lenN v |} new) s
       (vpost s A i [] (pad_to v new)) (fun _ _ => False).
  Proof.
    intros T Hi Hnew. pose proof (tiles_elim _ _ T) as (Hcur & Hlen & [TL TF] & [TW FW] & Hv).
    destruct (tiles_unique _ _ _ _ _ T Hi) as [HA _].
    destruct (cur_split _ _ _ _ _ T) as (_ & HLEN & _). rewrite slen_nil in HLEN.
    assert (HLi : live_at (recs (rtab s)) i = Some (24 + slen A, lenN v)).
    { apply TL; [assumption|]. inl. right; left; reflexivity. }
    unfold enlarge_at_end, with_size. cbn [r_index r_pos r_size].
    apply wp_bind. unfold do_set_size. apply wp_bind, wp_get_rtab, wp_put_rtab.
    apply wp_bind. apply (wp_dwrite ops CN); [st; lia|]. intros _. st.
    apply wp_bind. unfold append. apply wp_bind, (wp_get_len ops CN). st.
    assert (Hcur1 : bs_write (cur (sdata s)) (N.to_nat (24 + slen A + 8)) (le64 new) = (vrec ++ ser A) ++ le64 i ++ le64 new ++ v).
    { rewrite Hcur, ser_app. cbn [ser]. rewrite app_nil_r. unfold enc. cbn [fst snd]. rewrite app_assoc.
      apply hdr_size_write. rewrite app_length. change (length vrec) with 24%nat. unfold slen, lenN. lia. }
    rewrite Hcur1.
    assert (Hlen1 : lenN ((vrec ++ ser A) ++ le64 i ++ le64 new ++ v) = lenN (cur (sdata s))).
    { rewrite HLEN, !lenN_app, !lenN_le64, lenN_vrec. unfold slen. lia. }
    rewrite Hlen1.
    apply (wp_dwrite ops CN); [st; rewrite Hlen1; lia|]. intros Hov. st. apply wp_ret.
    rewrite bs_write_end by (unfold lenN in *; lia).
    destruct (set_size_spec (rtab s) i new TW) as (Hl2 & TWb & Hfb & Hsb & _).
    rewrite lenN_zeros in Hov.
    exists A, []. split.
    { apply tiles_intro; st.
      - rewrite ser_app. cbn [ser]. rewrite app_nil_r. unfold enc. cbn [fst snd].
        rewrite lenN_pad_to, pad_to_grow by lia. rewrite <- !app_assoc. reflexivity.
      - rewrite lenN_app, Hlen1, lenN_zeros. lia.
      - rewrite layout_app. cbn [layout]. rewrite lenN_pad_to. split.
        + apply (lrel_update (recs (rtab s)) _ (layout 24 (A ++ [(i, v)])) _ i (Some (24 + slen A, new)) Hi TL).
          * intros k. rewrite Hl2. destruct (N.eqb_spec k i) as [->|]; [rewrite HLi|]; reflexivity.
          * intros q k n Hk Hki. inl. intuition congruence.
          * intros q n. inl.
            assert (ZA : ~ In (q, i, n) (layout 24 A)).
            { intros H. apply layout_In in H. destruct H as (v' & H & _). exact (m_get_none_In _ _ _ v' HA H). }
            intuition congruence.
        + intros q n. rewrite Hfb, <- (TF q n). inl. intuition congruence.
      - split; [exact TWb|]. unfold fwf. rewrite Hfb, Hsb. exact FW.
      - exact Hv. }
    split; [rewrite lenN_pad_to; reflexivity|]. split; [reflexivity|]. split; reflexivity.
  Qed.

  Lemma enlarge_in_place_spec s A i v p B1 new :
    tiles s (A ++ (i, v) :: (0, p) :: B1) -> i <> 0 -> lenN v < new ->
    (16 + lenN p = new - lenN v \/ new - lenN v <= lenN p) ->
    wp (enlarge_in_place cdata ops {| r_index := i; r_pos := 24 + slen A; r_size := lenN v |} new (lenN p))
       (set_rtab cdata s (remove_free (rtab s) (24 + slen A + 16 + lenN v)))
       (vpost s A i ((0, p) :: B1) (pad_to v new)) (fun _ _ => False).
  Proof.
    intros T Hi Hnew Hfit. pose proof (tiles_elim _ _ T) as (Hcur & Hlen & [TL TF] & [TW FW] & Hv).
    destruct (tiles_unique _ _ _ _ _ T Hi) as [HA HB]. cbn [m_get] in HB.
    destruct (N.eqb_spec 0 i) as [|_]; [congruence|].
    destruct (cur_split _ _ _ _ _ T) as (_ & HLEN & _). rewrite slen_cons in HLEN. cbn [snd] in HLEN.
    set (e := 24 + slen A + 16 + lenN v) in *. set (d := new - lenN v).
    assert (HLi : live_at (recs (rtab s)) i = Some (24 + slen A, lenN v)).
    { apply TL; [assumption|]. inl. right; left; reflexivity. }
    assert (Hfe : m_get (fps (rtab s)) e = Some (lenN p)).
    { apply TF. inl. right; right; left. reflexivity. }
    unfold enlarge_in_place, with_size, r_end. cbn [r_index r_pos r_size]. fold e.
    apply wp_bind. unfold do_set_size. apply wp_bind, wp_get_rtab, wp_put_rtab.
    apply wp_bind. apply (wp_dwrite ops CN); [st; lia|]. intros _. st.
    assert (Hcur1 : bs_write (cur (sdata s)) (N.to_nat (24 + slen A + 8)) (le64 new)
                    = (vrec ++ ser A) ++ le64 i ++ le64 new ++ v ++ enc (0, p) ++ ser B1).
    { rewrite Hcur, ser_app. cbn [ser]. unfold enc at 1. cbn [fst snd]. rewrite app_assoc, <- !app_assoc, (app_assoc vrec).
      apply hdr_size_write. rewrite app_length. change (length vrec) with 24%nat. unfold slen, lenN. lia. }
    rewrite Hcur1.
    assert (HE : lenN (enc (0, p)) = 16 + lenN p) by (rewrite lenN_enc; reflexivity).
    assert (Hd : d <= 16 + lenN p) by (unfold d; lia).
    apply wp_bind. apply (wp_dwrite ops CN).
    { st. rewrite !lenN_app, !lenN_le64, lenN_vrec, HE. unfold e, slen. lia. }
    intros _. st.
    set (g := skipn (N.to_nat d) (enc (0, p))).
    assert (Hg : lenN g = 16 + lenN p - d).
    { unfold g, lenN. rewrite skipn_length. unfold lenN in HE. lia. }
    assert (Hcur2 : bs_write ((vrec ++ ser A) ++ le64 i ++ le64 new ++ v ++ enc (0, p) ++ ser B1) (N.to_nat e) (zeros d)
                    = vrec ++ ser (A ++ [(i, pad_to v new)]) ++ g ++ ser B1).
    { rewrite <- (firstn_skipn (N.to_nat d) (enc (0, p))) at 1. fold g.
      replace ((vrec ++ ser A) ++ le64 i ++ le64 new ++ v ++ (firstn (N.to_nat d) (enc (0, p)) ++ g) ++ ser B1)
        with (((vrec ++ ser A) ++ le64 i ++ le64 new ++ v) ++ firstn (N.to_nat d) (enc (0, p)) ++ (g ++ ser B1))
        by (rewrite <- !app_assoc; reflexivity).
      rewrite bs_write_mid.
      - rewrite ser_app. cbn [ser]. rewrite app_nil_r. unfold enc. cbn [fst snd].
        rewrite lenN_pad_to, pad_to_grow by lia. fold d. rewrite <- !app_assoc. reflexivity.
      - rewrite !app_length, !le64_length. change (length vrec) with 24%nat. unfold e, slen, lenN. lia.
      - rewrite zeros_length, firstn_length. unfold lenN in *. lia. }
    fold d. rewrite Hcur2.
    destruct (set_size_spec (remove_free (rtab s) e) i new TW) as (Hl2 & TWb & Hfb & Hsb & _).
    set (s2 := set_cur (set_cur (set_rtab cdata (set_rtab cdata s (remove_free (rtab s) e)) _) _) _).
    assert (GT : gtiles s2 (A ++ [(i, pad_to v new)]) g B1).
    { unfold gtiles, s2. st. split; [reflexivity|]. split.
      { rewrite !lenN_app, lenN_vrec, Hg. rewrite ser_app, lenN_app. cbn [ser]. rewrite app_nil_r, lenN_enc.
        cbn [snd]. rewrite lenN_pad_to. rewrite HLEN in Hlen. unfold slen in *. lia. }
      split.
      { rewrite slen_app, slen_cons, slen_nil. cbn [snd]. rewrite lenN_pad_to, Hg.
        replace (24 + (slen A + (16 + new + 0)) + (16 + lenN p - d)) with (e + 16 + lenN p) by (unfold e, d; lia).
        split.
        - apply (lrel_update (recs (rtab s)) _ (layout 24 (A ++ (i, v) :: (0, p) :: B1)) _ i (Some (24 + slen A, new)) Hi TL).
          + intros k. rewrite Hl2. cbn [recs remove_free]. destruct (N.eqb_spec k i) as [->|]; [rewrite HLi|]; reflexivity.
          + intros q k n Hk Hki. inl. fold e. rewrite lenN_pad_to. intuition congruence.
          + intros q n. inl. rewrite lenN_pad_to.
            assert (ZA : ~ In (q, i, n) (layout 24 A)).
            { intros H. apply layout_In in H. destruct H as (v' & H & _). exact (m_get_none_In _ _ _ v' HA H). }
            assert (ZB : forall P, ~ In (q, i, n) (layout P B1)).
            { intros P H. apply layout_In in H. destruct H as (v' & H & _). exact (m_get_none_In _ _ _ v' HB H). }
            pose proof (ZB (e + 16 + lenN p)). intuition congruence.
        - intros q n. rewrite Hfb, fps_remove_free. destruct (N.eqb_spec e q) as [<-|Hq].
          + inl. split; [|discriminate]. intros H. exfalso.
            destruct H as [[H|[H|[]]]|H]; [apply layout_range in H; unfold e in *; lia|congruence|apply layout_range in H; lia].
          + rewrite <- (TF q n). inl. fold e. rewrite lenN_pad_to. intuition congruence. }
      split; [|exact Hv].
      split; [exact TWb|]. unfold fwf. rewrite Hfb, Hsb. exact (fwf_remove_free _ _ _ FW Hfe). }
    assert (Htx2 : tx s2 = tx s) by reflexivity.
    assert (Hdur2 : dur (sdata s2) = dur (sdata s)) by reflexivity.
    clearbody s2. clear Hcur1 Hcur2.
    replace (lenN v + 16 + lenN p - new) with (16 + lenN p - d) by (unfold d; lia).
    destruct (N.eqb_spec (16 + lenN p - d) 0) as [Ez|Enz]; cbn [negb].
    - assert (g = []) by (apply lenN_0_nil; lia). rewrite H in GT. apply gtiles_nil in GT.
      rewrite <- app_assoc in GT. cbn [app] in GT.
      apply wp_bind, wp_ret. apply wp_ret. exists A, B1. split; [exact GT|].
      split; [rewrite lenN_pad_to; reflexivity|]. split; [|split; assumption].
      rewrite !lmap_app, lmap_cons0. reflexivity.
    - assert (16 <= lenN g) by (rewrite Hg; unfold d in *; lia).
      apply wp_bind.
      replace (24 + slen A + 16 + new) with (24 + slen (A ++ [(i, pad_to v new)]))
        by (rewrite slen_app, slen_cons, slen_nil; cbn [snd]; rewrite lenN_pad_to; lia).
      replace (16 + lenN p - d - 16) with (lenN g - 16) by lia.
      apply (free_a_region_spec ops CN _ _ _ _ _ _ GT); [assumption|].
      intros s' A' F1 F2 B' X EA EB HF1 HF2 T' Hlen' Htx' Hdur'.
      destruct (app_last_live _ _ _ _ _ EA HF1 Hi) as [-> ->]. subst B1.
      rewrite <- app_assoc in T'. cbn [app] in T'.
      apply wp_ret. exists A, ((0, X) :: B'). split; [exact T'|].
      split; [rewrite lenN_pad_to; reflexivity|]. split; [|split; congruence].
      rewrite !lmap_app, !lmap_cons0, lmap_app, (lmap_free F2 HF2). reflexivity.
  Qed.

  Lemma enlarge_move_to_spec s A i v B new fpos fs :
    tiles s (A ++ (i, v) :: B) -> i <> 0 -> lenN v < new ->
    m_get (fps (rtab s)) fpos = Some fs -> (fs = new \/ new + 16 <= fs) ->
    wp (enlarge_move_to cdata ops {| r_index := i; r_pos := 24 + slen A; r_size := lenN v |} new fpos fs)
       (set_rtab cdata s (remove_free (rtab s) fpos))
       (vpost s A i B (pad_to v new)) (fun _ _ => False).
  Proof.
    intros T Hi Hnew Hfp Hfit. pose proof (tiles_elim _ _ T) as (Hcur & Hlen & [TL TF] & [TW FW] & Hv).
    destruct (tiles_unique _ _ _ _ _ T Hi) as [HA HB].
    destruct (cur_split _ _ _ _ _ T) as (Hcur2 & HLEN & HPL).
    assert (HLi : live_at (recs (rtab s)) i = Some (24 + slen A, lenN v)).
    { apply TL; [assumption|]. inl. right; left; reflexivity. }
    set (P := 24 + slen A) in *.
    (* the free region taken for the value *)
    assert (Hin0 : In (fpos, 0, fs) (layout 24 A ++ layout (P + lenN (enc (i, v))) B)).
    { apply TF in Hfp. revert Hfp. inl. fold P. rewrite lenN_enc. cbn [snd].
      replace (P + (16 + lenN v)) with (P + 16 + lenN v) by lia. intuition congruence. }
    assert (HPf : P <> fpos).
    { intros <-. apply in_app_or in Hin0. destruct Hin0 as [H|H]; apply layout_range in H; rewrite ?lenN_enc in H; unfold P in *; lia. }
    set (s0 := set_rtab cdata s (remove_free (rtab s) fpos)).
    unfold enlarge_move_to. apply wp_bind. unfold value_start. cbn [r_pos r_size].
    apply (wp_dread ops CN); [unfold s0; st; lia|].
    change (cur (sdata s0)) with (cur (sdata s)). rewrite Hcur2, bs_read_mid; [|unfold P; lia|unfold lenN; lia].
    apply wp_bind.
    replace (lenN v) with (lenN (enc (i, v)) - 16) at 1 by (rewrite lenN_enc; cbn [snd]; lia).
    apply (free_region_low ops CN s0 A (enc (i, v)) B (fun q => q = fpos)).
    { unfold s0; st. rewrite Hcur, ser_app. reflexivity. }
    { exact Hlen. }
    { rewrite lenN_enc. lia. }
    { unfold s0; st. exact (fwf_remove_free _ _ _ FW Hfp). }
    { unfold s0; st. split.
      - intros q n Hq. rewrite fps_remove_free. destruct (N.eqb_spec fpos q); [congruence|].
        rewrite <- (TF q n). inl. fold P. rewrite lenN_enc. cbn [snd].
        replace (P + (16 + lenN v)) with (P + 16 + lenN v) by lia. intuition congruence.
      - intros q ->. rewrite fps_remove_free, N.eqb_refl. reflexivity. }
    { exact HPf. }
    intros s1 A' F1 F2 B' X EA EB HF1 HF2 HNX Hcur1 HX Hlen1 FW1 [TRf1 TRx1] HR1 Htx1 Hdur1 Hver1.
    set (rg1 := A' ++ (0, X) :: B') in *.
    change (recs (rtab s0)) with (recs (rtab s)) in HR1.
    change (cur (sdata s0)) with (cur (sdata s)) in Hlen1. change (tx s0) with (tx s) in Htx1.
    change (dur (sdata s0)) with (dur (sdata s)) in Hdur1. change (version s0) with (version s) in Hver1.
    (* the taken region is still there *)
    assert (Hin1 : In (fpos, 0, fs) (layout 24 rg1)).
    { destruct (merge_layout_in A A' F1 B F2 B' X (lenN (enc (i, v))) fpos 0 fs EA EB HX Hin0) as [H|H]; [|exact H].
      exfalso. exact (HNX _ _ _ H eq_refl). }
    destruct (layout_split _ _ _ _ _ Hin1) as (C1 & p' & C2 & Erg1 & Hp' & Hfpos).
    assert (Hcur1' : cur (sdata s1) = (vrec ++ ser C1) ++ enc (0, p') ++ ser C2).
    { rewrite Hcur1, Erg1, ser_app. cbn [ser]. now rewrite <- !app_assoc. }
    assert (HfposN : N.to_nat fpos = length (vrec ++ ser C1)).
    { rewrite app_length. change (length vrec) with 24%nat. unfold slen, lenN in Hfpos. lia. }
    assert (HE' : lenN (enc (0, p')) = 16 + fs) by (rewrite lenN_enc; cbn [snd]; lia).
    assert (HLEN1 : lenN (cur (sdata s1)) = fpos + 16 + fs + slen C2).
    { rewrite Hcur1', !lenN_app, HE', lenN_vrec. unfold slen in *. lia. }
    apply wp_bind. unfold update_record. cbn [r_index r_pos r_size].
    apply wp_bind. unfold do_set_pos. apply wp_bind, wp_get_rtab, wp_put_rtab.
    apply wp_bind. unfold do_set_size. apply wp_bind, wp_get_rtab, wp_put_rtab. st.
    apply wp_bind. unfold write_record. cbn [r_index r_pos r_size].
    apply (wp_dwrite ops CN); [st; lia|]. intros _. apply wp_ret.
    apply wp_bind. unfold value_start. cbn [r_pos].
    apply (wp_dwrite ops CN).
    { st. unfold lenN. rewrite bs_write_length, app_length, !le64_length. unfold lenN in HLEN1. lia. }
    intros _. st.
    assert (Hplace : bs_write (bs_write (cur (sdata s1)) (N.to_nat fpos) (le64 i ++ le64 new)) (N.to_nat (fpos + 16)) (pad_to v new)
                     = (vrec ++ ser C1) ++ (le64 i ++ le64 new) ++ pad_to v new ++ skipn (16 + length (pad_to v new)) (enc (0, p')) ++ ser C2).
    { rewrite Hcur1'. apply place_in; [assumption|rewrite app_length, !le64_length; reflexivity| |lia].
      rewrite pad_to_length. unfold lenN in HE'. lia. }
    rewrite Hplace. clear Hplace.
    set (g2 := skipn (16 + length (pad_to v new)) (enc (0, p'))).
    assert (Hg2 : lenN g2 = fs - new).
    { unfold g2, lenN. rewrite skipn_length, pad_to_length. unfold lenN in HE'. lia. }
    destruct (set_pos_spec (rtab s1) i fpos ltac:(rewrite HR1; exact TW)) as (Hl1 & TWa & Hfa & Hsa & _).
    destruct (set_size_spec (set_pos (rtab s1) i fpos) i new TWa) as (Hl2 & TWb & Hfb & Hsb & _).
    set (s3 := set_cur (set_cur (set_rtab cdata (set_rtab cdata s1 _) _) _) _).
    assert (Hno_i : forall q n, ~ In (q, i, n) (layout 24 rg1)).
    { intros q n H. apply (merge_layout_same A A' F1 B F2 B' X (lenN (enc (i, v))) EA EB HF1 HF2 HX q i n Hi) in H.
      apply in_app_or in H. destruct H as [H|H]; apply layout_In in H; destruct H as (v' & H & _).
      - exact (m_get_none_In _ _ _ v' HA H).
      - exact (m_get_none_In _ _ _ v' HB H). }
    assert (GT : gtiles s3 (C1 ++ [(i, pad_to v new)]) g2 C2).
    { unfold gtiles, s3. st. split.
      { rewrite ser_app. cbn [ser]. rewrite app_nil_r. unfold enc. cbn [fst snd]. rewrite lenN_pad_to, <- !app_assoc. reflexivity. }
      split.
      { rewrite <- !app_assoc, !lenN_app, !lenN_le64, lenN_pad_to, lenN_vrec, Hg2.
        rewrite <- Hlen1, HLEN1 in Hlen. unfold slen in *. lia. }
      split.
      { rewrite slen_app, slen_cons, slen_nil. cbn [snd]. rewrite lenN_pad_to, Hg2.
        replace (24 + (slen C1 + (16 + new + 0)) + (fs - new)) with (fpos + 16 + fs) by lia.
        rewrite Erg1 in Hno_i, TRf1.
        split.
        - apply (lrel_update (recs (rtab s)) _ (layout 24 (A ++ (i, v) :: B)) _ i (Some (fpos, new)) Hi TL).
          + intros k. rewrite Hl2. destruct (N.eqb_spec k i) as [->|Hk].
            * rewrite Hl1, N.eqb_refl, HR1, HLi. reflexivity.
            * rewrite Hl1. destruct (N.eqb_spec k i); [congruence|]. rewrite HR1. reflexivity.
          + intros q k n Hk Hki.
            transitivity (In (q, k, n) (layout 24 (C1 ++ (0, p') :: C2))).
            { inl. rewrite lenN_pad_to, Hp', <- Hfpos. intuition congruence. }
            rewrite <- Erg1. unfold rg1.
            rewrite (merge_layout_same A A' F1 B F2 B' X (lenN (enc (i, v))) EA EB HF1 HF2 HX q k n Hk).
            inl. fold P. rewrite lenN_enc. cbn [snd].
            replace (P + (16 + lenN v)) with (P + 16 + lenN v) by lia. intuition congruence.
          + intros q n. inl. rewrite lenN_pad_to, <- Hfpos.
            assert (Z1 : ~ In (q, i, n) (layout 24 C1)).
            { intros H. apply (Hno_i q n). inl. auto. }
            assert (Z2 : ~ In (q, i, n) (layout (fpos + 16 + fs) C2)).
            { intros H. apply (Hno_i q n). inl. rewrite Hp', <- Hfpos. auto. }
            intuition congruence.
        - intros q n. rewrite Hfb, Hfa. destruct (N.eqb_spec q fpos) as [->|Hq].
          + rewrite (TRx1 fpos eq_refl). inl. rewrite lenN_pad_to, <- Hfpos. split; [|discriminate]. intros H. exfalso.
            destruct H as [[H|[H|[]]]|H]; [apply layout_range in H; lia|congruence|apply layout_range in H; lia].
          + rewrite <- (TRf1 q n Hq). inl. rewrite lenN_pad_to, Hp', <- Hfpos. intuition congruence. }
      split; [|congruence].
      split; [exact TWb|]. unfold fwf. rewrite Hfb, Hsb, Hfa, Hsa. exact FW1. }
    assert (Htx3 : tx s3 = tx s) by (unfold s3; st; exact Htx1).
    assert (Hdur3 : dur (sdata s3) = dur (sdata s)) by (unfold s3; st; exact Hdur1).
    clearbody s3.
    assert (Hlm : lmap (C1 ++ C2) = lmap (A ++ B)).
    { transitivity (lmap rg1); [rewrite Erg1, !lmap_app, lmap_cons0; reflexivity|].
      unfold rg1. subst A B. rewrite !lmap_app, lmap_cons0, (lmap_free F1 HF1), (lmap_free F2 HF2), app_nil_r. reflexivity. }
    destruct (N.ltb_spec new fs) as [Hlt|Hge].
    - assert (16 <= lenN g2) by lia.
      apply wp_bind. unfold r_end. cbn [r_pos r_size].
      replace (fpos + 16 + new) with (24 + slen (C1 ++ [(i, pad_to v new)]))
        by (rewrite slen_app, slen_cons, slen_nil; cbn [snd]; rewrite lenN_pad_to; lia).
      replace (fs - new - 16) with (lenN g2 - 16) by lia.
      apply (free_a_region_spec ops CN _ _ _ _ _ _ GT); [assumption|].
      intros s' A'' F1' F2' B'' X2 EA' EB' HF1' HF2' T' Hlen' Htx' Hdur'.
      destruct (app_last_live _ _ _ _ _ EA' HF1' Hi) as [-> ->]. subst C2.
      rewrite <- app_assoc in T'. cbn [app] in T'.
      apply wp_ret. exists C1, ((0, X2) :: B''). split; [exact T'|].
      split; [rewrite lenN_pad_to, Hfpos; reflexivity|]. split; [|split; congruence].
      rewrite <- Hlm, !lmap_app, lmap_cons0, (lmap_free F2' HF2'). reflexivity.
    - assert (g2 = []) by (apply lenN_0_nil; lia). rewrite H in GT. apply gtiles_nil in GT.
      rewrite <- app_assoc in GT. cbn [app] in GT.
      apply wp_bind, wp_ret. apply wp_ret. exists C1, C2. split; [exact GT|].
      split; [rewrite lenN_pad_to, Hfpos; reflexivity|]. split; [exact Hlm|split; assumption].
  Qed.

  Lemma enlarge_value_spec s A i v B new :
    tiles s (A ++ (i, v) :: B) -> i <> 0 -> lenN v < new ->
    wp (enlarge_value cdata ops {| r_index := i; r_pos := 24 + slen A; r_size := lenN v |} new) s
       (vpost s A i B (pad_to v new)) (fun _ _ => False).
  Proof.
    intros T Hi Hnew. pose proof (tiles_elim _ _ T) as (Hcur & Hlen & [TL TF] & [TW FW] & Hv).
    destruct (cur_split _ _ _ _ _ T) as (_ & HLEN & _).
    unfold enlarge_value. apply wp_bind. unfold is_at_end. apply wp_bind, (wp_get_len ops CN). apply wp_ret.
    unfold r_end. cbn [r_pos r_size].
    destruct (N.eqb_spec (lenN (cur (sdata s))) (24 + slen A + 16 + lenN v)) as [Eend|Nend].
    - assert (B = []) by (apply slen_0; lia). subst B. apply enlarge_at_end_spec; assumption.
    - apply wp_bind, wp_get_rtab.
      destruct (take_free_after (rtab s) (24 + slen A + 16 + lenN v) (new - lenN v)) as [[rs' [q fs]]|] eqn:TA.
      + destruct (take_free_after_spec _ _ _ _ _ _ TA) as (-> & Hfe & Hfit & ->).
        pose proof Hfe as Hin. apply TF in Hin. revert Hin. inl. intros Hin.
        destruct Hin as [H|[H|H]]; [apply layout_range in H; lia|congruence|].
        destruct (layout_at_start _ _ _ _ H) as (p & B1 & -> & Hp). subst fs.
        apply wp_bind, wp_put_rtab. apply enlarge_in_place_spec; assumption.
      + destruct (take_free (rtab s) new) as [[rs' [fpos fs]]|] eqn:TK.
        * destruct (take_free_spec _ _ _ _ _ FW TK) as (Hfp & Hle & Hfit & ->).
          apply wp_bind, wp_put_rtab. apply enlarge_move_to_spec; assumption.
        * apply move_to_end_spec; assumption.
  Qed.

  Lemma shrink_value_spec s A i v B new :
    tiles s (A ++ (i, v) :: B) -> i <> 0 -> new < lenN v ->
    wp (shrink_value cdata ops {| r_index := i; r_pos := 24 + slen A; r_size := lenN v |} new) s
       (vpost s A i B (pad_to v new)) (fun _ _ => False).
  Proof.
    intros T Hi Hnew. pose proof (tiles_elim _ _ T) as (Hcur & Hlen & [TL TF] & [TW FW] & Hv).
    destruct (tiles_unique _ _ _ _ _ T Hi) as [HA HB].
    destruct (cur_split _ _ _ _ _ T) as (_ & HLEN & _).
    assert (HLi : live_at (recs (rtab s)) i = Some (24 + slen A, lenN v)).
    { apply TL; [assumption|]. inl. right; left; reflexivity. }
    set (v1 := (firstn (N.to_nat new) v : bytes)). set (v2 := (skipn (N.to_nat new) v : bytes)).
    assert (Ev : v = v1 ++ v2) by (symmetry; apply firstn_skipn).
    assert (Hv1 : lenN v1 = new) by (unfold v1, lenN in *; rewrite firstn_length; lia).
    assert (Hv2 : lenN v2 = lenN v - new) by (unfold v2, lenN in *; rewrite skipn_length; lia).
    assert (Epad : pad_to v new = v1) by (apply pad_to_shrink; lia).
    rewrite Epad.
    (* the size field is rewritten in both in-place cases *)
    assert (Hcur1 : bs_write (cur (sdata s)) (N.to_nat (24 + slen A + 8)) (le64 new)
                    = vrec ++ ser (A ++ [(i, v1)]) ++ v2 ++ ser B).
    { rewrite Hcur, !ser_app. cbn [ser]. rewrite app_nil_r. unfold enc. cbn [fst snd]. rewrite Hv1.
      rewrite Ev at 2. rewrite app_assoc, <- !app_assoc, (app_assoc vrec).
      apply hdr_size_write. rewrite app_length. change (length vrec) with 24%nat. unfold slen, lenN. lia. }
    destruct (set_size_spec (rtab s) i new TW) as (Hl2 & TWb & Hfb & Hsb & _).
    assert (GTgen : forall s2, cur (sdata s2) = vrec ++ ser (A ++ [(i, v1)]) ++ v2 ++ ser B ->
                               rtab s2 = set_size (rtab s) i new -> version s2 = version s ->
                               gtiles s2 (A ++ [(i, v1)]) v2 B).
    { intros s2 Hc2 Hr2 Hv2'. unfold gtiles. split; [exact Hc2|]. split.
      { rewrite Hc2, !lenN_app, lenN_vrec, Hv2. rewrite ser_app, lenN_app. cbn [ser]. rewrite app_nil_r, lenN_enc.
        cbn [snd]. rewrite Hv1. rewrite HLEN in Hlen. unfold slen in *. lia. }
      split.
      { rewrite Hr2, slen_app, slen_cons, slen_nil. cbn [snd]. rewrite Hv1, Hv2.
        replace (24 + (slen A + (16 + new + 0)) + (lenN v - new)) with (24 + slen A + 16 + lenN v) by lia.
        split.
        - apply (lrel_update (recs (rtab s)) _ (layout 24 (A ++ (i, v) :: B)) _ i (Some (24 + slen A, new)) Hi TL).
          + intros k. rewrite Hl2. destruct (N.eqb_spec k i) as [->|]; [rewrite HLi|]; reflexivity.
          + intros q k n Hk Hki. inl. rewrite Hv1. intuition congruence.
          + intros q n. inl. rewrite Hv1.
            assert (ZA : ~ In (q, i, n) (layout 24 A)).
            { intros H. apply layout_In in H. destruct H as (v' & H & _). exact (m_get_none_In _ _ _ v' HA H). }
            assert (ZB : forall P, ~ In (q, i, n) (layout P B)).
            { intros P H. apply layout_In in H. destruct H as (v' & H & _). exact (m_get_none_In _ _ _ v' HB H). }
            pose proof (ZB (24 + slen A + 16 + lenN v)). intuition congruence.
        - intros q n. rewrite Hfb, <- (TF q n). inl. rewrite Hv1. intuition congruence. }
      split; [|congruence]. rewrite Hr2.
      split; [exact TWb|]. unfold fwf. rewrite Hfb, Hsb. exact FW. }
    unfold shrink_value. apply wp_bind. unfold is_at_end. apply wp_bind, (wp_get_len ops CN). apply wp_ret.
    unfold r_end, with_size. cbn [r_pos r_size r_index].
    destruct (N.eqb_spec (lenN (cur (sdata s))) (24 + slen A + 16 + lenN v)) as [Eend|Nend].
    - (* at the end: truncate *)
      assert (B = []) by (apply slen_0; lia). subst B.
      apply wp_bind. unfold do_set_size. apply wp_bind, wp_get_rtab, wp_put_rtab.
      apply wp_bind. apply (wp_dwrite ops CN); [st; lia|]. intros _. st. rewrite Hcur1.
      apply wp_bind. unfold truncate. apply wp_bind, (wp_get_len ops CN). st.
      assert (Hl1 : lenN (vrec ++ ser (A ++ [(i, v1)]) ++ v2 ++ ser []) = 24 + slen A + 16 + lenN v).
      { rewrite !lenN_app, lenN_vrec, Hv2. cbn [ser]. rewrite lenN_nil. fold (slen (A ++ [(i, v1)])).
        rewrite slen_app, slen_cons, slen_nil. cbn [snd]. rewrite Hv1. lia. }
      rewrite Hl1. destruct (N.ltb_spec (24 + slen A + 16 + new) (24 + slen A + 16 + lenN v)) as [_|]; [|lia].
      apply (wp_dresize ops CN). st. apply wp_ret.
      set (s2 := set_cur _ _).
      assert (Hc2 : cur (sdata s2) = vrec ++ ser (A ++ [(i, v1)]) ++ [] ++ ser []).
      { unfold s2. st. cbn [ser]. rewrite !app_nil_r. rewrite (app_assoc vrec). apply bs_resize_prefix.
        rewrite app_length. change (length vrec) with 24%nat. fold (slen (A ++ [(i, v1)])).
        pose proof (slen_app A [(i, v1)]) as E1. rewrite slen_cons, slen_nil in E1. cbn [snd] in E1. rewrite Hv1 in E1.
        unfold slen, lenN in *. lia. }
      exists A, []. split.
      { rewrite <- (app_nil_r (A ++ [(i, v1)])). apply gtiles_nil. unfold gtiles. split; [exact Hc2|].
        pose proof (GTgen (set_cur (set_rtab cdata s (set_size (rtab s) i new)) (vrec ++ ser (A ++ [(i, v1)]) ++ v2 ++ ser [])) eq_refl eq_refl eq_refl)
          as (_ & Hlen2 & TR2 & RW2 & Hver2).
        cbn [sdata cur dur rtab tx version set_cur set_data set_rtab] in Hlen2, TR2, RW2, Hver2.
        split.
        { rewrite Hc2. rewrite !lenN_app, lenN_vrec in Hlen2 |- *. cbn [ser] in *. rewrite !lenN_nil in *. lia. }
        split; [|split; [exact RW2|exact Hver2]].
        cbn [layout] in TR2 |- *. exact TR2. }
      split; [rewrite Hv1; reflexivity|]. split; [reflexivity|split; reflexivity].
    - destruct (N.leb_spec 16 (lenN v - new)) as [H16|Hsmall].
      + (* the freed tail becomes a free region *)
        apply wp_bind. unfold do_set_size. apply wp_bind, wp_get_rtab, wp_put_rtab.
        apply wp_bind. apply (wp_dwrite ops CN); [st; lia|]. intros _. st. rewrite Hcur1.
        apply wp_bind.
        replace (24 + slen A + 16 + new) with (24 + slen (A ++ [(i, v1)]))
          by (rewrite slen_app, slen_cons, slen_nil; cbn [snd]; rewrite Hv1; lia).
        replace (lenN v - new - 16) with (lenN v2 - 16) by lia.
        eapply (free_a_region_spec ops CN); [apply GTgen; reflexivity|lia|].
        intros s' A' F1 F2 B' X EA EB HF1 HF2 T' Hlen' Htx' Hdur'.
        destruct (app_last_live _ _ _ _ _ EA HF1 Hi) as [-> ->]. subst B.
        rewrite <- app_assoc in T'. cbn [app] in T'.
        apply wp_ret. exists A, ((0, X) :: B'). split; [exact T'|].
        split; [rewrite Hv1; reflexivity|]. split; [|split; assumption].
        rewrite !lmap_app, lmap_cons0, (lmap_free F2 HF2). reflexivity.
      + (* too small to split: move to the end *)
        rewrite <- Epad. apply move_to_end_spec; assumption.
  Qed.
End Ops.
