(* OpenMapRefineBase.v — groundwork of the refinement OpenMap.v -> OpenMapSpec.v:
   cyclic probe order (dist / pseq), the multiset of stored pairs under slot updates, and the PROBE-CHAIN
   INVARIANT `chain`: every Valid slot i holding key k is reachable from hpos k by stepping +1 (wrapping)
   without meeting an Empty slot (Deleted slots are crossed). *)
From Coq Require Import List NArith ZArith Arith Bool Lia ZifyBool ZifyNat ZifyN Permutation.
Import ListNotations.
From Agdb Require Import OpenMap OpenMapProofs.
Ltac Zify.zify_post_hook ::= Z.div_mod_to_equations.

(* ------------------------------------------------------------------ *)
(* cyclic distance                                                      *)
(* ------------------------------------------------------------------ *)

Ltac cyc :=
  unfold dist, rem, next_pos in *;
  repeat match goal with
         | H : context [?a <=? ?b] |- _ => destruct (Nat.leb_spec a b)
         | |- context [?a <=? ?b] => destruct (Nat.leb_spec a b)
         | H : context [?a <? ?b] |- _ => destruct (Nat.ltb_spec a b)
         | |- context [?a <? ?b] => destruct (Nat.ltb_spec a b)
         | H : context [?a =? ?b] |- _ => destruct (Nat.eqb_spec a b)
         | |- context [?a =? ?b] => destruct (Nat.eqb_spec a b)
         end; try lia.

Lemma dist_self : forall cap s, dist cap s s = 0.
Proof. intros. cyc. Qed.

Lemma dist_inj : forall cap s a b, s < cap -> a < cap -> b < cap -> dist cap s a = dist cap s b -> a = b.
Proof. intros. cyc. Qed.

Lemma dist_zero : forall cap s a, s < cap -> a < cap -> dist cap s a = 0 -> a = s.
Proof. intros. cyc. Qed.

(* stepping the probed position: one more slot visited *)
Lemma dist_step : forall cap s pos, s < cap -> pos < cap -> next_pos cap pos <> s ->
  dist cap s (next_pos cap pos) = dist cap s pos + 1.
Proof. intros. cyc. Qed.

Lemma visited_step : forall cap s pos j, s < cap -> pos < cap -> j < cap -> next_pos cap pos <> s ->
  dist cap s j < dist cap s (next_pos cap pos) -> dist cap s j < dist cap s pos \/ j = pos.
Proof. intros. cyc. Qed.

(* the probe is back at its start: every slot has been visited *)
Lemma visited_wrap : forall cap s pos j, s < cap -> pos < cap -> j < cap -> next_pos cap pos = s ->
  dist cap s j < dist cap s pos \/ j = pos.
Proof. intros. cyc. Qed.

Lemma rem_wrap : forall cap s pos, s < cap -> pos < cap -> next_pos cap pos = s -> rem cap s pos = 1.
Proof. intros. cyc. Qed.

Lemma rem_pos : forall cap s pos, s < cap -> pos < cap -> 1 <= rem cap s pos.
Proof. intros. cyc. Qed.

Lemma rem_dist : forall cap s pos, s < cap -> pos < cap -> rem cap s pos + dist cap s pos = cap.
Proof. intros. cyc. Qed.

(* ------------------------------------------------------------------ *)
(* the probe sequence as a list of positions                            *)
(* ------------------------------------------------------------------ *)

Fixpoint pseq (cap pos n : nat) : list nat :=
  match n with
  | O => []
  | S n' => pos :: pseq cap (next_pos cap pos) n'
  end.

Lemma pseq_seq : forall cap n pos, pos + n <= cap -> pseq cap pos n = seq pos n.
Proof.
  intros cap. induction n as [|n IH]; intros pos Hle; cbn [pseq seq]; [reflexivity|].
  f_equal. destruct n as [|n]; [reflexivity|].
  assert (Hn : next_pos cap pos = S pos) by (unfold next_pos; destruct (Nat.eqb_spec pos (cap - 1)); lia).
  rewrite Hn. apply IH. lia.
Qed.

Lemma pseq_wrap : forall cap n1 pos n2, 0 < n1 -> pos + n1 = cap ->
  pseq cap pos (n1 + n2) = seq pos n1 ++ pseq cap 0 n2.
Proof.
  intros cap. induction n1 as [|n1 IH]; intros pos n2 Hpos Hsum; [lia|].
  cbn [plus pseq seq app]. f_equal.
  destruct n1 as [|n1].
  - cbn [plus seq app]. f_equal. unfold next_pos. destruct (Nat.eqb_spec pos (cap - 1)); lia.
  - assert (Hn : next_pos cap pos = S pos) by (unfold next_pos; destruct (Nat.eqb_spec pos (cap - 1)); lia).
    rewrite Hn. apply IH; lia.
Qed.

(* a full probe cycle visits every position exactly once *)
Lemma pseq_full_perm : forall cap s, s < cap -> Permutation (pseq cap s cap) (seq 0 cap).
Proof.
  intros cap s Hs.
  replace cap with ((cap - s) + s) at 2 by lia.
  rewrite pseq_wrap by lia. rewrite pseq_seq by lia.
  replace (seq 0 cap) with (seq 0 (s + (cap - s))) by (f_equal; lia).
  rewrite seq_app. cbn [plus]. apply Permutation_app_comm.
Qed.

(* the positions still to be probed lie at or after the current one *)
Lemma pseq_in : forall cap s, s < cap -> forall n pos q, pos < cap -> n <= rem cap s pos ->
  In q (pseq cap pos n) -> q < cap /\ dist cap s pos <= dist cap s q.
Proof.
  intros cap s Hs. induction n as [|n IH]; intros pos q Hpos Hn Hin; cbn [pseq In] in Hin; [contradiction|].
  destruct Hin as [<-|Hin]; [split; [exact Hpos|lia]|].
  destruct n as [|n]; [cbn [pseq In] in Hin; contradiction|].
  destruct (Nat.eq_dec (next_pos cap pos) s) as [Heq|Hne].
  { pose proof (rem_wrap cap s pos Hs Hpos Heq). lia. }
  pose proof (rem_next cap s pos Hpos Hs Hne) as Hr.
  pose proof (dist_step cap s pos Hs Hpos Hne) as Hd.
  destruct (IH (next_pos cap pos) q) as [Hq Hle]; auto; [apply next_pos_lt; exact Hpos|lia|].
  split; [exact Hq|lia].
Qed.

Lemma map_nth_seq_id : forall A (d : A) (l : list A), map (fun i => nth i l d) (seq 0 (length l)) = l.
Proof.
  intros A d l. apply (nth_ext _ _ d d).
  - rewrite map_length, seq_length. reflexivity.
  - intros n Hn. rewrite map_length, seq_length in Hn.
    rewrite (nth_indep _ d (nth 0 l d)) by (rewrite map_length, seq_length; exact Hn).
    rewrite (map_nth (fun i => nth i l d) (seq 0 (length l)) 0 n).
    rewrite seq_nth by exact Hn. reflexivity.
Qed.

Lemma Permutation_filter : forall A (f : A -> bool) l1 l2,
  Permutation l1 l2 -> Permutation (filter f l1) (filter f l2).
Proof.
  intros A f l1 l2 HP. induction HP as [|x l1 l2 _ IH|x y l|l1 l2 l3 _ IH1 _ IH2]; cbn [filter].
  - constructor.
  - destruct (f x); [constructor; exact IH|exact IH].
  - destruct (f x); destruct (f y); try apply Permutation_refl. apply perm_swap.
  - eapply Permutation_trans; eassumption.
Qed.

(* ------------------------------------------------------------------ *)
(* stored pairs                                                         *)
(* ------------------------------------------------------------------ *)

Section Base.
  Variables K V : Type.
  Variable keqb : K -> K -> bool.
  Variable veqb : V -> V -> bool.
  Variable h : K -> N.

  Notation slotT := (slot K V).
  Notation isv := (is_valid K V).
  Notation E := (@Empty K V).
  Notation D := (@Deleted K V).
  Notation ents := (entries K V).
  Notation hp := (hpos K h).

  Definition ent (s : slotT) : list (K * V) := match s with Valid k v => [(k, v)] | _ => [] end.

  Lemma entries_cons : forall s sl, ents (s :: sl) = ent s ++ ents sl.
  Proof. intros [| |k v] sl; reflexivity. Qed.

  Lemma entries_app : forall l1 l2, ents (l1 ++ l2) = ents l1 ++ ents l2.
  Proof. intros. unfold entries. apply flat_map_app. Qed.

  Lemma entries_repeat_empty : forall n, ents (repeat E n) = [].
  Proof. induction n as [|n IH]; [reflexivity|]. cbn [repeat]. rewrite entries_cons, IH. reflexivity. Qed.

  (* one slot overwritten: the old content leaves the multiset, the new one enters *)
  Lemma entries_upd : forall sl p x, p < length sl ->
    Permutation (ents (upd p x sl) ++ ent (nth p sl E)) (ent x ++ ents sl).
  Proof.
    induction sl as [|y t IH]; intros [|p] x Hp; cbn [length] in Hp; try lia; cbn [upd nth].
    - rewrite !entries_cons. rewrite <- app_assoc.
      apply Permutation_app_head. apply Permutation_app_comm.
    - rewrite !entries_cons. rewrite <- app_assoc.
      eapply Permutation_trans; [apply Permutation_app_head; apply IH; lia|].
      rewrite !app_assoc. apply Permutation_app_tail. apply Permutation_app_comm.
  Qed.

  Lemma entries_upd_valid : forall sl p k v, p < length sl -> isv (nth p sl E) = false ->
    Permutation (ents (upd p (Valid k v) sl)) ((k, v) :: ents sl).
  Proof.
    intros sl p k v Hp Hn. pose proof (entries_upd sl p (Valid k v) Hp) as HP.
    destruct (nth p sl E); cbn [is_valid] in Hn; try discriminate; cbn [ent app] in HP;
      rewrite app_nil_r in HP; exact HP.
  Qed.

  Lemma entries_upd_deleted : forall sl p k v, p < length sl -> nth p sl E = Valid k v ->
    Permutation ((k, v) :: ents (upd p D sl)) (ents sl).
  Proof.
    intros sl p k v Hp Hn. pose proof (entries_upd sl p D Hp) as HP.
    rewrite Hn in HP. cbn [ent app] in HP.
    eapply Permutation_trans; [|exact HP]. apply Permutation_cons_append.
  Qed.

  Lemma entries_upd_replace : forall sl p k v k' v', p < length sl -> nth p sl E = Valid k v ->
    Permutation ((k, v) :: ents (upd p (Valid k' v') sl)) ((k', v') :: ents sl).
  Proof.
    intros sl p k v k' v' Hp Hn. pose proof (entries_upd sl p (Valid k' v') Hp) as HP.
    rewrite Hn in HP. cbn [ent app] in HP.
    eapply Permutation_trans; [|exact HP]. apply Permutation_cons_append.
  Qed.

  Lemma entries_upd_junk : forall sl p x, p < length sl -> isv (nth p sl E) = false -> isv x = false ->
    ents (upd p x sl) = ents sl.
  Proof.
    induction sl as [|y t IH]; intros [|p] x Hp Hn Hx; cbn [length] in Hp; try lia; cbn [upd nth] in *.
    - rewrite !entries_cons. destruct y; destruct x; cbn [is_valid] in *; try discriminate; reflexivity.
    - rewrite !entries_cons. rewrite IH; auto; lia.
  Qed.

  Lemma entries_length : forall sl, length (ents sl) = cnt isv sl.
  Proof.
    induction sl as [|s t IH]; [reflexivity|]. rewrite entries_cons, app_length, IH. cbn [cnt].
    destruct s; reflexivity.
  Qed.

  Lemma entries_firstn : forall n sl,
    (forall p, n <= p -> p < length sl -> isv (nth p sl E) = false) -> ents (firstn n sl) = ents sl.
  Proof.
    induction n as [|n IH]; intros sl Htail.
    - cbn [firstn]. symmetry. induction sl as [|y t IHt]; [reflexivity|].
      rewrite entries_cons. pose proof (Htail 0 ltac:(lia) ltac:(cbn [length]; lia)) as H0. cbn [nth] in H0.
      rewrite IHt; [destruct y; cbn [is_valid] in H0; try discriminate; reflexivity|].
      intros p Hp1 Hp2. apply (Htail (S p)); cbn [length]; lia.
    - destruct sl as [|y t]; [reflexivity|]. cbn [firstn]. rewrite !entries_cons. f_equal.
      apply IH. intros p Hp1 Hp2. apply (Htail (S p)); cbn [length]; lia.
  Qed.

  (* ---------------- equal counts for every predicate = same multiset ---------------- *)

  Hypothesis keqb_eq : forall a b, keqb a b = true <-> a = b.
  Hypothesis veqb_eq : forall a b, veqb a b = true <-> a = b.

  Lemma pair_eq_dec : forall x y : K * V, {x = y} + {x <> y}.
  Proof.
    intros [k v] [k' v'].
    destruct (keqb k k') eqn:Hk; [apply keqb_eq in Hk|right; intros Heq; inversion Heq; subst;
      assert (keqb k' k' = true) by (apply keqb_eq; reflexivity); congruence].
    destruct (veqb v v') eqn:Hv; [apply veqb_eq in Hv; left; congruence|right; intros Heq; inversion Heq; subst;
      assert (veqb v' v' = true) by (apply veqb_eq; reflexivity); congruence].
  Qed.

  Lemma count_entries_occ : forall (x : K * V) sl,
    count_entries K V (fun k v => if pair_eq_dec (k, v) x then true else false) sl = count_occ pair_eq_dec (ents sl) x.
  Proof.
    intros x. unfold count_entries. induction sl as [|s t IH]; [reflexivity|].
    rewrite entries_cons. cbn [cnt]. rewrite IH. destruct s as [| |k v]; cbn [ent app]; try reflexivity.
    cbn [count_occ]. destruct (pair_eq_dec (k, v) x); reflexivity.
  Qed.

  Lemma counts_perm : forall sl sl',
    (forall Q, count_entries K V Q sl' = count_entries K V Q sl) -> Permutation (ents sl') (ents sl).
  Proof.
    intros sl sl' Hc. apply (Permutation_count_occ pair_eq_dec). intros x.
    rewrite <- !count_entries_occ. apply Hc.
  Qed.

  (* ------------------------------------------------------------------ *)
  (* the probe-chain invariant                                            *)
  (* ------------------------------------------------------------------ *)

  Definition chain (cap : nat) (sl : list slotT) : Prop :=
    forall i k v, i < cap -> nth i sl E = Valid k v ->
    forall j, j < cap -> dist cap (hp k cap) j < dist cap (hp k cap) i -> nth j sl E <> E.

  Lemma chain_nil : forall cap, chain cap [].
  Proof. intros cap i k v _ Hn. destruct i; discriminate. Qed.

  (* a slot that is not Empty afterwards and not Valid afterwards (a tombstone) never breaks a chain *)
  Lemma chain_upd_deleted : forall cap sl p, chain cap sl -> chain cap (upd p D sl).
  Proof.
    intros cap sl p Hc i k v Hi Hn j Hj Hd. rewrite nth_upd in *.
    destruct ((p =? j) && (p <? length sl)); [discriminate|].
    destruct ((p =? i) && (p <? length sl)); [discriminate|].
    exact (Hc i k v Hi Hn j Hj Hd).
  Qed.

  (* a Valid slot written where every earlier slot of ITS chain is non-Empty *)
  Lemma chain_upd_valid : forall cap sl p k v, chain cap sl ->
    (forall j, j < cap -> dist cap (hp k cap) j < dist cap (hp k cap) p -> nth j sl E <> E) ->
    chain cap (upd p (Valid k v) sl).
  Proof.
    intros cap sl p k v Hc Hnew i k' v' Hi Hn j Hj Hd. rewrite nth_upd in *.
    destruct ((p =? j) && (p <? length sl)) eqn:Hpj; [discriminate|].
    destruct ((p =? i) && (p <? length sl)) eqn:Hpi.
    - inversion Hn; subst k' v'. apply andb_true_iff in Hpi. destruct Hpi as [Hpi _].
      apply Nat.eqb_eq in Hpi. subst i. apply Hnew; assumption.
    - exact (Hc i k' v' Hi Hn j Hj Hd).
  Qed.

  (* every slot holding the probed key lies before the first Empty slot of the probe *)
  Lemma chain_empty_visited : forall cap sl pos i k v, chain cap sl -> 0 < cap ->
    pos < cap -> nth pos sl E = E -> i < cap -> nth i sl E = Valid k v ->
    dist cap (hp k cap) i < dist cap (hp k cap) pos.
  Proof.
    intros cap sl pos i k v Hc Hcap Hpos He Hi Hv.
    pose proof (hpos_lt K keqb h k cap Hcap) as Hs.
    destruct (Nat.lt_trichotomy (dist cap (hp k cap) i) (dist cap (hp k cap) pos)) as [Hlt|[Heq|Hgt]]; [exact Hlt| |].
    - apply dist_inj in Heq; auto. subst i. congruence.
    - exfalso. exact (Hc i k v Hi Hv pos Hpos Hgt He).
  Qed.

  Definition matches_k (k : K) (s : slotT) : bool := matches K V keqb k s.

  Lemma matches_valid : forall k s, matches_k k s = true -> exists v, s = Valid k v.
  Proof.
    intros k [| |k' v] Hm; cbn in Hm; try discriminate. apply keqb_eq in Hm. subst k'. eauto.
  Qed.

  Lemma matches_refl : forall k v, matches_k k (Valid k v) = true.
  Proof. intros. cbn. apply keqb_eq. reflexivity. Qed.

End Base.
