(* Storage.v — model of agdb/src/storage.rs (struct Storage<D: StorageData>): every
   public operation, generic in the byte store D.  Definitions only (extracted).

   * `store_ops T` is the StorageData interface as Storage uses it (len, read, write,
     resize, flush) plus the two ways a storage is closed and opened again
     (`so_reopen`: drop + new on the same name; `so_copy`: backup to a new name + new).
     `so_write`/`so_read` return None when the call is outside the contract the
     back-ends agree on (write starting beyond the end, read beyond the end); there
     the three real back-ends differ (zero fill / arithmetic underflow / panic / io
     error) and the operation's outcome is `RFault`.  StorageProofs shows that no
     history reaches RFault.
   * canonical instances: `ops_file` (content + content at the last flush; drop rolls
     an open transaction back — FileStorage, FileStorageMemoryMapped; this is what the
     undo log achieves, see FileWal.v / C01) and `ops_mem` (MemoryStorage, reopened
     through a backup file: the current content).
   * the concrete byte-store instances `mem_raw`, `file_raw`, `mapped_raw` follow
     memory_storage.rs / file_storage.rs / file_storage_memory_mapped.rs literally
     (StorageProofs: they are lawful refinements of the canonical ones).
   * Every operation is a state transformer `storage -> storage * rres A`: an early
     `?` return keeps the mutations made so far (e.g. replace_with_bytes on a missing
     index leaves its transaction open).
   * u64 arithmetic: positions and sizes are N; `end = pos + len` of a write,
     `offset + size` of ensure_size / validate_read_size and `transactions + 1` are
     checked against 2^64 (`RPanic`, the debug-build overflow panic; with these checks
     every other sum stays below 2^64 — StorageProofs, `tiles`). *)
From Agdb Require Import Bytes Records.
Open Scope N_scope.

Inductive serr := SeNotFound | SeOutOfBounds | SeNotAllowed | SeNotEnoughData.

Inductive rres (A : Type) : Type :=
| ROk (a : A)
| RErr (e : serr)
| RPanic            (* arithmetic overflow / index out of range *)
| RFault.           (* back-end call outside the contract pos <= len / read inside the sdata *)
Arguments ROk {A} a.
Arguments RErr {A} e.
Arguments RPanic {A}.
Arguments RFault {A}.

(* ---- byte lists ---- *)
Definition zeros (n : N) : bytes := repeat x00 (N.to_nat n).

(* write with extension (zero fill of a gap): the contract of StorageData::write *)
Definition bs_write (d : bytes) (pos : nat) (bs : bytes) : bytes :=
  firstn pos d ++ repeat x00 (pos - length d) ++ bs ++ skipn (pos + length bs) d.
(* resize with zero fill *)
Definition bs_resize (d : bytes) (n : nat) : bytes :=
  firstn n d ++ repeat x00 (n - length d).
Definition bs_read (d : bytes) (pos n : nat) : bytes := firstn n (skipn pos d).
(* Vec::resize(n, 0) on a value *)
Definition pad_to (bs : bytes) (n : N) : bytes := bs_resize bs (N.to_nat n).

Record store_ops (T : Type) := {
  so_len : T -> N;
  so_read : T -> N -> N -> option bytes;
  so_write : T -> N -> bytes -> option T;
  so_resize : T -> N -> T;
  so_flush : T -> T;
  so_reopen : T -> T;
  so_copy : T -> T
}.
Arguments so_len {T}. Arguments so_read {T}. Arguments so_write {T}. Arguments so_resize {T}.
Arguments so_flush {T}. Arguments so_reopen {T}. Arguments so_copy {T}.

(* ---- canonical byte store: current content + content at the last flush ---- *)
Record cdata := { cur : bytes; dur : bytes }.

Definition c_len (d : cdata) : N := lenN (cur d).
Definition c_read (d : cdata) (pos n : N) : option bytes :=
  if pos + n <=? lenN (cur d) then Some (bs_read (cur d) (N.to_nat pos) (N.to_nat n)) else None.
Definition c_write (d : cdata) (pos : N) (bs : bytes) : option cdata :=
  if pos <=? lenN (cur d) then Some {| cur := bs_write (cur d) (N.to_nat pos) bs; dur := dur d |} else None.
Definition c_resize (d : cdata) (n : N) : cdata := {| cur := bs_resize (cur d) (N.to_nat n); dur := dur d |}.
Definition c_flush (d : cdata) : cdata := {| cur := cur d; dur := cur d |}.
Definition c_rollback (d : cdata) : cdata := {| cur := dur d; dur := dur d |}.

Definition ops_file : store_ops cdata :=
  {| so_len := c_len; so_read := c_read; so_write := c_write; so_resize := c_resize;
     so_flush := c_flush; so_reopen := c_rollback; so_copy := c_flush |}.
Definition ops_mem : store_ops cdata :=
  {| so_len := c_len; so_read := c_read; so_write := c_write; so_resize := c_resize;
     so_flush := c_flush; so_reopen := c_flush; so_copy := c_flush |}.

(* ---- the real back-ends, literally ---- *)
(* MemoryStorage: buffer; write = `end < len` ? copy in place : resize(pos, 0); extend *)
Definition mem_write (b : bytes) (pos : N) (bs : bytes) : bytes :=
  let e := pos + lenN bs in
  if e <? lenN b then firstn (N.to_nat pos) b ++ bs ++ skipn (N.to_nat e) b
  else bs_resize b (N.to_nat pos) ++ bs.
Definition mem_read (b : bytes) (pos n : N) : option bytes :=
  if pos + n <=? lenN b then Some (bs_read b (N.to_nat pos) (N.to_nat n)) else None.   (* slice panics otherwise *)
Definition mem_raw : store_ops bytes :=
  {| so_len := lenN; so_read := mem_read; so_write := fun b p bs => Some (mem_write b p bs);
     so_resize := fun b n => bs_resize b (N.to_nat n); so_flush := fun b => b;
     so_reopen := fun b => b; so_copy := fun b => b |}.
(* FileStorage: file content + content restored by the undo log (FileWal.v);
   write: empty = no-op; `min(len, end) - pos` underflows when pos > len *)
Definition file_write (d : cdata) (pos : N) (bs : bytes) : option cdata :=
  match bs with
  | [] => Some d
  | _ => if pos <=? lenN (cur d)
         then Some {| cur := firstn (N.to_nat pos) (cur d) ++ bs ++ skipn (N.to_nat pos + length bs) (cur d); dur := dur d |}
         else None
  end.
Definition file_raw : store_ops cdata :=
  {| so_len := c_len; so_read := c_read; so_write := file_write; so_resize := c_resize;
     so_flush := c_flush; so_reopen := c_rollback; so_copy := c_flush |}.
(* FileStorageMemoryMapped: memory first, then file; reads from memory; len from the file *)
Definition mapped_raw : store_ops (cdata * bytes) :=
  {| so_len := fun t => c_len (fst t);
     so_read := fun t p n => mem_read (snd t) p n;
     so_write := fun t p bs => match file_write (fst t) p bs with
                               | Some f => Some (f, mem_write (snd t) p bs) | None => None end;
     so_resize := fun t n => (c_resize (fst t) n, bs_resize (snd t) (N.to_nat n));
     so_flush := fun t => (c_flush (fst t), snd t);
     so_reopen := fun t => (c_rollback (fst t), dur (fst t));
     so_copy := fun t => (c_flush (fst t), cur (fst t)) |}.

Definition CURRENT_VERSION : N := 1.
Definition CHUNK_SIZE : N := 1048576.
Definition version_record : srec := {| r_index := 0; r_pos := 0; r_size := 8 |}.

(* ---- operation language of the histories ---- *)
Inductive sop :=
| SInsert (bs : bytes)
| SInsertAt (index offset : N) (bs : bytes)
| SReplace (index : N) (bs : bytes)
| SResize (index size : N)
| SMove (index from to size : N)
| SRemove (index : N)
| SOptimize
| SReopen
| SReopenCopy
| STransaction
| SCommit (id : N)
| SValue (index : N)
| SValueAt (index offset : N)
| SValueAtSize (index offset size : N)
| SValueSize (index : N)
| SLen.

Inductive obs :=
| ObUnit
| ObNum (n : N)
| ObBytes (b : bytes)
| ObErr (e : serr)
| ObPanic
| ObFault.


Section Generic.
  Variable T : Type.
  Variable ops : store_ops T.

  Record storage := { sdata : T; rtab : records; tx : N; version : N }.

  Definition M (A : Type) : Type := storage -> storage * rres A.
  Definition ret {A} (a : A) : M A := fun s => (s, ROk a).
  Definition fail {A} (r : rres A) : M A := fun s => (s, r).
  Definition bind {A B} (m : M A) (f : A -> M B) : M B :=
    fun s => match m s with
             | (s', ROk a) => f a s'
             | (s', RErr e) => (s', RErr e)
             | (s', RPanic) => (s', RPanic)
             | (s', RFault) => (s', RFault)
             end.
  Notation "x <- m ;; f" := (bind m (fun x => f)) (at level 61, m at next level, right associativity).
  Notation "m ;;; f" := (bind m (fun _ => f)) (at level 61, right associativity).

  Definition set_data (s : storage) (d : T) := {| sdata := d; rtab := rtab s; tx := tx s; version := version s |}.
  Definition set_rtab (s : storage) (r : records) := {| sdata := sdata s; rtab := r; tx := tx s; version := version s |}.
  Definition set_tx (s : storage) (t : N) := {| sdata := sdata s; rtab := rtab s; tx := t; version := version s |}.
  Definition set_version (s : storage) (v : N) := {| sdata := sdata s; rtab := rtab s; tx := tx s; version := v |}.

  (* ---- primitives ---- *)
  Definition get_len : M N := fun s => (s, ROk (so_len ops (sdata s))).
  Definition get_rtab : M records := fun s => (s, ROk (rtab s)).
  Definition put_rtab (r : records) : M unit := fun s => (set_rtab s r, ROk tt).
  Definition dwrite (pos : N) (bs : bytes) : M unit := fun s =>
    if two64 <=? pos + lenN bs then (s, RPanic)
    else match so_write ops (sdata s) pos bs with
         | Some d => (set_data s d, ROk tt)
         | None => (s, RFault)
         end.
  Definition dread (pos n : N) : M bytes := fun s =>
    match so_read ops (sdata s) pos n with
    | Some b => (s, ROk b)
    | None => (s, RFault)
    end.
  Definition dresize (n : N) : M unit := fun s => (set_data s (so_resize ops (sdata s) n), ROk tt).
  Definition dflush : M unit := fun s => (set_data s (so_flush ops (sdata s)), ROk tt).
  Definition opt_panic {A} (o : option A) : M A := match o with Some a => ret a | None => fail RPanic end.

  (* ---- transactions ---- *)
  Definition tx_begin : M N := fun s =>
    let t := tx s + 1 in
    if two64 <=? t then (s, RPanic) else (set_tx s t, ROk t).
  Definition tx_commit (id : N) : M unit := fun s =>
    if negb (tx s =? id) then (s, RErr SeNotAllowed)
    else if tx s =? 0 then (s, ROk tt)
    else let s' := set_tx s (tx s - 1) in
         if tx s' =? 0 then dflush s' else (s', ROk tt).

  (* ---- helpers of storage.rs ---- *)
  Definition write_record (r : srec) : M unit := dwrite (r_pos r) (le64 (r_index r) ++ le64 (r_size r)).
  Definition append (bs : bytes) : M unit := len <- get_len ;; dwrite len bs.
  Definition truncate (size : N) : M unit :=
    len <- get_len ;; if size <? len then dresize size else ret tt.
  Definition is_at_end (r : srec) : M bool := len <- get_len ;; ret (len =? r_end r).
  Definition read_value (r : srec) : M bytes := dread (value_start r) (r_size r).
  Definition lookup (index : N) : M srec := fun s =>
    match record (rtab s) index with
    | None => (s, RPanic)
    | Some None => (s, RErr SeNotFound)
    | Some (Some r) => (s, ROk r)
    end.
  Definition free_a_region (pos size : N) : M unit :=
    rs <- get_rtab ;;
    let '(rs', (p, sz)) := mark_free_compact rs pos size in
    put_rtab rs' ;;;
    write_record {| r_index := 0; r_pos := p; r_size := sz |}.
  Definition with_size (r : srec) (n : N) : srec := {| r_index := r_index r; r_pos := r_pos r; r_size := n |}.
  Definition do_set_size (index size : N) : M unit := rs <- get_rtab ;; put_rtab (set_size rs index size).
  Definition do_set_pos (index pos : N) : M unit := rs <- get_rtab ;; put_rtab (set_pos rs index pos).

  Definition update_record (r : srec) (new_pos new_size : N) : M srec :=
    let r' := {| r_index := r_index r; r_pos := new_pos; r_size := new_size |} in
    do_set_pos (r_index r) new_pos ;;;
    do_set_size (r_index r) new_size ;;;
    write_record r' ;;;
    ret r'.

  Definition move_to_end (r : srec) (new_size : N) : M srec :=
    bytes <- read_value r ;;
    let bytes' := pad_to bytes new_size in
    len <- get_len ;;
    free_a_region (r_pos r) (r_size r) ;;;
    r' <- update_record r len new_size ;;
    append bytes' ;;;
    ret r'.

  Definition enlarge_at_end (r : srec) (new_size : N) : M srec :=
    let r' := with_size r new_size in
    do_set_size (r_index r) new_size ;;;
    dwrite (r_pos r + 8) (le64 new_size) ;;;
    append (zeros (new_size - r_size r)) ;;;
    ret r'.

  Definition enlarge_in_place (r : srec) (new_size free_size : N) : M srec :=
    let old_size := r_size r in
    let old_end := r_end r in
    let remainder := (old_size + 16 + free_size) - new_size in
    let r' := with_size r new_size in
    do_set_size (r_index r) new_size ;;;
    dwrite (r_pos r + 8) (le64 new_size) ;;;
    dwrite old_end (zeros (new_size - old_size)) ;;;
    (if negb (remainder =? 0) then free_a_region (r_end r') (remainder - 16) else ret tt) ;;;
    ret r'.

  Definition enlarge_move_to (r : srec) (new_size free_pos free_size : N) : M srec :=
    bytes <- dread (value_start r) (r_size r) ;;
    let bytes' := pad_to bytes new_size in
    free_a_region (r_pos r) (r_size r) ;;;
    r' <- update_record r free_pos new_size ;;
    dwrite (value_start r') bytes' ;;;
    (if new_size <? free_size then free_a_region (r_end r') (free_size - new_size - 16) else ret tt) ;;;
    ret r'.

  Definition enlarge_value (r : srec) (new_size : N) : M srec :=
    at_end <- is_at_end r ;;
    if at_end then enlarge_at_end r new_size
    else
      rs <- get_rtab ;;
      match take_free_after rs (r_end r) (new_size - r_size r) with
      | Some (rs', (_, free_size)) => put_rtab rs' ;;; enlarge_in_place r new_size free_size
      | None =>
        match take_free rs new_size with
        | Some (rs', (free_pos, free_size)) => put_rtab rs' ;;; enlarge_move_to r new_size free_pos free_size
        | None => move_to_end r new_size
        end
      end.

  Definition shrink_value (r : srec) (new_size : N) : M srec :=
    at_end <- is_at_end r ;;
    if at_end then
      let r' := with_size r new_size in
      do_set_size (r_index r) new_size ;;;
      dwrite (r_pos r + 8) (le64 new_size) ;;;
      truncate (r_end r') ;;;
      ret r'
    else
      let free_size := r_size r - new_size in
      if 16 <=? free_size then
        let r' := with_size r new_size in
        do_set_size (r_index r) new_size ;;;
        dwrite (r_pos r + 8) (le64 new_size) ;;;
        free_a_region (r_end r') (free_size - 16) ;;;
        ret r'
      else move_to_end r new_size.

  Definition ensure_size (r : srec) (offset size : N) : M srec :=
    let new_size := offset + size in
    if two64 <=? new_size then fail RPanic
    else if r_size r <? new_size then enlarge_value r new_size else ret r.

  Definition erase_bytes (pos offset_from offset_to size : N) : M unit :=
    if offset_from <? offset_to then
      dwrite (pos + offset_from) (zeros (N.min size (offset_to - offset_from)))
    else if offset_to <? offset_from then
      let position := N.max (offset_to + size) offset_from in
      dwrite (pos + position) (zeros (offset_from + size - position))
    else ret tt.

  Definition validate_read_size (offset read_size value_size : N) : M unit :=
    if value_size <? offset then fail (RErr SeOutOfBounds)
    else if two64 <=? offset + read_size then fail RPanic
    else if value_size <? offset + read_size then fail (RErr SeOutOfBounds)
    else ret tt.

  (* ---- public operations ---- *)
  Definition insert_bytes (bs : bytes) : M N :=
    rs <- get_rtab ;;
    match take_free rs (lenN bs) with
    | Some (rs1, (free_pos, free_size)) =>
      rr <- opt_panic (new_record rs1 free_pos (lenN bs)) ;;
      let '(rs2, r) := rr in
      put_rtab rs2 ;;;
      id <- tx_begin ;;
      write_record r ;;;
      dwrite (value_start r) bs ;;;
      (if lenN bs <? free_size then free_a_region (r_end r) (free_size - 16 - lenN bs) else ret tt) ;;;
      tx_commit id ;;;
      ret (r_index r)
    | None =>
      len <- get_len ;;
      rr <- opt_panic (new_record rs len (lenN bs)) ;;
      let '(rs2, r) := rr in
      put_rtab rs2 ;;;
      id <- tx_begin ;;
      write_record r ;;;
      append bs ;;;
      tx_commit id ;;;
      ret (r_index r)
    end.

  Definition insert_bytes_at (index offset : N) (bs : bytes) : M unit :=
    r <- lookup index ;;
    id <- tx_begin ;;
    r' <- ensure_size r offset (lenN bs) ;;
    dwrite (value_start r' + offset) bs ;;;
    tx_commit id.

  Definition value_size (index : N) : M N := r <- lookup index ;; ret (r_size r).

  Definition value_as_bytes_at_size (index offset size : N) : M bytes :=
    r <- lookup index ;;
    validate_read_size offset size (r_size r) ;;;
    dread (value_start r + offset) size.

  Definition value_as_bytes_at (index offset : N) : M bytes :=
    size <- value_size index ;;
    value_as_bytes_at_size index offset (size - N.min size offset).

  Definition value_as_bytes (index : N) : M bytes := value_as_bytes_at index 0.

  Definition move_at (index offset_from offset_to size : N) : M unit :=
    bytes <- value_as_bytes_at_size index offset_from size ;;
    id <- tx_begin ;;
    insert_bytes_at index offset_to bytes ;;;
    r <- lookup index ;;
    erase_bytes (value_start r) offset_from offset_to size ;;;
    tx_commit id.

  Definition remove_value (index : N) : M unit :=
    r <- lookup index ;;
    id <- tx_begin ;;
    (rs <- get_rtab ;; put_rtab (free_index rs index)) ;;;
    at_end <- is_at_end r ;;
    (if at_end then truncate (r_pos r) else free_a_region (r_pos r) (r_size r)) ;;;
    tx_commit id.

  Definition resize_value (index new_size : N) : M unit :=
    r <- lookup index ;;
    id <- tx_begin ;;
    (if r_size r <? new_size then (enlarge_value r new_size ;;; ret tt)
     else if new_size <? r_size r then (shrink_value r new_size ;;; ret tt)
     else ret tt) ;;;
    tx_commit id.

  Definition replace_with_bytes (index : N) (bs : bytes) : M unit :=
    id <- tx_begin ;;
    insert_bytes_at index 0 bs ;;;
    resize_value index (lenN bs) ;;;
    tx_commit id.

  Definition shrink_index (r : srec) (current_pos : N) : M N :=
    (if negb (r_pos r =? current_pos) then
       bytes <- read_value r ;;
       do_set_pos (r_index r) current_pos ;;;
       write_record {| r_index := r_index r; r_pos := current_pos; r_size := r_size r |} ;;;
       dwrite (current_pos + 16) bytes
     else ret tt) ;;;
    ret (current_pos + 16 + r_size r).

  Fixpoint shrink_all (l : list srec) (current_pos : N) : M N :=
    match l with
    | [] => ret current_pos
    | r :: t => p <- shrink_index r current_pos ;; shrink_all t p
    end.

  Definition optimize_storage : M unit :=
    id <- tx_begin ;;
    rs <- get_rtab ;;
    l <- opt_panic (valid_records rs) ;;
    current_pos <- shrink_all l (r_end version_record) ;;
    truncate current_pos ;;;
    (rs' <- get_rtab ;; put_rtab (clear_free rs')) ;;;
    tx_commit id.

  (* ---- loading (Storage::with_data / read_records) ---- *)
  Definition read_record (pos : N) : M srec :=
    bytes <- dread pos 16 ;;
    ret {| r_index := de (firstn 8 bytes); r_pos := pos; r_size := de (firstn 8 (skipn 8 bytes)) |}.

  Definition extract_version (r : srec) : M N :=
    if r_size r <? 8 then fail (RErr SeNotEnoughData)
    else bytes <- read_value r ;; ret (de (firstn 8 bytes)).

  (* the copy loop of validate_or_update_version: chunks of 1 MiB from the end *)
  Fixpoint shift_chunks (fuel : nat) (pos : N) : M unit :=
    match fuel with
    | O => ret tt
    | S f =>
      if 0 <? pos then
        let size := if CHUNK_SIZE <? pos then CHUNK_SIZE else pos in
        let pos' := pos - size in
        d <- dread pos' size ;;
        dwrite (pos' + 24) d ;;;
        shift_chunks f pos'
      else ret tt
    end.

  Definition validate_or_update_version : M unit := fun s =>
    if CURRENT_VERSION <? version s then (s, RErr SeNotAllowed)
    else if version s =? CURRENT_VERSION then (s, ROk tt)
    else
      (let len := so_len ops (sdata s) in
       id <- tx_begin ;;
       dresize (len + 24) ;;;
       shift_chunks (S (N.to_nat (len / CHUNK_SIZE))) len ;;;
       write_record version_record ;;;
       dwrite (value_start version_record) (le64 CURRENT_VERSION) ;;;
       tx_commit id) (set_version s CURRENT_VERSION).

  Fixpoint load_records (fuel : nat) (end_ current_pos : N) : M unit :=
    match fuel with
    | O => ret tt
    | S f =>
      if current_pos <? end_ then
        r <- read_record current_pos ;;
        if end_ - current_pos + 16 <? r_size r then fail (RErr SeOutOfBounds)
        else
          (rs <- get_rtab ;; put_rtab (set_record rs r)) ;;;
          load_records f end_ (r_end r)
      else ret tt
    end.

  Definition read_records : M unit :=
    len0 <- get_len ;;
    (if 16 <=? len0 then
       vr <- read_record 0 ;;
       if r_index vr =? 0 then
         v <- extract_version vr ;; (fun s => (set_version s v, ROk tt))
       else ret tt
     else ret tt) ;;;
    validate_or_update_version ;;;
    end_ <- get_len ;;
    load_records (S (N.to_nat (end_ / 16))) end_ (r_end version_record) ;;;
    rs <- get_rtab ;; put_rtab (rebuild_free_index rs).

  (* Storage::with_data on a byte store *)
  Definition with_data (d : T) : storage * rres unit :=
    read_records {| sdata := d; rtab := records_new; tx := 0; version := 0 |}.

  (* drop the storage, open the same name again / back it up and open the copy *)
  Definition reopen (s : storage) : storage * rres unit := with_data (so_reopen ops (sdata s)).
  Definition reopen_copy (s : storage) : storage * rres unit := with_data (so_copy ops (sdata s)).

  Definition to_obs {A} (f : A -> obs) (r : rres A) : obs :=
    match r with ROk a => f a | RErr e => ObErr e | RPanic => ObPanic | RFault => ObFault end.
  Definition ou (_ : unit) := ObUnit.

  Definition lift {A} (f : A -> obs) (x : storage * rres A) : storage * obs := (fst x, to_obs f (snd x)).
  Definition st_step (s : storage) (o : sop) : storage * obs :=
    match o with
    | SInsert bs => lift ObNum (insert_bytes bs s)
    | SInsertAt i off bs => lift ou (insert_bytes_at i off bs s)
    | SReplace i bs => lift ou (replace_with_bytes i bs s)
    | SResize i n => lift ou (resize_value i n s)
    | SMove i f t n => lift ou (move_at i f t n s)
    | SRemove i => lift ou (remove_value i s)
    | SOptimize => lift ou (optimize_storage s)
    | SReopen => lift ou (reopen s)
    | SReopenCopy => lift ou (reopen_copy s)
    | STransaction => lift ObNum (tx_begin s)
    | SCommit id => lift ou (tx_commit id s)
    | SValue i => lift ObBytes (value_as_bytes i s)
    | SValueAt i off => lift ObBytes (value_as_bytes_at i off s)
    | SValueAtSize i off n => lift ObBytes (value_as_bytes_at_size i off n s)
    | SValueSize i => lift ObNum (value_size i s)
    | SLen => lift ObNum (get_len s)
    end.

  (* a history: the list of observations; a panic / fault ends the process *)
  Fixpoint st_run (s : storage) (l : list sop) : list obs :=
    match l with
    | [] => []
    | o :: t =>
      let '(s', v) := st_step s o in
      match v with
      | ObPanic | ObFault => [v]
      | _ => v :: st_run s' t
      end
    end.

  (* the state a history leads to (None: the process died on the way) *)
  Fixpoint st_exec (s : storage) (l : list sop) : option storage :=
    match l with
    | [] => Some s
    | o :: t =>
      let '(s', v) := st_step s o in
      match v with
      | ObPanic | ObFault => None
      | _ => st_exec s' t
      end
    end.

  (* every live index with its bytes (increasing index) — the dump compared with the implementation *)
  Fixpoint live_from (n : nat) (i : N) (s : storage) : list (N * bytes) :=
    match n with
    | O => []
    | S n' =>
      match snd (value_as_bytes i s) with
      | ROk b => (i, b) :: live_from n' (i + 1) s
      | _ => live_from n' (i + 1) s
      end
    end.
  Definition live_values (s : storage) : list (N * bytes) :=
    live_from (length (recs (rtab s))) 0 s.
End Generic.

Arguments sdata {T}. Arguments rtab {T}. Arguments tx {T}. Arguments version {T}.

(* a fresh storage on an empty byte store *)
Definition empty_cdata : cdata := {| cur := []; dur := [] |}.
Definition init_file : storage cdata * rres unit := with_data cdata ops_file empty_cdata.
Definition init_mem : storage cdata * rres unit := with_data cdata ops_mem empty_cdata.
