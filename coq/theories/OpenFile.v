(* OpenFile.v — model of OPENING a database file with arbitrary content, storage layer:
   the recovery log next to the file (write_ahead_log.rs: repair, records; file_storage.rs:
   apply_wal newest first, apply_wal_record), the three StorageData back-ends' `new` and `read`
   (file_storage.rs, memory_storage.rs, file_storage_memory_mapped.rs), Storage::read_records with
   read_record / extract_version / validate_or_update_version / the record table sizing of
   StorageRecords::set_record (storage.rs, storage_records.rs), and Storage::value_as_bytes.
   Definitions only (executable, extracted).

   `oguards` selects the revision of the code: each flag is one of the bounds-check repairs
   (fixes/C07-*.diff); all true = the repaired code, all false = the code before the repairs. *)
From Agdb Require Import Bytes.
Open Scope N_scope.

Inductive backend := BFile | BMemory | BMapped.

Record oguards := {
  og_read_checked : bool;   (* MemoryStorage::read / FileStorage::read check pos+len against the length *)
  og_table_checked : bool;  (* StorageRecords::set_record: checked index+1, try_reserve *)
  og_wal_framed : bool;     (* WriteAheadLog::repair requires every record to end at or after its own header *)
  og_wal_pos : bool         (* FileStorage::apply_wal_record rejects a position beyond the end of the file *)
}.
Definition og_fixed : oguards :=
  {| og_read_checked := true; og_table_checked := true; og_wal_framed := true; og_wal_pos := true |}.
Definition og_pinned : oguards :=
  {| og_read_checked := false; og_table_checked := false; og_wal_framed := false; og_wal_pos := false |}.

(* where an allocation is requested *)
Inductive asite :=
| ABuffer        (* a byte buffer: vec![0; n] of a read, the whole file of the memory back-ends, a log record *)
| ATable.        (* the record table: 24 bytes per index up to the largest index in the file *)

(* result of a step.  OAlloc s n: site s requested n bytes and n exceeds the limit. *)
Inductive ores (A : Type) : Type :=
| OOk (a : A)
| OErr
| OPanic
| OAlloc (s : asite) (n : N)
| OFuel.
Arguments OOk {A} a.
Arguments OErr {A}.
Arguments OPanic {A}.
Arguments OAlloc {A} s n.
Arguments OFuel {A}.

Definition rbind {A B} (o : ores A) (f : A -> ores B) : ores B :=
  match o with
  | OOk a => f a
  | OErr => OErr
  | OPanic => OPanic
  | OAlloc s n => OAlloc s n
  | OFuel => OFuel
  end.

(* every allocation request may be as large as this without being called enormous *)
Definition alloc_limit (data_len wal_len : N) : N := 1024 * (data_len + wal_len) + 65536.

Definition isize_max : N := two63 - 1.
Definition i64_max : N := two63 - 1.

(* bytes [pos, pos+len) of d (callers make sure the range exists) *)
Definition sub (d : bytes) (pos len : N) : bytes := firstn (N.to_nat len) (skipn (N.to_nat pos) d).

Definition put (d : bytes) (pos : N) (bs : bytes) : bytes :=
  firstn (N.to_nat pos) d ++ bs ++ skipn (N.to_nat pos + length bs) d.

Definition zeros (n : N) : bytes := repeat x00 (N.to_nat n).

Record ostate := {
  o_data : bytes;                       (* the file content after recovery / version migration *)
  o_table : list (N * (N * N));         (* record index |-> (position, size); the last entry wins *)
  o_version : N
}.

Section Open.
  Variable g : oguards.
  Variable be : backend.
  Variable limit : N.

  (* Vec::with_capacity / vec![0; n] of n BYTES at site s *)
  Definition alloc_req (s : asite) (n : N) : ores unit :=
    if isize_max <? n then OPanic            (* capacity overflow *)
    else if limit <? n then OAlloc s n
    else OOk tt.

  (* ---------------------------------------------------------------- *)
  (* the recovery log                                                  *)
  (* ---------------------------------------------------------------- *)

  (* WriteAheadLog::repair: walks the records with skip_record and returns the length the log is
     cut to (its own length when every record is complete).
       skip_record: seek(Current(8)); read 8 bytes; seek(Current(size as i64)) *)
  Fixpoint wal_repair (fuel : nat) (w : bytes) (pos : N) : ores N :=
    match fuel with
    | O => OFuel
    | S f =>
      let size := lenN w in
      if size <=? pos then OOk size
      else if size <? pos + 16 then OOk pos                    (* read_exact of the size field fails *)
      else
        let vs := de (sub w (pos + 8) 8) in
        if vs <? two63 then
          (* forward seek; beyond i64::MAX the seek fails *)
          let np := pos + 16 + vs in
          if i64_max <? np then OOk pos
          else if size <? np then OOk pos
          else wal_repair f w np
        else
          (* `as i64` is negative: the seek goes back by 2^64 - vs *)
          let back := two64 - vs in
          if pos + 16 <? back then OOk pos                      (* before the start: the seek fails *)
          else
            let np := pos + 16 - back in
            if og_wal_framed g then OOk pos                     (* np < pos + 16: not a record *)
            else wal_repair f w np                              (* np <= size always holds here *)
      end.

  (* WriteAheadLog::records on the repaired log of length `size` (a prefix of w):
     read_record = read 8, read 8, read_exact(size bytes) *)
  Fixpoint wal_records (fuel : nat) (w : bytes) (size : N) (p : N) (acc : list (N * bytes))
    : ores (list (N * bytes)) :=
    match fuel with
    | O => OFuel
    | S f =>
      if size <=? p then OOk acc                               (* newest first *)
      else if size <? p + 16 then OErr
      else
        let pos := de (sub w p 8) in
        let sz := de (sub w (p + 8) 8) in
        rbind (alloc_req ABuffer sz) (fun _ =>
          if size <? p + 16 + sz then OErr
          else wal_records f w size (p + 16 + sz) ((pos, sub w (p + 16) sz) :: acc))
    end.

  (* FileStorage::apply_wal_record.  Without the position check a record may lie far beyond the end
     of the file: the file becomes sparse with that length.  The model does not build such a file:
     an extension beyond the allocation limit is reported by what the back-end does with it next
     (the mapped back-end reads the whole file into memory; the file back-end walks it record by record) *)
  Definition wal_apply_rec (d : bytes) (r : N * bytes) : ores bytes :=
    let '(pos, v) := r in
    if og_wal_pos g && (lenN d <? pos) then OErr
    else if i64_max <? pos then OErr                           (* seek / set_len beyond i64::MAX fails *)
    else if (lenN d <? pos) && (limit <? pos) then
      match be with BMapped => OAlloc ABuffer pos | _ => OFuel end
    else
      match v with
      | [] => OOk (firstn (N.to_nat pos) d ++ zeros (pos - lenN d))              (* set_len(pos) *)
      | _ => OOk (put (d ++ zeros (pos - lenN d)) pos v)                          (* seek; write_all *)
      end.

  Fixpoint wal_apply_all (rs : list (N * bytes)) (d : bytes) : ores bytes :=
    match rs with
    | [] => OOk d
    | r :: rest => rbind (wal_apply_rec d r) (wal_apply_all rest)
    end.

  (* FileStorage::new: repair, records, replay newest first, clear *)
  Definition wal_recover (data wal : bytes) : ores bytes :=
    rbind (wal_repair (S (length wal)) wal 0) (fun size =>
      rbind (wal_records (S (length wal)) wal size 0 []) (fun rs =>
        wal_apply_all rs data)).

  (* StorageData::new: what the storage layer sees as the file *)
  Definition backend_new (data : bytes) (wal : option bytes) : ores bytes :=
    match be with
    | BMemory => rbind (alloc_req ABuffer (lenN data)) (fun _ => OOk data)      (* std::fs::read; no log *)
    | BFile => wal_recover data (match wal with Some w => w | None => [] end)
    | BMapped =>
        rbind (wal_recover data (match wal with Some w => w | None => [] end)) (fun d =>
          rbind (alloc_req ABuffer (lenN d)) (fun _ => OOk d))                   (* file.read(0, len) *)
    end.

  (* ---------------------------------------------------------------- *)
  (* StorageData::read                                                 *)
  (* ---------------------------------------------------------------- *)

  Definition sread (d : bytes) (pos len : N) : ores bytes :=
    if pos + len <=? lenN d then
      match be with
      | BFile => rbind (alloc_req ABuffer len) (fun _ => OOk (sub d pos len))
      | _ => OOk (sub d pos len)
      end
    else if og_read_checked g then OErr
    else
      match be with
      | BFile => rbind (alloc_req ABuffer len) (fun _ => OErr)   (* vec![0; len]; read_exact fails *)
      | _ => OPanic                                              (* &buffer[pos..end] *)
      end.

  (* ---------------------------------------------------------------- *)
  (* Storage::read_records                                             *)
  (* ---------------------------------------------------------------- *)

  (* read_record: 16 bytes = index, size *)
  Definition read_record (d : bytes) (pos : N) : ores (N * N) :=
    rbind (sread d pos 16) (fun b => OOk (de (firstn 8 b), de (firstn 8 (skipn 8 b)))).

  (* StorageRecords::set_record for a record with index <> 0: the table (a Vec of 24-byte entries,
     `tlen` entries, capacity `cap`) grows to index + 1 entries; Vec growth is amortised:
     new capacity = max(2 * cap, index + 1, 4).  Returns the new (length, capacity). *)
  Definition table_req (tlen cap index : N) : ores (N * N) :=
    if index <? tlen then OOk (tlen, cap)
    else if index + 1 <=? cap then OOk (index + 1, cap)
    else
      let ncap := N.max (N.max (2 * cap) (index + 1)) 4 in
      if og_table_checked g then
        (if isize_max <? 24 * ncap then OErr                      (* checked_add / try_reserve: capacity overflow *)
         else if limit <? 24 * ncap then OAlloc ATable (24 * ncap)
         else OOk (index + 1, ncap))
      else
        (if two64 <=? index + 1 then OPanic                       (* index + 1 overflows *)
         else if isize_max <? 24 * ncap then OPanic                (* capacity overflow *)
         else if limit <? 24 * ncap then OAlloc ATable (24 * ncap)
         else OOk (index + 1, ncap)).

  Fixpoint read_loop (fuel : nat) (d : bytes) (pos : N) (tlen cap : N) (tab : list (N * (N * N)))
    : ores (list (N * (N * N))) :=
    match fuel with
    | O => OFuel
    | S f =>
      let e := lenN d in
      if e <=? pos then OOk tab
      else
        rbind (read_record d pos) (fun '(index, size) =>
          if e - pos + 16 <? size then OErr
          else if index =? 0 then read_loop f d (pos + 16 + size) tlen cap tab    (* a free region *)
          else
            rbind (table_req tlen cap index) (fun '(tlen', cap') =>
              read_loop f d (pos + 16 + size) tlen' cap' ((index, (pos, size)) :: tab)))
    end.

  Definition version_header : bytes := le64 0 ++ le64 8 ++ le64 1.

  Definition read_records (d : bytes) : ores ostate :=
    (* the version record *)
    rbind (if 16 <=? lenN d then
             rbind (read_record d 0) (fun '(index, size) =>
               if index =? 0 then
                 if size <? 8 then OErr
                 else rbind (sread d 16 size) (fun b => OOk (de (firstn 8 b)))
               else OOk 0)
           else OOk 0) (fun version =>
      if 1 <? version then OErr
      else
        (* version 0: the content is moved up by 24 bytes and the version record written in front
           (chunks of at most 1 MiB) *)
        rbind (if version =? 1 then OOk d
               else rbind (alloc_req ABuffer (N.min 1048576 (lenN d))) (fun _ => OOk (version_header ++ d)))
          (fun d' =>
            rbind (read_loop (S (length d')) d' 24 1 1 []) (fun tab =>
              OOk {| o_data := d'; o_table := tab; o_version := 1 |}))).

  (* Storage::new: back-end, then the records *)
  Definition open_bytes (data : bytes) (wal : option bytes) : ores ostate :=
    rbind (backend_new data wal) read_records.

  (* ---------------------------------------------------------------- *)
  (* Storage::value_as_bytes                                           *)
  (* ---------------------------------------------------------------- *)

  Fixpoint table_get (i : N) (tab : list (N * (N * N))) : option (N * N) :=
    match tab with
    | [] => None
    | (j, r) :: rest => if j =? i then Some r else table_get i rest
    end.

  (* record(index)?; validate_read_size(0, size, size); data.read(pos + 16, size) *)
  Definition value_as_bytes (st : ostate) (i : N) : ores bytes :=
    match table_get i (o_table st) with
    | None => OErr
    | Some (pos, size) => sread (o_data st) (pos + 16) size
    end.
End Open.

(* the whole open with the limit derived from the input, as the property states it *)
Definition open_file (g : oguards) (be : backend) (data : bytes) (wal : option bytes) : ores ostate :=
  open_bytes g be (alloc_limit (lenN data) (match wal with Some w => lenN w | None => 0 end)) data wal.

Definition ores_class {A} (o : ores A) : N :=
  match o with OOk _ => 0 | OErr => 1 | OPanic => 2 | OAlloc ABuffer _ => 3 | OAlloc ATable _ => 4 | OFuel => 5 end.
