(* StoredDbOpsAliasExample2.v — the insert_new_alias program RUN on the model of storage.rs, on the example file.

   sb_prog = resize both alias tables to capacity 4 (StoredDbOpsAliasExample.v), then so_alias_insert_new for the id 2 and
   the new alias "k", with every unmodelled branch (grow, in-place rehash, removals) instantiated by CDead — a run that
   entered one of them would die.  The run on the file-like storage model (every answer replayed on the abstract record map)
   ENDS, and by so_alias_insert_new_stored the record map it reaches holds insert_new_alias sx_db 2 "k": the alias "k" now
   names node 2 and node 2 has the alias "k". *)
From Coq Require Import List NArith ZArith Arith Bool Lia Permutation.
Import ListNotations.
From Agdb Require Import Bytes BytesProofs Utf8 Codec DbValue ValueIndex Graph DbModel Records RecordsProofs Storage StorageSpec
  StorageLayout StorageWp Collections CollValues CollWp CollBytes CollVecBase CollVecOps CollVec CollVec2 CollElems CollSep CollMap
  CollMapHist CollGraph CollValuesProofs OpenMap OpenMapProofs OpenMapSpec OpenMapRefineBase OpenMapRefineStep OpenMapRefine
  StoredDb StoredDbRep StoredDbProofs StoredDbLoad StoredDbProbe StoredDbFrame StoredDbExampleBase StoredDbOps StoredDbOpsDb
  StoredDbOpsDb2 StoredDbOpsExample StoredDbOpsAlias StoredDbOpsAlias2 StoredDbOpsAlias3 StoredDbOpsAliasExample.
Open Scope N_scope.

Definition sb_dead : so_map_rest := {| smr_grow := fun _ => CDead; smr_rehash_in_place := fun _ => CDead |}.
Definition sb_rest : so_alias_rest :=
  {| sar_k2v := sb_dead; sar_v2k := sb_dead; sar_remove_v2k := fun _ _ => CDead; sar_remove_k2v := fun _ _ => CDead |}.

Definition sb_prog : cprog (cm_data * cm_data) :=
  a <~ sa_prog ;; so_alias_insert_new sa_hs sa_hi sb_rest a 2%Z sa_new.

Lemma sa_hyps w : mw_t (sw_a1 w) = sa_t1 -> mw_t (sw_a2 w) = sa_t2 ->
  so_alias_tables_ok sa_hs sa_hi 4 w /\ so_alias_new_ok sa_hs sa_hi w 2%Z sa_new.
Proof.
  intros E1 E2. split; [unfold so_alias_tables_ok; rewrite E1, E2; split; [exact sa_pinv1|exact sa_pinv2]|].
  unfold so_alias_new_ok. rewrite E1, E2.
  split; [vm_compute; reflexivity|]. split; [vm_compute; reflexivity|].
  split; [intros r0 Hr; vm_compute in Hr; injection Hr as <-; reflexivity|].
  split; [intros r0 Hr; vm_compute in Hr; injection Hr as <-; reflexivity|].
  split; [split; [vm_compute; reflexivity|vm_compute; reflexivity]|].
  split; [apply sa_i64_ok; lia|]. split; vm_compute; reflexivity.
Qed.

Lemma sb_cwp fl :
  cwp fl sb_prog (sd_spec_of sx_store)
      (fun r sp' => exists a' w', r = CrOk a' /\ stored_db_w (hp sp') 1 (insert_new_alias sx_db 2%Z sa_new) w').
Proof.
  unfold sb_prog. apply cwp_bind. eapply cwp_mono; [|apply sa_cwp].
  intros r sp1 (a & w1 & -> & H1 & Ha & E1 & E2). cbn [kont].
  destruct (sa_hyps w1 E1 E2) as [T N'].
  assert (Hmin : (4 <= 4)%nat) by lia.
  eapply cwp_mono; [|eapply (so_alias_insert_new_stored sa_hs sa_hi 4 Hmin fl sb_rest 1 sx_db w1
                               {| so_graph := sw_g w1; so_values := sw_vh w1 |} a 2%Z sa_new sp1 H1);
                      [split; reflexivity|exact Ha|exact T|reflexivity|reflexivity|exact N']].
  intros r sp' (a' & w' & -> & H' & _). exists a', w'. split; [reflexivity|exact H'].
Qed.

Theorem sb_sample :
  exists sp w, stored_db_w (hp sp) 1 (insert_new_alias sx_db 2%Z sa_new) w /\
               imap_value (aliases (insert_new_alias sx_db 2%Z sa_new)) sa_new = Some 2%Z /\
               imap_key (aliases (insert_new_alias sx_db 2%Z sa_new)) 2%Z = Some sa_new /\
               imap_value (aliases (insert_new_alias sx_db 2%Z sa_new)) sx_alias = Some 1%Z.
Proof.
  destruct (so_replay (st_step cdata ops_file) true sb_prog (fst sx_run) (sd_spec_of sx_store)) as [[[s' sp'] r]|] eqn:ER;
    [|vm_compute in ER; discriminate ER].
  destruct (so_replay_sound (st_step cdata ops_file) true sb_prog _ _ _ _ _ _ (sb_cwp true) ER) as (a & w' & _ & H').
  exists sp', w'. split; [exact H'|]. split; [reflexivity|]. split; reflexivity.
Qed.
