(* RaftLogCA.v — STATE-MACHINE SAFETY (C28c, committed_agree) for the repaired election code under the hypotheses
   that none of the three log-replication defect classes occurs (RaftLogLC.hyps).
   Invariant CA, on top of LI (log matching) and LC (leader completeness):
     cl  a node's commit index is at most its log length;
     mc  an Append/Heartbeat in flight carries commit <= log index of the sender when it was sent, and its commit
         is at most the sender's present commit index;
     cf  every committed index of every node was committed by a leader, and the node holds that leader's entry;
     u   two leader commits of one index are commits of the same entry. *)
From Coq Require Import NArith List Bool Lia Arith.
From Agdb Require Import Raft RaftProofs RaftInv RaftElect RaftVote RaftLog RaftLogWf RaftLogMatch RaftLogHand RaftLogLC.
Import ListNotations.
Open Scope N_scope.

Record CA (c : cluster) : Prop := {
  ca_cl : forall u v, get_node c u = Some v -> n_commit v <= lenN (n_logs v);
  ca_mc : forall r, In (MReq r) (c_net c) -> is_append_or_hb (q_kind r) = true ->
            q_lc r <= q_li r /\ forall s, get_node c (q_from r) = Some s -> q_lc r <= n_commit s;
  ca_cf : forall u v idx, get_node c u = Some v -> 1 <= idx -> idx <= n_commit v ->
            exists T e, committed (c_hist c) T idx e /\ holds v idx e;
  ca_u : forall T1 T2 idx e1 e2, committed (c_hist c) T1 idx e1 -> committed (c_hist c) T2 idx e2 -> e1 = e2 }.

Definition newmsg3 (nd' : node) (i : N) (m : msg) : Prop :=
  forall r, m = MReq r -> is_append_or_hb (q_kind r) = true -> q_from r = i /\ own_row nd' r.

Lemma log_at_some_of_le : forall (l : list entry) idx, 1 <= idx -> idx <= lenN l -> exists e, log_at l idx = Some e.
Proof.
  intros l idx H1 H2. unfold log_at. destruct (N.eqb_spec idx 0); [lia|].
  destruct (nth_error l (N.to_nat (idx - 1))) eqn:E; eauto.
  apply nth_error_None in E. unfold lenN in H2. lia.
Qed.

Section Put.
Variables (sz : N) (c : cluster) (i : N) (nd nd' : node) (net' : list msg) (pre : list ghost).
Let g := pre ++ node_ghosts nd nd'.
Let c' := mkCluster (put_node c i nd') net' (c_hist c ++ g).
Hypothesis Lc : LI c.
Hypothesis Ac : CA c.
Hypothesis Cc : LC sz c.
Hypothesis G : get_node c i = Some nd.
Hypothesis Lc' : LI c'.
Hypothesis Cc' : LC sz c'.
Hypothesis Qpre : forall x, In x pre -> quiet x.
Hypothesis OT : old_term_commit_b g = false.
Hypothesis NQ : nq_node (put_node c i nd') nd nd' = false.
Hypothesis Hidx : n_index nd' = i.
Hypothesis Hsz : n_size nd' = sz.
Hypothesis St : stable nd nd'.
Hypothesis PL1 : is_leader (n_state nd) = true -> is_leader (n_state nd') = true ->
                 forall idx e, log_at (n_logs nd) idx = Some e -> log_at (n_logs nd') idx = Some e.
Hypothesis PL2 : is_leader (n_state nd) && is_leader (n_state nd') = false -> n_commit nd' <= lenN (n_logs nd').
Hypothesis FC : is_leader (n_state nd) && is_leader (n_state nd') = false -> n_commit nd < n_commit nd' ->
                exists j s, j <> i /\ get_node c j = Some s /\
                            n_logs nd' = firstn (length (n_logs nd')) (n_logs s) /\ n_commit nd' <= n_commit s.
Hypothesis NM : forall m, In m net' -> In m (c_net c) \/ newmsg3 nd' i m.

Lemma gp : forall u v, get_node c' u = Some v -> (u = i /\ v = nd') \/ (u <> i /\ get_node c u = Some v).
Proof.
  intros u v H. unfold get_node in H. cbn [c' c_nodes] in H.
  destruct (put_nth _ _ _ _ _ _ G H) as [[E ->]|[Hne H']].
  - left. split; auto. apply N2Nat.inj. exact E.
  - right. split; auto. intros ->. apply Hne. reflexivity.
Qed.

Lemma gp_i : get_node c' i = Some nd'.
Proof. unfold get_node. cbn [c' c_nodes]. unfold put_node. unfold get_node in G. apply (nth_error_upd_nth_eq _ _ _ _ _ G). Qed.

Lemma committed_mono : forall T idx e, committed (c_hist c) T idx e -> committed (c_hist c ++ g) T idx e.
Proof. intros T idx e [j H]. exists j. apply in_or_app. auto. Qed.

(* an index committed by the acting node, as Leader, in this step *)
Lemma raised_leader : forall idx,
  is_leader (n_state nd) && is_leader (n_state nd') = true -> n_commit nd < idx -> idx <= n_commit nd' ->
  exists x, committed (c_hist c ++ g) (n_term nd') idx x /\ holds nd' idx x.
Proof.
  intros idx B H1 H2. pose proof (In_node_ghosts_commit_conv nd nd' idx H1 H2) as Hin. rewrite B in Hin.
  assert (Hg : In (GCommit (n_index nd') true (n_term nd') idx (log_at (n_logs nd') idx)) g).
  { unfold g. apply in_or_app. right. exact Hin. }
  destruct (commit_in_g sz c i nd nd' pre Qpre OT NQ Hsz _ _ _ _ Hg) as [x [E N]].
  exists x. split.
  - exists (n_index nd'). apply in_or_app. right. rewrite <- E. exact Hg.
  - destruct N as (_ & _ & _ & _ & Hh & _). exact Hh.
Qed.

Lemma cl_i : n_commit nd' <= lenN (n_logs nd').
Proof.
  destruct (Bool.bool_dec (is_leader (n_state nd) && is_leader (n_state nd')) true) as [B|B];
    [|apply PL2; apply Bool.not_true_is_false; exact B].
  destruct (N.lt_ge_cases (n_commit nd) (n_commit nd')) as [H|H].
  - destruct (raised_leader (n_commit nd') B H) as [x [_ Hh]]; [lia|]. apply holds_len in Hh. lia.
  - apply andb_true_iff in B as [B1 B2]. destruct St as (_ & _ & _ & Hm & _).
    assert (E : n_commit nd' = n_commit nd) by lia. rewrite E.
    destruct (N.eq_dec (n_commit nd) 0) as [Z|Z]; [lia|].
    destruct (log_at_some_of_le (n_logs nd) (n_commit nd)) as [e He]; [lia|apply (ca_cl _ Ac _ _ G)|].
    pose proof (PL1 B1 B2 _ _ He) as He'. apply log_at_some_lt in He'. unfold lenN. lia.
Qed.

Theorem CA_put : CA c'.
Proof.
  constructor; cbn [c' c_nodes c_net c_hist].
  - (* cl *)
    intros u v Hg. destruct (gp _ _ Hg) as [[-> ->]|[Hne Hg']]; [apply cl_i | eapply (ca_cl _ Ac); eauto].
  - (* mc *)
    intros r Hr A. destruct (NM _ Hr) as [Ho|Hn].
    + destruct (ca_mc _ Ac r Ho A) as [M1 M2]. split; auto.
      intros s Hs. destruct (gp _ _ Hs) as [[Ei ->]|[Hne Hs']]; [|auto].
      assert (G' : get_node c (q_from r) = Some nd) by (rewrite Ei; exact G).
      specialize (M2 _ G'). destruct St as (_ & _ & _ & Hm & _). lia.
    + destruct (Hn r eq_refl A) as [Fi [R1 R2]].
      pose proof gp_i as Gi. unfold get_node in Gi. pose proof (w_inv _ (li_wf _ Lc' _ _ Gi)) as I'.
      rewrite R1, R2, (nwf_li _ I'), (ninv_lc _ I'). split; [apply cl_i|].
      intros s Hs. rewrite Fi, gp_i in Hs. inversion Hs; subst s. lia.
  - (* cf *)
    intros u v idx Hg H1 H2. destruct (gp _ _ Hg) as [[-> ->]|[Hne Hg']].
    2:{ destruct (ca_cf _ Ac _ _ _ Hg' H1 H2) as (T & e & Cm & Hh). exists T, e. split; auto. apply committed_mono; auto. }
    destruct (N.le_gt_cases idx (n_commit nd)) as [Hle|Hgt].
    + destruct (ca_cf _ Ac _ _ _ G H1 Hle) as (T & e & Cm & Hh). exists T, e. split; [apply committed_mono; auto|].
      destruct St as (_ & _ & _ & _ & Hk). apply Hk; auto.
    + destruct (Bool.bool_dec (is_leader (n_state nd) && is_leader (n_state nd')) true) as [B|B].
      * destruct (raised_leader idx B Hgt H2) as [x [Cm Hh]]. exists (n_term nd'), x. auto.
      * apply Bool.not_true_is_false in B. destruct (FC B) as (j & s & Hj & Hs & E & Hc); [lia|].
        destruct (ca_cf _ Ac _ _ idx Hs H1) as (T & e & Cm & Hh); [lia|].
        exists T, e. split; [apply committed_mono; auto|].
        unfold holds in *. rewrite (log_at_prefix _ _ idx E); auto. pose proof cl_i. lia.
  - (* u *)
    assert (ON : forall T1 T idx e1 e, committed (c_hist c) T1 idx e1 -> NEW sz c i nd nd' T idx e -> e1 = e).
    { intros T1 T idx e1 e Co N. pose proof N as (L1 & L2 & ET & _ & Hh & _ & _ & Q).
      destruct (N.le_gt_cases T1 T) as [Hle|Hgt].
      - assert (H1 : holds nd' idx e1).
        { eapply (lc_c4 _ _ Cc' T1 idx e1 i nd'); [apply committed_mono; exact Co | apply gp_i | exact L2 | lia]. }
        unfold holds in *. congruence.
      - exfalso.
        destruct (lc_q _ _ Cc' T1 idx e1 (committed_mono _ _ _ Co)) as [S1 [N1 [Q1 H1]]].
        destruct (holders_quorum (put_node c i nd') sz T idx e) as [S [NS [QS HS]]]; auto.
        { apply (proj1 (li_cinv _ Lc')). }
        { apply (lc_len _ _ Cc'). }
        destruct (quorum_intersection_n sz S1 S N1 NS) as [w [W1 W2]]; auto.
        { intros y Hy. apply H1; auto. }
        { intros y Hy. apply HS; auto. }
        destruct (H1 _ W1) as (_ & v1 & Hv1 & _ & T1le & _). destruct (HS _ W2) as (_ & v2 & Hv2 & Tv2 & _).
        unfold get_node in Hv1. cbn [c' c_nodes] in Hv1. rewrite Hv2 in Hv1. inversion Hv1; subst v2. lia. }
    intros T1 T2 idx e1 e2 C1 C2.
    destruct (committed_cases sz c i nd nd' pre Qpre OT NQ Hsz _ _ _ C1) as [O1|N1];
      destruct (committed_cases sz c i nd nd' pre Qpre OT NQ Hsz _ _ _ C2) as [O2|N2].
    + eapply (ca_u _ Ac); eauto.
    + eapply ON; eauto.
    + symmetry. eapply ON; eauto.
    + destruct N1 as (_ & _ & _ & _ & H1 & _). destruct N2 as (_ & _ & _ & _ & H2 & _). unfold holds in *. congruence.
Qed.

End Put.

Lemma CA_same : forall c c',
  CA c -> c_nodes c' = c_nodes c -> c_hist c' = c_hist c -> (forall m, In m (c_net c') -> In m (c_net c)) -> CA c'.
Proof.
  intros c c' A N H M.
  assert (GN : forall u, get_node c' u = get_node c u) by (intros; unfold get_node; rewrite N; reflexivity).
  constructor; rewrite ?H.
  - intros u v Hg. rewrite GN in Hg. eapply (ca_cl _ A); eauto.
  - intros r Hr Ap. destruct (ca_mc _ A r (M _ Hr) Ap) as [M1 M2]. split; auto. intros s Hs. rewrite GN in Hs. auto.
  - intros u v idx Hg. rewrite GN in Hg. eapply (ca_cf _ A); eauto.
  - apply (ca_u _ A).
Qed.

(* ================================================================== the step *)

(* only a node that is and stays Leader changes its commit index by handling a response *)
Lemma response_commit_same : forall rv nd r s,
  is_leader (n_state nd) && is_leader (n_state (fst (handle_response rv nd r s))) = false ->
  n_commit (fst (handle_response rv nd r s)) = n_commit nd.
Proof.
  intros rv nd r s. unfold handle_response.
  destruct (n_state nd) eqn:S; destruct (q_kind r); destruct (s_result s); cbn [fst is_leader andb];
    try reflexivity;
    try (intros _; match goal with |- context [if n_term nd <? ?l then _ else _] => destruct (n_term nd <? l) end; reflexivity);
    try (intros _; destruct (vote_counts rv nd r); cbn [fst]; [|reflexivity]; rewrite vote_received_eq; destruct (_ <? _); [destruct (fix_ack_term rv)|]; reflexivity);
    try (intros _; unfold pre_vote_received; destruct (_ <? _); reflexivity);
    try (rewrite state_ack_commit, S; cbn; discriminate);
    try (match goal with |- context [if n_term nd <? ?l then _ else _] => destruct (n_term nd <? l) end; intros _; reflexivity).
Qed.

Theorem CA_step : forall sz c e,
  LI c -> J sz c -> K c -> LC sz c -> CA c ->
  election_safety (c_hist (step rr_fixed c e)) ->
  ack_diverged_b (c_hist (step rr_fixed c e)) = false ->
  old_term_commit_b (c_hist (step rr_fixed c e)) = false ->
  nq_step c (step rr_fixed c e) = false ->
  CA (step rr_fixed c e).
Proof.
  intros sz c e Lc Jc Kc Cc Ac ES AD OT NQ.
  pose proof (LI_step c e Lc ES AD) as Lc'.
  pose proof (LC_step sz c e Lc Jc Kc Cc ES AD OT NQ) as Cc'.
  destruct (li_cinv _ Lc) as [HN HM].
  unfold nq_step in NQ.
  destruct e as [i el due | k el | k | k | i d]; cbn [step] in *.
  - (* Tick *)
    destruct (get_node c i) as [nd|] eqn:G; [|exact Ac].
    pose proof (get_node_index _ _ _ HN G) as Ei.
    pose proof (li_wf _ Lc _ _ G) as W.
    pose proof (keep_process nd el due) as Kp.
    pose proof (commit_process nd el due) as Cp.
    pose proof (good_process nd el due (w_inv _ W)) as [I' St].
    pose proof (reqs_process nd el due) as RO.
    pose proof (process_ahb_reqs nd el due) as RA.
    destruct (process nd el due) as [nd' reqs]. cbn [fst snd c_hist c_nodes c_net] in *.
    pose proof St as (Hi & _ & Hs & _).
    rewrite old_term_app in OT. apply orb_false_iff in OT as [_ OT].
    apply (CA_put sz c i nd nd' _ []); auto.
    + intros x [].
    + unfold get_node in G. eapply nq_nodes_nth; eauto. unfold put_node. apply (nth_error_upd_nth_eq _ _ _ _ _ G).
    + congruence.
    + rewrite Hs. apply (j_size _ _ Jc). unfold get_node in G. eapply nth_error_In; eauto.
    + intros _ _ idx e H. destruct Kp as [Kl _]. rewrite Kl. exact H.
    + intros _. destruct Kp as [Kl _]. rewrite Cp, Kl. apply (ca_cl _ Ac _ _ G).
    + intros _ H. lia.
    + intros m Hm. apply in_app_or in Hm as [Hm|Hm]; [left; exact Hm|right].
      apply in_map_iff in Hm as [q [<- Hq]]. intros r0 E A. inversion E; subst r0.
      destruct (RO _ Hq) as [Fq _]. split; [congruence|]. apply RA; auto.
  - (* Deliver *)
    destruct (nth_error (c_net c) k) as [[r | r s]|] eqn:Hk; [| |exact Ac].
    + (* request *)
      pose proof (HM _ (nth_error_In _ _ Hk)) as Hok. cbn in Hok.
      pose proof (li_msg _ Lc _ (nth_error_In _ _ Hk)) as RW. cbn in RW.
      destruct (get_node c (q_to r)) as [nd|] eqn:G.
      2:{ eapply CA_same; eauto. cbn. intros m Hm. eapply In_remove_nth; eauto. }
      pose proof (get_node_index _ _ _ HN G) as Ei.
      assert (Hne : q_from r <> n_index nd) by congruence.
      pose proof (li_wf _ Lc _ _ G) as W.
      pose proof (good_request rr_fixed nd r el (w_inv _ W) Hne) as [I' St].
      pose proof (request_keeps rr_fixed nd r el) as Kp.
      assert (MC : is_append_or_hb (q_kind r) = true -> q_lc r <= q_li r).
      { intros A. apply (ca_mc _ Ac r (nth_error_In _ _ Hk) A). }
      pose proof (request_commit rr_fixed nd r el W RW Hne (ca_cl _ Ac _ _ G) MC) as (RC1 & RC2 & RC3).
      destruct (handle_request rr_fixed nd r el) as [nd' s]. cbn [fst snd c_hist c_nodes c_net] in *.
      pose proof St as (Hi & _ & Hs & _).
      assert (AD' : ack_diverged_b (request_ghosts c nd' r s) = false).
      { rewrite ack_diverged_app in AD. apply orb_false_iff in AD as [_ AD].
        rewrite ack_diverged_app in AD. apply orb_false_iff in AD as [AD _]. exact AD. }
      rewrite old_term_app in OT. apply orb_false_iff in OT as [_ OT].
      apply (CA_put sz c (q_to r) nd nd' _ (request_ghosts c nd' r s)); auto.
      * apply quiet_request_ghosts.
      * unfold get_node in G. eapply nq_nodes_nth; eauto. unfold put_node. apply (nth_error_upd_nth_eq _ _ _ _ _ G).
      * congruence.
      * rewrite Hs. apply (j_size _ _ Jc). unfold get_node in G. eapply nth_error_In; eauto.
      * intros L1 L2 idx e H. rewrite (Kp (eq_trans (f_equal (orb (is_candidate (n_state nd'))) L2) (orb_true_r _))). exact H.
      * intros _ Hr. destruct (RC3 Hr) as [A O].
        assert (V : (N.to_nat (q_from r) < length (c_nodes c))%nat).
        { eapply (li_lv _ Lc). apply (li_mh _ Lc); eauto. eapply nth_error_In; eauto. }
        destruct (get_node c (q_from r)) as [sender|] eqn:Gs; [|unfold get_node in Gs; apply nth_error_None in Gs; lia].
        exists (q_from r), sender. split; [congruence|]. split; auto. split.
        -- eapply no_ack_diverged; eauto.
        -- destruct (ca_mc _ Ac r (nth_error_In _ _ Hk) A) as [_ M2]. specialize (M2 _ Gs). lia.
      * intros m Hm. apply in_app_or in Hm as [Hm|[<-|[]]]; [left; eapply In_remove_nth; eauto | right].
        intros r0 E. discriminate.
    + (* response *)
      pose proof (HM _ (nth_error_In _ _ Hk)) as Hok. cbn in Hok. destruct Hok as [Hft Hto].
      destruct (get_node c (s_to s)) as [nd|] eqn:G.
      2:{ eapply CA_same; eauto. cbn. intros m Hm. eapply In_remove_nth; eauto. }
      pose proof (get_node_index _ _ _ HN G) as Ei.
      assert (Hne : q_to r <> n_index nd) by congruence.
      pose proof (li_wf _ Lc _ _ G) as W.
      pose proof (good_response rr_fixed nd r s (w_inv _ W) Hne) as [I' St].
      pose proof (keep_response rr_fixed nd r s (w_inv _ W) Hne) as Kp.
      pose proof (response_commit_same rr_fixed nd r s) as CS.
      pose proof (reqs_response rr_fixed nd r s Hne) as RO.
      pose proof (response_ahb_reqs rr_fixed nd r s) as RA.
      destruct (handle_response rr_fixed nd r s) as [nd' reqs]. cbn [fst snd c_hist c_nodes c_net] in *.
      pose proof St as (Hi & _ & Hs & _).
      rewrite (response_ghosts_fixed rr_fixed nd r s eq_refl) in *.
      rewrite old_term_app in OT. apply orb_false_iff in OT as [_ OT].
      apply (CA_put sz c (s_to s) nd nd' _ []); auto.
      * intros x [].
      * unfold get_node in G. eapply nq_nodes_nth; eauto. unfold put_node. apply (nth_error_upd_nth_eq _ _ _ _ _ G).
      * congruence.
      * rewrite Hs. apply (j_size _ _ Jc). unfold get_node in G. eapply nth_error_In; eauto.
      * intros _ _ idx e H. destruct Kp as [Kl _]. rewrite Kl. exact H.
      * intros B. destruct Kp as [Kl _]. rewrite (CS B), Kl. apply (ca_cl _ Ac _ _ G).
      * intros B H. rewrite (CS B) in H. lia.
      * intros m Hm. apply in_app_or in Hm as [Hm|Hm]; [left; eapply In_remove_nth; eauto | right].
        apply in_map_iff in Hm as [q [<- Hq]]. intros r0 E A. inversion E; subst r0.
        destruct (RO _ Hq) as [Fq _]. split; [congruence|]. apply RA; auto.
  - (* Drop *)
    eapply CA_same; eauto. cbn. intros m Hm. eapply In_remove_nth; eauto.
  - (* Duplicate *)
    destruct (nth_error (c_net c) k) as [m0|] eqn:Hk; [|exact Ac].
    eapply CA_same; eauto. cbn. intros m Hm. apply in_app_or in Hm as [Hm|[<-|[]]]; auto. eapply nth_error_In; eauto.
  - (* ClientAppend *)
    destruct (get_node c i) as [nd|] eqn:G; [|exact Ac].
    destruct (is_leader (n_state nd)) eqn:L; [|exact Ac].
    pose proof (get_node_index _ _ _ HN G) as Ei.
    pose proof (li_wf _ Lc _ _ G) as W.
    pose proof (append_state nd d) as As.
    pose proof (good_append nd d (w_inv _ W)) as [I' St].
    pose proof (reqs_append nd d) as RO.
    pose proof (append_ahb_reqs nd d) as RA.
    pose proof (append_shape nd d W) as (W' & El & RK).
    destruct (append nd d) as [nd' reqs]. cbn [fst snd c_hist c_nodes c_net] in *.
    pose proof St as (Hi & _ & Hs & _).
    rewrite old_term_app in OT. apply orb_false_iff in OT as [_ OT].
    assert (B : is_leader (n_state nd) && is_leader (n_state nd') = true) by (rewrite As, L; reflexivity).
    apply (CA_put sz c i nd nd' _ []); auto.
    + intros x [].
    + unfold get_node in G. eapply nq_nodes_nth; eauto. unfold put_node. apply (nth_error_upd_nth_eq _ _ _ _ _ G).
    + congruence.
    + rewrite Hs. apply (j_size _ _ Jc). unfold get_node in G. eapply nth_error_In; eauto.
    + intros _ _ idx e H. rewrite El. apply log_at_snoc_keep. exact H.
    + intros F. congruence.
    + intros F. congruence.
    + intros m Hm. apply in_app_or in Hm as [Hm|Hm]; [left; exact Hm|right].
      apply in_map_iff in Hm as [q [<- Hq]]. intros r0 E A. inversion E; subst r0.
      destruct (RO _ Hq) as [Fq _]. split; [congruence|]. apply RA; auto. apply (ni_size _ (w_inv _ W)).
Qed.

(* ================================================================== all histories *)

Lemma init_CA : forall size, size <> 1 -> CA (init_default size).
Proof.
  intros size Hs.
  assert (Hh : c_hist (init_default size) = []).
  { unfold init_default, init. cbn [c_hist]. apply N.eqb_neq in Hs. rewrite Hs. reflexivity. }
  assert (NC : forall u v, get_node (init_default size) u = Some v -> n_commit v = 0).
  { intros u v H. unfold get_node in H. destruct (init_node _ _ _ H) as [j ->]. reflexivity. }
  constructor.
  - intros u v H. rewrite (NC _ _ H). lia.
  - intros r H. cbn in H. destruct H.
  - intros u v idx H H1 H2. rewrite (NC _ _ H) in H2. lia.
  - intros T1 T2 idx e1 e2 [j H]. rewrite Hh in H. destruct H.
Qed.

Theorem CA_run : forall size evs, size <> 1 -> hyps size evs -> CA (run rr_fixed size evs).
Proof.
  intros size evs Hs. induction evs as [|e evs IH] using rev_ind; intros H.
  - apply init_CA; auto.
  - destruct (hyps_prefix _ _ _ H) as [Hp NQ]. specialize (IH Hp).
    pose proof (election_safety_fixed size (evs ++ [e])) as ES.
    pose proof (LI_run size evs Hs (h_ad _ _ Hp)) as Li.
    pose proof (LC_run size evs Hs Hp) as Lc.
    pose proof (run_J rr_fixed evs size _ (init_J size Hs) (or_introl eq_refl)) as Jr.
    pose proof (run_K rr_fixed evs _ eq_refl eq_refl (init_K size Hs)) as Kr.
    destruct H as [A O _].
    rewrite fold_run_app in *. unfold run_from in ES, A, O |- *. cbn [fold_left] in *.
    eapply CA_step; eauto.
Qed.

(* ================================================================== C28c *)

Theorem committed_agree_partial : forall size evs,
  size <> 1 -> hyps size evs -> committed_agree (run rr_fixed size evs).
Proof.
  intros size evs Hs H a b Ha Hb idx H1 H2 H3.
  pose proof (CA_run size evs Hs H) as A.
  apply In_nth_error in Ha as [ka Ha]. apply In_nth_error in Hb as [kb Hb].
  assert (Ga : get_node (run rr_fixed size evs) (N.of_nat ka) = Some a) by (unfold get_node; rewrite Nat2N.id; exact Ha).
  assert (Gb : get_node (run rr_fixed size evs) (N.of_nat kb) = Some b) by (unfold get_node; rewrite Nat2N.id; exact Hb).
  destruct (ca_cf _ A _ _ idx Ga H1 H2) as (T1 & e1 & C1 & Hh1).
  destruct (ca_cf _ A _ _ idx Gb H1 H3) as (T2 & e2 & C2 & Hh2).
  pose proof (ca_u _ A _ _ _ _ _ C1 C2). unfold holds in *. congruence.
Qed.

(* every committed index of every node was committed by a leader, and the node holds that leader's entry *)
Theorem committed_by_leader_partial : forall size evs nd idx,
  size <> 1 -> hyps size evs -> In nd (c_nodes (run rr_fixed size evs)) -> 1 <= idx -> idx <= n_commit nd ->
  exists i T e, In (GCommit i true T idx (Some e)) (c_hist (run rr_fixed size evs)) /\ log_at (n_logs nd) idx = Some e.
Proof.
  intros size evs nd idx Hs H Hn H1 H2. pose proof (CA_run size evs Hs H) as A.
  apply In_nth_error in Hn as [k Hk].
  assert (Gk : get_node (run rr_fixed size evs) (N.of_nat k) = Some nd) by (unfold get_node; rewrite Nat2N.id; exact Hk).
  destruct (ca_cf _ A _ _ idx Gk H1 H2) as (T & e & [i Hi] & Hh). exists i, T, e. auto.
Qed.

(* ================================================================== the statements pinned in Props/C28.v, Props/C29.v *)

Theorem C28c_partial_stmt : forall size evs,
  size <> 1 ->
  ack_diverged_b (c_hist (run rr_fixed size evs)) = false ->
  old_term_commit_b (c_hist (run rr_fixed size evs)) = false ->
  commit_noquorum_b rr_fixed size evs = false ->
  committed_agree (run rr_fixed size evs).
Proof. intros size evs Hs A O Q. apply committed_agree_partial; auto. constructor; auto. Qed.

Theorem C28c_committed_by_leader_stmt : forall size evs nd idx,
  size <> 1 ->
  ack_diverged_b (c_hist (run rr_fixed size evs)) = false ->
  old_term_commit_b (c_hist (run rr_fixed size evs)) = false ->
  commit_noquorum_b rr_fixed size evs = false ->
  In nd (c_nodes (run rr_fixed size evs)) -> 1 <= idx -> idx <= n_commit nd ->
  exists i T e, In (GCommit i true T idx (Some e)) (c_hist (run rr_fixed size evs)) /\ log_at (n_logs nd) idx = Some e.
Proof. intros size evs nd idx Hs A O Q. apply committed_by_leader_partial; auto. constructor; auto. Qed.

Theorem C29_partial_stmt : forall size evs,
  size <> 1 ->
  ack_diverged_b (c_hist (run rr_fixed size evs)) = false ->
  old_term_commit_b (c_hist (run rr_fixed size evs)) = false ->
  commit_noquorum_b rr_fixed size evs = false ->
  forall h1 h2 i t idx e j t' log,
    c_hist (run rr_fixed size evs) = h1 ++ GCommit i true t idx e :: h2 -> In (GLeader j t' log) h2 -> t < t' ->
    log_at log idx = e.
Proof. intros size evs Hs A O Q. apply (leader_completeness_up_partial size evs Hs). constructor; auto. Qed.

Theorem C29_partial_literal_stmt : forall size evs,
  size <> 1 ->
  ack_diverged_b (c_hist (run rr_fixed size evs)) = false ->
  old_term_commit_b (c_hist (run rr_fixed size evs)) = false ->
  commit_noquorum_b rr_fixed size evs = false ->
  late_leader_b (c_hist (run rr_fixed size evs)) = false ->
  leader_completeness (c_hist (run rr_fixed size evs)).
Proof. intros size evs Hs A O Q L. apply (leader_completeness_partial size evs Hs); auto. constructor; auto. Qed.

Theorem C29_literal_refuted_stmt :
  exists size evs, size <> 1 /\
    ack_diverged_b (c_hist (run rr_fixed size evs)) = false /\
    old_term_commit_b (c_hist (run rr_fixed size evs)) = false /\
    commit_noquorum_b rr_fixed size evs = false /\
    ~ leader_completeness (c_hist (run rr_fixed size evs)).
Proof. destruct late_leader_refutes_literal_C29 as (size & evs & Hs & [A O Q] & N). exists size, evs. auto. Qed.

(* non-vacuity: the fault-free 3-node history `wlog_ok` (node 0 elected, two entries replicated to and committed on
   all three nodes, leader commits recorded) satisfies every hypothesis *)
Lemma nonvacuous_stmt :
  (ack_diverged_b (c_hist (run rr_fixed 3 wlog_ok)) = false /\
   old_term_commit_b (c_hist (run rr_fixed 3 wlog_ok)) = false /\
   commit_noquorum_b rr_fixed 3 wlog_ok = false) /\
  late_leader_b (c_hist (run rr_fixed 3 wlog_ok)) = false /\
  map n_commit (c_nodes (run rr_fixed 3 wlog_ok)) = [2; 2; 2] /\
  leader_completeness_b (c_hist (run rr_fixed 3 wlog_ok)) = true /\
  existsb (fun g => match g with GCommit _ true _ _ _ => true | _ => false end) (c_hist (run rr_fixed 3 wlog_ok)) = true.
Proof.
  destruct wlog_ok_hyps as ([A O Q] & L & C & E). destruct wlog_ok_facts as (_ & _ & M & _). cbv zeta in M.
  repeat split; auto.
Qed.
