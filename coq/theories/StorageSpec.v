(* StorageSpec.v — the abstract specification of the storage layer (C04): a finite
   map index |-> bytes, written as an ACCEPTOR: `spec_step s op v` says whether the
   observation `v` is a correct answer to `op` in state `s` and gives the next state.
   The implementation is free in exactly one place: which unused, non-zero index an
   insert returns.  Definitions only (extracted).

   Besides the map the state has the depth of open transactions and the map as it
   was when the depth last was 0 ("committed"): a file-backed storage that is
   dropped with an open transaction comes back with the committed map.  The depth is
   observable (`transaction` returns it); the specification reproduces that
   `replace_with_bytes` on a missing index leaves its transaction open (property C32
   is about that), every other failed call leaves everything unchanged. *)
From Agdb Require Import Bytes Records Storage.
Open Scope N_scope.

Definition vmap := list (N * bytes).

Record spec := { sm : vmap; sdepth : N; scommitted : vmap }.

Definition spec_init : spec := {| sm := []; sdepth := 0; scommitted := [] |}.

(* a mutation; at depth 0 it is committed at once *)
Definition mutate (s : spec) (m : vmap) : spec :=
  {| sm := m; sdepth := sdepth s; scommitted := if sdepth s =? 0 then m else scommitted s |}.

(* insert-at: the value grows (zero filled) when offset + |bs| exceeds it *)
Definition v_insert_at (v : bytes) (offset : N) (bs : bytes) : bytes := bs_write v (N.to_nat offset) bs.
Definition v_resize (v : bytes) (n : N) : bytes := pad_to v n.
(* move: copy [from, from+size) to `to` (growing the value if needed), then zero the
   part of the source range that the destination does not cover *)
Definition v_move (v : bytes) (from to size : N) : bytes :=
  let b := bs_read v (N.to_nat from) (N.to_nat size) in
  let v1 := v_insert_at v to b in
  if from <? to then v_insert_at v1 from (zeros (N.min size (to - from)))
  else if to <? from then
    let position := N.max (to + size) from in
    v_insert_at v1 position (zeros (from + size - position))
  else v1.

Definition obs_eqb_err (v : obs) (e : serr) : bool :=
  match v, e with
  | ObErr SeNotFound, SeNotFound | ObErr SeOutOfBounds, SeOutOfBounds
  | ObErr SeNotAllowed, SeNotAllowed | ObErr SeNotEnoughData, SeNotEnoughData => true
  | _, _ => false
  end.
Definition is_unit (v : obs) : bool := match v with ObUnit => true | _ => false end.
Definition is_num (v : obs) (n : N) : bool := match v with ObNum k => k =? n | _ => false end.
Definition is_bytes (v : obs) (b : bytes) : bool := match v with ObBytes x => bytes_eqb x b | _ => false end.

Definition guard (b : bool) (s : spec) : option spec := if b then Some s else None.

(* filelike = true: FileStorage / FileStorageMemoryMapped (drop rolls an open transaction back) *)
Definition spec_step (filelike : bool) (s : spec) (o : sop) (v : obs) : option spec :=
  match o with
  | SInsert bs =>
    match v with
    | ObNum i => if negb (i =? 0) then
                  match m_get (sm s) i with None => Some (mutate s (m_put (sm s) i bs)) | Some _ => None end
                else None
    | _ => None
    end
  | SInsertAt i off bs =>
    match m_get (sm s) i with
    | None => guard (obs_eqb_err v SeNotFound) s
    | Some x => guard (is_unit v) (mutate s (m_put (sm s) i (v_insert_at x off bs)))
    end
  | SReplace i bs =>
    match m_get (sm s) i with
    | None => guard (obs_eqb_err v SeNotFound) {| sm := sm s; sdepth := sdepth s + 1; scommitted := scommitted s |}
    | Some _ => guard (is_unit v) (mutate s (m_put (sm s) i bs))
    end
  | SResize i n =>
    match m_get (sm s) i with
    | None => guard (obs_eqb_err v SeNotFound) s
    | Some x => guard (is_unit v) (mutate s (m_put (sm s) i (v_resize x n)))
    end
  | SMove i from to size =>
    match m_get (sm s) i with
    | None => guard (obs_eqb_err v SeNotFound) s
    | Some x =>
      if (lenN x <? from) || (lenN x <? from + size) then guard (obs_eqb_err v SeOutOfBounds) s
      else guard (is_unit v) (mutate s (m_put (sm s) i (v_move x from to size)))
    end
  | SRemove i =>
    match m_get (sm s) i with
    | None => guard (obs_eqb_err v SeNotFound) s
    | Some _ => guard (is_unit v) (mutate s (m_del (sm s) i))
    end
  | SOptimize => guard (is_unit v) s
  | SReopen =>
    let m := if filelike && negb (sdepth s =? 0) then scommitted s else sm s in
    guard (is_unit v) {| sm := m; sdepth := 0; scommitted := m |}
  | SReopenCopy => guard (is_unit v) {| sm := sm s; sdepth := 0; scommitted := sm s |}
  | STransaction => guard (is_num v (sdepth s + 1)) {| sm := sm s; sdepth := sdepth s + 1; scommitted := scommitted s |}
  | SCommit id =>
    if negb (sdepth s =? id) then guard (obs_eqb_err v SeNotAllowed) s
    else if sdepth s =? 0 then guard (is_unit v) s
    else guard (is_unit v) {| sm := sm s; sdepth := sdepth s - 1;
                              scommitted := if sdepth s - 1 =? 0 then sm s else scommitted s |}
  | SValue i =>
    match m_get (sm s) i with
    | None => guard (obs_eqb_err v SeNotFound) s
    | Some x => guard (is_bytes v x) s
    end
  | SValueAt i off =>
    match m_get (sm s) i with
    | None => guard (obs_eqb_err v SeNotFound) s
    | Some x => if lenN x <? off then guard (obs_eqb_err v SeOutOfBounds) s
                else guard (is_bytes v (skipn (N.to_nat off) x)) s
    end
  | SValueAtSize i off n =>
    match m_get (sm s) i with
    | None => guard (obs_eqb_err v SeNotFound) s
    | Some x => if (lenN x <? off) || (lenN x <? off + n) then guard (obs_eqb_err v SeOutOfBounds) s
                else guard (is_bytes v (bs_read x (N.to_nat off) (N.to_nat n))) s
    end
  | SValueSize i =>
    match m_get (sm s) i with
    | None => guard (obs_eqb_err v SeNotFound) s
    | Some x => guard (is_num v (lenN x)) s
    end
  | SLen => match v with ObNum _ => Some s | _ => None end
  end.

(* the observations of a history are accepted; a history may end in a panic
   (a request that does not fit into 2^64 bytes), never in a fault *)
Fixpoint accepts (filelike : bool) (s : spec) (l : list sop) (vs : list obs) : bool :=
  match l, vs with
  | _, [ObPanic] => true
  | [], [] => true
  | o :: l', v :: vs' =>
    match spec_step filelike s o v with
    | Some s' => accepts filelike s' l' vs'
    | None => false
    end
  | _, _ => false
  end.

(* Σ_live (16 + size) + 24: the length of a file without unused space *)
Definition tight_len (m : vmap) : N := fold_right (fun kv a => 16 + lenN (snd kv) + a) 24 m.
