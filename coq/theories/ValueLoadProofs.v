(* ValueLoadProofs.v — C07: DbValue::load_db_value on an ARBITRARY 16-byte index and an arbitrary
   record store never panics once the two checks of fixes/C07-value-index.diff are in; with only the
   numeric check (the current tree) it panics exactly for an unknown type nibble. *)
From Agdb Require Import Bytes BytesProofs Utf8 Codec CodecProofs DbValue ValueIndex ValueIndexProofs.
From Coq Require Import ZifyBool ZifyNat ZifyN.
Ltac Zify.zify_post_hook ::= Z.div_mod_to_equations.
Open Scope N_scope.
Arguments N.add : simpl never.
Arguments N.mul : simpl never.
Arguments N.sub : simpl never.
Arguments N.ltb : simpl never.
Arguments N.leb : simpl never.
Arguments N.eqb : simpl never.
Arguments N.land : simpl never.
Arguments N.shiftr : simpl never.

Definition ok_or_err {A} (o : outcome A) : Prop :=
  match o with Ok _ | Err => True | _ => False end.

(* records a file can hold *)
Definition store_small (st : store) : Prop := forall i b, lookup i st = Some b -> lenN b < two60.

Lemma ok_or_err_bind {A B} (o : outcome A) (f : A -> outcome B) :
  ok_or_err o -> (forall a, ok_or_err (f a)) -> ok_or_err (obind o f).
Proof. destruct o; cbn; try tauto. intros _ H. apply H. Qed.

Lemma rec_get_total i st : ok_or_err (rec_get i st).
Proof. unfold rec_get. destruct (lookup i st); exact I. Qed.

Lemma value_as_total t i st : store_small st -> ty_ok t = true -> ok_or_err (value_as t i st).
Proof.
  intros Hs Ht. unfold value_as, rec_get.
  destruct (lookup i st) as [b|] eqn:E; [|exact I]. cbn [obind].
  pose proof (dec_total Debug t b (Hs i b E) Ht) as T. unfold good in T.
  revert T. destruct (dec Debug guards_fixed t b) as [[v n]| | | |]; cbn [obind ok_or_err fst]; tauto.
Qed.

Lemma load_num_8 ix : vi_size ix = 8 -> ok_or_err (load_num ix).
Proof. intros H. unfold load_num. rewrite H. exact I. Qed.

(* the unchanged match, for a known type and a well-sized numeric *)
Lemma load_known_total ix st :
  store_small st ->
  is_known_type (vi_type ix) = true ->
  (is_numeric_type (vi_type ix) = true -> vi_size ix = 8) ->
  ok_or_err (load_db_value ix st).
Proof.
  intros Hs Hk Hn. unfold is_known_type in Hk. unfold is_numeric_type in Hn.
  assert (Ht : vi_type ix = 1 \/ vi_type ix = 2 \/ vi_type ix = 3 \/ vi_type ix = 4 \/ vi_type ix = 5 \/
               vi_type ix = 6 \/ vi_type ix = 7 \/ vi_type ix = 8 \/ vi_type ix = 9) by lia.
  unfold load_db_value.
  destruct Ht as [E|[E|[E|[E|[E|[E|[E|[E|E]]]]]]]]; rewrite E in *; cbv iota.
  - destruct (is_value ix); [exact I|]. apply ok_or_err_bind; [apply rec_get_total|]. intros b. exact I.
  - apply ok_or_err_bind; [apply load_num_8, Hn; reflexivity|]. intros n. exact I.
  - apply ok_or_err_bind; [apply load_num_8, Hn; reflexivity|]. intros n. exact I.
  - apply ok_or_err_bind; [apply load_num_8, Hn; reflexivity|]. intros n. exact I.
  - destruct (is_value ix); [exact I|].
    apply ok_or_err_bind; [apply value_as_total; [exact Hs|reflexivity]|]. intros v. exact I.
  - apply ok_or_err_bind; [apply value_as_total; [exact Hs|reflexivity]|]. intros v. exact I.
  - apply ok_or_err_bind; [apply value_as_total; [exact Hs|reflexivity]|]. intros v. exact I.
  - apply ok_or_err_bind; [apply value_as_total; [exact Hs|reflexivity]|]. intros v. exact I.
  - apply ok_or_err_bind; [apply value_as_total; [exact Hs|reflexivity]|]. intros v. exact I.
Qed.

(* the repaired load_db_value: a value or an error for EVERY index and every store *)
Theorem load_fixed_total ix st : store_small st -> ok_or_err (load_db_value_g vg_fixed ix st).
Proof.
  intros Hs. unfold load_db_value_g. cbn [vg_num_checked vg_type_checked vg_fixed].
  destruct (is_numeric_type (vi_type ix) && negb (vi_size ix =? 8)) eqn:E1; [exact I|].
  destruct (is_known_type (vi_type ix)) eqn:E2; cbn [negb]; [|exact I].
  apply load_known_total; [exact Hs|exact E2|]. intros Hn. rewrite Hn in E1. cbn [andb] in E1. lia.
Qed.

(* the current tree: the only way to panic is an unknown type nibble (0 or 10..15) *)
Theorem load_current_total ix st : store_small st ->
  match load_db_value_g vg_current ix st with
  | Ok _ | Err => True
  | Panic => is_known_type (vi_type ix) = false
  | _ => False
  end.
Proof.
  intros Hs. unfold load_db_value_g. cbn [vg_num_checked vg_type_checked vg_current].
  destruct (is_numeric_type (vi_type ix) && negb (vi_size ix =? 8)) eqn:E1; [exact I|].
  destruct (is_known_type (vi_type ix)) eqn:E2; cbn [negb]; [|reflexivity].
  assert (T : ok_or_err (load_db_value ix st)).
  { apply load_known_total; [exact Hs|exact E2|]. intros Hn. rewrite Hn in E1. cbn [andb] in E1. lia. }
  destruct (load_db_value ix st); cbn in T; tauto.
Qed.

(* the checks change nothing for the indexes `store` produces: C12 carries over to every revision *)
Theorem load_g_roundtrip g alloc v st :
  wf_value v = true -> alloc_ok alloc st ->
  load_db_value_g g (fst (store_db_value alloc v st)) (snd (store_db_value alloc v st)) = Ok v.
Proof.
  intros Hwf Hal. pose proof (store_load_roundtrip alloc v st Hwf Hal) as R.
  unfold load_db_value_g.
  set (ix := fst (store_db_value alloc v st)) in *. set (st' := snd (store_db_value alloc v st)) in *.
  destruct (is_numeric_type (vi_type ix) && negb (vi_size ix =? 8)) eqn:E1.
  - (* a numeric index with size <> 8 would make the unchanged match panic: contradiction with R *)
    exfalso. apply andb_prop in E1. destruct E1 as [Hn Hz]. unfold is_numeric_type in Hn.
    assert (Ht : vi_type ix = 2 \/ vi_type ix = 3 \/ vi_type ix = 4) by lia.
    unfold load_db_value in R. unfold load_num in R.
    destruct Ht as [E|[E|E]]; rewrite E in R; cbv iota in R;
      destruct (vi_size ix =? 8); cbn [negb] in Hz; try discriminate; cbn [obind] in R; discriminate.
  - destruct (is_known_type (vi_type ix)) eqn:E2; cbn [negb]; [exact R|].
    exfalso. unfold is_known_type in E2. unfold load_db_value in R.
    destruct (vi_type ix) as [|p] eqn:Et; [discriminate|].
    (* p is none of 1..9 *)
    do 4 (destruct p as [p|p|]; try discriminate; try (cbn in E2; lia)).
Qed.

(* witnesses: what the unrepaired match does *)
Lemma load_pinned_unknown_type : load_db_value_g vg_pinned (repeat x00 16) [] = Panic.
Proof. reflexivity. Qed.
Lemma load_pinned_short_numeric : load_db_value_g vg_pinned (repeat x00 15 ++ [x23]) [] = Panic.
Proof. reflexivity. Qed.
Lemma load_current_unknown_type : load_db_value_g vg_current (repeat x00 15 ++ [xa0]) [] = Panic.
Proof. reflexivity. Qed.
Lemma load_current_short_numeric : load_db_value_g vg_current (repeat x00 15 ++ [x23]) [] = Err.
Proof. reflexivity. Qed.
