(* StoredDbProbe.v — proofs (stored database, part 8): the link to C19.  `load_db` reads a table by scanning its
   slots; the CODE finds an alias by PROBING (MapImpl::value = MultiMapImpl::value: from hash(key) mod capacity, step
   +1, stop at an Empty slot / after a full cycle — OpenMap.v).  On every stored table that satisfies the invariant
   C19 proves of every reachable table (`PInv`: len = number of Valid slots, capacity 0 or >= mincap and len <
   capacity, the probe chain — C19_table_refines_multimap), for EVERY hash function, the probing lookup returns exactly
   the model's lookup: DbImpl::db_id(alias) = imap_value, DbImpl::alias(id) = imap_key on the reloaded database.
   (C19_lookup_finds_exactly_stored + the distinct keys of the alias lists.)

   Not stated for the id tables of the indexes: C19's theorems need a key equality test that decides Leibniz equality;
   for DbValue `dbv_eqb` does so on canonical values only (DbValueEqProofs.dbv_eqb_eq). *)
From Coq Require Import List NArith ZArith Bool Permutation.
Import ListNotations.
From Agdb Require Import Bytes BytesProofs DbValue Graph DbModel Collections CollVecBase CollMap CollMapHist
  OpenMap OpenMapProofs OpenMapSpec OpenMapRefineBase OpenMapRefineStep OpenMapRefine StoredDb StoredDbRep StoredDbLoad.

Section Probe.
  Variables K V : Type.
  Variable keqb : K -> K -> bool.
  Variable veqb : V -> V -> bool.
  Variable h : K -> N.
  Variable mincap : nat.
  Variable rv : om_revision.
  Hypothesis keqb_eq : forall a b, keqb a b = true <-> a = b.
  Hypothesis veqb_eq : forall a b, veqb a b = true <-> a = b.
  Hypothesis Hfin : fix_iter_finished rv = true.

  (* the loader's slot scan = MapIterator over the table the interface stands for *)
  Lemma sd_entries_iter_all ss ks vs : sd_entries ss ks vs = iter_all K V {| slots := ct_slots K V ss ks vs; len := 0 |}.
  Proof.
    unfold iter_all. cbn [slots]. revert ks vs. induction ss as [|s ss IH]; intros [|k ks] [|v vs]; cbn [sd_entries ct_slots flat_map]; try reflexivity.
    rewrite IH. destruct s; reflexivity.
  Qed.

  Lemma sd_table_entries_iter_all (t : cm_table K V) : sd_table_entries t = iter_all K V (ct_omap K V t).
  Proof. unfold sd_table_entries. rewrite sd_entries_iter_all. reflexivity. Qed.

  Lemma sd_mm_values_nodup (l : list (K * V)) k : NoDup (map fst l) ->
    mm_values K V keqb k l = match alookup keqb l k with Some v => [v] | None => [] end.
  Proof.
    unfold mm_values. induction l as [|[k' v'] r IH]; cbn [filter map fst alookup]; [reflexivity|].
    intros ND. inversion ND as [|? ? Hn Hr]; subst. destruct (keqb k' k) eqn:E.
    - cbn [map snd]. f_equal. apply keqb_eq in E. subst k'.
      rewrite (IH Hr). destruct (alookup keqb r k) as [v|] eqn:Ea; [|reflexivity].
      exfalso. apply Hn. apply in_map_iff. exists (k, v). split; [reflexivity|]. apply (alookup_some_in keqb keqb_eq). exact Ea.
    - apply IH. exact Hr.
  Qed.

  Theorem sd_probe_lookup (t : cm_table K V) (l : list (K * V)) k :
    PInv K V h mincap (ct_omap K V t) -> Permutation (sd_table_entries t) l -> NoDup (map fst l) ->
    value K V keqb h (ct_omap K V t) k = Done (alookup keqb l k).
  Proof.
    intros HP Hperm ND.
    destruct (lookup_finds_exactly_stored K V keqb veqb h mincap rv keqb_eq veqb_eq Hfin (ct_omap K V t) k HP)
      as (l0 & _ & Hv & HP0 & _).
    rewrite Hv. f_equal.
    rewrite <- sd_table_entries_iter_all in HP0.
    assert (HP1 : Permutation l0 (mm_values K V keqb k l)).
    { eapply Permutation_trans; [exact HP0|]. unfold mm_values. apply Permutation_map. apply Permutation_filter. exact Hperm. }
    rewrite (sd_mm_values_nodup l k ND) in HP1.
    destruct (alookup keqb l k) as [v|].
    - apply Permutation_sym, Permutation_length_1_inv in HP1. subst l0. reflexivity.
    - apply Permutation_sym, Permutation_nil in HP1. subst l0. reflexivity.
  Qed.
End Probe.

(* the alias lookups of the code on a stored database *)
Theorem sd_alias_lookups_by_probing (hs : bytes -> N) (hi : Z -> N) (mincap : nat) (rv : om_revision) g root d w :
  fix_iter_finished rv = true ->
  stored_db_w g root d w ->
  PInv bytes Z hs mincap (ct_omap bytes Z (mw_t (sw_a1 w))) ->
  PInv Z bytes hi mincap (ct_omap Z bytes (mw_t (sw_a2 w))) ->
  (forall a, value bytes Z bytes_eqb hs (ct_omap bytes Z (mw_t (sw_a1 w))) a = Done (imap_value (aliases d) a)) /\
  (forall i, value Z bytes Z.eqb hi (ct_omap Z bytes (mw_t (sw_a2 w))) i = Done (imap_key (aliases d) i)).
Proof.
  intros Hfin H P1 P2. destruct H as [_ _ _ _ _ (_ & _ & Hp1) Hk1 (_ & _ & Hp2) Hk2 _ _ _ _ _ _ _]. split.
  - intros a. unfold imap_value. eapply (sd_probe_lookup bytes Z bytes_eqb Z.eqb hs mincap rv bytes_eqb_eq Z.eqb_eq Hfin); eassumption.
  - intros i. unfold imap_key. eapply (sd_probe_lookup Z bytes Z.eqb bytes_eqb hi mincap rv Z.eqb_eq bytes_eqb_eq Hfin); eassumption.
Qed.
