(* CollValues.v — model (definitions only, extracted): the element classes of the storage-backed
   vectors that hold database values.
     db/db_index.rs      impl VecValue for DbValue     (16 bytes: the value index of C12 — values of up to
                                                        15 bytes inline, longer ones and all vectors in ONE
                                                        record owned by the slot)
     db/db_key_value.rs  impl VecValue for DbKeyValue  (32 bytes: key index ++ value index)
   on top of ValueIndex.v (C12: DbValue::store_db_value / load_db_value over an association-list store and an
   allocator).  Here the store is the storage itself: `store` inserts the out-of-line record, if the value has
   one, and builds the index around the storage index the insert returned.
   Not modelled: on a DAMAGED numeric / vector index load_db_value's storage accesses differ in order from
   `ce_load` below (a numeric index never reads the storage; here `is_value` decides); for the indexes `store`
   produces they coincide (CollValuesProofs.v). *)
From Agdb Require Import Bytes Utf8 Codec DbValue ValueIndex Records Storage StorageSpec Collections.
Open Scope N_scope.

(* the record store_db_value inserts for v (None: v is stored inline) — independent of the allocator *)
Definition cv_dbv_payload (v : dbvalue) : option bytes :=
  match snd (store_db_value (fun _ => 0) v []) with
  | [] => None
  | (_, b) :: _ => Some b
  end.

Definition cp_of_outcome {A} (o : outcome A) : cprog A :=
  match o with Ok a => CRet a | Err => CErr CvData | _ => CDead end.

Definition ce_dbvalue : cv_elem dbvalue :=
  {| ce_size := 16;
     ce_store := fun v =>
       match cv_dbv_payload v with
       | None => CRet (fst (store_db_value (fun _ => 0) v []))
       | Some rec => i <~ cp_insert rec ;; CRet (fst (store_db_value (fun _ => i) v []))
       end;
     ce_load := fun bs =>
       ix <~ cp_of_outcome (vi_deserialize bs) ;;
       if is_value ix then cp_of_outcome (load_db_value_g vg_current ix [])
       else b <~ cp_value (vi_index ix) ;; cp_of_outcome (load_db_value_g vg_current ix [(vi_index ix, b)]);
     ce_remove := fun bs =>
       ix <~ cp_of_outcome (vi_deserialize bs) ;;
       if is_value ix then CRet tt else cp_remove (vi_index ix) |}.

(* two elements side by side in one slot: store a; store b; concat — load / remove in the same order *)
Definition ce_pair {A B} (EA : cv_elem A) (EB : cv_elem B) : cv_elem (A * B) :=
  {| ce_size := ce_size EA + ce_size EB;
     ce_store := fun p => ba <~ ce_store EA (fst p) ;; bb <~ ce_store EB (snd p) ;; CRet (ba ++ bb);
     ce_load := fun bs =>
       a <~ ce_load EA (firstn (N.to_nat (ce_size EA)) bs) ;;
       b <~ ce_load EB (skipn (N.to_nat (ce_size EA)) bs) ;;
       CRet (a, b);
     ce_remove := fun bs =>
       ce_remove EA (firstn (N.to_nat (ce_size EA)) bs) ;;~ ce_remove EB (skipn (N.to_nat (ce_size EA)) bs) |}.

(* DbKeyValue *)
Definition ce_dbkv : cv_elem (dbvalue * dbvalue) := ce_pair ce_dbvalue ce_dbvalue.
