(* StorageOps2.v — proofs (part 4 of the C04 development): the public operations
   resize_value, insert_bytes_at, replace_with_bytes, move_at and the reads. *)
From Agdb Require Import Bytes BytesProofs Records RecordsProofs RecordsTableProofs Storage StorageSpec
  StorageLayout StorageWp StorageOps.
From Coq Require Import ZifyBool ZifyNat ZifyN.
Ltac Zify.zify_post_hook ::= Z.div_mod_to_equations.
Open Scope N_scope.
Arguments N.add : simpl never.
Arguments N.mul : simpl never.
Arguments N.sub : simpl never.
Arguments N.of_nat : simpl never.
Arguments N.to_nat : simpl never.
Arguments N.eqb : simpl never.
Arguments N.ltb : simpl never.
Arguments N.leb : simpl never.

Ltac st := cbn [sdata cur dur rtab tx version set_cur set_data set_rtab set_tx set_version].
Ltac inl := rewrite ?layout_app, ?in_app_iff; cbn [layout In]; rewrite ?in_app_iff.

Lemma tiles_set_tx s t rg : tiles (set_tx cdata s t) rg <-> tiles s rg.
Proof. unfold tiles, gtiles. st. tauto. Qed.

Lemma m_get_skip V (a b : list (N * V)) i x j : j <> i -> m_get (a ++ (i, x) :: b) j = m_get (a ++ b) j.
Proof. intros H. rewrite !m_get_app. cbn [m_get]. destruct (N.eqb_spec i j); [congruence|reflexivity]. Qed.

(* ---------- byte lists: writes inside a value ---------- *)
Lemma firstn_repeat {A} (x : A) n m : firstn n (repeat x m) = repeat x (Nat.min n m).
Proof.
  revert m; induction n as [|n IH]; intros [|m]; cbn [firstn repeat Nat.min]; try reflexivity. now rewrite IH.
Qed.

Lemma bs_write_within (b bs : bytes) off :
  (off + length bs <= length b)%nat -> bs_write b off bs = firstn off b ++ bs ++ skipn (off + length bs) b.
Proof. intros H. unfold bs_write. replace (off - length b)%nat with 0%nat by lia. reflexivity. Qed.

Lemma bs_write_within_length (b bs : bytes) off :
  (off + length bs <= length b)%nat -> length (bs_write b off bs) = length b.
Proof. intros H. rewrite bs_write_length. lia. Qed.

Lemma bs_write_inner (a b c bs : bytes) P off :
  P = (length a + off)%nat -> (off + length bs <= length b)%nat ->
  bs_write (a ++ b ++ c) P bs = a ++ bs_write b off bs ++ c.
Proof.
  intros -> H. rewrite (bs_write_within b) by assumption.
  rewrite <- (firstn_skipn off b) at 1.
  rewrite <- (firstn_skipn (length bs) (skipn off b)) at 1.
  rewrite skipn_skipn_add.
  replace (a ++ (firstn off b ++ firstn (length bs) (skipn off b) ++ skipn (off + length bs) b) ++ c)
    with ((a ++ firstn off b) ++ firstn (length bs) (skipn off b) ++ (skipn (off + length bs) b ++ c))
    by (rewrite <- !app_assoc; reflexivity).
  rewrite bs_write_mid.
  - rewrite <- !app_assoc. reflexivity.
  - rewrite app_length, firstn_length. lia.
  - rewrite firstn_length, skipn_length. lia.
Qed.

(* writing at `off` into the zero-extended value = writing into the value with zero fill *)
Lemma bs_write_pad (v bs : bytes) off :
  lenN v <= off + lenN bs ->
  bs_write (pad_to v (off + lenN bs)) (N.to_nat off) bs = bs_write v (N.to_nat off) bs.
Proof.
  intros H. rewrite pad_to_grow by assumption. unfold bs_write, zeros, lenN in *.
  set (Z := repeat x00 (N.to_nat (off + N.of_nat (length bs) - N.of_nat (length v)))).
  assert (HZ : length Z = (N.to_nat off + length bs - length v)%nat) by (unfold Z; rewrite repeat_length; lia).
  assert (E1 : skipn (N.to_nat off + length bs) (v ++ Z) = []) by (apply skipn_all2; rewrite app_length; lia).
  assert (E2 : skipn (N.to_nat off + length bs) v = []) by (apply skipn_all2; lia).
  assert (E3 : (N.to_nat off - length (v ++ Z) = 0)%nat) by (rewrite app_length; lia).
  assert (E4 : firstn (N.to_nat off) (v ++ Z) = firstn (N.to_nat off) v ++ repeat x00 (N.to_nat off - length v)).
  { rewrite firstn_app. f_equal. unfold Z. rewrite firstn_repeat. f_equal. lia. }
  rewrite E1, E2, E3, E4. cbn [repeat app]. now rewrite <- app_assoc.
Qed.

Lemma pad_to_same (v : bytes) : pad_to v (lenN v) = v.
Proof. rewrite pad_to_grow by lia. rewrite N.sub_diag. apply app_nil_r. Qed.

Lemma pad_to_write0 (v bs : bytes) : pad_to (bs_write v 0 bs) (lenN bs) = bs.
Proof.
  unfold bs_write. cbn [firstn Nat.sub repeat app Nat.add]. rewrite pad_to_shrink by (rewrite lenN_app; lia).
  apply firstn_app_l. unfold lenN. lia.
Qed.

Lemma bs_read_inner (a b c : bytes) P off n :
  P = (length a + off)%nat -> (off + n <= length b)%nat -> bs_read (a ++ b ++ c) P n = bs_read b off n.
Proof.
  intros -> H. unfold bs_read. rewrite <- skipn_skipn_add, skipn_app_l by reflexivity.
  rewrite skipn_app, firstn_app, skipn_length.
  replace (n - (length b - off))%nat with 0%nat by lia. cbn [firstn]. apply app_nil_r.
Qed.

Lemma layout_same_len pos A i v v' B : lenN v' = lenN v -> layout pos (A ++ (i, v') :: B) = layout pos (A ++ (i, v) :: B).
Proof. intros H. rewrite !layout_app. cbn [layout]. now rewrite H. Qed.

Section Ops2.
  Variable ops : store_ops cdata.
  Hypothesis CN : canon ops.

  (* a write inside a value *)
  Lemma write_value_spec s A i v B off bs (Q : ST -> unit -> Prop) E :
    tiles s (A ++ (i, v) :: B) -> off + lenN bs <= lenN v ->
    (forall s', tiles s' (A ++ (i, bs_write v (N.to_nat off) bs) :: B) -> tx s' = tx s ->
                dur (sdata s') = dur (sdata s) -> Q s' tt) ->
    wp (dwrite cdata ops (24 + slen A + 16 + off) bs) s Q E.
  Proof.
    intros T Hoff HQ. pose proof (tiles_elim _ _ T) as (Hcur & Hlen & TR & RW & Hv).
    destruct (cur_split _ _ _ _ _ T) as (Hcur2 & HLEN & HPL).
    apply (wp_dwrite ops CN); [lia|]. intros _.
    assert (HL' : length (bs_write v (N.to_nat off) bs) = length v) by (apply bs_write_within_length; unfold lenN in *; lia).
    assert (HLN : lenN (bs_write v (N.to_nat off) bs) = lenN v) by (unfold lenN; rewrite HL'; reflexivity).
    apply HQ; [|reflexivity|reflexivity].
    apply tiles_intro; st.
    - rewrite Hcur2, bs_write_inner with (off := N.to_nat off); [|lia|unfold lenN in *; lia].
      rewrite ser_app. cbn [ser]. unfold enc. cbn [fst snd]. rewrite HLN, <- !app_assoc. reflexivity.
    - unfold lenN. rewrite bs_write_length. unfold lenN in *. lia.
    - refine (eq_ind _ (fun L => trel (rtab s) L) TR _ _). symmetry. apply layout_same_len. exact HLN.
    - exact RW.
    - exact Hv.
  Qed.

  (* the live values after a value changed its size *)
  Lemma vpost_get s A i B v v' s' r' : i <> 0 -> vpost s A i B v' s' r' ->
    exists rg', tiles s' rg' /\
      (forall j, j <> 0 -> m_get rg' j = if j =? i then Some v' else m_get (A ++ (i, v) :: B) j) /\
      tx s' = tx s /\ dur (sdata s') = dur (sdata s).
  Proof.
    intros Hi (A2 & B2 & T' & _ & Hlm & Htx & Hdur). exists (A2 ++ (i, v') :: B2).
    split; [exact T'|]. split; [|auto].
    destruct (tiles_unique _ _ _ _ _ T' Hi) as [HA2 HB2].
    intros j Hj. destruct (N.eqb_spec j i) as [->|Hji].
    - rewrite m_get_app, HA2. cbn [m_get]. rewrite N.eqb_refl. reflexivity.
    - rewrite !m_get_skip by assumption. apply lmap_get_eq; assumption.
  Qed.

  Lemma finish_vpost s s1 A i v B v' s2 r' :
    tx s1 = tx s + 1 -> dur (sdata s1) = dur (sdata s) -> i <> 0 -> vpost s1 A i B v' s2 r' ->
    tx s2 = tx s + 1 /\ opost s (fun j => if j =? i then Some v' else m_get (A ++ (i, v) :: B) j) (committed s2).
  Proof.
    intros Htx Hdur Hi VP. destruct (vpost_get _ _ _ _ v _ _ _ Hi VP) as (rg' & T' & Hg & Htx' & Hdur').
    split; [congruence|]. eapply opost_commit; [exact T'|exact Hg|congruence|congruence].
  Qed.

  (* ---------- insert_bytes_at ---------- *)
  Lemma insert_at_spec s rg i off bs :
    tiles s rg ->
    wp (insert_bytes_at cdata ops i off bs) s
       (fun s' _ => exists v, i <> 0 /\ m_get rg i = Some v /\
                              opost s (fun j => if j =? i then Some (v_insert_at v off bs) else m_get rg j) s')
       (fun s' e => e = SeNotFound /\ (i = 0 \/ m_get rg i = None) /\ s' = s).
  Proof.
    intros T. unfold insert_bytes_at. apply wp_bind. apply (lookup_spec s rg i); [exact T| |intros H; auto].
    intros A v B -> Hi HA HB.
    assert (Hget : m_get (A ++ (i, v) :: B) i = Some v).
    { rewrite m_get_app, HA. cbn [m_get]. rewrite N.eqb_refl. reflexivity. }
    apply wp_bind, wp_tx_begin. intros Htx.
    set (s1 := set_tx cdata s (tx s + 1)).
    assert (T1 : tiles s1 (A ++ (i, v) :: B)) by (apply tiles_set_tx; exact T).
    apply wp_bind. unfold ensure_size. cbn [r_size].
    destruct (N.leb_spec two64 (off + lenN bs)) as [|Hov]; [exact I|].
    destruct (N.ltb_spec (lenN v) (off + lenN bs)) as [Hgrow|Hfits].
    - eapply wp_mono; [apply (enlarge_value_spec ops CN); eassumption| |intros ? ? []].
      intros s2 r' VP. pose proof VP as (A2 & B2 & T2 & -> & Hlm & Htx2 & Hdur2).
      apply wp_bind. unfold value_start. cbn [r_pos].
      apply (write_value_spec s2 A2 i (pad_to v (off + lenN bs)) B2 off bs); [exact T2|rewrite lenN_pad_to; lia|].
      intros s3 T3 Htx3 Hdur3. rewrite bs_write_pad in T3 by lia.
      assert (VP3 : vpost s1 A i B (bs_write v (N.to_nat off) bs) s3
                          {| r_index := i; r_pos := 24 + slen A2; r_size := lenN (bs_write v (N.to_nat off) bs) |}).
      { exists A2, B2. split; [exact T3|]. split; [reflexivity|]. split; [exact Hlm|]. split; congruence. }
      destruct (finish_vpost s s1 A i v B _ s3 _ eq_refl eq_refl Hi VP3) as [Htx3' OP].
      apply (wp_tx_commit ops CN); [exact Htx3'|lia|].
      exists v. split; [exact Hi|]. split; [exact Hget|exact OP].
    - apply wp_ret. apply wp_bind. unfold value_start. cbn [r_pos].
      apply (write_value_spec s1 A i v B off bs); [exact T1|lia|].
      intros s3 T3 Htx3 Hdur3.
      assert (VP3 : vpost s1 A i B (bs_write v (N.to_nat off) bs) s3
                          {| r_index := i; r_pos := 24 + slen A; r_size := lenN (bs_write v (N.to_nat off) bs) |}).
      { exists A, B. split; [exact T3|]. split; [reflexivity|]. split; [reflexivity|]. split; assumption. }
      destruct (finish_vpost s s1 A i v B _ s3 _ eq_refl eq_refl Hi VP3) as [Htx3' OP].
      apply (wp_tx_commit ops CN); [exact Htx3'|lia|].
      exists v. split; [exact Hi|]. split; [exact Hget|exact OP].
  Qed.


  (* opost with a transaction open: the durable content does not move *)
  (* ---------- resize_value ---------- *)
  Lemma resize_spec s rg i new :
    tiles s rg ->
    wp (resize_value cdata ops i new) s
       (fun s' _ => exists v, i <> 0 /\ m_get rg i = Some v /\
                              opost s (fun j => if j =? i then Some (pad_to v new) else m_get rg j) s')
       (fun s' e => e = SeNotFound /\ (i = 0 \/ m_get rg i = None) /\ s' = s).
  Proof.
    intros T. unfold resize_value. apply wp_bind. apply (lookup_spec s rg i); [exact T| |intros H; auto].
    intros A v B -> Hi HA HB.
    assert (Hget : m_get (A ++ (i, v) :: B) i = Some v).
    { rewrite m_get_app, HA. cbn [m_get]. rewrite N.eqb_refl. reflexivity. }
    apply wp_bind, wp_tx_begin. intros Htx. cbn [r_size].
    set (s1 := set_tx cdata s (tx s + 1)).
    assert (T1 : tiles s1 (A ++ (i, v) :: B)) by (apply tiles_set_tx; exact T).
    assert (Fin : forall s2 r', vpost s1 A i B (pad_to v new) s2 r' ->
                    wp (tx_commit cdata ops (tx s + 1)) s2
                       (fun s' _ => exists v0, i <> 0 /\ m_get (A ++ (i, v) :: B) i = Some v0 /\
                           opost s (fun j => if j =? i then Some (pad_to v0 new) else m_get (A ++ (i, v) :: B) j) s')
                       (fun s' e => e = SeNotFound /\ (i = 0 \/ m_get (A ++ (i, v) :: B) i = None) /\ s' = s)).
    { intros s2 r' VP. destruct (vpost_get _ _ _ _ v _ _ _ Hi VP) as (rg' & T' & Hg & Htx' & Hdur').
      apply (wp_tx_commit ops CN); [rewrite Htx'; reflexivity|lia|].
      exists v. split; [exact Hi|]. split; [exact Hget|].
      eapply opost_commit; [exact T'|exact Hg|rewrite Htx'; reflexivity|rewrite Hdur'; reflexivity]. }
    apply wp_bind.
    destruct (N.ltb_spec (lenN v) new) as [Hgrow|Hngrow].
    - apply wp_bind. eapply wp_mono; [apply (enlarge_value_spec ops CN); eassumption| |intros ? ? []].
      intros s2 r' VP. apply wp_ret. apply Fin with (r' := r'). exact VP.
    - destruct (N.ltb_spec new (lenN v)) as [Hshrink|Hsame].
      + apply wp_bind. eapply wp_mono; [apply (shrink_value_spec ops CN); eassumption| |intros ? ? []].
        intros s2 r' VP. apply wp_ret. apply Fin with (r' := r'). exact VP.
      + apply wp_ret. assert (new = lenN v) by lia. subst new.
        apply Fin with (r' := {| r_index := i; r_pos := 24 + slen A; r_size := lenN (pad_to v (lenN v)) |}).
        exists A, B. rewrite pad_to_same. split; [exact T1|]. split; [reflexivity|]. split; [reflexivity|split; reflexivity].
  Qed.

  Lemma opost_open s F s' : tx s <> 0 -> opost s F s' ->
    exists rg', tiles s' rg' /\ (forall j, j <> 0 -> m_get rg' j = F j) /\ tx s' = tx s /\ dur (sdata s') = dur (sdata s).
  Proof.
    intros Ht (rg' & T' & HF & Htx & Hdur). exists rg'.
    split; [exact T'|]. split; [exact HF|]. split; [exact Htx|].
    destruct (N.eqb_spec (tx s) 0); [congruence|exact Hdur].
  Qed.

  (* ---------- replace_with_bytes ---------- *)
  Lemma replace_spec s rg i bs :
    tiles s rg ->
    wp (replace_with_bytes cdata ops i bs) s
       (fun s' _ => i <> 0 /\ m_get rg i <> None /\ opost s (fun j => if j =? i then Some bs else m_get rg j) s')
       (fun s' e => e = SeNotFound /\ (i = 0 \/ m_get rg i = None) /\ s' = set_tx cdata s (tx s + 1)).
  Proof.
    intros T. unfold replace_with_bytes. apply wp_bind, wp_tx_begin. intros Htx.
    set (s1 := set_tx cdata s (tx s + 1)).
    assert (T1 : tiles s1 rg) by (apply tiles_set_tx; exact T).
    assert (Ht1 : tx s1 <> 0) by (unfold s1; st; lia).
    apply wp_bind. eapply wp_mono; [apply (insert_at_spec s1 rg i 0 bs T1)| |intros s' e H; exact H].
    intros s2 _ (v & Hi & Hget & OP2).
    destruct (opost_open _ _ _ Ht1 OP2) as (rg2 & T2 & Hg2 & Htx2 & Hdur2).
    assert (Ht2 : tx s2 <> 0) by congruence.
    apply wp_bind. eapply wp_mono; [apply (resize_spec s2 rg2 i (lenN bs) T2)| |].
    2:{ intros s' e (_ & Hnone & _). exfalso. rewrite (Hg2 i Hi), N.eqb_refl in Hnone. destruct Hnone; congruence. }
    intros s3 _ (v2 & _ & Hget2 & OP3).
    destruct (opost_open _ _ _ Ht2 OP3) as (rg3 & T3 & Hg3 & Htx3 & Hdur3).
    apply (wp_tx_commit ops CN); [rewrite Htx3, Htx2; reflexivity|lia|].
    split; [exact Hi|]. split; [congruence|].
    eapply opost_commit; [exact T3| |rewrite Htx3, Htx2; reflexivity|rewrite Hdur3, Hdur2; reflexivity].
    intros j Hj. rewrite (Hg3 j Hj). destruct (N.eqb_spec j i) as [->|Hji].
    - rewrite (Hg2 i Hi), N.eqb_refl in Hget2. injection Hget2 as <-. unfold v_insert_at.
      change (N.to_nat 0) with 0%nat. rewrite pad_to_write0. reflexivity.
    - rewrite (Hg2 j Hj). destruct (N.eqb_spec j i); [congruence|reflexivity].
  Qed.

  (* ---------- reads ---------- *)
  Definition read_err (s : ST) (rg : list region) (i : N) (bad : bytes -> Prop) (s' : ST) (e : serr) : Prop :=
    s' = s /\ ((e = SeNotFound /\ (i = 0 \/ m_get rg i = None)) \/
               (e = SeOutOfBounds /\ exists v, i <> 0 /\ m_get rg i = Some v /\ bad v)).

  Lemma value_size_spec s rg i :
    tiles s rg ->
    wp (value_size cdata i) s
       (fun s' n => s' = s /\ exists v, i <> 0 /\ m_get rg i = Some v /\ n = lenN v)
       (read_err s rg i (fun _ => False)).
  Proof.
    intros T. unfold value_size. apply wp_bind. apply (lookup_spec s rg i); [exact T| |intros H; split; auto].
    intros A v B -> Hi HA HB. apply wp_ret. split; [reflexivity|]. exists v. split; [exact Hi|].
    rewrite m_get_app, HA. cbn [m_get]. rewrite N.eqb_refl. auto.
  Qed.

  Lemma value_at_size_spec s rg i off n :
    tiles s rg ->
    wp (value_as_bytes_at_size cdata ops i off n) s
       (fun s' b => s' = s /\ exists v, i <> 0 /\ m_get rg i = Some v /\ off <= lenN v /\ off + n <= lenN v /\
                                        b = bs_read v (N.to_nat off) (N.to_nat n))
       (read_err s rg i (fun v => lenN v < off \/ lenN v < off + n)).
  Proof.
    intros T. unfold value_as_bytes_at_size. apply wp_bind. apply (lookup_spec s rg i); [exact T| |intros H; split; auto].
    intros A v B -> Hi HA HB. cbn [r_size].
    assert (Hget : m_get (A ++ (i, v) :: B) i = Some v).
    { rewrite m_get_app, HA. cbn [m_get]. rewrite N.eqb_refl. reflexivity. }
    destruct (cur_split _ _ _ _ _ T) as (Hcur2 & HLEN & HPL).
    apply wp_bind. unfold validate_read_size.
    destruct (N.ltb_spec (lenN v) off) as [Hb1|Hok1].
    { split; [reflexivity|]. right. split; [reflexivity|]. exists v. auto. }
    destruct (N.leb_spec two64 (off + n)) as [|Hov]; [exact I|].
    destruct (N.ltb_spec (lenN v) (off + n)) as [Hb2|Hok2].
    { split; [reflexivity|]. right. split; [reflexivity|]. exists v. auto. }
    apply wp_ret. unfold value_start. cbn [r_pos].
    apply (wp_dread ops CN); [lia|].
    split; [reflexivity|]. exists v. split; [exact Hi|]. split; [exact Hget|]. split; [exact Hok1|]. split; [exact Hok2|].
    rewrite Hcur2. apply bs_read_inner; [lia|unfold lenN in *; lia].
  Qed.

  Lemma value_at_spec s rg i off :
    tiles s rg ->
    wp (value_as_bytes_at cdata ops i off) s
       (fun s' b => s' = s /\ exists v, i <> 0 /\ m_get rg i = Some v /\ off <= lenN v /\ b = skipn (N.to_nat off) v)
       (read_err s rg i (fun v => lenN v < off)).
  Proof.
    intros T. unfold value_as_bytes_at. apply wp_bind.
    eapply wp_mono; [apply (value_size_spec s rg i T)| |].
    2:{ intros s' e (-> & [H|(_ & v & _ & _ & [])]). split; [reflexivity|left; exact H]. }
    intros s' n (-> & v & Hi & Hget & ->).
    eapply wp_mono; [apply (value_at_size_spec s rg i off _ T)| |].
    - intros s' b (-> & v' & _ & Hget' & Hoff & Hn & ->). assert (v' = v) by congruence. subst v'.
      split; [reflexivity|]. exists v. split; [exact Hi|]. split; [exact Hget|]. split; [exact Hoff|].
      unfold bs_read. apply firstn_all2. rewrite skipn_length. unfold lenN in *. lia.
    - intros s' e (-> & [H|(-> & v' & _ & Hget' & Hbad)]); (split; [reflexivity|]); [left; exact H|].
      right. split; [reflexivity|]. assert (v' = v) by congruence. subst v'. exists v. split; [exact Hi|]. split; [exact Hget|].
      destruct Hbad; lia.
  Qed.

  Lemma value_spec s rg i :
    tiles s rg ->
    wp (value_as_bytes cdata ops i) s
       (fun s' b => s' = s /\ i <> 0 /\ m_get rg i = Some b)
       (fun s' e => s' = s /\ e = SeNotFound /\ (i = 0 \/ m_get rg i = None)).
  Proof.
    intros T. unfold value_as_bytes. eapply wp_mono; [apply (value_at_spec s rg i 0 T)| |].
    - intros s' b (-> & v & Hi & Hget & _ & ->). auto.
    - intros s' e (-> & [[-> H]|(_ & v & _ & _ & Hbad)]); [auto|lia].
  Qed.

  (* ---------- move_at ---------- *)
  Lemma move_spec s rg i from to size :
    tiles s rg ->
    wp (move_at cdata ops i from to size) s
       (fun s' _ => exists v, i <> 0 /\ m_get rg i = Some v /\ from <= lenN v /\ from + size <= lenN v /\
                              opost s (fun j => if j =? i then Some (v_move v from to size) else m_get rg j) s')
       (read_err s rg i (fun v => lenN v < from \/ lenN v < from + size)).
  Proof.
    intros T. unfold move_at. apply wp_bind.
    eapply wp_mono; [apply (value_at_size_spec s rg i from size T)| |intros s' e H; exact H].
    intros s' b (-> & v & Hi & Hget & Hf1 & Hf2 & ->).
    apply wp_bind, wp_tx_begin. intros Htx.
    set (s1 := set_tx cdata s (tx s + 1)).
    assert (T1 : tiles s1 rg) by (apply tiles_set_tx; exact T).
    assert (Ht1 : tx s1 <> 0) by (unfold s1; st; lia).
    set (b := bs_read v (N.to_nat from) (N.to_nat size)).
    apply wp_bind. eapply wp_mono; [apply (insert_at_spec s1 rg i to b T1)| |].
    2:{ intros s' e (_ & Hnone & _). exfalso. destruct Hnone; congruence. }
    intros s2 _ (v' & _ & Hget' & OP2). assert (v' = v) by congruence. subst v'.
    destruct (opost_open _ _ _ Ht1 OP2) as (rg2 & T2 & Hg2 & Htx2 & Hdur2).
    set (v1 := v_insert_at v to b) in *.
    apply wp_bind. apply (lookup_spec s2 rg2 i); [exact T2| |].
    2:{ intros Hnone. exfalso. rewrite (Hg2 i Hi), N.eqb_refl in Hnone. destruct Hnone; congruence. }
    intros A2 w B2 -> _ HA2 HB2.
    assert (w = v1).
    { pose proof (Hg2 i Hi) as E. rewrite m_get_app, HA2, N.eqb_refl in E. cbn [m_get] in E. rewrite N.eqb_refl in E. congruence. }
    subst w.
    assert (Hlen1 : lenN v <= lenN v1).
    { unfold v1, v_insert_at, lenN. rewrite bs_write_length. lia. }
    assert (Fin : forall s3 w, tiles s3 (A2 ++ (i, w) :: B2) -> tx s3 = tx s2 -> dur (sdata s3) = dur (sdata s2) ->
                    w = v_move v from to size ->
                    wp (tx_commit cdata ops (tx s + 1)) s3
                       (fun s' _ => exists v0, i <> 0 /\ m_get rg i = Some v0 /\ from <= lenN v0 /\ from + size <= lenN v0 /\
                           opost s (fun j => if j =? i then Some (v_move v0 from to size) else m_get rg j) s')
                       (read_err s rg i (fun v => lenN v < from \/ lenN v < from + size))).
    { intros s3 w T3 Htx3 Hdur3 ->.
      apply (wp_tx_commit ops CN); [rewrite Htx3, Htx2; reflexivity|lia|].
      exists v. split; [exact Hi|]. split; [exact Hget|]. split; [exact Hf1|]. split; [exact Hf2|].
      eapply opost_commit; [exact T3| |rewrite Htx3, Htx2; reflexivity|rewrite Hdur3, Hdur2; reflexivity].
      intros j Hj. destruct (N.eqb_spec j i) as [->|Hji].
      - rewrite m_get_app, HA2. cbn [m_get]. rewrite N.eqb_refl. reflexivity.
      - rewrite m_get_skip by assumption. rewrite <- (m_get_skip _ A2 B2 i v1 j Hji), (Hg2 j Hj).
        destruct (N.eqb_spec j i); [congruence|reflexivity]. }
    apply wp_bind. unfold erase_bytes, value_start. cbn [r_pos].
    destruct (N.ltb_spec from to) as [Hlt|Hnlt].
    - apply (write_value_spec s2 A2 i v1 B2 from); [exact T2|rewrite lenN_zeros; lia|].
      intros s3 T3 Htx3 Hdur3. apply (Fin s3 _ T3 Htx3 Hdur3). unfold v_move. fold b. fold v1.
      destruct (N.ltb_spec from to); [reflexivity|lia].
    - destruct (N.ltb_spec to from) as [Hgt|Heq].
      + apply (write_value_spec s2 A2 i v1 B2 (N.max (to + size) from)); [exact T2|rewrite lenN_zeros; lia|].
        intros s3 T3 Htx3 Hdur3. apply (Fin s3 _ T3 Htx3 Hdur3). unfold v_move. fold b. fold v1.
        destruct (N.ltb_spec from to); [lia|]. destruct (N.ltb_spec to from); [reflexivity|lia].
      + apply wp_ret. apply (Fin s2 _ T2 eq_refl eq_refl). unfold v_move. fold b. fold v1.
        destruct (N.ltb_spec from to); [lia|]. destruct (N.ltb_spec to from); [lia|reflexivity].
  Qed.
End Ops2.
