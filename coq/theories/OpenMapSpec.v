(* OpenMapSpec.v — the ABSTRACT specification the open-addressing table (OpenMap.v = multi_map.rs / map.rs)
   is proved to refine (OpenMapRefine*.v, pinned in Props/C19.v).  Definitions only.

   A multimap is a finite MULTISET of (key, value) pairs, written as a list that is only ever compared up to
   `Permutation`.  No hash, no capacity, no slots, no tombstones.

   What each operation of MultiMapImpl means (read off multi_map.rs):
     insert k v                 adds the pair (k, v); duplicates are kept            (`insert` never looks for k)
     insert_or_replace k p v    if some pair (k, w) with p w = true exists: ONE such pair becomes (k, v) and the
                                old w is returned (which one, when several qualify, is not determined by the
                                multiset: it is the first in probe order); otherwise (k, v) is added, None returned
     remove_key k               removes ALL pairs of key k
     remove_value k v           removes ONE pair (k, v) if there is one, else nothing
     value k                    None iff there is no pair of key k, else the value of SOME pair of key k
     values k                   the values of all pairs of key k (as a multiset)
     contains k                 value k <> None;   contains_value k v  =  v is among values k
     len                        the number of pairs;   iter  = all pairs (as a multiset)
     reserve c                  no observable change (neither have the grow / shrink / in-place rehashes that the
                                other operations trigger)

   MapImpl (map.rs) = the same table used with insert := insert_or_replace k (fun _ => true) v only; its
   specification is the ordinary finite map `fm_*` at the end of this file (at most one pair per key,
   value k = the value inserted last). *)
From Coq Require Import List Bool Permutation NArith.
Import ListNotations.
From Agdb Require Import OpenMap.

Section Spec.
  Variables K V : Type.
  Variable keqb : K -> K -> bool.   (* decides equality of keys   (hypothesis of the refinement theorems) *)
  Variable veqb : V -> V -> bool.   (* decides equality of values *)

  Definition mm : Type := list (K * V).

  Definition mm_empty : mm := [].
  Definition mm_values (k : K) (s : mm) : list V := map snd (filter (fun p => keqb (fst p) k) s).
  Definition mm_insert (k : K) (v : V) (s : mm) : mm := (k, v) :: s.
  Definition mm_remove_key (k : K) (s : mm) : mm := filter (fun p => negb (keqb (fst p) k)) s.
  Fixpoint mm_remove_one (k : K) (v : V) (s : mm) : mm :=
    match s with
    | [] => []
    | (k', v') :: t => if keqb k' k && veqb v' v then t else (k', v') :: mm_remove_one k v t
    end.
  Definition mm_contains (k : K) (s : mm) : bool := existsb (fun p => keqb (fst p) k) s.
  Definition mm_contains_value (k : K) (v : V) (s : mm) : bool :=
    existsb (fun p => keqb (fst p) k && veqb (snd p) v) s.
  Definition mm_len (s : mm) : nat := length s.

  (* what an operation of a history shows to its caller *)
  Inductive obs : Type :=
  | ObsUnit                      (* insert, remove_key, remove_value, reserve: Ok(()) *)
  | ObsReplaced (r : option V)   (* insert_or_replace: the replaced value *)
  | ObsValue (r : option V)      (* value (contains = is it Some) *)
  | ObsValues (l : list V).      (* values / iter_key (contains_value, values_count are functions of it) *)

  (* mm_step s o ob s' : on the multimap s the operation o may show ob and leave s' *)
  Inductive mm_step (s : mm) : op K V -> obs -> mm -> Prop :=
  | MsInsert k v : mm_step s (OInsert K V k v) ObsUnit (mm_insert k v s)
  | MsReplace k p v w :
      In w (mm_values k s) -> p w = true ->
      mm_step s (OInsertOrReplace K V k p v) (ObsReplaced (Some w)) (mm_insert k v (mm_remove_one k w s))
  | MsReplaceNone k p v :
      (forall w, In w (mm_values k s) -> p w = false) ->
      mm_step s (OInsertOrReplace K V k p v) (ObsReplaced None) (mm_insert k v s)
  | MsRemoveKey k : mm_step s (ORemoveKey K V k) ObsUnit (mm_remove_key k s)
  | MsRemoveValue k v : mm_step s (ORemoveValue K V k v) ObsUnit (mm_remove_one k v s)
  | MsReserve c : mm_step s (OReserve K V c) ObsUnit s
  | MsValueNone k : mm_values k s = [] -> mm_step s (OValue K V k) (ObsValue None) s
  | MsValueSome k w : In w (mm_values k s) -> mm_step s (OValue K V k) (ObsValue (Some w)) s
  | MsValues k l : Permutation l (mm_values k s) -> mm_step s (OValues K V k) (ObsValues l) s.

  (* mm_run s ops obs s' : the history ops may show the observations obs (one per operation) *)
  Inductive mm_run (s : mm) : list (op K V) -> list obs -> mm -> Prop :=
  | MrNil : mm_run s [] [] s
  | MrCons o ob s1 ops obl s2 :
      mm_step s o ob s1 -> mm_run s1 ops obl s2 -> mm_run s (o :: ops) (ob :: obl) s2.

  (* ---------------- MapImpl: the ordinary finite map ---------------- *)

  Inductive mop : Type :=
  | MInsert (k : K) (v : V)      (* MapImpl::insert: returns the old value *)
  | MRemove (k : K)              (* MapImpl::remove *)
  | MValue (k : K)               (* MapImpl::value / contains *)
  | MReserve (c : nat).

  (* the operation of the underlying table *)
  Definition mop_op (o : mop) : op K V :=
    match o with
    | MInsert k v => OInsertOrReplace K V k (fun _ => true) v
    | MRemove k => ORemoveKey K V k
    | MValue k => OValue K V k
    | MReserve c => OReserve K V c
    end.

  (* association list, newest binding first, one binding per key *)
  Fixpoint fm_get (k : K) (s : mm) : option V :=
    match s with
    | [] => None
    | (k', v) :: t => if keqb k' k then Some v else fm_get k t
    end.
  Definition fm_remove (k : K) (s : mm) : mm := mm_remove_key k s.
  Definition fm_set (k : K) (v : V) (s : mm) : mm := (k, v) :: fm_remove k s.

  Definition fm_step (s : mm) (o : mop) : obs * mm :=
    match o with
    | MInsert k v => (ObsReplaced (fm_get k s), fm_set k v s)
    | MRemove k => (ObsUnit, fm_remove k s)
    | MValue k => (ObsValue (fm_get k s), s)
    | MReserve _ => (ObsUnit, s)
    end.

  Fixpoint fm_run (s : mm) (ops : list mop) : list obs * mm :=
    match ops with
    | [] => ([], s)
    | o :: r => let '(ob, s1) := fm_step s o in let '(obl, s2) := fm_run s1 r in (ob :: obl, s2)
    end.

End Spec.

Arguments ObsUnit {V}.
Arguments ObsReplaced {V} r.
Arguments ObsValue {V} r.
Arguments ObsValues {V} l.

(* ---------------- the table's side: what a history of OpenMap.v operations shows ---------------- *)
Section Observed.
  Variables K V : Type.
  Variable keqb : K -> K -> bool.
  Variable veqb : V -> V -> bool.
  Variable h : K -> N.
  Variable mincap : nat.
  Variable rv : om_revision.

  (* `step` of OpenMap.v (probe fuel = capacity) together with the value returned to the caller *)
  Definition step_obs (m : omap K V) (o : op K V) : outcome (omap K V * obs V) :=
    match o with
    | OInsert _ _ k v =>
        match insert K V h mincap m k v with Done m' => Done (m', ObsUnit) | OutOfFuel => OutOfFuel end
    | OInsertOrReplace _ _ k p v =>
        match insert_or_replace K V keqb h mincap rv m k p v with
        | Done (m', r) => Done (m', ObsReplaced r) | OutOfFuel => OutOfFuel end
    | ORemoveKey _ _ k =>
        match remove_key K V keqb h mincap rv m k with Done m' => Done (m', ObsUnit) | OutOfFuel => OutOfFuel end
    | ORemoveValue _ _ k v =>
        match remove_value K V keqb veqb h mincap rv m k v with Done m' => Done (m', ObsUnit) | OutOfFuel => OutOfFuel end
    | OReserve _ _ c =>
        match reserve K V h mincap m c with Done m' => Done (m', ObsUnit) | OutOfFuel => OutOfFuel end
    | OValue _ _ k =>
        match value K V keqb h m k with Done r => Done (m, ObsValue r) | OutOfFuel => OutOfFuel end
    | OValues _ _ k =>
        match values K V keqb h rv m k with Done l => Done (m, ObsValues l) | OutOfFuel => OutOfFuel end
    end.

  Fixpoint run_obs (m : omap K V) (ops : list (op K V)) : outcome (omap K V * list (obs V)) :=
    match ops with
    | [] => Done (m, [])
    | o :: r =>
        match step_obs m o with
        | OutOfFuel => OutOfFuel
        | Done (m1, ob) =>
            match run_obs m1 r with Done (m2, obl) => Done (m2, ob :: obl) | OutOfFuel => OutOfFuel end
        end
    end.

  (* contains_value / values_count as the code computes them from iter_key *)
  Definition contains_value (m : omap K V) (k : K) (v : V) : outcome bool :=
    match values K V keqb h rv m k with Done l => Done (existsb (fun w => veqb w v) l) | OutOfFuel => OutOfFuel end.
  Definition values_count (m : omap K V) (k : K) : outcome nat :=
    match values K V keqb h rv m k with Done l => Done (length l) | OutOfFuel => OutOfFuel end.
End Observed.
