(* Graph.v — model of agdb/src/graph.rs: the four slot arrays from/to/from_meta/to_meta
   and every operation of GraphImpl, line by line.  Definitions only.

   slot 0          : (from 0, to 0, from_meta = free-list head (i64::MIN = none, else -slot), to_meta = node count)
   node slot n     : from = slot of newest outgoing edge (0 none), from_meta = out-degree,
                     to   = slot of newest incoming edge,          to_meta   = in-degree
   edge slot e (-e): from = -source, to = -target, from_meta = next (older) edge slot of the source's
                     out-list, to_meta = next edge slot of the target's in-list
   freed slot      : from_meta < 0 (next free / i64::MIN), from = to = to_meta = 0 *)
From Agdb Require Import Bytes.
Open Scope Z_scope.

Definition i64_min : Z := -9223372036854775808.

Record graph := {
  g_from : list Z;
  g_to : list Z;
  g_fmeta : list Z;
  g_tmeta : list Z
}.

Definition graph_new : graph :=
  {| g_from := [0]; g_to := [0]; g_fmeta := [i64_min]; g_tmeta := [0] |}.

Definition zabs_nat (i : Z) : nat := Z.to_nat (Z.abs i).

Definition get (l : list Z) (i : Z) : Z := nth (zabs_nat i) l 0.

Fixpoint set_nth (l : list Z) (n : nat) (v : Z) : list Z :=
  match l, n with
  | [], _ => []
  | _ :: r, O => v :: r
  | x :: r, S n' => x :: set_nth r n' v
  end.
Definition set (l : list Z) (i : Z) (v : Z) : list Z := set_nth l (zabs_nat i) v.

Definition capacity (g : graph) : Z := Z.of_nat (length (g_from g)).

Definition from (g : graph) i := get (g_from g) i.
Definition to (g : graph) i := get (g_to g) i.
Definition fmeta (g : graph) i := get (g_fmeta g) i.
Definition tmeta (g : graph) i := get (g_tmeta g) i.
Definition set_from g i v := {| g_from := set (g_from g) i v; g_to := g_to g; g_fmeta := g_fmeta g; g_tmeta := g_tmeta g |}.
Definition set_to g i v := {| g_from := g_from g; g_to := set (g_to g) i v; g_fmeta := g_fmeta g; g_tmeta := g_tmeta g |}.
Definition set_fmeta g i v := {| g_from := g_from g; g_to := g_to g; g_fmeta := set (g_fmeta g) i v; g_tmeta := g_tmeta g |}.
Definition set_tmeta g i v := {| g_from := g_from g; g_to := g_to g; g_fmeta := g_fmeta g; g_tmeta := set (g_tmeta g) i v |}.

Definition node_count (g : graph) : Z := tmeta g 0.

(* validity (is_valid_index / is_valid_node / is_valid_edge) *)
Definition valid_index (g : graph) (i : Z) : bool :=
  negb (i =? 0) && (Z.abs i <? capacity g) && negb (fmeta g i <? 0).
Definition is_node (g : graph) (i : Z) : bool := valid_index g i && (0 <=? from g i).
Definition is_edge (g : graph) (i : Z) : bool := valid_index g i && (from g i <? 0).

(* DbImpl::graph_index: the sign of the id selects which check is made *)
Definition graph_index (g : graph) (id : Z) : bool :=
  if id <? 0 then is_edge g id else if 0 <? id then is_node g id else false.

Definition grow (g : graph) : graph :=
  {| g_from := g_from g ++ [0]; g_to := g_to g ++ [0]; g_fmeta := g_fmeta g ++ [0]; g_tmeta := g_tmeta g ++ [0] |}.

(* get_free_index: returns (slot, graph) *)
Definition get_free_index (g : graph) : Z * graph :=
  let index := fmeta g 0 in
  if index =? i64_min then (capacity g, grow g)
  else
    let next := fmeta g (- index) in
    let g1 := set_fmeta g 0 next in
    let g2 := set_fmeta g1 (- index) 0 in
    (- index, g2).

Definition free_index (g : graph) (index : Z) : graph :=
  let next_free := fmeta g 0 in
  let g1 := set_fmeta g index next_free in
  let g2 := set_fmeta g1 0 (- index) in
  let g3 := set_from g2 index 0 in
  let g4 := set_to g3 index 0 in
  set_tmeta g4 index 0.

Definition insert_node (g : graph) : Z * graph :=
  let '(index, g1) := get_free_index g in
  let count := node_count g1 in
  (index, set_tmeta g1 0 (count + 1)).

Definition update_from_edge (g : graph) (node edge : Z) : graph :=
  let next := from g node in
  let g1 := set_fmeta g edge next in
  let g2 := set_from g1 node (- edge) in
  let count := fmeta g2 node in
  set_fmeta g2 node (count + 1).

Definition update_to_edge (g : graph) (node edge : Z) : graph :=
  let next := to g node in
  let g1 := set_tmeta g edge next in
  let g2 := set_to g1 node (- edge) in
  let count := tmeta g2 node in
  set_tmeta g2 node (count + 1).

(* insert_edge: None = Err (an endpoint is not a node); Some (edge id (negative), graph) *)
Definition insert_edge (g : graph) (f t : Z) : option (Z * graph) :=
  if is_node g f && is_node g t then
    let '(slot, g1) := get_free_index g in
    let index := - slot in
    let g2 := set_from g1 index (- f) in
    let g3 := set_to g2 index (- t) in
    let g4 := update_from_edge g3 f index in
    Some (index, update_to_edge g4 t index)
  else None.

(* walking a singly linked list to the predecessor of `target`; None = out of fuel *)
Fixpoint find_prev (next : Z -> Z) (fuel : nat) (previous target : Z) : option Z :=
  match fuel with
  | O => None
  | S f => if next previous =? target then Some previous
           else find_prev next f (next previous) target
  end.

(* remove_from_edge: unlink edge `index` (negative id) from its source's out-list *)
Definition remove_from_edge (g : graph) (index : Z) : option graph :=
  let node_index := - from g index in
  let first_index := - from g node_index in
  let next := fmeta g index in
  let og :=
    if first_index =? index then Some (set_from g node_index next)
    else match find_prev (fun p => fmeta g p) (length (g_from g)) first_index (- index) with
         | Some previous => Some (set_fmeta g previous next)
         | None => None
         end in
  match og with
  | Some g1 => let count := fmeta g1 node_index in Some (set_fmeta g1 node_index (count - 1))
  | None => None
  end.

Definition remove_to_edge (g : graph) (index : Z) : option graph :=
  let node_index := - to g index in
  let first_index := - to g node_index in
  let next := tmeta g index in
  let og :=
    if first_index =? index then Some (set_to g node_index next)
    else match find_prev (fun p => tmeta g p) (length (g_from g)) first_index (- index) with
         | Some previous => Some (set_tmeta g previous next)
         | None => None
         end in
  match og with
  | Some g1 => let count := tmeta g1 node_index in Some (set_tmeta g1 node_index (count - 1))
  | None => None
  end.

(* remove_edge: no-op on an invalid edge; None = unlink loop out of fuel *)
Definition remove_edge (g : graph) (index : Z) : option graph :=
  if is_edge g index then
    match remove_from_edge g index with
    | Some g1 => match remove_to_edge g1 index with
                 | Some g2 => Some (free_index g2 (- index))
                 | None => None
                 end
    | None => None
    end
  else Some g.

(* remove_from_edges / remove_to_edges of remove_node, on fuel *)
Fixpoint remove_from_edges (fuel : nat) (g : graph) (edge : Z) : option graph :=
  if edge =? 0 then Some g
  else match fuel with
       | O => None
       | S f =>
         match remove_to_edge g edge with
         | Some g1 =>
           let current := - edge in
           let next := - fmeta g1 edge in
           remove_from_edges f (free_index g1 current) next
         | None => None
         end
       end.

Fixpoint remove_to_edges (fuel : nat) (g : graph) (edge : Z) : option graph :=
  if edge =? 0 then Some g
  else match fuel with
       | O => None
       | S f =>
         match remove_from_edge g edge with
         | Some g1 =>
           let current := - edge in
           let next := - tmeta g1 edge in
           remove_to_edges f (free_index g1 current) next
         | None => None
         end
       end.

Definition remove_node (g : graph) (index : Z) : option graph :=
  if is_node g index then
    match remove_from_edges (length (g_from g)) g (- from g index) with
    | Some g1 =>
      match remove_to_edges (length (g_from g)) g1 (- to g1 index) with
      | Some g2 =>
        let g3 := free_index g2 index in
        Some (set_tmeta g3 0 (node_count g3 - 1))
      | None => None
      end
    | None => None
    end
  else Some g.

(* ---- read side ---- *)

Definition first_edge_from (g : graph) (node : Z) : Z := - from g node.   (* edge id or 0 *)
Definition first_edge_to (g : graph) (node : Z) : Z := - to g node.
Definition next_edge_from (g : graph) (edge : Z) : Z := - fmeta g edge.
Definition next_edge_to (g : graph) (edge : Z) : Z := - tmeta g edge.
Definition edge_from (g : graph) (edge : Z) : Z := - from g edge.          (* source node id *)
Definition edge_to (g : graph) (edge : Z) : Z := - to g edge.

(* GraphEdgeIterator: edge ids of a node's out-list / in-list, newest first *)
Fixpoint edge_list (next : Z -> Z) (fuel : nat) (e : Z) : list Z :=
  match fuel with
  | O => []
  | S f => if e =? 0 then [] else e :: edge_list next f (next e)
  end.
Definition out_edges (g : graph) (node : Z) : list Z :=
  edge_list (next_edge_from g) (length (g_from g)) (first_edge_from g node).
Definition in_edges (g : graph) (node : Z) : list Z :=
  edge_list (next_edge_to g) (length (g_from g)) (first_edge_to g node).

Definition edge_count_from (g : graph) (node : Z) : Z := fmeta g node.
Definition edge_count_to (g : graph) (node : Z) : Z := tmeta g node.

(* GraphIterator / next_element: all existing elements in slot order with their sign *)
Definition element_at (g : graph) (slot : nat) : option Z :=
  let i := Z.of_nat slot in
  if fmeta g i <? 0 then None
  else if from g i <? 0 then Some (- i) else Some i.

Definition elements (g : graph) : list Z :=
  flat_map (fun s => match element_at g s with Some e => [e] | None => [] end)
           (seq 1 (length (g_from g) - 1)).
