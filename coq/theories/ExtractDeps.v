(* ExtractDeps.v — every executable model file the OCaml driver is extracted from.
   No proofs are required here, so the model still runs when a proof breaks. *)
From Agdb Require Export Bytes Utf8 Codec DbValue Graph DbModel Search Queries FileWal.
From Agdb Require Raft RaftLog.
From Agdb Require Export ExecSched.
From Agdb Require Export ValueIndex OpenFile.
From Agdb Require Export Records Storage StorageSpec.
(* loaded last: the extraction renames clashing names of LATER libraries, the drivers of the earlier ones keep theirs;
   m_conc.ml / m_derive.ml use only the uniquely named entry points *)
From Agdb Require Export ConcRead DeriveType.
From Agdb Require Export Auth Paths.
(* the storage-backed collections (C05): unique prefixes cp_ cv_ ce_ cl_ cm_ ct_ cg_ ga_ cr_ *)
From Agdb Require Export Collections CollValues.
(* the whole database in the record store (C05 L3): loaded LAST; unique prefix sd_ (+ load_db) *)
From Agdb Require Export StoredDb.
(* the outcome of loading a database from an arbitrary record store (C07): loaded LAST; unique prefix lo_ (+ load_outcome and the constructors Loaded, LErr, LPanic, LHugeAlloc, LFresh, LLegacy) *)
From Agdb Require Export LoadOutcome.
(* the core mutations as storage programs (C05, correspondence (d)): loaded LAST; unique prefix so_ *)
From Agdb Require Export StoredDbOps.
