(* ExtractDeps.v — every executable model file the OCaml driver is extracted from.
   No proofs are required here, so the model still runs when a proof breaks. *)
From Agdb Require Export Bytes Utf8 Codec Auth Paths.
