(* AuthProofsExamples.v — concrete, computed instances showing the hypotheses of the C24 / C25
   theorems are satisfiable by non-trivial states and sequences. *)
From Agdb Require Import Bytes Auth AuthProofs AuthProofsTokens AuthProofsPerm AuthProofsBatch AuthProofsMatrix.
Open Scope N_scope.

(* login, use, expiry, logout *)
Lemma revocation_example :
  let s0 := init_state 0 60 [(0, 1); (1, 101)] in
  let s1 := snd (step s0 5 None (ReqLogin 1 101)) in            (* token 0, expires at 65 *)
  let s2 := snd (step s1 7 (Some 0) (ReqLogout LoCurrent)) in
  tok_wf s1 /\
  fst (step s1 6 (Some 0) ReqStatus) = RespOk 200 (BStatus 1 false 1) /\
  fst (step s1 65 (Some 0) ReqStatus) = RespOk 200 (BStatus 1 false 1) /\
  fst (step s1 66 (Some 0) ReqStatus) = RespErr 401 /\
  fst (step s1 7 (Some 0) (ReqLogout LoCurrent)) = RespOk 201 BNone /\
  fst (step s2 8 (Some 0) ReqStatus) = RespErr 401 /\
  fst (step s2 8 None (ReqLogin 1 101)) = RespOk 200 (BToken 1).
Proof.
  cbv zeta. split; [apply tok_wf_step; apply tok_wf_init|]. vm_compute. repeat split; reflexivity.
Qed.

(* batches by a writer, a failing batch, a denied batch, a read-only batch, the server admin *)
Definition batch_trace : list event :=
  [ (0, Some 3, ReqDb 1 10 (OExecMut [QInsertNode 5; QSetValue [QRes 0; QId 1] 6; QCount]));
    (0, Some 3, ReqDb 1 10 (OExecMut [QInsertNode 8; QSelect [QId 99]]));           (* fails: no node 99 *)
    (0, Some 4, ReqDb 1 10 (OExecMut [QInsertNode 9]));                             (* denied: read role *)
    (0, Some 3, ReqDb 1 10 (OExecMut [QSearch; QSelect [QRes 0]]));                 (* read-only batch *)
    (0, Some 3, ReqDb 1 10 (OExec [QCount]));
    (0, Some 0, ReqAdminDb 1 10 (OExecMut [QRemoveValue [QId 1]; QProbe PRemoveIndex])) ].

Lemma batch_example :
  forallb (fun e => is_batch (snd e)) batch_trace = true /\
  audit_view mx_state 1 10 = Some [] /\
  contributions mx_state batch_trace 1 10 =
    [ (3, QInsertNode 5); (3, QSetValue [QId 2; QId 1] 6); (0, QRemoveValue [QId 1]); (0, QProbe PRemoveIndex) ] /\
  db_view (run mx_state batch_trace) 1 10 =
    Some (mkContent [None; Some 6] false,
          [ (3, QInsertNode 5); (3, QSetValue [QId 2; QId 1] 6); (0, QRemoveValue [QId 1]); (0, QProbe PRemoveIndex) ]).
Proof. vm_compute. repeat split; reflexivity. Qed.

(* a dangling ":k" *)
Lemma injection_example :
  inject [mkRes 1 [(4, [])]; mkRes 2 [(1, []); (2, [])]] [QRes 1; QId 9; QRes 0] = Some [1; 2; 9; 4] /\
  inject [mkRes 1 [(4, [])]] [QRes 1] = None /\
  exec_query (mkContent [Some 1] false) [mkRes 1 [(1, [])]] (QSetValue [QRes 3] 5) = None.
Proof. vm_compute. repeat split; reflexivity. Qed.
