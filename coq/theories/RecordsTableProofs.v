(* RecordsTableProofs.v — the record table of Records.v: live entries, the free-index
   list threaded through slot 0, and the effect of new_record / free_index (remove_index) /
   set_pos / set_size on them. *)
From Agdb Require Import Bytes BytesProofs Records RecordsProofs.
From Coq Require Import ZifyBool ZifyNat ZifyN.
Ltac Zify.zify_post_hook ::= Z.div_mod_to_equations.
Open Scope N_scope.
Arguments N.add : simpl never.
Arguments N.mul : simpl never.
Arguments N.sub : simpl never.
Arguments N.of_nat : simpl never.
Arguments N.to_nat : simpl never.
Arguments N.eqb : simpl never.
Arguments N.ltb : simpl never.
Arguments N.leb : simpl never.

(* the live entry of index i: position and size *)
Definition live_at (l : list srec) (i : N) : option (N * N) :=
  match nth_error l (N.to_nat i) with
  | Some r => if negb (i =? 0) && (r_index r =? i) then Some (r_pos r, r_size r) else None
  | None => None
  end.

(* the free-index list threaded through the table from slot 0 *)
Inductive fchain (l : list srec) : N -> list N -> Prop :=
| fc_nil : fchain l 0 []
| fc_cons h r t : h <> 0 -> nth_error l (N.to_nat h) = Some r -> fchain l (r_index r) t -> fchain l h (h :: t).

Definition twf (l : list srec) : Prop :=
  lenN l < two64 /\
  exists r0 fl, nth_error l 0 = Some r0 /\ fchain l (r_index r0) fl /\ NoDup fl /\
    forall i r, (0 < i)%nat -> nth_error l i = Some r -> In (N.of_nat i) fl \/ r_index r = N.of_nat i.

Lemma fchain_head l h fl : fchain l h fl -> (h = 0 /\ fl = []) \/ (h <> 0 /\ exists t, fl = h :: t).
Proof. intros H; inversion H; subst; [left; auto|right; eauto]. Qed.

Lemma fchain_member l h fl : fchain l h fl -> NoDup fl ->
  forall x, In x fl -> x <> 0 /\ exists r, nth_error l (N.to_nat x) = Some r /\ r_index r <> x /\ (r_index r = 0 \/ In (r_index r) fl).
Proof.
  induction 1 as [|h r t Hh Hn Hc IH]; intros ND x Hx; [destruct Hx|].
  inversion ND as [|? ? Hnotin ND']; subst.
  destruct Hx as [<-|Hx].
  - split; [assumption|]. exists r. split; [assumption|].
    destruct (fchain_head _ _ _ Hc) as [[E1 E2]|[E1 [t' E2]]].
    + split; [congruence|auto].
    + subst t. split; [|right; right; left; reflexivity].
      intros E. apply Hnotin. rewrite <- E. left; reflexivity.
  - destruct (IH ND' x Hx) as (Hx0 & r' & Hr' & Hne & Hnext). split; [assumption|].
    exists r'. repeat split; auto. destruct Hnext; [auto|right; right; assumption].
Qed.

Lemma fchain_ext l l' h fl :
  (forall x, In x fl -> option_map r_index (nth_error l' (N.to_nat x)) = option_map r_index (nth_error l (N.to_nat x))) ->
  fchain l h fl -> fchain l' h fl.
Proof.
  intros Hext H. induction H as [|h r t Hh Hn Hc IH]; [constructor|].
  pose proof (Hext h (or_introl eq_refl)) as E. rewrite Hn in E. cbn in E.
  destruct (nth_error l' (N.to_nat h)) as [r'|] eqn:E'; [|discriminate]. cbn in E. injection E as E.
  econstructor; [assumption|exact E'|]. rewrite E. apply IH. intros x Hx. apply Hext. right; assumption.
Qed.

Lemma twf_same_index l l' :
  length l' = length l ->
  (forall i, option_map r_index (nth_error l' i) = option_map r_index (nth_error l i)) ->
  twf l -> twf l'.
Proof.
  intros HL HI (Hlen & r0 & fl & H0 & Hc & ND & Hall).
  split; [unfold lenN in *; rewrite HL; assumption|].
  pose proof (HI 0%nat) as E0. rewrite H0 in E0. destruct (nth_error l' 0) as [r0'|] eqn:E0'; [|discriminate].
  cbn in E0. injection E0 as E0.
  exists r0', fl. split; [reflexivity|]. split.
  { rewrite E0. eapply fchain_ext; [|exact Hc]. intros x _. apply HI. }
  split; [assumption|].
  intros i r Hi Hr. pose proof (HI i) as E. rewrite Hr in E.
  destruct (nth_error l i) as [r1|] eqn:E1; [|discriminate]. cbn in E. injection E as E.
  rewrite E. eapply Hall; eassumption.
Qed.

Lemma twf_new : twf (recs records_new).
Proof.
  split; [unfold lenN, two64; cbn [length recs records_new]; lia|]. exists rec0, []. cbn [recs records_new nth_error]. split; [reflexivity|].
  split; [constructor|]. split; [constructor|]. intros [|[|i]] r Hi; cbn; try discriminate; lia.
Qed.

Lemma live_at_0 l : live_at l 0 = None.
Proof. unfold live_at. destruct (nth_error l (N.to_nat 0)); reflexivity. Qed.

Lemma live_at_some l i p n :
  live_at l i = Some (p, n) <-> i <> 0 /\ nth_error l (N.to_nat i) = Some {| r_index := i; r_pos := p; r_size := n |}.
Proof.
  unfold live_at. destruct (nth_error l (N.to_nat i)) as [[ri rp rn]|]; cbn [r_index r_pos r_size].
  - destruct (N.eqb_spec i 0) as [Hi|Hi], (N.eqb_spec ri i) as [Hr|Hr]; cbn [negb andb].
    + split; [discriminate|]. intros [H _]. contradiction.
    + split; [discriminate|]. intros [H _]; contradiction.
    + subst ri. split; [intros [= -> ->]; auto|intros [_ [= -> ->]]; reflexivity].
    + split; [discriminate|]. intros [_ [= E _ _]]. contradiction.
  - split; [discriminate|intros [_ H]; discriminate].
Qed.

Lemma live_at_lt l i p n : live_at l i = Some (p, n) -> i < lenN l.
Proof. intros H. apply live_at_some in H. destruct H as [_ H]. apply nth_error_some_lt in H. unfold lenN. lia. Qed.

(* a member of the free-index list is not live *)
Lemma free_not_live l h fl : fchain l h fl -> NoDup fl -> forall x, In x fl -> live_at l x = None.
Proof.
  intros Hc ND x Hx. destruct (fchain_member _ _ _ Hc ND x Hx) as (Hx0 & r & Hr & Hne & _).
  unfold live_at. rewrite Hr. destruct (N.eqb_spec (r_index r) x); [congruence|]. now rewrite andb_false_r.
Qed.

(* record(index) never indexes out of range and answers exactly the live entries *)
Lemma record_spec rs i : twf (recs rs) ->
  record rs i = Some (match live_at (recs rs) i with
                      | Some (p, n) => Some {| r_index := i; r_pos := p; r_size := n |}
                      | None => None end).
Proof.
  intros (Hlen & r0 & fl & H0 & Hc & ND & Hall). unfold record, rget, live_at.
  destruct (nth_error (recs rs) (N.to_nat i)) as [r|] eqn:Er; [|reflexivity].
  unfold is_valid, rget.
  destruct (N.eqb_spec (r_index r) 0) as [Ez|Enz].
  { destruct (N.eqb_spec i 0); cbn [negb andb]; [reflexivity|].
    destruct (N.eqb_spec (r_index r) i); [congruence|reflexivity]. }
  assert (Hcase : (r_index r = i /\ i <> 0) \/ (In (r_index r) fl /\ r_index r <> i) \/ (i = 0 /\ In (r_index r) fl)).
  { destruct (N.eqb_spec i 0) as [->|Hi].
    - right; right. split; [reflexivity|]. change (N.to_nat 0) with 0%nat in Er. assert (r = r0) by congruence. subst r.
      destruct (fchain_head _ _ _ Hc) as [[E _]|[_ [t ->]]]; [congruence|left; reflexivity].
    - destruct (Hall (N.to_nat i) r ltac:(lia) Er) as [Hin|Hidx].
      + right; left. rewrite N2Nat.id in Hin.
        destruct (fchain_member _ _ _ Hc ND i Hin) as (_ & r' & Hr' & Hne & Hnext).
        assert (r' = r) by congruence. subst r'. split; [|assumption]. destruct Hnext; [congruence|assumption].
      + left. rewrite N2Nat.id in Hidx. auto. }
  destruct Hcase as [[E Hi]|[[Hin Hne]|[-> Hin]]].
  - rewrite E, Er, E, N.eqb_refl. destruct (N.eqb_spec i 0); [congruence|]. cbn [negb andb].
    destruct r as [ri rp rn]; cbn in *; subst; reflexivity.
  - destruct (fchain_member _ _ _ Hc ND _ Hin) as (_ & r' & Hr' & Hne' & _). rewrite Hr'.
    destruct (N.eqb_spec (r_index r') (r_index r)); [congruence|].
    destruct (N.eqb_spec (r_index r) i); [congruence|]. now rewrite andb_false_r.
  - destruct (fchain_member _ _ _ Hc ND _ Hin) as (_ & r' & Hr' & Hne' & _). rewrite Hr'.
    destruct (N.eqb_spec (r_index r') (r_index r)); [congruence|]. reflexivity.
Qed.

Lemma head_free_eq rs r0 : nth_error (recs rs) 0 = Some r0 -> head_free rs = r_index r0.
Proof. intros H. unfold head_free. now rewrite (nth_error_nth _ _ rec0 _ H). Qed.

Lemma nth_error_set_head l h i r0 : nth_error l 0 = Some r0 ->
  nth_error (set_head l h) i = if Nat.eqb i 0 then Some {| r_index := h; r_pos := r_pos r0; r_size := r_size r0 |} else nth_error l i.
Proof.
  intros H0. unfold set_head. rewrite nth_error_upd, (nth_error_nth _ _ rec0 _ H0).
  destruct (Nat.eqb_spec i 0); [|reflexivity].
  apply nth_error_some_lt in H0. destruct (Nat.ltb_spec 0 (length l)); [reflexivity|lia].
Qed.

Lemma set_head_length l h : length (set_head l h) = length l.
Proof. apply upd_length. Qed.

Lemma new_record_spec rs pos n :
  twf (recs rs) ->
  match new_record rs pos n with
  | None => two64 <= lenN (recs rs) + 1
  | Some (rs', r) =>
    r = {| r_index := r_index r; r_pos := pos; r_size := n |} /\ r_index r <> 0 /\ r_index r < two64 /\
    live_at (recs rs) (r_index r) = None /\
    (forall i, live_at (recs rs') i = if i =? r_index r then Some (pos, n) else live_at (recs rs) i) /\
    twf (recs rs') /\ fps rs' = fps rs /\ fsp rs' = fsp rs
  end.
Proof.
  intros W. pose proof W as (Hlen & r0 & fl & H0 & Hc & ND & Hall).
  unfold new_record. rewrite (head_free_eq _ _ H0).
  destruct (N.eqb_spec (r_index r0) 0) as [Ez|Enz]; cbn [negb].
  - (* append *)
    destruct (N.leb_spec two64 (lenN (recs rs) + 1)) as [|Hcap]; [assumption|].
    cbn [r_index recs set_recs fps fsp].
    assert (L1 : (1 <= length (recs rs))%nat) by (apply nth_error_some_lt in H0; lia).
    assert (Hfl : fl = []) by (destruct (fchain_head _ _ _ Hc) as [[_ E]|[E _]]; [assumption|congruence]). subst fl.
    split; [reflexivity|]. split; [unfold lenN; lia|]. split; [unfold lenN in *; lia|].
    split.
    { unfold live_at. unfold lenN. rewrite Nat2N.id.
      destruct (nth_error (recs rs) (length (recs rs))) eqn:E; [|reflexivity].
      apply nth_error_some_lt in E. lia. }
    split.
    { intros i. unfold live_at. destruct (N.eqb_spec i (lenN (recs rs))) as [->|Hi].
      - unfold lenN. rewrite Nat2N.id, nth_error_app2, Nat.sub_diag by lia. cbn [nth_error r_index r_pos r_size].
        rewrite N.eqb_refl. destruct (N.eqb_spec (N.of_nat (length (recs rs))) 0); [lia|reflexivity].
      - destruct (Nat.ltb_spec (N.to_nat i) (length (recs rs))).
        + now rewrite nth_error_app1.
        + rewrite nth_error_app2 by lia.
          destruct (N.to_nat i - length (recs rs))%nat as [|k] eqn:Ek; [unfold lenN in Hi; lia|].
          cbn [nth_error]. destruct k; cbn [nth_error].
          * destruct (nth_error (recs rs) (N.to_nat i)) eqn:E; [apply nth_error_some_lt in E; lia|reflexivity].
          * destruct (nth_error (recs rs) (N.to_nat i)) eqn:E; [apply nth_error_some_lt in E; lia|reflexivity]. }
    split; [|split; reflexivity].
    split; [unfold lenN in *; rewrite app_length; cbn [length]; lia|].
    exists r0, []. split; [rewrite nth_error_app1 by lia; assumption|].
    split; [rewrite Ez; constructor|]. split; [constructor|].
    intros i r Hi Hr. right.
    destruct (Nat.ltb_spec i (length (recs rs))).
    + rewrite nth_error_app1 in Hr by lia. destruct (Hall i r Hi Hr) as [Hf|Hx]; [destruct Hf|exact Hx].
    + rewrite nth_error_app2 in Hr by lia.
      destruct (i - length (recs rs))%nat as [|k] eqn:Ek; cbn [nth_error] in Hr.
      * injection Hr as <-. cbn [r_index]. unfold lenN. f_equal. lia.
      * destruct k; discriminate.
  - (* pop the free-index list *)
    destruct (fchain_head _ _ _ Hc) as [[E _]|[_ [t ->]]]; [congruence|].
    set (h := r_index r0) in *.
    inversion Hc as [|h' rh t' Hh Hrh Hct]; subst h' t'.
    unfold rget. rewrite Hrh. cbn [r_index recs set_recs fps fsp].
    inversion ND as [|? ? Hnotin ND']; subst.
    assert (Hh0 : N.to_nat h <> 0%nat) by lia.
    assert (NE : forall i, nth_error (upd (set_head (recs rs) (r_index rh)) (N.to_nat h) {| r_index := h; r_pos := pos; r_size := n |}) i =
                           if Nat.eqb i (N.to_nat h) then Some {| r_index := h; r_pos := pos; r_size := n |}
                           else if Nat.eqb i 0 then Some {| r_index := r_index rh; r_pos := r_pos r0; r_size := r_size r0 |}
                           else nth_error (recs rs) i).
    { intros i. rewrite nth_error_upd, set_head_length, (nth_error_set_head _ _ _ _ H0).
      destruct (Nat.eqb_spec i (N.to_nat h)); [|reflexivity].
      apply nth_error_some_lt in Hrh. destruct (Nat.ltb_spec (N.to_nat h) (length (recs rs))); [reflexivity|lia]. }
    split; [reflexivity|]. split; [assumption|].
    split. { apply nth_error_some_lt in Hrh. unfold lenN in Hlen. lia. }
    split. { apply (free_not_live _ _ _ Hc ND). cbn [In]. left; reflexivity. }
    split.
    { intros i. unfold live_at. rewrite NE.
      destruct (N.eqb_spec i h) as [->|Hi].
      - rewrite Nat.eqb_refl. cbn [r_index r_pos r_size]. rewrite N.eqb_refl.
        destruct (N.eqb_spec h 0); [congruence|reflexivity].
      - destruct (Nat.eqb_spec (N.to_nat i) (N.to_nat h)); [lia|].
        destruct (Nat.eqb_spec (N.to_nat i) 0) as [Ei|Ei]; [|reflexivity].
        assert (i = 0) by lia. subst i. change (N.to_nat 0) with 0%nat. rewrite H0. reflexivity. }
    split; [|split; reflexivity].
    split; [unfold lenN in *; rewrite upd_length, set_head_length; assumption|].
    exists {| r_index := r_index rh; r_pos := r_pos r0; r_size := r_size r0 |}, t.
    split. { rewrite NE. destruct (Nat.eqb_spec 0 (N.to_nat h)); [lia|reflexivity]. }
    split.
    { cbn [r_index]. eapply fchain_ext; [|exact Hct]. intros x Hx. rewrite NE.
      destruct (fchain_member _ _ _ Hct ND' x Hx) as (Hx0 & _).
      destruct (Nat.eqb_spec (N.to_nat x) (N.to_nat h)) as [E|E].
      - exfalso. apply Hnotin. assert (x = h) by lia. subst x. assumption.
      - destruct (Nat.eqb_spec (N.to_nat x) 0); [lia|reflexivity]. }
    split; [assumption|].
    intros i r Hi Hr. rewrite NE in Hr.
    destruct (Nat.eqb_spec i (N.to_nat h)) as [->|E].
    + injection Hr as <-. right. cbn [r_index]. lia.
    + destruct (Nat.eqb_spec i 0); [lia|].
      destruct (Hall i r Hi Hr) as [[E'|Hin]|Hidx]; [lia|left; assumption|right; assumption].
Qed.

Lemma free_index_spec rs j p n :
  twf (recs rs) -> live_at (recs rs) j = Some (p, n) ->
  (forall i, live_at (recs (free_index rs j)) i = if i =? j then None else live_at (recs rs) i) /\
  twf (recs (free_index rs j)) /\ fps (free_index rs j) = fps rs /\ fsp (free_index rs j) = fsp rs /\
  length (recs (free_index rs j)) = length (recs rs).
Proof.
  intros W HL. pose proof W as (Hlen & r0 & fl & H0 & Hc & ND & Hall).
  apply live_at_some in HL. destruct HL as [Hj Hrj].
  unfold free_index, rget. rewrite Hrj, (head_free_eq _ _ H0). cbn [recs set_recs fps fsp].
  set (h := r_index r0) in *.
  set (rj' := {| r_index := h; r_pos := U64MAX; r_size := r_size (nth (N.to_nat j) (recs rs) rec0) |}).
  assert (Hj0 : N.to_nat j <> 0%nat) by lia.
  assert (H0' : nth_error (upd (recs rs) (N.to_nat j) rj') 0 = Some r0).
  { rewrite nth_error_upd. destruct (Nat.eqb_spec 0 (N.to_nat j)); [lia|assumption]. }
  assert (NE : forall i, nth_error (set_head (upd (recs rs) (N.to_nat j) rj') j) i =
                         if Nat.eqb i 0 then Some {| r_index := j; r_pos := r_pos r0; r_size := r_size r0 |}
                         else if Nat.eqb i (N.to_nat j) then Some rj' else nth_error (recs rs) i).
  { intros i. rewrite (nth_error_set_head _ _ _ _ H0'). destruct (Nat.eqb_spec i 0); [reflexivity|].
    rewrite nth_error_upd. destruct (Nat.eqb_spec i (N.to_nat j)); [|reflexivity].
    apply nth_error_some_lt in Hrj. destruct (Nat.ltb_spec (N.to_nat j) (length (recs rs))); [reflexivity|lia]. }
  assert (Hjfl : ~ In j fl).
  { intros Hin. destruct (fchain_member _ _ _ Hc ND j Hin) as (_ & r' & Hr' & Hne & _).
    rewrite Hrj in Hr'. injection Hr' as <-. cbn in Hne. congruence. }
  assert (Hhj : h <> j).
  { destruct (fchain_head _ _ _ Hc) as [[E _]|[_ [t E]]]; [congruence|]. intros ->. apply Hjfl. rewrite E. left; reflexivity. }
  split.
  { intros i. unfold live_at. rewrite NE.
    destruct (N.eqb_spec i j) as [->|Hi].
    - destruct (Nat.eqb_spec (N.to_nat j) 0); [lia|]. rewrite Nat.eqb_refl. cbn [rj' r_index].
      destruct (N.eqb_spec h j); [congruence|]. now rewrite andb_false_r.
    - destruct (Nat.eqb_spec (N.to_nat i) 0) as [Ei|Ei].
      + assert (i = 0) by lia. subst i. change (N.to_nat 0) with 0%nat. rewrite H0. reflexivity.
      + destruct (Nat.eqb_spec (N.to_nat i) (N.to_nat j)); [lia|reflexivity]. }
  split.
  { split; [unfold lenN in *; rewrite set_head_length, upd_length; assumption|].
    exists {| r_index := j; r_pos := r_pos r0; r_size := r_size r0 |}, (j :: fl).
    split; [rewrite NE; reflexivity|]. cbn [r_index].
    split.
    { econstructor; [assumption| |].
      - rewrite NE. destruct (Nat.eqb_spec (N.to_nat j) 0); [lia|]. rewrite Nat.eqb_refl. reflexivity.
      - cbn [rj' r_index]. eapply fchain_ext; [|exact Hc]. intros x Hx. rewrite NE.
        destruct (fchain_member _ _ _ Hc ND x Hx) as (Hx0 & _).
        destruct (Nat.eqb_spec (N.to_nat x) 0); [lia|].
        destruct (Nat.eqb_spec (N.to_nat x) (N.to_nat j)); [|reflexivity].
        exfalso. apply Hjfl. assert (x = j) by lia. subst x. assumption. }
    split; [constructor; assumption|].
    intros i r Hi Hr. rewrite NE in Hr. destruct (Nat.eqb_spec i 0); [lia|].
    destruct (Nat.eqb_spec i (N.to_nat j)) as [->|E].
    - left. left. lia.
    - destruct (Hall i r Hi Hr); [left; right; assumption|right; assumption]. }
  split; [reflexivity|]. split; [reflexivity|]. rewrite set_head_length, upd_length. reflexivity.
Qed.

Lemma set_pos_spec rs j q :
  twf (recs rs) ->
  (forall i, live_at (recs (set_pos rs j q)) i =
             if i =? j then match live_at (recs rs) j with Some (_, n) => Some (q, n) | None => None end else live_at (recs rs) i) /\
  twf (recs (set_pos rs j q)) /\ fps (set_pos rs j q) = fps rs /\ fsp (set_pos rs j q) = fsp rs /\
  length (recs (set_pos rs j q)) = length (recs rs).
Proof.
  intros W. unfold set_pos, rget. destruct (nth_error (recs rs) (N.to_nat j)) as [r|] eqn:Er.
  - cbn [recs set_recs fps fsp].
    assert (NE : forall i, nth_error (upd (recs rs) (N.to_nat j) {| r_index := r_index r; r_pos := q; r_size := r_size r |}) i =
                           if Nat.eqb i (N.to_nat j) then Some {| r_index := r_index r; r_pos := q; r_size := r_size r |} else nth_error (recs rs) i).
    { intros i. rewrite nth_error_upd. destruct (Nat.eqb_spec i (N.to_nat j)); [|reflexivity].
      apply nth_error_some_lt in Er. destruct (Nat.ltb_spec (N.to_nat j) (length (recs rs))); [reflexivity|lia]. }
    split.
    { intros i. unfold live_at. rewrite NE. destruct (N.eqb_spec i j) as [->|Hi].
      - rewrite Nat.eqb_refl, Er. cbn [r_index r_pos r_size].
        destruct (negb (j =? 0) && (r_index r =? j)); reflexivity.
      - destruct (Nat.eqb_spec (N.to_nat i) (N.to_nat j)); [lia|reflexivity]. }
    split.
    { eapply twf_same_index; [apply upd_length| |exact W]. intros i. rewrite NE.
      destruct (Nat.eqb_spec i (N.to_nat j)) as [->|]; [rewrite Er|]; reflexivity. }
    repeat split. apply upd_length.
  - split.
    { intros i. destruct (N.eqb_spec i j) as [->|]; [|reflexivity]. unfold live_at. rewrite Er. reflexivity. }
    split; [exact W|]. repeat split.
Qed.

Lemma set_size_spec rs j m :
  twf (recs rs) ->
  (forall i, live_at (recs (set_size rs j m)) i =
             if i =? j then match live_at (recs rs) j with Some (p, _) => Some (p, m) | None => None end else live_at (recs rs) i) /\
  twf (recs (set_size rs j m)) /\ fps (set_size rs j m) = fps rs /\ fsp (set_size rs j m) = fsp rs /\
  length (recs (set_size rs j m)) = length (recs rs).
Proof.
  intros W. unfold set_size, rget. destruct (nth_error (recs rs) (N.to_nat j)) as [r|] eqn:Er.
  - cbn [recs set_recs fps fsp].
    assert (NE : forall i, nth_error (upd (recs rs) (N.to_nat j) {| r_index := r_index r; r_pos := r_pos r; r_size := m |}) i =
                           if Nat.eqb i (N.to_nat j) then Some {| r_index := r_index r; r_pos := r_pos r; r_size := m |} else nth_error (recs rs) i).
    { intros i. rewrite nth_error_upd. destruct (Nat.eqb_spec i (N.to_nat j)); [|reflexivity].
      apply nth_error_some_lt in Er. destruct (Nat.ltb_spec (N.to_nat j) (length (recs rs))); [reflexivity|lia]. }
    split.
    { intros i. unfold live_at. rewrite NE. destruct (N.eqb_spec i j) as [->|Hi].
      - rewrite Nat.eqb_refl, Er. cbn [r_index r_pos r_size].
        destruct (negb (j =? 0) && (r_index r =? j)); reflexivity.
      - destruct (Nat.eqb_spec (N.to_nat i) (N.to_nat j)); [lia|reflexivity]. }
    split.
    { eapply twf_same_index; [apply upd_length| |exact W]. intros i. rewrite NE.
      destruct (Nat.eqb_spec i (N.to_nat j)) as [->|]; [rewrite Er|]; reflexivity. }
    repeat split. apply upd_length.
  - split.
    { intros i. destruct (N.eqb_spec i j) as [->|]; [|reflexivity]. unfold live_at. rewrite Er. reflexivity. }
    split; [exact W|]. repeat split.
Qed.
