(* C02 — A database interrupted by a crash always reopens and is fully readable.
   Pinned statements only; proofs live in theories/CrashProofs.v (on top of C01).

   FULL STATEMENT (not proved as one theorem): for every history of mutating queries and every
   crash cut, opening the recovered file with any file-backed variant succeeds and every element,
   property, alias and index can be read.
   PROVED PART (C02_reduction): the recovered file is byte-for-byte the file as it was at the
   completion of some flush (or the initial file); with C03_no_inner_flush the flush points are
   exactly the boundaries between queries / transactions (and after the creation of the
   database).  NOT PROVED: that the file at such a boundary loads into consistent collection
   structures (that would be a verified database stack L1..L3); it is checked by the harness for
   every sampled crash snapshot of generated histories (reopen with DbFile / Db / DbAny, full read,
   state invariants, dump equal to the dump before or after the interrupted query). *)
From Agdb Require Import Bytes FileWal FileWalProofs TxnNesting CrashProofs CrashGuardProofs.
Open Scope nat_scope.

Theorem C02_reduction_partial :
  forall (d0 : bytes) (ops : list op) (k j : nat),
    wp d0 ops ->
    let st := {| data := d0; wal := [] |} in
    In (data (recover walrev_fixed (crash st (trace walrev_fixed st ops) k j))) (d0 :: flush_points st ops).
Proof. exact crash_recovers_a_flush_point. Qed.
Print Assumptions C02_reduction_partial.

(* the log never survives recovery (a second crash during the next open starts clean) *)
Theorem C02_log_empty_after_recovery :
  forall (d0 : bytes) (ops : list op) (k j : nat),
    wp d0 ops ->
    let st := {| data := d0; wal := [] |} in
    wal (recover walrev_fixed (crash st (trace walrev_fixed st ops) k j)) = [].
Proof. intros. reflexivity. Qed.
Print Assumptions C02_log_empty_after_recovery.

(* the same for the recovery WITH the position guard of apply_wal_record (recover_g: a log record beyond the
   current end of the file is an error, None): on every crash cut the guard does not fire, recovery
   succeeds, the log is empty and the file is the file at some completed flush *)
Theorem C02_reduction_guarded_partial :
  forall (d0 : bytes) (ops : list op) (k j : nat),
    wp d0 ops ->
    let st := {| data := d0; wal := [] |} in
    exists r, recover_g walrev_fixed (crash st (trace walrev_fixed st ops) k j) = Some r /\
              wal r = [] /\ In (data r) (d0 :: flush_points st ops).
Proof. exact crash_recovers_a_flush_point_g. Qed.
Print Assumptions C02_reduction_guarded_partial.
