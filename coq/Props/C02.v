(* C02 — A database interrupted by a crash always reopens and is fully readable.
   Pinned statements only; proofs live in theories/CrashProofs.v (on top of C01).

   FULL STATEMENT (not proved as one theorem): for every history of mutating queries and every
   crash cut, opening the recovered file with any file-backed variant succeeds and every element,
   property, alias and index can be read.
   PROVED PART (C02_reduction): the recovered file is byte-for-byte the file as it was at the
   completion of some flush (or the initial file); with C03_no_inner_flush the flush points are
   exactly the boundaries between queries / transactions (and after the creation of the
   database).  NOT PROVED: that the file at such a boundary loads into consistent collection
   structures (that would be a verified database stack L1..L3); it is checked by the harness for
   every sampled crash snapshot of generated histories (reopen with DbFile / Db / DbAny, full read,
   state invariants, dump equal to the dump before or after the interrupted query). *)
From Agdb Require Import Bytes FileWal FileWalProofs TxnNesting CrashProofs CrashGuardProofs.
Open Scope nat_scope.

Theorem C02_reduction_partial :
  forall (d0 : bytes) (ops : list op) (k j : nat),
    wp d0 ops ->
    let st := {| data := d0; wal := [] |} in
    In (data (recover walrev_fixed (crash st (trace walrev_fixed st ops) k j))) (d0 :: flush_points st ops).
Proof. exact crash_recovers_a_flush_point. Qed.
Print Assumptions C02_reduction_partial.

(* the log never survives recovery (a second crash during the next open starts clean) *)
Theorem C02_log_empty_after_recovery :
  forall (d0 : bytes) (ops : list op) (k j : nat),
    wp d0 ops ->
    let st := {| data := d0; wal := [] |} in
    wal (recover walrev_fixed (crash st (trace walrev_fixed st ops) k j)) = [].
Proof. intros. reflexivity. Qed.
Print Assumptions C02_log_empty_after_recovery.

(* the same for the recovery WITH the position guard of apply_wal_record (recover_g: a log record beyond the
   current end of the file is an error, None): on every crash cut the guard does not fire, recovery
   succeeds, the log is empty and the file is the file at some completed flush *)
Theorem C02_reduction_guarded_partial :
  forall (d0 : bytes) (ops : list op) (k j : nat),
    wp d0 ops ->
    let st := {| data := d0; wal := [] |} in
    exists r, recover_g walrev_fixed (crash st (trace walrev_fixed st ops) k j) = Some r /\
              wal r = [] /\ In (data r) (d0 :: flush_points st ops).
Proof. exact crash_recovers_a_flush_point_g. Qed.
Print Assumptions C02_reduction_guarded_partial.

(* ======================= the collection layer: what loads at a flush point =======================
   C02_reduction_partial reduces every crash to the file at a flush point; since fix 5d951b7 (C03) the flush points
   are the boundaries between queries / transactions, where the storage's record map is the committed one.
   PROVED HERE (collection layer, theories/Coll*.v; models and notions as in Props/C05.v): in EVERY state of the
   abstract record map in which the representation invariant of a storage-backed vector / map / graph holds — and
   C05_vec_history, C05_map_history, C05_graph_history show that it holds after every history of operations, reloads
   and maintenance that ends with no transaction open — the loaders (DbVec::from_storage incl. its length check,
   DbMapData::from_storage, GraphDataStorage::from_storage) succeed and read back exactly the content; by
   C05_cwp_sound the same holds on the model of storage.rs.
   STILL NOT PROVED (hence _partial): (1) that the state of the record map INSIDE one collection operation cut by a
   crash is never observed — that is C03's single outer storage transaction (C03_no_inner_flush) composed with C01;
   (2) the composition of the collections into the whole DbImpl (root record -> graph, two alias maps, index vector
   of multi-maps, value vectors); both remain covered by the crash harness. *)
From Agdb Require Import Storage StorageSpec Collections CollWp CollVecBase CollVec CollMap CollGraph CollAgree.

Theorem C02_vec_loads_partial :
  forall (fl : bool) (T : Type) (E : cv_elem T) (L : elem_law E) h slots l sp,
    vrep T E L (hp sp) h slots l ->
    cwp fl (h' <~ cv_from_storage T E (cv_index h) ;; cv_values T E h') sp (fun r sp' => r = CrOk l /\ sp' = sp).
Proof. exact vec_loads. Qed.
Print Assumptions C02_vec_loads_partial.

Theorem C02_map_loads_partial :
  forall (fl : bool) (K V : Type) (EK : cv_elem K) (EV : cv_elem V) (LK : elem_law EK) (LV : elem_law EV) d ss ks vs t sp,
    mrep K V EK EV LK LV (hp sp) d ss ks vs t ->
    cwp fl (cm_from_storage K V EK EV (cm_index d)) sp
        (fun r sp' => exists d', r = CrOk d' /\ sp' = sp /\ mrep K V EK EV LK LV (hp sp) d' ss ks vs t).
Proof. exact map_loads. Qed.
Print Assumptions C02_map_loads_partial.

Theorem C02_graph_loads_partial :
  forall (fl : bool) d s a sp,
    grep (hp sp) d s a -> sdepth sp = 0%N ->
    cwp fl (cg_step d GoReload) sp (fun r sp' => exists d' s', r = CrOk (d', GbUnit) /\ grep (hp sp') d' s' a).
Proof. exact graph_loads. Qed.
Print Assumptions C02_graph_loads_partial.

(* ======================= the database level: the WHOLE database loads =======================
   (models, the relation stored_db and the loader load_db: see the L3 section of Props/C05.v; theories/StoredDb*.v)
   In EVERY state of the record store in which the whole database is represented (stored_db: root record -> graph,
   two alias tables, index vector with one multi-map per index, values vector with one DbVec<DbKeyValue> per element)
   the composition of ALL the loaders — what DbImpl::new does, followed by reading every component to the end — succeeds
   and returns the represented database (up to the order a hash table does not keep, sd_eqv); the same for the loader
   program run on the model of storage.rs.  This closes item (2) of the comment above for the LOADING direction.
   STILL _partial: (1) as above (the record map inside an operation cut by a crash: C03 + C01), and (3) that stored_db
   holds at every flush point of a database history — the simulation of db.rs's mutations
   (C05_db_operations_preserve_stored_db, stated in Props/C05.v as the missing link) — both covered by the crash harness
   and by the `stored` correspondence of C05 (load_db on the raw records of real files). *)
From Agdb Require Import Bytes Records DbModel StorageRefine StorageProofs StoredDb StoredDbRep StoredDbRun StoredDbLoad StoredDbProofs StoredDbExample.

Theorem C02_db_loads_partial :
  (forall (m : vmap) (root : N) (d : db),
     stored_db (m_get m) root d -> exists d', load_db m root = Some d' /\ sd_eqv d d' /\ undo d' = []) /\
  (forall (ops : store_ops cdata) (fl : bool), StorageProofs.kind ops fl ->
   forall s sp root d, Rel s sp -> stored_db (hp sp) root d ->
     let r := cp_run (st_step cdata ops) (sd_load root) s in
     snd r = CrDead \/
     (Rel (fst r) sp /\ exists d', snd r = CrOk d' /\ load_db (sm sp) root = Some d' /\ sd_eqv d d')).
Proof. split; [exact load_db_of_stored|exact sd_load_on_storage]. Qed.
Print Assumptions C02_db_loads_partial.

(* non-vacuity: the database created on the model of storage.rs in theories/StoredDbExample.v (2 nodes, 1 edge, an alias,
   inline and out-of-line values, an index) is represented in its record store, and it loads — also after drop + open *)
Example C02_db_sample :
  stored_db (m_get sx_store) 1 sx_db /\ load_db sx_store 1 = Some sx_db /\ sx_after SReopen = sx_store.
Proof. destruct sx_sample as (_ & _ & H1 & H2 & _ & H3 & _). auto. Qed.
Print Assumptions C02_db_sample.
