(* C19 — Every query terminates after any history.
   Pinned statements only; the model is theories/OpenMap.v (the open-addressing map behind aliases and
   indexes, every unbounded loop on fuel), the proofs live in theories/OpenMapProofs.v.

   Termination of a Gallina function is not a statement, so the theorems say: with the stated fuel the
   out-of-fuel outcome is unreachable.  Fuel of the probe loops = capacity (`probe_fuel`), fuel of
   rehash_values = current capacity + new capacity + 1 (`rehash_fuel`).

   Revisions: `om_pinned` = the code before fix: commit fc221a8 (all three flags false), `om_fixed` = the
   code in /repo now.  The positive theorems only need the wrap guard of insert_or_replace and the iterator
   flag; they hold whether or not a full probe cycle also rehashes in place.

   The other fuelled loops of a query — unlinking an edge from the adjacency lists, the breadth/depth first
   and path searches — are bounded in GraphProofs.v and TraverseProofs.v (C08 / C14 / C17, other files);
   MapIterator (`iter`) and the DbKeyValues / DbVec scans are bounded `for`/`while pos != len` loops. *)
From Coq Require Import List NArith Arith Bool Lia.
Import ListNotations.
From Agdb Require Import OpenMap OpenMapProofs.

(* ---------------------------------------------------------------------------------------------- *)
(* The repaired revision: all histories, every hash function                                        *)
(* ---------------------------------------------------------------------------------------------- *)

(* For every key/value type, every equality test, EVERY hash function, every minimum capacity >= 4 (64 in
   the code) and every revision that has the insert_or_replace wrap guard and the iterator flag: every
   list of operations (insert, insert_or_replace with any predicate, remove_key, remove_value, reserve,
   value, values) run from the empty map completes — no probe loop needs more than `capacity` iterations,
   no rehash more than `rehash_fuel` — and ends in a table whose `len` is its number of Valid slots and is
   smaller than its capacity (so a non-Valid slot always exists), with capacity 0 or >= the minimum. *)
Theorem C19_probe_bound :
  forall (K V : Type) (keqb : K -> K -> bool) (veqb : V -> V -> bool) (h : K -> N) (mincap : nat) (rv : om_revision),
    4 <= mincap ->
    fix_insert_wrap_guard rv = true -> fix_iter_finished rv = true ->
    forall ops : list (op K V),
    exists m, run K V keqb veqb h mincap rv empty_map ops = Done m /\
              cnt (is_valid K V) (slots m) = len m /\
              (capacity K V m = 0 \/ (mincap <= capacity K V m /\ len m < capacity K V m)).
Proof. intros K V keqb veqb h mincap rv Hmin Hg Hf ops. exact (run_total K V keqb veqb h mincap rv Hmin Hg Hf ops). Qed.
Print Assumptions C19_probe_bound.

(* The same, as an invariant: from ANY table satisfying the invariant (e.g. one loaded from a file) every
   single operation completes within the bound and re-establishes the invariant. *)
Theorem C19_step_bound :
  forall (K V : Type) (keqb : K -> K -> bool) (veqb : V -> V -> bool) (h : K -> N) (mincap : nat) (rv : om_revision),
    4 <= mincap ->
    fix_insert_wrap_guard rv = true -> fix_iter_finished rv = true ->
    forall (m : omap K V) (o : op K V), Inv K V mincap m ->
    exists m', step K V keqb veqb h mincap rv m o = Done m' /\ Inv K V mincap m'.
Proof. intros K V keqb veqb h mincap rv Hmin Hg Hf. exact (step_total K V keqb veqb h mincap rv Hmin Hg Hf). Qed.
Print Assumptions C19_step_bound.

(* Lookups need no invariant at all: `value` (= contains, one `next()` of iter_key) completes within
   `capacity` iterations on EVERY table in every revision; `values` (iter_key to the end, contains_value,
   values_count) on every table once the iterator has its `finished` flag. *)
Theorem C19_value_any_table :
  forall (K V : Type) (keqb : K -> K -> bool) (h : K -> N) (m : omap K V) (k : K),
    exists r, value K V keqb h m k = Done r.
Proof. exact value_total. Qed.
Print Assumptions C19_value_any_table.

Theorem C19_values_any_table :
  forall (K V : Type) (keqb : K -> K -> bool) (h : K -> N) (rv : om_revision),
    fix_iter_finished rv = true ->
    forall (m : omap K V) (k : K), exists r, values K V keqb h rv m k = Done r.
Proof. exact values_total. Qed.
Print Assumptions C19_values_any_table.

(* rehash_values(cur, newcap) — grow, shrink and the in-place rehash of the repair — terminates within
   cur + newcap + 1 iterations of its `while` loop (each inner occupancy probe within newcap) whenever the
   array covers both capacities and holds fewer Valid slots than the new capacity; it keeps the array length
   and the number of Valid slots and leaves no Valid slot at or beyond the new capacity (so the truncation
   of a shrink loses nothing). *)
Theorem C19_rehash_values_bound :
  forall (K V : Type) (h : K -> N) (cur newcap : nat) (sl : list (slot K V)),
    cur <= length sl -> newcap <= length sl -> cnt (is_valid K V) sl < newcap ->
    exists sl', rehash_values K V h cur newcap sl = Done sl' /\
                length sl' = length sl /\
                cnt (is_valid K V) sl' = cnt (is_valid K V) sl /\
                (forall p, newcap <= p -> p < cur -> is_valid K V (nth p sl' Empty) = false).
Proof. intros K V h. exact (rehash_values_ok K V (fun _ _ => true) (fun _ _ => true) h). Qed.
Print Assumptions C19_rehash_values_bound.

(* rehash (grow, shrink, or nothing) and the in-place rehash of the repair keep the multiset of stored
   (key, value) pairs: for every predicate Q the number of stored pairs satisfying Q is unchanged (with
   Q = "equals (k, v)" this is the multiplicity of (k, v)).  Hypotheses of the first statement = what the
   callers guarantee (`len` is the number of Valid slots and is below the target capacity).
   NOT proved here: that every stored pair is still FOUND by probing after a rehash (that needs the
   probe-chain invariant of the table; results of lookups are covered by the differential runs only). *)
Theorem C19_rehash_preserves_entries :
  forall (K V : Type) (h : K -> N) (mincap : nat) (Q : K -> V -> bool) (m m' : omap K V) (c : nat),
    cnt (is_valid K V) (slots m) = len m -> len m < Nat.max c mincap ->
    rehash K V h mincap m c = Done m' ->
    count_entries K V Q (slots m') = count_entries K V Q (slots m).
Proof. intros K V h mincap. exact (rehash_entries K V (fun _ _ => true) (fun _ _ => true) h mincap). Qed.
Print Assumptions C19_rehash_preserves_entries.

Theorem C19_rehash_in_place_preserves_entries :
  forall (K V : Type) (h : K -> N) (Q : K -> V -> bool) (m m' : omap K V),
    0 < capacity K V m -> rehash_in_place K V h m = Done m' ->
    count_entries K V Q (slots m') = count_entries K V Q (slots m).
Proof. intros K V h. exact (rehash_in_place_entries K V (fun _ _ => true) (fun _ _ => true) h). Qed.
Print Assumptions C19_rehash_in_place_preserves_entries.

(* ---------------------------------------------------------------------------------------------- *)
(* The pinned revision is refuted                                                                    *)
(* ---------------------------------------------------------------------------------------------- *)

(* keys and values u64 / DbId: stable_hash = identity; minimum capacity 64 as in the code *)
Definition idh (k : N) : N := k.
Definition always (_ : N) : bool := true.

(* 64 x { MapImpl::insert(i, 1); MapImpl::remove(i) } — what 64 x { insert alias; remove alias } does to the
   id -> alias half of the alias map *)
Definition cycles (n : nat) : list (op N N) :=
  flat_map (fun i => [OInsertOrReplace N N (N.of_nat i) always 1%N; ORemoveKey N N (N.of_nat i)]) (seq 0 n).

(* After the 64 cycles (which all complete) the table has capacity 64, len 0 and no Empty slot, and the
   next insert of a new key never returns: insert_or_replace is out of fuel for EVERY amount of fuel, in
   particular for fuel = capacity. *)
Theorem C19_pinned_refuted :
  exists m, run N N N.eqb N.eqb idh 64 om_pinned empty_map (cycles 64) = Done m /\
            capacity N N m = 64 /\ len m = 0 /\
            (forall fuel : nat -> nat,
               insert_or_replace_fuel N N N.eqb idh 64 om_pinned fuel m 100%N always 1%N = OutOfFuel) /\
            step N N N.eqb N.eqb idh 64 om_pinned m (OInsertOrReplace N N 100%N always 1%N) = OutOfFuel.
Proof.
  set (m := match run N N N.eqb N.eqb idh 64 om_pinned empty_map (cycles 64) with
            | Done m => m | OutOfFuel => empty_map end).
  exists m. split; [vm_compute; reflexivity|].
  split; [vm_compute; reflexivity|]. split; [vm_compute; reflexivity|].
  assert (Hh : forall fuel : nat -> nat,
             insert_or_replace_fuel N N N.eqb idh 64 om_pinned fuel m 100%N always 1%N = OutOfFuel).
  { apply (insert_or_replace_pinned_hangs N N N.eqb N.eqb idh 64 om_pinned); [reflexivity|apply Nat.ltb_lt; vm_compute; reflexivity|apply Nat.ltb_lt; vm_compute; reflexivity|vm_compute; reflexivity]. }
  split; [exact Hh|].
  pose proof (Hh probe_fuel) as Hp. unfold step. cbn [step_fuel].
  destruct (insert_or_replace_fuel N N N.eqb idh 64 om_pinned probe_fuel m 100%N always 1%N);
    [discriminate Hp|reflexivity].
Qed.
Print Assumptions C19_pinned_refuted.

(* the same history in the repaired revision: completes, and the inserted key is found *)
Example C19_fixed_same_history :
  exists m, run N N N.eqb N.eqb idh 64 om_fixed empty_map
                (cycles 64 ++ [OInsertOrReplace N N 100%N always 1%N]) = Done m /\
            capacity N N m = 64 /\ len m = 1 /\ value N N N.eqb idh m 100%N = Done (Some 1%N).
Proof. eexists. split; [vm_compute; reflexivity|]. vm_compute. auto. Qed.
Print Assumptions C19_fixed_same_history.

(* Second defect (iterator): 63 x { insert(i, 1); remove_value(i, 1) } leaves Deleted slots 0..62, then
   insert_or_replace(0, |_| false, 7) stores the value in slot 63, the slot just before the key's first
   slot, and no Empty slot is left.  With the wrap guard of insert_or_replace but the pinned iterator,
   `values(0)` never ends, for every amount of fuel (the wrap check is skipped whenever a value is
   returned); `value(0)` is fine. *)
Definition rev_guard_only : om_revision :=
  {| fix_insert_wrap_guard := true; fix_rehash_in_place := true; fix_iter_finished := false |}.
Definition never (_ : N) : bool := false.
Definition iter_history : list (op N N) :=
  flat_map (fun i => [OInsert N N (N.of_nat i) 1%N; ORemoveValue N N (N.of_nat i) 1%N]) (seq 0 63)
  ++ [OInsertOrReplace N N 0%N never 7%N].

Theorem C19_iter_pinned_refuted :
  forall rv, fix_iter_finished rv = false ->
  exists m, run N N N.eqb N.eqb idh 64 rv empty_map iter_history = Done m /\
            (forall fuel : nat -> nat, values_fuel N N N.eqb idh rv fuel m 0%N = OutOfFuel) /\
            value N N N.eqb idh m 0%N = Done (Some 7%N).
Proof.
  intros [g r f] Hf. cbn in Hf. subst f.
  destruct g; destruct r;
    match goal with |- exists m, run _ _ _ _ _ _ ?rv _ _ = _ /\ _ =>
      exists (match run N N N.eqb N.eqb idh 64 rv empty_map iter_history with
              | Done m => m | OutOfFuel => empty_map end)
    end;
    (split; [vm_compute; reflexivity|]; split;
     [apply (values_pinned_hangs N N N.eqb idh 64); [reflexivity|apply Nat.ltb_lt; vm_compute; reflexivity|vm_compute; reflexivity|vm_compute; reflexivity]
     |vm_compute; reflexivity]).
Qed.
Print Assumptions C19_iter_pinned_refuted.

Example C19_iter_fixed_same_history :
  exists m, run N N N.eqb N.eqb idh 64 om_fixed empty_map iter_history = Done m /\
            values N N N.eqb idh om_fixed m 0%N = Done [7%N].
Proof. eexists. split; [vm_compute; reflexivity|]. vm_compute. reflexivity. Qed.
Print Assumptions C19_iter_fixed_same_history.

(* The hypotheses of C19_probe_bound are satisfiable by the code's constants and the bound is tight enough to
   be exercised: 200 distinct keys cross the 64 -> 128 -> 256 boundaries upwards, their removal crosses them
   downwards, and 300 insert/remove cycles at capacity 64 trigger the full-cycle path repeatedly. *)
Example C19_nonvacuous :
  let up := List.map (fun i => OInsert N N (N.of_nat i) (N.of_nat i)) (seq 0 200) in
  let down := List.map (fun i => ORemoveValue N N (N.of_nat i) (N.of_nat i)) (seq 0 200) in
  (exists m, run N N N.eqb N.eqb idh 64 om_fixed empty_map up = Done m /\ capacity N N m = 256 /\ len m = 200) /\
  (exists m, run N N N.eqb N.eqb idh 64 om_fixed empty_map (up ++ down ++ cycles 300) = Done m /\
             capacity N N m = 64 /\ len m = 0).
Proof. split; eexists; (split; [vm_compute; reflexivity|]); vm_compute; auto. Qed.
Print Assumptions C19_nonvacuous.
