(* C19 — Every query terminates after any history.
   Pinned statements only; the model is theories/OpenMap.v (the open-addressing map behind aliases and
   indexes, every unbounded loop on fuel), the proofs live in theories/OpenMapProofs.v.

   Termination of a Gallina function is not a statement, so the theorems say: with the stated fuel the
   out-of-fuel outcome is unreachable.  Fuel of the probe loops = capacity (`probe_fuel`), fuel of
   rehash_values = current capacity + new capacity + 1 (`rehash_fuel`).

   Revisions: `om_pinned` = the code before fix: commit fc221a8 (all three flags false), `om_fixed` = the
   code in /repo now.  The positive theorems only need the wrap guard of insert_or_replace and the iterator
   flag; they hold whether or not a full probe cycle also rehashes in place.

   The other fuelled loops of a query — unlinking an edge from the adjacency lists, the breadth/depth first
   and path searches — are bounded in GraphProofs.v and TraverseProofs.v (C08 / C14 / C17, other files);
   MapIterator (`iter`) and the DbKeyValues / DbVec scans are bounded `for`/`while pos != len` loops. *)
From Coq Require Import List NArith Arith Bool Lia.
Import ListNotations.
From Agdb Require Import OpenMap OpenMapProofs.

(* ---------------------------------------------------------------------------------------------- *)
(* The repaired revision: all histories, every hash function                                        *)
(* ---------------------------------------------------------------------------------------------- *)

(* For every key/value type, every equality test, EVERY hash function, every minimum capacity >= 4 (64 in
   the code) and every revision that has the insert_or_replace wrap guard and the iterator flag: every
   list of operations (insert, insert_or_replace with any predicate, remove_key, remove_value, reserve,
   value, values) run from the empty map completes — no probe loop needs more than `capacity` iterations,
   no rehash more than `rehash_fuel` — and ends in a table whose `len` is its number of Valid slots and is
   smaller than its capacity (so a non-Valid slot always exists), with capacity 0 or >= the minimum. *)
Theorem C19_probe_bound :
  forall (K V : Type) (keqb : K -> K -> bool) (veqb : V -> V -> bool) (h : K -> N) (mincap : nat) (rv : om_revision),
    4 <= mincap ->
    fix_insert_wrap_guard rv = true -> fix_iter_finished rv = true ->
    forall ops : list (op K V),
    exists m, run K V keqb veqb h mincap rv empty_map ops = Done m /\
              cnt (is_valid K V) (slots m) = len m /\
              (capacity K V m = 0 \/ (mincap <= capacity K V m /\ len m < capacity K V m)).
Proof. intros K V keqb veqb h mincap rv Hmin Hg Hf ops. exact (run_total K V keqb veqb h mincap rv Hmin Hg Hf ops). Qed.
Print Assumptions C19_probe_bound.

(* The same, as an invariant: from ANY table satisfying the invariant (e.g. one loaded from a file) every
   single operation completes within the bound and re-establishes the invariant. *)
Theorem C19_step_bound :
  forall (K V : Type) (keqb : K -> K -> bool) (veqb : V -> V -> bool) (h : K -> N) (mincap : nat) (rv : om_revision),
    4 <= mincap ->
    fix_insert_wrap_guard rv = true -> fix_iter_finished rv = true ->
    forall (m : omap K V) (o : op K V), Inv K V mincap m ->
    exists m', step K V keqb veqb h mincap rv m o = Done m' /\ Inv K V mincap m'.
Proof. intros K V keqb veqb h mincap rv Hmin Hg Hf. exact (step_total K V keqb veqb h mincap rv Hmin Hg Hf). Qed.
Print Assumptions C19_step_bound.

(* Lookups need no invariant at all: `value` (= contains, one `next()` of iter_key) completes within
   `capacity` iterations on EVERY table in every revision; `values` (iter_key to the end, contains_value,
   values_count) on every table once the iterator has its `finished` flag. *)
Theorem C19_value_any_table :
  forall (K V : Type) (keqb : K -> K -> bool) (h : K -> N) (m : omap K V) (k : K),
    exists r, value K V keqb h m k = Done r.
Proof. exact value_total. Qed.
Print Assumptions C19_value_any_table.

Theorem C19_values_any_table :
  forall (K V : Type) (keqb : K -> K -> bool) (h : K -> N) (rv : om_revision),
    fix_iter_finished rv = true ->
    forall (m : omap K V) (k : K), exists r, values K V keqb h rv m k = Done r.
Proof. exact values_total. Qed.
Print Assumptions C19_values_any_table.

(* rehash_values(cur, newcap) — grow, shrink and the in-place rehash of the repair — terminates within
   cur + newcap + 1 iterations of its `while` loop (each inner occupancy probe within newcap) whenever the
   array covers both capacities and holds fewer Valid slots than the new capacity; it keeps the array length
   and the number of Valid slots and leaves no Valid slot at or beyond the new capacity (so the truncation
   of a shrink loses nothing). *)
Theorem C19_rehash_values_bound :
  forall (K V : Type) (h : K -> N) (cur newcap : nat) (sl : list (slot K V)),
    cur <= length sl -> newcap <= length sl -> cnt (is_valid K V) sl < newcap ->
    exists sl', rehash_values K V h cur newcap sl = Done sl' /\
                length sl' = length sl /\
                cnt (is_valid K V) sl' = cnt (is_valid K V) sl /\
                (forall p, newcap <= p -> p < cur -> is_valid K V (nth p sl' Empty) = false).
Proof. intros K V h. exact (rehash_values_ok K V (fun _ _ => true) (fun _ _ => true) h). Qed.
Print Assumptions C19_rehash_values_bound.

(* rehash (grow, shrink, or nothing) and the in-place rehash of the repair keep the multiset of stored
   (key, value) pairs: for every predicate Q the number of stored pairs satisfying Q is unchanged (with
   Q = "equals (k, v)" this is the multiplicity of (k, v)).  Hypotheses of the first statement = what the
   callers guarantee (`len` is the number of Valid slots and is below the target capacity).
   That every stored pair is still FOUND by probing after a rehash is C19_rehash_keeps_lookups /
   C19_rehash_in_place_keeps_lookups below (it needs the probe-chain invariant of the table). *)
Theorem C19_rehash_preserves_entries :
  forall (K V : Type) (h : K -> N) (mincap : nat) (Q : K -> V -> bool) (m m' : omap K V) (c : nat),
    cnt (is_valid K V) (slots m) = len m -> len m < Nat.max c mincap ->
    rehash K V h mincap m c = Done m' ->
    count_entries K V Q (slots m') = count_entries K V Q (slots m).
Proof. intros K V h mincap. exact (rehash_entries K V (fun _ _ => true) (fun _ _ => true) h mincap). Qed.
Print Assumptions C19_rehash_preserves_entries.

Theorem C19_rehash_in_place_preserves_entries :
  forall (K V : Type) (h : K -> N) (Q : K -> V -> bool) (m m' : omap K V),
    0 < capacity K V m -> rehash_in_place K V h m = Done m' ->
    count_entries K V Q (slots m') = count_entries K V Q (slots m).
Proof. intros K V h. exact (rehash_in_place_entries K V (fun _ _ => true) (fun _ _ => true) h). Qed.
Print Assumptions C19_rehash_in_place_preserves_entries.

(* ---------------------------------------------------------------------------------------------- *)
(* The pinned revision is refuted                                                                    *)
(* ---------------------------------------------------------------------------------------------- *)

(* keys and values u64 / DbId: stable_hash = identity; minimum capacity 64 as in the code *)
Definition idh (k : N) : N := k.
Definition always (_ : N) : bool := true.

(* 64 x { MapImpl::insert(i, 1); MapImpl::remove(i) } — what 64 x { insert alias; remove alias } does to the
   id -> alias half of the alias map *)
Definition cycles (n : nat) : list (op N N) :=
  flat_map (fun i => [OInsertOrReplace N N (N.of_nat i) always 1%N; ORemoveKey N N (N.of_nat i)]) (seq 0 n).

(* After the 64 cycles (which all complete) the table has capacity 64, len 0 and no Empty slot, and the
   next insert of a new key never returns: insert_or_replace is out of fuel for EVERY amount of fuel, in
   particular for fuel = capacity. *)
Theorem C19_pinned_refuted :
  exists m, run N N N.eqb N.eqb idh 64 om_pinned empty_map (cycles 64) = Done m /\
            capacity N N m = 64 /\ len m = 0 /\
            (forall fuel : nat -> nat,
               insert_or_replace_fuel N N N.eqb idh 64 om_pinned fuel m 100%N always 1%N = OutOfFuel) /\
            step N N N.eqb N.eqb idh 64 om_pinned m (OInsertOrReplace N N 100%N always 1%N) = OutOfFuel.
Proof.
  set (m := match run N N N.eqb N.eqb idh 64 om_pinned empty_map (cycles 64) with
            | Done m => m | OutOfFuel => empty_map end).
  exists m. split; [vm_compute; reflexivity|].
  split; [vm_compute; reflexivity|]. split; [vm_compute; reflexivity|].
  assert (Hh : forall fuel : nat -> nat,
             insert_or_replace_fuel N N N.eqb idh 64 om_pinned fuel m 100%N always 1%N = OutOfFuel).
  { apply (insert_or_replace_pinned_hangs N N N.eqb N.eqb idh 64 om_pinned); [reflexivity|apply Nat.ltb_lt; vm_compute; reflexivity|apply Nat.ltb_lt; vm_compute; reflexivity|vm_compute; reflexivity]. }
  split; [exact Hh|].
  pose proof (Hh probe_fuel) as Hp. unfold step. cbn [step_fuel].
  destruct (insert_or_replace_fuel N N N.eqb idh 64 om_pinned probe_fuel m 100%N always 1%N);
    [discriminate Hp|reflexivity].
Qed.
Print Assumptions C19_pinned_refuted.

(* the same history in the repaired revision: completes, and the inserted key is found *)
Example C19_fixed_same_history :
  exists m, run N N N.eqb N.eqb idh 64 om_fixed empty_map
                (cycles 64 ++ [OInsertOrReplace N N 100%N always 1%N]) = Done m /\
            capacity N N m = 64 /\ len m = 1 /\ value N N N.eqb idh m 100%N = Done (Some 1%N).
Proof. eexists. split; [vm_compute; reflexivity|]. vm_compute. auto. Qed.
Print Assumptions C19_fixed_same_history.

(* Second defect (iterator): 63 x { insert(i, 1); remove_value(i, 1) } leaves Deleted slots 0..62, then
   insert_or_replace(0, |_| false, 7) stores the value in slot 63, the slot just before the key's first
   slot, and no Empty slot is left.  With the wrap guard of insert_or_replace but the pinned iterator,
   `values(0)` never ends, for every amount of fuel (the wrap check is skipped whenever a value is
   returned); `value(0)` is fine. *)
Definition rev_guard_only : om_revision :=
  {| fix_insert_wrap_guard := true; fix_rehash_in_place := true; fix_iter_finished := false |}.
Definition never (_ : N) : bool := false.
Definition iter_history : list (op N N) :=
  flat_map (fun i => [OInsert N N (N.of_nat i) 1%N; ORemoveValue N N (N.of_nat i) 1%N]) (seq 0 63)
  ++ [OInsertOrReplace N N 0%N never 7%N].

Theorem C19_iter_pinned_refuted :
  forall rv, fix_iter_finished rv = false ->
  exists m, run N N N.eqb N.eqb idh 64 rv empty_map iter_history = Done m /\
            (forall fuel : nat -> nat, values_fuel N N N.eqb idh rv fuel m 0%N = OutOfFuel) /\
            value N N N.eqb idh m 0%N = Done (Some 7%N).
Proof.
  intros [g r f] Hf. cbn in Hf. subst f.
  destruct g; destruct r;
    match goal with |- exists m, run _ _ _ _ _ _ ?rv _ _ = _ /\ _ =>
      exists (match run N N N.eqb N.eqb idh 64 rv empty_map iter_history with
              | Done m => m | OutOfFuel => empty_map end)
    end;
    (split; [vm_compute; reflexivity|]; split;
     [apply (values_pinned_hangs N N N.eqb idh 64); [reflexivity|apply Nat.ltb_lt; vm_compute; reflexivity|vm_compute; reflexivity|vm_compute; reflexivity]
     |vm_compute; reflexivity]).
Qed.
Print Assumptions C19_iter_pinned_refuted.

Example C19_iter_fixed_same_history :
  exists m, run N N N.eqb N.eqb idh 64 om_fixed empty_map iter_history = Done m /\
            values N N N.eqb idh om_fixed m 0%N = Done [7%N].
Proof. eexists. split; [vm_compute; reflexivity|]. vm_compute. reflexivity. Qed.
Print Assumptions C19_iter_fixed_same_history.

(* The hypotheses of C19_probe_bound are satisfiable by the code's constants and the bound is tight enough to
   be exercised: 200 distinct keys cross the 64 -> 128 -> 256 boundaries upwards, their removal crosses them
   downwards, and 300 insert/remove cycles at capacity 64 trigger the full-cycle path repeatedly. *)
Example C19_nonvacuous :
  let up := List.map (fun i => OInsert N N (N.of_nat i) (N.of_nat i)) (seq 0 200) in
  let down := List.map (fun i => ORemoveValue N N (N.of_nat i) (N.of_nat i)) (seq 0 200) in
  (exists m, run N N N.eqb N.eqb idh 64 om_fixed empty_map up = Done m /\ capacity N N m = 256 /\ len m = 200) /\
  (exists m, run N N N.eqb N.eqb idh 64 om_fixed empty_map (up ++ down ++ cycles 300) = Done m /\
             capacity N N m = 64 /\ len m = 0).
Proof. split; eexists; (split; [vm_compute; reflexivity|]); vm_compute; auto. Qed.
Print Assumptions C19_nonvacuous.

(* ---------------------------------------------------------------------------------------------- *)
(* Functional correctness of the table (supports C10/C11: the maps DbModel abstracts as association *)
(* lists — the alias map IndexedMap<String, DbId> = two MapImpl, every index MultiMap<DbValue, DbId>) *)
(* ---------------------------------------------------------------------------------------------- *)

(* The specification is theories/OpenMapSpec.v (a multimap = a multiset of (key, value) pairs, written as a
   list compared up to Permutation; `mm_step` = what each operation may show and do; `fm_*` = the ordinary
   finite map for MapImpl).  The proofs are theories/OpenMapRefine*.v.  Everything below holds for EVERY hash
   function, every key / value type whose `PartialEq` (keqb / veqb) decides equality, every minimum capacity
   >= 4 (64 in the code), and every revision with the wrap guard of insert_or_replace and the iterator's
   `finished` flag (fix fc221a8; with or without its in-place rehash).

   The invariant of every reachable table, `PInv` (spelled out by C19_invariant_is): len = number of Valid
   slots; capacity 0, or capacity >= mincap and len < capacity; and the PROBE CHAIN: every Valid slot i holding
   key k is reachable from hash(k) mod capacity by stepping +1 (wrapping) without meeting an Empty slot (Deleted
   slots are crossed).  It does NOT say that an Empty slot exists: a table of capacity 64 can consist of Valid
   and Deleted slots only (C19_tombstones_nonvacuous reaches one); lookups then end by the full-cycle guard
   (`finished` / `pos == start_pos`), and the theorems cover that case. *)
From Coq Require Import Permutation.
From Agdb Require Import OpenMapSpec OpenMapRefineBase OpenMapRefineRehash OpenMapRefineStep OpenMapRefine OpenMapRefineMap.

Theorem C19_invariant_is :
  forall (K V : Type) (h : K -> N) (mincap : nat) (m : omap K V),
    PInv K V h mincap m <->
    (cnt (is_valid K V) (slots m) = len m /\
     (capacity K V m = 0 \/ (mincap <= capacity K V m /\ len m < capacity K V m))) /\
    (forall i k v, i < capacity K V m -> nth i (slots m) Empty = Valid k v ->
     forall j, j < capacity K V m ->
       dist (capacity K V m) (hpos K h k (capacity K V m)) j < dist (capacity K V m) (hpos K h k (capacity K V m)) i ->
       nth j (slots m) Empty <> Empty).
Proof. intros. reflexivity. Qed.
Print Assumptions C19_invariant_is.

(* ALL histories: every list of operations (insert, insert_or_replace with any predicate, remove_key,
   remove_value, reserve, value, values) run on the table from the empty map completes (fuel = capacity, no
   out-of-fuel case left), and the list of values it returns to its caller (`run_obs` = `run` with the
   results kept, C19_run_obs_is_run) is one the abstract multimap allows for the same operations (`mm_run`
   from the empty multiset); the final multimap is the multiset of the table's Valid slots = what `iter`
   yields, `len` is its size, and the table satisfies the invariant.  (values k is compared as a multiset:
   `mm_step` asks for a Permutation; the order is the probe order, C19_lookup_finds_exactly_stored.) *)
Theorem C19_table_refines_multimap :
  forall (K V : Type) (keqb : K -> K -> bool) (veqb : V -> V -> bool) (h : K -> N) (mincap : nat) (rv : om_revision),
    (forall a b, keqb a b = true <-> a = b) -> (forall a b, veqb a b = true <-> a = b) ->
    4 <= mincap -> fix_insert_wrap_guard rv = true -> fix_iter_finished rv = true ->
    forall ops : list (op K V),
    exists (m : omap K V) (obl : list (obs V)) (s : mm K V),
      run_obs K V keqb veqb h mincap rv empty_map ops = Done (m, obl) /\
      mm_run K V keqb veqb [] ops obl s /\
      Permutation (iter_all K V m) s /\ len m = length s /\ PInv K V h mincap m.
Proof. exact table_refines_multimap. Qed.
Print Assumptions C19_table_refines_multimap.

Theorem C19_run_obs_is_run :
  forall (K V : Type) (keqb : K -> K -> bool) (veqb : V -> V -> bool) (h : K -> N) (mincap : nat) (rv : om_revision)
         (ops : list (op K V)) (m m' : omap K V) (obl : list (obs V)),
    run_obs K V keqb veqb h mincap rv m ops = Done (m', obl) -> run K V keqb veqb h mincap rv m ops = Done m'.
Proof. exact run_obs_run. Qed.
Print Assumptions C19_run_obs_is_run.

(* The same as a simulation from ANY table satisfying the invariant (e.g. one loaded from a file) whose
   stored pairs are the multiset s: one operation completes, shows what the multimap allows, re-establishes
   the invariant, and its stored pairs are the multimap's. *)
Theorem C19_step_refines_multimap :
  forall (K V : Type) (keqb : K -> K -> bool) (veqb : V -> V -> bool) (h : K -> N) (mincap : nat) (rv : om_revision),
    (forall a b, keqb a b = true <-> a = b) -> (forall a b, veqb a b = true <-> a = b) ->
    4 <= mincap -> fix_insert_wrap_guard rv = true -> fix_iter_finished rv = true ->
    forall (m : omap K V) (o : op K V) (s : mm K V),
      PInv K V h mincap m -> Permutation (abs K V m) s ->
      exists m' ob s', step_obs K V keqb veqb h mincap rv m o = Done (m', ob) /\ PInv K V h mincap m' /\
                       mm_step K V keqb veqb s o ob s' /\ Permutation (abs K V m') s'.
Proof. exact step_refines. Qed.
Print Assumptions C19_step_refines_multimap.

(* On every table satisfying the invariant (after every history: C19_table_refines_multimap): `values k`
   returns exactly the values of the stored pairs of key k — v is returned iff (k, v) is stored, with its
   multiplicity — `value k` is the first of them (None iff there is none), contains_value / values_count /
   len agree with the stored multiset (`iter_all` = what MapIterator yields). *)
Theorem C19_lookup_finds_exactly_stored :
  forall (K V : Type) (keqb : K -> K -> bool) (veqb : V -> V -> bool) (h : K -> N) (mincap : nat) (rv : om_revision),
    (forall a b, keqb a b = true <-> a = b) -> (forall a b, veqb a b = true <-> a = b) ->
    fix_iter_finished rv = true ->
    forall (m : omap K V) (k : K), PInv K V h mincap m ->
    exists l, values K V keqb h rv m k = Done l /\
              value K V keqb h m k = Done (hd_error l) /\
              Permutation l (mm_values K V keqb k (iter_all K V m)) /\
              (forall v, In v l <-> In (k, v) (iter_all K V m)) /\
              (forall v, contains_value K V keqb veqb h rv m k v =
                         Done (mm_contains_value K V keqb veqb k v (iter_all K V m))) /\
              values_count K V keqb h rv m k = Done (length (mm_values K V keqb k (iter_all K V m))) /\
              len m = length (iter_all K V m).
Proof. exact lookup_finds_exactly_stored. Qed.
Print Assumptions C19_lookup_finds_exactly_stored.

(* "Still found after rehash" (what C19_rehash_preserves_entries left open): a rehash to any capacity that
   can hold the pairs (grow, shrink, or none) completes, re-establishes the invariant AT THE NEW CAPACITY,
   keeps the multiset of pairs, and every lookup returns the same values as before (values as multisets;
   value is None before iff None after). *)
Theorem C19_rehash_keeps_lookups :
  forall (K V : Type) (keqb : K -> K -> bool) (veqb : V -> V -> bool) (h : K -> N) (mincap : nat) (rv : om_revision),
    (forall a b, keqb a b = true <-> a = b) -> (forall a b, veqb a b = true <-> a = b) ->
    4 <= mincap -> fix_iter_finished rv = true ->
    forall (m : omap K V) (c : nat), PInv K V h mincap m -> len m < Nat.max c mincap ->
    exists m', rehash K V h mincap m c = Done m' /\ PInv K V h mincap m' /\ capacity K V m' = Nat.max c mincap /\
               Permutation (iter_all K V m') (iter_all K V m) /\
               forall k, exists l l', values K V keqb h rv m k = Done l /\ values K V keqb h rv m' k = Done l' /\
                                      Permutation l' l /\
                                      value K V keqb h m k = Done (hd_error l) /\
                                      value K V keqb h m' k = Done (hd_error l') /\
                                      (hd_error l' = None <-> hd_error l = None).
Proof. exact rehash_keeps_lookups. Qed.
Print Assumptions C19_rehash_keeps_lookups.

(* The in-place rehash of fix fc221a8 (run after a full probe cycle): the same, and it leaves NO Deleted slot
   (`clean`): probing stops early again. *)
Theorem C19_rehash_in_place_keeps_lookups :
  forall (K V : Type) (keqb : K -> K -> bool) (veqb : V -> V -> bool) (h : K -> N) (mincap : nat) (rv : om_revision),
    (forall a b, keqb a b = true <-> a = b) -> (forall a b, veqb a b = true <-> a = b) ->
    4 <= mincap -> fix_iter_finished rv = true ->
    forall (m : omap K V), PInv K V h mincap m -> 0 < capacity K V m ->
    exists m', rehash_in_place K V h m = Done m' /\ PInv K V h mincap m' /\ capacity K V m' = capacity K V m /\
               (forall p, p < capacity K V m' -> nth p (slots m') Empty <> Deleted) /\
               Permutation (iter_all K V m') (iter_all K V m) /\
               forall k, exists l l', values K V keqb h rv m k = Done l /\ values K V keqb h rv m' k = Done l' /\
                                      Permutation l' l /\
                                      value K V keqb h m k = Done (hd_error l) /\
                                      value K V keqb h m' k = Done (hd_error l') /\
                                      (hd_error l' = None <-> hd_error l = None).
Proof. exact rehash_in_place_keeps_lookups. Qed.
Print Assumptions C19_rehash_in_place_keeps_lookups.

(* rehash_values itself (the loop shared by grow, shrink and the in-place rehash), on any array: whatever it
   is given — Deleted slots, broken chains — its result has the probe chain at the new capacity and no
   Deleted slot below it, provided the part of a grown array beyond the old capacity is Empty. *)
Theorem C19_rehash_values_establishes_chain :
  forall (K V : Type) (h : K -> N) (cur newcap : nat) (sl sl' : list (slot K V)),
    0 < newcap -> cur <= length sl -> newcap <= length sl ->
    (forall p, cur <= p -> p < newcap -> nth p sl Empty = Empty) ->
    rehash_values K V h cur newcap sl = Done sl' ->
    chain K V h newcap sl' /\ (forall p, p < newcap -> nth p sl' Empty <> Deleted).
Proof. intros K V h. exact (rehash_values_chain K V (fun _ _ => true) (fun _ _ => true) h). Qed.
Print Assumptions C19_rehash_values_establishes_chain.

(* MapImpl (map.rs; both halves of the alias map): the table used with
   insert = insert_or_replace k (|_| true) v, remove = remove_key, value, reserve.  Every history completes and
   shows EXACTLY the observations of the ordinary finite map `fm_run` (an association list with one binding
   per key: insert returns the previous value of the key, value k = the value inserted last, None after
   remove); the table holds at most one pair per key, and its pairs are the finite map's bindings. *)
Theorem C19_map_unique_keys :
  forall (K V : Type) (keqb : K -> K -> bool) (veqb : V -> V -> bool),
    (forall a b, keqb a b = true <-> a = b) -> (forall a b, veqb a b = true <-> a = b) ->
    forall (h : K -> N) (mincap : nat) (rv : om_revision),
    4 <= mincap -> fix_insert_wrap_guard rv = true -> fix_iter_finished rv = true ->
    forall mops : list (mop K V),
    exists m, run_obs K V keqb veqb h mincap rv empty_map (List.map (mop_op K V) mops)
                = Done (m, fst (fm_run K V keqb [] mops)) /\
              Permutation (iter_all K V m) (snd (fm_run K V keqb [] mops)) /\
              NoDup (List.map fst (iter_all K V m)) /\
              PInv K V h mincap m.
Proof. exact map_refines_finite_map. Qed.
Print Assumptions C19_map_unique_keys.

(* the finite map of the previous theorem obeys the usual laws *)
Theorem C19_finite_map_laws :
  forall (K V : Type) (keqb : K -> K -> bool), (forall a b, keqb a b = true <-> a = b) ->
    (forall k v s, fm_get K V keqb k (fm_set K V keqb k v s) = Some v) /\
    (forall k k' v s, k' <> k -> fm_get K V keqb k' (fm_set K V keqb k v s) = fm_get K V keqb k' s) /\
    (forall k s, fm_get K V keqb k (fm_remove K V keqb k s) = None) /\
    (forall k k' s, k' <> k -> fm_get K V keqb k' (fm_remove K V keqb k s) = fm_get K V keqb k' s).
Proof. exact fm_laws. Qed.
Print Assumptions C19_finite_map_laws.

(* Non-vacuity 1: an ADVERSARIAL CONSTANT hash (every key probes from slot 7), u64 keys and values, the code's
   minimum capacity 64.  72 inserts (70 distinct keys and two more values of key 5) cross 64 -> 128; removing
   60 pairs one by one and key 7 altogether crosses 128 -> 64; the lookups afterwards return exactly what is
   stored: values 5 = {5, 500, 501}, key 7 gone, key 3 present, insert_or_replace of the value 500 of key 5
   replaces it (returns 500), values 5 = {5, 9, 501}, the never inserted key 42 is absent. *)
Definition consth (_ : N) : N := 7%N.
Definition hc_up : list (op N N) :=
  List.map (fun i => OInsert N N (N.of_nat i) (N.of_nat i)) (seq 0 70) ++ [OInsert N N 5%N 500%N; OInsert N N 5%N 501%N].
Definition hc_down : list (op N N) :=
  List.map (fun i => ORemoveValue N N (N.of_nat i) (N.of_nat i)) (seq 10 60) ++ [ORemoveKey N N 7%N].
Definition hc_look : list (op N N) :=
  [OValues N N 5%N; OValue N N 7%N; OValue N N 3%N; OInsertOrReplace N N 5%N (N.eqb 500%N) 9%N;
   OValues N N 5%N; OValue N N 42%N].

Example C19_refinement_nonvacuous :
  (exists m obl, run_obs N N N.eqb N.eqb consth 64 om_fixed empty_map hc_up = Done (m, obl) /\
                 capacity N N m = 128 /\ len m = 72) /\
  (exists m obl, run_obs N N N.eqb N.eqb consth 64 om_fixed empty_map (hc_up ++ hc_down ++ hc_look) = Done (m, obl) /\
                 capacity N N m = 64 /\ len m = 11 /\
                 skipn (length obl - 6) obl =
                 [ObsValues [5%N; 500%N; 501%N]; ObsValue None; ObsValue (Some 3%N); ObsReplaced (Some 500%N);
                  ObsValues [5%N; 9%N; 501%N]; ObsValue None]).
Proof. split; eexists; eexists; (split; [vm_compute; reflexivity|]); vm_compute; auto. Qed.
Print Assumptions C19_refinement_nonvacuous.

(* Non-vacuity 2: the table WITHOUT ANY Empty slot.  Identity hash; two values of key 5 and key 69 (which
   collides with 5 modulo 64), then 61 x { MapImpl::insert(200 + i, 1); remove(200 + i) } turn the other 61
   slots of the capacity-64 table into tombstones: no Empty slot is left, the lookups (of present and of
   absent keys) end by the full-cycle guard and still return exactly the stored values; the 62nd cycle's
   insert runs a full probe cycle and rehashes in place (an Empty slot exists again), with the same lookups. *)
Definition tomb_pre : list (op N N) := [OInsert N N 5%N 1%N; OInsert N N 5%N 2%N; OInsert N N 69%N 3%N].
Definition tomb_cycles (n : nat) : list (op N N) :=
  flat_map (fun i => [OInsertOrReplace N N (N.of_nat (200 + i)) always 1%N; ORemoveKey N N (N.of_nat (200 + i))]) (seq 0 n).
Definition tomb_look : list (op N N) := [OValues N N 5%N; OValue N N 69%N; OValue N N 133%N].

Example C19_tombstones_nonvacuous :
  (exists m obl, run_obs N N N.eqb N.eqb idh 64 om_fixed empty_map (tomb_pre ++ tomb_cycles 61 ++ tomb_look) = Done (m, obl) /\
                 capacity N N m = 64 /\ len m = 3 /\ existsb (is_empty N N) (slots m) = false /\
                 skipn (length obl - 3) obl = [ObsValues [1%N; 2%N]; ObsValue (Some 3%N); ObsValue None]) /\
  (exists m obl, run_obs N N N.eqb N.eqb idh 64 om_fixed empty_map (tomb_pre ++ tomb_cycles 62 ++ tomb_look) = Done (m, obl) /\
                 capacity N N m = 64 /\ len m = 3 /\ existsb (is_empty N N) (slots m) = true /\
                 skipn (length obl - 3) obl = [ObsValues [1%N; 2%N]; ObsValue (Some 3%N); ObsValue None]).
Proof. split; eexists; eexists; (split; [vm_compute; reflexivity|]); vm_compute; auto. Qed.
Print Assumptions C19_tombstones_nonvacuous.
