(* C16 — Limit, offset and ordering slice and sort results without failing.
   Pinned statements only; proofs live in theories/SliceProofs.v, SortProofs.v
   (and DbValueProofs.v, CondProofs.v). *)
From Agdb Require Import Bytes DbValue DbValueProofs Graph DbModel Search Revisions CondProofs SortProofs SliceProofs.
From Coq Require Import Permutation Sorted.
Open Scope Z_scope.

(* `clip limit offset l` = the elements of l at positions offset .. offset+limit-1
   (limit 0 = unlimited), clipped to what exists: its length and its elements *)
Theorem C16_clip_spec :
  forall limit offset l, 0 <= limit -> 0 <= offset ->
    Z.of_nat (length (clip limit offset l)) =
      (let rest := Z.max 0 (Z.of_nat (length l) - offset) in if limit =? 0 then rest else Z.min limit rest) /\
    (forall i, (i < length (clip limit offset l))%nat ->
       nth i (clip limit offset l) 0 = nth (Z.to_nat offset + i) l 0).
Proof. intros. split; [apply clip_length|intros; apply clip_nth]; assumption. Qed.
Print Assumptions C16_clip_spec.

(* (a) the elements search with the streaming limit/offset handlers = the clipped result of
   the elements search without them (every revision, every condition list) *)
Theorem C16_elements_stream :
  forall rv d conds limit offset, 0 <= limit -> 0 <= offset ->
    elements_search rv d conds (handler_of limit offset) =
    clip limit offset (elements_search rv d conds HDefault).
Proof. exact elements_stream_clip. Qed.
Print Assumptions C16_elements_stream.

(* (b) breadth-first / depth-first, forward / reverse: the simulation of the search loop from
   any work list, visited set and counter, and its instance for a whole search *)
Theorem C16_search_loop_stream :
  forall rv d conds a reverse origin h, h <> HDefault ->
  forall fuel work vis c c0 acc l,
    0 <= c -> at_lim (lim_of h) c = false ->
    search_loop rv d a reverse origin conds HDefault fuel work vis c0 [] = Some l ->
    search_loop rv d a reverse origin conds h fuel work vis c acc =
    Some (rev acc ++ window (off_of h) (lim_of h) c l).
Proof. exact search_loop_window. Qed.
Print Assumptions C16_search_loop_stream.

Theorem C16_graph_search_stream :
  forall rv d conds a reverse origin limit offset l, 0 <= limit -> 0 <= offset ->
    graph_search rv d a reverse origin conds HDefault = Some l ->
    graph_search rv d a reverse origin conds (handler_of limit offset) = Some (clip limit offset l).
Proof. exact graph_search_stream_clip. Qed.
Print Assumptions C16_graph_search_stream.

(* A second defect found with this property and repaired (fix: commit ea4fd27 in /repo):
   LimitOffsetHandler::new computed `limit + offset` unchecked in u64 — a debug build panicked
   and a release build wrapped whenever limit + offset >= 2^64 (offset 2, limit u64::MAX on five
   elements returned [] instead of [3; 4; 5]).  It now saturates.  The model adds in Z; the
   saturated and the exact sum give the same handler results while the number of selected
   elements stays below 2^64 - 2, so the streaming theorems transfer to the repaired code. *)
Theorem C16_limit_offset_no_wrap :
  forall limit offset counter control,
    0 <= counter -> counter + 1 < u64_max ->
    handle (HLimitOffset (Z.min (limit + offset) u64_max) offset) counter control =
    handle (HLimitOffset (limit + offset) offset) counter control.
Proof. exact limit_offset_no_wrap. Qed.
Print Assumptions C16_limit_offset_no_wrap.

(* (c) SearchQuery::slice after the repair: total, equal to clip — for every limit / offset *)
Theorem C16_slice :
  forall limit offset ids,
    slice_ids rv_fixed limit offset ids = SOk (clip limit offset ids) /\
    slice_ids rv_fixed limit offset ids <> SPanic.
Proof. intros. split; [apply slice_ids_clip|apply slice_ids_no_panic]; reflexivity. Qed.
Print Assumptions C16_slice.

(* the defect that was repaired: the pinned code indexed past the end and panicked, e.g. an
   ordered elements search with offset 1 on the empty database *)
Theorem C16_slice_pinned_refuted :
  slice_ids rv_pinned 0 3 [1; 2] = SPanic /\
  slice_ids rv_pinned 2 2 [1; 2; 3] = SPanic /\
  search rv_pinned db_new panic_query = SPanic /\
  slice_ids rv_fixed 0 3 [1; 2] = SOk [] /\
  slice_ids rv_fixed 2 2 [1; 2; 3] = SOk [3] /\
  search rv_fixed db_new panic_query = SOk [].
Proof. exact slice_pinned_refuted. Qed.
Print Assumptions C16_slice_pinned_refuted.

(* (e) whole queries.  Every graph search (breadth-first, depth-first, forward, reverse,
   path, elements; ordered or not) with offset O and limit L returns exactly the elements at
   positions O .. O+L-1 of the same search without them (`unsliced s` = s with limit 0 and
   offset 0) ... *)
Theorem C16_search_clip :
  forall d s l,
    0 <= s_limit s -> 0 <= s_offset s -> s_algorithm s <> AIndex ->
    search rv_fixed d (unsliced s) = SOk l ->
    search rv_fixed d s = SOk (clip (s_limit s) (s_offset s) l).
Proof. intros d s l. apply search_clip. reflexivity. Qed.
Print Assumptions C16_search_clip.

(* ... with ordering (and for path searches) that is the slice of the stably sorted result of
   the plain search (`plain s` = s without limit, offset and order_by) ... *)
Theorem C16_search_sorted_clip :
  forall d s ids,
    0 <= s_limit s -> 0 <= s_offset s -> s_algorithm s <> AIndex ->
    search rv_fixed d (plain s) = SOk ids ->
    search rv_fixed d s = SOk (clip (s_limit s) (s_offset s) (stable_sort (order_cmp d (s_order_by s)) ids)).
Proof. intros d s ids. apply search_sorted_clip. reflexivity. Qed.
Print Assumptions C16_search_sorted_clip.

(* ... and no search query whatsoever panics, whatever the limit and offset *)
Theorem C16_search_no_panic :
  forall d s, search rv_fixed d s <> SPanic.
Proof. intros d s. apply search_no_panic. reflexivity. Qed.
Print Assumptions C16_search_no_panic.

Example C16_slice_examples :
  search rv_fixed ex_db (ex_q ABreadthFirst 1 0 0 0 [] []) = SOk [1; -4; 2; -5; 3] /\
  search rv_fixed ex_db (ex_q ABreadthFirst 1 0 2 1 [] []) = SOk [-4; 2] /\
  search rv_fixed ex_db (ex_q ADepthFirst 0 3 2 2 [] [Cond LAnd MNone CNode]) = SOk [1] /\
  search rv_fixed ex_db (ex_q ABreadthFirst 1 3 0 0 [] []) = SOk [1; -4; 2; -5; 3] /\
  search rv_fixed ex_db (ex_q ABreadthFirst 1 3 2 9 [] []) = SOk [] /\
  search rv_pinned ex_db (ex_q ABreadthFirst 1 3 2 9 [] []) = SPanic /\
  search rv_fixed ex_db (ex_q AElements 0 0 3 1 [] []) = SOk [2; 3; -4] /\
  search rv_fixed ex_db (ex_q AElements 0 0 3 9 [Asc (DI64 1)] []) = SOk [] /\
  search rv_pinned ex_db (ex_q AElements 0 0 3 9 [Asc (DI64 1)] []) = SPanic.
Proof. exact slice_examples. Qed.
Print Assumptions C16_slice_examples.

(* (d) SearchQuery::sort.  The comparator: by the listed keys in the given directions, the
   first key that does not compare Eq decides, an absent key is greater than any present
   one in both directions. *)
Theorem C16_order_cmp_spec :
  forall d,
    (forall l r, order_cmp d [] l r = Eq) /\
    (forall o rest l r,
       order_cmp d (o :: rest) l r = cmp_then (key_cmp d o l r) (order_cmp d rest l r)) /\
    (forall o l r,
       key_cmp d o l r =
       match kvs_value (vals d) l (order_key o), kvs_value (vals d) r (order_key o) with
       | None, None => Eq
       | None, Some _ => Gt
       | Some _, None => Lt
       | Some a, Some b => match o with Asc _ => dbv_cmp a b | Desc _ => dbv_cmp b a end
       end).
Proof. exact order_cmp_spec. Qed.
Print Assumptions C16_order_cmp_spec.

(* it is a total preorder (no hypothesis left: the derived order of DbValue is proved total) *)
Theorem C16_order_cmp_total_preorder :
  forall d orders,
    (forall x, order_cmp d orders x x = Eq) /\
    (forall x y, order_cmp d orders x y = CompOpp (order_cmp d orders y x)) /\
    (forall x y, order_cmp d orders x y <> Gt \/ order_cmp d orders y x <> Gt) /\
    (forall x y z, order_cmp d orders x y <> Gt -> order_cmp d orders y z <> Gt -> order_cmp d orders x z <> Gt).
Proof. exact order_cmp_total_preorder. Qed.
Print Assumptions C16_order_cmp_total_preorder.

(* the sort: a permutation of the input, sorted (adjacent and arbitrary pairs), stable (for
   every x the elements comparing Eq to x appear in their original relative order) *)
Theorem C16_sort_spec :
  forall d orders l,
    let cmp := order_cmp d orders in
    let r := stable_sort cmp l in
    Permutation l r /\
    StronglySorted (fun x y => cmp x y <> Gt) r /\
    (forall l1 x y l3, r = l1 ++ x :: y :: l3 -> cmp x y <> Gt) /\
    (forall l1 x l2 y l3, r = l1 ++ x :: l2 ++ y :: l3 -> cmp x y <> Gt) /\
    (forall x, filter (fun y => is_eq (cmp x y)) r = filter (fun y => is_eq (cmp x y)) l).
Proof. exact sort_spec. Qed.
Print Assumptions C16_sort_spec.

(* elements lacking the first key come after those having it — for Asc and Desc alike *)
Theorem C16_absent_last :
  forall d o rest l l1 x l2 y l3,
    stable_sort (order_cmp d (o :: rest)) l = l1 ++ x :: l2 ++ y :: l3 ->
    kvs_value (vals d) x (order_key o) = None ->
    kvs_value (vals d) y (order_key o) = None.
Proof. exact absent_last. Qed.
Print Assumptions C16_absent_last.

Example C16_sort_example :
  stable_sort (order_cmp sort_example_db [Desc (DString [x6b]); Asc (DString [x6e])]) [1; 2; 3; 4; 5; 6]
  = [3; 6; 2; 5; 1; 4] /\
  stable_sort (order_cmp sort_example_db [Asc (DString [x6b]); Asc (DString [x6e])]) [5; 4; 3; 2; 1; 6]
  = [1; 6; 5; 2; 3; 4].
Proof. exact sort_example. Qed.
Print Assumptions C16_sort_example.
