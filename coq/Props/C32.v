(* C32 — A failed write never corrupts or loses later committed work.
   Pinned statements only; proofs live in theories/CrashProofs.v (on top of C01).

   FULL STATEMENT: for every history and every single injected write/resize failure — (a) the failing
   query returns an error and the observable state is unchanged, (b) the storage nesting counter is back
   at 0, hence (c) every later successful outermost transaction flushes and is present after close +
   reopen, (d) the reopened file loads.
   STATUS ON /repo: (a)–(c) are VIOLATED by the code (known finding, see known_findings.txt): every `?`
   early return between Storage::transaction() and commit() (storage.rs, vec.rs, multi_map.rs, graph.rs,
   db.rs) skips the commit, so the counter stays >= 1, and the in-memory tables have already been
   changed.  What is proved below is the exact consequence of such a leak (the defect, for ALL later
   histories), that the property holds whenever the counter is restored, and (d). *)
From Agdb Require Import Bytes FileWal FileWalProofs TxnNesting CrashProofs CrashGuardProofs.
Open Scope nat_scope.

(* the defect, characterised: with the counter left at n >= 1 no later operation flushes, and closing
   or crashing at ANY point returns the file to the content of the last flush *)
Theorem C32_leak_refuted_all_later_work_lost :
  forall (d0 : bytes) (n : nat) (later : list sevent) (k j : nat),
    1 <= n -> stays_open n later = true -> wp d0 (sd_ops n later) ->
    let st := {| data := d0; wal := [] |} in
    recover walrev_fixed (crash st (trace walrev_fixed st (sd_ops n later)) k j) = {| data := d0; wal := [] |}.
Proof. exact leaked_transaction_loses_later_work. Qed.
Print Assumptions C32_leak_refuted_all_later_work_lost.

(* (c) under the hypothesis that the counter is back at 0 (the known class excluded): a completed
   outermost transaction ends with a flush, and flushed work survives close + reopen *)
Theorem C32_flushed_work_is_kept_partial :
  forall (d0 : bytes) (ops : list op),
    wp d0 (ops ++ [OFlush]) ->
    let st := {| data := d0; wal := [] |} in
    let fin := run_calls st (trace walrev_fixed st (ops ++ [OFlush])) in
    recover walrev_fixed fin = {| data := data fin; wal := [] |}.
Proof. exact flushed_work_is_kept. Qed.
Print Assumptions C32_flushed_work_is_kept_partial.

(* (d) whatever failed, the reopened file is the file of some completed flush *)
Theorem C32_reopen_is_a_flush_point :
  forall (d0 : bytes) (ops : list op) (k j : nat),
    wp d0 ops ->
    let st := {| data := d0; wal := [] |} in
    In (data (recover walrev_fixed (crash st (trace walrev_fixed st ops) k j))) (d0 :: flush_points st ops).
Proof. exact crash_recovers_a_flush_point. Qed.
Print Assumptions C32_reopen_is_a_flush_point.

(* the three statements for the recovery WITH the position guard of apply_wal_record (recover_g; None = error):
   the guard never fires on these logs, so nothing changes *)
Theorem C32_leak_refuted_all_later_work_lost_guarded :
  forall (d0 : bytes) (n : nat) (later : list sevent) (k j : nat),
    1 <= n -> stays_open n later = true -> wp d0 (sd_ops n later) ->
    let st := {| data := d0; wal := [] |} in
    recover_g walrev_fixed (crash st (trace walrev_fixed st (sd_ops n later)) k j) = Some {| data := d0; wal := [] |}.
Proof. exact leaked_transaction_loses_later_work_g. Qed.
Print Assumptions C32_leak_refuted_all_later_work_lost_guarded.

Theorem C32_flushed_work_is_kept_guarded_partial :
  forall (d0 : bytes) (ops : list op),
    wp d0 (ops ++ [OFlush]) ->
    let st := {| data := d0; wal := [] |} in
    let fin := run_calls st (trace walrev_fixed st (ops ++ [OFlush])) in
    recover_g walrev_fixed fin = Some {| data := data fin; wal := [] |}.
Proof. exact flushed_work_is_kept_g. Qed.
Print Assumptions C32_flushed_work_is_kept_guarded_partial.

Theorem C32_reopen_is_a_flush_point_guarded :
  forall (d0 : bytes) (ops : list op) (k j : nat),
    wp d0 ops ->
    let st := {| data := d0; wal := [] |} in
    exists r, recover_g walrev_fixed (crash st (trace walrev_fixed st ops) k j) = Some r /\
              wal r = [] /\ In (data r) (d0 :: flush_points st ops).
Proof. exact crash_recovers_a_flush_point_g. Qed.
Print Assumptions C32_reopen_is_a_flush_point_guarded.

(* non-vacuity of the leak theorem: a later, well-nested transaction under a leaked counter *)
Example C32_leak_nonvacuous :
  let later := [SBegin; SData (OWrite 0 [x07]); SCommit; SBegin; SData (OResize 3); SCommit] in
  stays_open 1 later = true /\ sd_ops 1 later = [OWrite 0 [x07]; OResize 3] /\
  sd_ops 0 later = [OWrite 0 [x07]; OFlush; OResize 3; OFlush].
Proof. vm_compute. repeat split. Qed.
Print Assumptions C32_leak_nonvacuous.
