(* C21 — Deserializing arbitrary bytes never crashes.
   Pinned statements only; proofs live in theories/CodecProofs.v. *)
From Agdb Require Import Bytes Utf8 Codec CodecProofs.
Open Scope N_scope.

(* For every type description whose vector elements occupy at least one byte,
   every input a Rust slice can hold, and both build profiles, the decoder (as
   repaired by the fix: commit, guards_fixed) returns a value or an error —
   never Panic, never an allocation request larger than 64*(|input|+1) bytes,
   never out of fuel — and a decoded value never claims more bytes than the
   input has. *)
Theorem C21_total :
  forall (p : profile) (t : ty) (bs : bytes),
    lenN bs < two60 -> ty_ok t = true ->
    match dec p guards_fixed t bs with
    | Ok (_, n) => min_size t <= n /\ n <= lenN bs
    | Err => True
    | Panic | Alloc | Fuel => False
    end.
Proof. exact dec_total. Qed.
Print Assumptions C21_total.

(* The decoder as it was before the fix: commit violates the property; these
   witnesses are replayed on the implementation by the check (corpus). *)
Theorem C21_pinned_refuted_vec_capacity :
  dec Release guards_pinned (TVec TI64) (le64 2305843009213693952) = Panic.
Proof. exact pinned_vec_capacity_overflow. Qed.
Print Assumptions C21_pinned_refuted_vec_capacity.

Theorem C21_pinned_refuted_vec_alloc :
  dec Release guards_pinned (TVec TI64) (le64 1099511627776) = Alloc.
Proof. exact pinned_vec_huge_alloc. Qed.
Print Assumptions C21_pinned_refuted_vec_alloc.

Theorem C21_pinned_refuted_time :
  dec Release guards_pinned TTime (le64 18446744073709551615 ++ le32 4294967295 ++ [x01]) = Panic.
Proof. exact pinned_time_duration_overflow. Qed.
Print Assumptions C21_pinned_refuted_time.

Theorem C21_pinned_refuted_string :
  dec Debug guards_pinned TStr (le64 18446744073709551615) = Panic.
Proof. exact pinned_string_add_overflow. Qed.
Print Assumptions C21_pinned_refuted_string.
