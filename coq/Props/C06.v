(* C06 — All storage variants give identical query results.
   Pinned statements only; proofs live in theories/ByteStoresProofs.v.

   FULL STATEMENT: for any sequence of queries the in-memory, file-only, memory-mapped and
   runtime-selected variants return identical results and identical success/failure.
   PROVED PART: the three byte-store back-ends (MemoryStorage, the data file of FileStorage, the
   memory + file pair of FileStorageMemoryMapped) compute the SAME byte store for every sequence of
   writes that start inside the store or at its end and of resizes — which is what the storage layer
   issues (checked on every generated program by the C01 check) — and reads agree; the mapped pair
   stays in sync.  Everything above the byte store (Storage<D>, the collections, DbImpl<D>) is ONE
   generic piece of Rust code instantiated with each back-end, and AnyStorage only delegates: that
   step is an argument about Rust generics, trusted, and backed by the side-by-side runs of the check
   (every query of generated histories executed on DbMemory, DbFile, Db and the three DbAny kinds). *)
From Agdb Require Import Bytes FileWal ByteStores ByteStoresProofs.
Open Scope nat_scope.

Theorem C06_backends_agree_partial :
  forall (ops : list bop) (d : bytes),
    positioned d ops ->
    fold_left mem_step ops d = fold_left spec_step ops d /\
    fold_left file_step ops d = fold_left spec_step ops d /\
    fold_left mapped_step ops {| m_mem := d; m_file := d |} =
      {| m_mem := fold_left spec_step ops d; m_file := fold_left spec_step ops d |}.
Proof. exact backends_agree. Qed.
Print Assumptions C06_backends_agree_partial.

Theorem C06_reads_agree : forall d pos len, mem_read d pos len = file_read d pos len.
Proof. exact reads_agree. Qed.
Print Assumptions C06_reads_agree.

(* also beyond the end of the store both back-ends zero-fill the gap *)
Theorem C06_gap_writes_agree :
  forall d pos bs, length d < pos -> bs <> [] -> mem_write d pos bs = file_write d pos bs.
Proof. intros. rewrite mem_write_gap, file_write_gap by assumption. reflexivity. Qed.
Print Assumptions C06_gap_writes_agree.

Example C06_nonvacuous :
  positioned [x01; x02; x03] [BWrite 1 [x0a]; BWrite 3 [x0b; x0c]; BResize 2; BResize 6; BWrite 4 []].
Proof. exact positioned_example. Qed.
Print Assumptions C06_nonvacuous.

(* ---- the storage layer over the back-ends (models Storage.v, proofs StorageSim.v; see Props/C04.v) ---- *)
Module StorageLevel.
From Agdb Require Import Records RecordsProofs RecordsTableProofs Storage StorageSpec
  StorageLayout StorageWp StorageOps StorageOps2 StorageRefine StorageReopen StorageOptimize StorageProofs StorageSim.
Open Scope N_scope.

(* each back-end, modelled literally, is a lawful byte store; Storage<D> is parametric in a lawful store;
   hence all three give the canonical observations for EVERY storage operation list *)
Theorem C06_instances_lawful :
  lawful bytes mem_raw ops_mem rd_mem /\ lawful cdata file_raw ops_file rd_file /\
  lawful (cdata * bytes) mapped_raw ops_file rd_mapped.
Proof. exact (conj mem_lawful (conj file_lawful mapped_lawful)). Qed.
Print Assumptions C06_instances_lawful.

(* Storage<D> is parametric in a lawful byte store: related states give equal observations for every
   operation list, as long as the canonical run stays inside the contract *)
Theorem C06_storage_parametric :
  forall (T : Type) (opsT : store_ops T) (opsC : store_ops cdata) (rd : T -> cdata -> Prop),
    canon opsC -> lawful T opsT opsC rd ->
    forall l s1 s2, srel T rd s1 s2 -> ~ In ObFault (st_run cdata opsC s2 l) ->
      st_run T opsT s1 l = st_run cdata opsC s2 l.
Proof. exact sim_run. Qed.
Print Assumptions C06_storage_parametric.

(* hence, from an empty store, the three back-ends produce exactly the observations of the canonical model
   (which C04 shows to be the abstract map's) for EVERY operation list; FileStorage and
   FileStorageMemoryMapped agree on everything; MemoryStorage agrees with them on every history that does
   not drop the storage (it has no persistence: a `reopen` is a backup + open there) *)
Theorem C06_backends_agree :
  forall l,
  st_run bytes mem_raw (fst (with_data bytes mem_raw [])) l = st_run cdata ops_mem (fst init_mem) l /\
  st_run cdata file_raw (fst (with_data cdata file_raw empty_cdata)) l = st_run cdata ops_file (fst init_file) l /\
  st_run (cdata * bytes) mapped_raw (fst (with_data (cdata * bytes) mapped_raw (empty_cdata, []))) l
    = st_run cdata ops_file (fst init_file) l.
Proof. exact backends_agree. Qed.
Print Assumptions C06_backends_agree.

Theorem C06_mem_file_agree :
  forall l, no_reopen l = true -> forall s, st_run cdata ops_mem s l = st_run cdata ops_file s l.
Proof. exact mem_file_agree. Qed.
Print Assumptions C06_mem_file_agree.

End StorageLevel.

(* ======================= the collection layer on both kinds of storage =======================
   PROVED HERE (theories/CollAgree.v; models as in Props/C05.v): for EVERY history of a storage-backed vector
   (any element class with elem_law: u64, i64, String, ...), of the MapData interface of a storage-backed map and
   of the GraphData interface of the graph storage — reloads and maintenance included — the run on the model of
   storage.rs over the FILE-like byte store (FileStorage, FileStorageMemoryMapped: a drop rolls an open transaction
   back) and the run over the MEMORY-like one (MemoryStorage) return the SAME list of observations, namely the
   one of the plain list / table / arrays; unless one of them dies by a panic of the storage (a request beyond
   2^64 bytes).  With C06_backends_agree (Props/C04.v: the three literal back-ends produce the observations of the
   canonical byte stores for every operation list) this carries the agreement of the variants from the byte store
   up through the collections.  NOT proved: the same for DbImpl's queries (L3); covered by the side-by-side runs. *)
From Agdb Require Import Storage StorageSpec StorageProofs Collections CollWp CollVecBase CollElems CollVecHist CollMap CollMapHist
  CollGraph CollGraphNew CollAgree.

Theorem C06_vec_variants_agree :
  forall (T : Type) (E : cv_elem T) (L : elem_law E) (l : list (cv_op T)), ops_ok T E L [] l ->
    let rf := cp_run (st_step cdata ops_file) (h <~ cv_new ;; cv_run T E h l) s_init in
    let rm := cp_run (st_step cdata ops_mem) (h <~ cv_new ;; cv_run T E h l) s_init in
    snd rf = CrDead \/ snd rm = CrDead \/
    exists hf hm, snd rf = CrOk (hf, snd (cl_run [] l)) /\ snd rm = CrOk (hm, snd (cl_run [] l)).
Proof. exact cv_variants_agree. Qed.
Print Assumptions C06_vec_variants_agree.

Theorem C06_map_variants_agree :
  forall (K V : Type) (EK : cv_elem K) (EV : cv_elem V) (LK : elem_law EK) (LV : elem_law EV) (kdef : K) (vdef : V),
    el_valid LK kdef -> el_valid LV vdef ->
  forall l : list (cm_op K V), Forall (mop_ok K V EK EV LK LV) l ->
    let p := d <~ cm_new ;; cm_run K V EK EV kdef vdef d l in
    let rf := cp_run (st_step cdata ops_file) p s_init in
    let rm := cp_run (st_step cdata ops_mem) p s_init in
    snd rf = CrDead \/ snd rm = CrDead \/
    exists df dm, snd rf = CrOk (df, snd (ct_run K V kdef vdef (ct_empty K V) l)) /\
                  snd rm = CrOk (dm, snd (ct_run K V kdef vdef (ct_empty K V) l)).
Proof. exact cm_variants_agree. Qed.
Print Assumptions C06_map_variants_agree.

Theorem C06_graph_variants_agree :
  forall l : list cg_op, gops_ok ga_init l ->
    let rf := cp_run (st_step cdata ops_file) (d <~ cg_new ;; cg_run d l) s_init in
    let rm := cp_run (st_step cdata ops_mem) (d <~ cg_new ;; cg_run d l) s_init in
    snd rf = CrDead \/ snd rm = CrDead \/
    exists df dm, snd rf = CrOk (df, snd (ga_run ga_init l)) /\ snd rm = CrOk (dm, snd (ga_run ga_init l)).
Proof. exact cg_variants_agree. Qed.
Print Assumptions C06_graph_variants_agree.

(* ======================= the database level: one database in a file-like and in a memory-like storage =======================
   (models, the relation stored_db and the loader load_db: see the L3 section of Props/C05.v; theories/StoredDb*.v)
   If the file-like and the memory-like model of storage.rs are each in a state (refining an abstract map) that holds
   the SAME database d, the loader program — DbImpl::new's loaders, every component read to the end — returns on both a
   database with the same graph arrays and the same property lists, and equal up to sd_eqv altogether (alias lookups,
   index keys in order, ids per index as multisets); hence (C05_db_eqv_queries) every order-independent read-only
   query has the same result on both.  Also for two plain record stores.
   _partial: that the two variants ARE in states holding the same database after the same history of queries is the
   simulation of db.rs's mutations (C05_db_operations_preserve_stored_db, the missing link named in Props/C05.v);
   covered by the side-by-side runs of this check. *)
From Agdb Require Import Bytes Records Graph DbModel StorageRefine StoredDb StoredDbRep StoredDbRun StoredDbLoad StoredDbProofs StoredDbExample.

Theorem C06_db_variants_agree_partial :
  (forall sf spf sm_ spm root d,
     Rel sf spf -> Rel sm_ spm -> stored_db (hp spf) root d -> stored_db (hp spm) root d ->
     let rf := cp_run (st_step cdata ops_file) (sd_load root) sf in
     let rm := cp_run (st_step cdata ops_mem) (sd_load root) sm_ in
     snd rf = CrDead \/ snd rm = CrDead \/
     exists df dm, snd rf = CrOk df /\ snd rm = CrOk dm /\ sd_eqv df dm /\ gr df = gr dm /\ vals df = vals dm) /\
  (forall m1 m2 root1 root2 d,
     stored_db (m_get m1) root1 d -> stored_db (m_get m2) root2 d ->
     exists d1 d2, load_db m1 root1 = Some d1 /\ load_db m2 root2 = Some d2 /\ sd_eqv d1 d2 /\
                   gr d1 = gr d2 /\ vals d1 = vals d2).
Proof. split; [exact sd_variants_agree|exact sd_stores_agree]. Qed.
Print Assumptions C06_db_variants_agree_partial.

(* non-vacuity: the same creation program (theories/StoredDbExample.v) run on the file-like and on the memory-like model of
   storage.rs leaves the same record store, which holds the database and loads to it *)
Example C06_db_sample :
  sx_store_mem = sx_store /\ stored_db (m_get sx_store) 1 sx_db /\ load_db sx_store_mem 1 = Some sx_db.
Proof. destruct sx_sample as (_ & _ & H1 & H2 & _ & _ & _ & H3). rewrite H3. auto. Qed.
Print Assumptions C06_db_sample.
