(* C06 — All storage variants give identical query results.
   Pinned statements only; proofs live in theories/ByteStoresProofs.v.

   FULL STATEMENT: for any sequence of queries the in-memory, file-only, memory-mapped and
   runtime-selected variants return identical results and identical success/failure.
   PROVED PART: the three byte-store back-ends (MemoryStorage, the data file of FileStorage, the
   memory + file pair of FileStorageMemoryMapped) compute the SAME byte store for every sequence of
   writes that start inside the store or at its end and of resizes — which is what the storage layer
   issues (checked on every generated program by the C01 check) — and reads agree; the mapped pair
   stays in sync.  Everything above the byte store (Storage<D>, the collections, DbImpl<D>) is ONE
   generic piece of Rust code instantiated with each back-end, and AnyStorage only delegates: that
   step is an argument about Rust generics, trusted, and backed by the side-by-side runs of the check
   (every query of generated histories executed on DbMemory, DbFile, Db and the three DbAny kinds). *)
From Agdb Require Import Bytes FileWal ByteStores ByteStoresProofs.
Open Scope nat_scope.

Theorem C06_backends_agree_partial :
  forall (ops : list bop) (d : bytes),
    positioned d ops ->
    fold_left mem_step ops d = fold_left spec_step ops d /\
    fold_left file_step ops d = fold_left spec_step ops d /\
    fold_left mapped_step ops {| m_mem := d; m_file := d |} =
      {| m_mem := fold_left spec_step ops d; m_file := fold_left spec_step ops d |}.
Proof. exact backends_agree. Qed.
Print Assumptions C06_backends_agree_partial.

Theorem C06_reads_agree : forall d pos len, mem_read d pos len = file_read d pos len.
Proof. exact reads_agree. Qed.
Print Assumptions C06_reads_agree.

(* also beyond the end of the store both back-ends zero-fill the gap *)
Theorem C06_gap_writes_agree :
  forall d pos bs, length d < pos -> bs <> [] -> mem_write d pos bs = file_write d pos bs.
Proof. intros. rewrite mem_write_gap, file_write_gap by assumption. reflexivity. Qed.
Print Assumptions C06_gap_writes_agree.

Example C06_nonvacuous :
  positioned [x01; x02; x03] [BWrite 1 [x0a]; BWrite 3 [x0b; x0c]; BResize 2; BResize 6; BWrite 4 []].
Proof. exact positioned_example. Qed.
Print Assumptions C06_nonvacuous.
