(* C03 — Every mutating query and transaction is atomic across crashes.
   Pinned statements only; proofs live in theories/CrashProofs.v (on top of C01). *)
From Agdb Require Import Bytes FileWal FileWalProofs TxnNesting CrashProofs CrashGuardProofs.
Open Scope nat_scope.

(* A query / transaction whose storage-data calls contain no flush except the final one:
   for EVERY crash cut (k completed file-system calls, the next torn after j bytes) the
   recovered file is byte-for-byte the file before the transaction or the file after it,
   and the recovery log is empty.  (The database structures are functions of the file
   bytes, so the reopened database is the one before or the one after.) *)
Theorem C03_atomic_single_flush :
  forall (d0 : bytes) (body : list op) (k j : nat),
    no_flush body = true -> wp d0 (body ++ [OFlush]) ->
    let st := {| data := d0; wal := [] |} in
    let r := recover walrev_fixed (crash st (trace walrev_fixed st (body ++ [OFlush])) k j) in
    wal r = [] /\ (data r = d0 \/ data r = final_data st body).
Proof. exact atomic_single_flush. Qed.
Print Assumptions C03_atomic_single_flush.

(* the same for the recovery WITH the position guard of apply_wal_record (recover_g; None = error):
   at every crash cut the guarded recovery succeeds with the file before or the file after *)
Theorem C03_atomic_single_flush_guarded :
  forall (d0 : bytes) (body : list op) (k j : nat),
    no_flush body = true -> wp d0 (body ++ [OFlush]) ->
    let st := {| data := d0; wal := [] |} in
    exists r, recover_g walrev_fixed (crash st (trace walrev_fixed st (body ++ [OFlush])) k j) = Some r /\
              wal r = [] /\ (data r = d0 \/ data r = final_data st body).
Proof. exact atomic_single_flush_g. Qed.
Print Assumptions C03_atomic_single_flush_guarded.

(* DbImpl::transaction_mut (after the fix: commit) brackets the whole closure — also when it
   fails and is rolled back by the undo commands — in one storage transaction.  Whatever
   matched nested transactions the collection operations open inside, the byte store is
   flushed exactly once, at the end. *)
Theorem C03_no_inner_flush :
  forall body : list sevent,
    stays_open 1 body = true -> depth_after 1 body = 1 ->
    exists ops, sd_ops 0 (SBegin :: body ++ [SCommit]) = ops ++ [OFlush] /\ no_flush ops = true.
Proof. exact outer_transaction_single_flush. Qed.
Print Assumptions C03_no_inner_flush.

(* the code before the fix: commit had no outer transaction: the same body flushed between
   its collection operations, so a crash there exposed a partial query *)
Theorem C03_pinned_refuted_inner_flush :
  let body := [SBegin; SData (OWrite 0 [x01]); SCommit; SBegin; SData (OWrite 1 [x02]); SCommit] in
  sd_ops 0 body = [OWrite 0 [x01]; OFlush; OWrite 1 [x02]; OFlush] /\
  stays_open 1 body = true /\ depth_after 1 body = 1.
Proof. exact no_outer_transaction_flushes_inside. Qed.
Print Assumptions C03_pinned_refuted_inner_flush.
