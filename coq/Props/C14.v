(* C14 — Graph traversals return exactly the reachable elements in documented order.
   Pinned statements only; proofs live in theories/TraverseProofs.v, the eager textbook
   specifications (bfs_spec / dfs_spec, reach, walk, shortest, dfs_rec) in theories/TraverseSpec.v,
   the hypothesis about the slot graph (adj_ok: the adjacency chains end, have no duplicates
   and enumerate exactly the edges of a node; edge endpoints are nodes) in theories/AdjOk.v.

   Notation of the statements:
     graph_search rv_fixed d a reverse origin [] HDefault
        = SearchImpl::search with the Default handler and no conditions, as coded (lazy work
          list with sibling chaining), for the revision of /repo with all fix: commits;
     graph_index g origin = true    : origin is an existing node id (> 0) or edge id (< 0);
     reach g reverse o x            : x is reached from o by node -> out-edge -> target steps
                                      (reverse: node -> in-edge -> source);
     walk g reverse o x k           : ... by exactly k such steps (every node and edge step counts);
     shortest g reverse o x k       : k is the length of a shortest walk from o to x. *)
From Agdb Require Import Bytes DbValue Graph DbModel Search Queries Revisions AdjOk TraverseSpec TraverseProofs.
From Agdb Require Import GraphSim GraphProofs GraphSpec AdjOkWf.
From Coq Require Import Sorting.Sorted.
Open Scope Z_scope.

(* The implementation's result IS the eager breadth-first specification's result: queue of
   (element, distance); a dequeued unvisited node enqueues all its edges newest first, a
   dequeued unvisited edge enqueues its far endpoint; visited test on dequeue.
   Origins: existing nodes AND existing edges. *)
Theorem C14_lazy_eq_eager_bfs :
  forall (d : db) (reverse : bool) (origin : Z),
    adj_ok (gr d) -> graph_index (gr d) origin = true ->
    graph_search rv_fixed d BFS reverse origin [] HDefault = Some (map fst (bfs_spec (gr d) reverse origin)).
Proof. exact lazy_eq_eager_bfs. Qed.
Print Assumptions C14_lazy_eq_eager_bfs.

(* ... and the eager depth-first specification's: stack, pre-order, newest edge first. *)
Theorem C14_lazy_eq_eager_dfs :
  forall (d : db) (reverse : bool) (origin : Z),
    adj_ok (gr d) -> graph_index (gr d) origin = true ->
    graph_search rv_fixed d DFS reverse origin [] HDefault = Some (map fst (dfs_spec (gr d) reverse origin)).
Proof. exact lazy_eq_eager_dfs. Qed.
Print Assumptions C14_lazy_eq_eager_dfs.

(* Breadth-first: origin first (distance 0), no duplicates, exactly the reachable elements,
   distances non-decreasing along the result, and every recorded distance is the length of
   a shortest alternating path. *)
Theorem C14_bfs_reachable :
  forall (g : graph) (reverse : bool) (o : Z),
    adj_ok g -> graph_index g o = true ->
    let r := bfs_spec g reverse o in
    (exists tl, r = (o, 0) :: tl) /\
    NoDup (map fst r) /\
    (forall x, In x (map fst r) <-> reach g reverse o x) /\
    StronglySorted Z.le (map snd r) /\
    (forall x k, In (x, k) r -> shortest g reverse o x k).
Proof. exact bfs_reachable. Qed.
Print Assumptions C14_bfs_reachable.

(* Depth-first: origin first, no duplicates, exactly the reachable elements, and the order is
   the pre-order of the recursive depth-first search that follows each branch to its end
   before backtracking, newest edge first (dfs_rec, for every sufficient recursion fuel). *)
Theorem C14_dfs_preorder :
  forall (g : graph) (reverse : bool) (o : Z),
    adj_ok g -> graph_index g o = true ->
    let r := dfs_spec g reverse o in
    (exists tl, r = (o, 0) :: tl) /\
    NoDup (map fst r) /\
    (forall x, In x (map fst r) <-> reach g reverse o x) /\
    (forall x k, In (x, k) r -> walk g reverse o x k) /\
    (forall fr, (search_fuel g <= fr)%nat -> map fst r = rev (dfs_rec g reverse fr o [])).
Proof. exact dfs_preorder. Qed.
Print Assumptions C14_dfs_preorder.

(* The same directly on the implementation model, both algorithms, both directions. *)
Theorem C14_traversal_exact :
  forall (d : db) (a : algo) (reverse : bool) (origin : Z),
    adj_ok (gr d) -> graph_index (gr d) origin = true ->
    exists r, graph_search rv_fixed d a reverse origin [] HDefault = Some (origin :: r) /\
              NoDup (origin :: r) /\
              (forall x, In x (origin :: r) <-> reach (gr d) reverse origin x).
Proof. exact traversal_exact. Qed.
Print Assumptions C14_traversal_exact.

(* At the query level (SearchQuery::search): origin only = forward, destination only = reverse. *)
Theorem C14_search_query_forward :
  forall (d : db) (o : Z), adj_ok (gr d) -> graph_index (gr d) o = true ->
    search rv_fixed d (plain_query ABreadthFirst o 0) = SOk (map fst (bfs_spec (gr d) false o)) /\
    search rv_fixed d (plain_query ADepthFirst o 0) = SOk (map fst (dfs_spec (gr d) false o)).
Proof. exact search_query_forward. Qed.
Print Assumptions C14_search_query_forward.

Theorem C14_search_query_reverse :
  forall (d : db) (o : Z), adj_ok (gr d) -> graph_index (gr d) o = true ->
    search rv_fixed d (plain_query ABreadthFirst 0 o) = SOk (map fst (bfs_spec (gr d) true o)) /\
    search rv_fixed d (plain_query ADepthFirst 0 o) = SOk (map fst (dfs_spec (gr d) true o)).
Proof. exact search_query_reverse. Qed.
Print Assumptions C14_search_query_reverse.

(* search_fuel is never exhausted (origins as DbImpl resolves them). *)
Theorem C14_no_fuel :
  forall (d : db) (a : algo) (reverse : bool) (origin : Z),
    adj_ok (gr d) ->
    graph_index (gr d) origin = true \/ is_node (gr d) origin || is_edge (gr d) origin = false ->
    graph_search rv_fixed d a reverse origin [] HDefault <> None.
Proof. exact search_no_fuel. Qed.
Print Assumptions C14_no_fuel.

(* ... also with ANY condition list and ANY limit/offset handler (used by C19). *)
Theorem C14_no_fuel_all_conditions :
  forall (d : db), adj_ok (gr d) ->
  forall (a : algo) (reverse : bool) (origin : Z) (conds : list cond) (h : handler_kind),
    graph_index (gr d) origin = true \/ is_node (gr d) origin || is_edge (gr d) origin = false ->
    graph_search rv_fixed d a reverse origin conds h <> None.
Proof. exact graph_search_no_fuel. Qed.
Print Assumptions C14_no_fuel_all_conditions.

(* Defect 1 (repaired by fix: 23600df, flag fix_edge_origin): before the fix a search from an
   edge also returned the edge's older sibling, which is not reachable from it.
   History: insert 2 nodes; insert edge 1->2 (-3); insert edge 1->2 (-4); search from -4. *)
Theorem C14_edge_origin_pinned_refuted :
  let d := witness1 rv_pinned in
  adj_ok (gr d) /\ graph_index (gr d) (-4) = true /\
  graph_search rv_pinned d BFS false (-4) [] HDefault = Some [-4; -3; 2] /\
  graph_search rv_pinned d DFS false (-4) [] HDefault = Some [-4; 2; -3] /\
  ids_of (snd (exec rv_pinned d (SearchQ (plain_query ABreadthFirst (-4) 0)))) = Some [-4; -3; 2] /\
  ~ reach (gr d) false (-4) (-3) /\
  graph_search rv_fixed (witness1 rv_fixed) BFS false (-4) [] HDefault = Some [-4; 2].
Proof. exact edge_origin_pinned_refuted. Qed.
Print Assumptions C14_edge_origin_pinned_refuted.

(* Defect 2 (found by this proof attempt, repaired by fix: 7e27fbc, flag fix_visited_chain):
   with the first fix only, the already visited origin edge cut the lazily expanded edge list
   of its node when the node was reached again, so older siblings were lost although reachable.
   History: insert 1 node; insert edge 1->1 (-2); insert edge 1->1 (-3); search from -3. *)
Theorem C14_visited_chain_refuted :
  let d := witness2 rv_no_visited_chain in
  adj_ok (gr d) /\ graph_index (gr d) (-3) = true /\
  graph_search rv_no_visited_chain d BFS false (-3) [] HDefault = Some [-3; 1] /\
  graph_search rv_no_visited_chain d DFS false (-3) [] HDefault = Some [-3; 1] /\
  graph_search rv_no_visited_chain d BFS true (-3) [] HDefault = Some [-3; 1] /\
  ids_of (snd (exec rv_no_visited_chain d (SearchQ (plain_query ABreadthFirst (-3) 0)))) = Some [-3; 1] /\
  reach (gr d) false (-3) (-2) /\
  graph_search rv_fixed (witness2 rv_fixed) BFS false (-3) [] HDefault = Some [-3; 1; -2].
Proof. exact visited_chain_refuted. Qed.
Print Assumptions C14_visited_chain_refuted.

(* Non-vacuity: a graph built with the real operations (3 nodes, parallel edges, a self-loop,
   a cycle, a removed and re-used edge slot) satisfies adj_ok, and the searches on it. *)
Example C14_nonvacuous :
  adj_ok (gr example_db) /\
  graph_search rv_fixed example_db BFS false 1 [] HDefault = Some [1; -5; -4; 3; 2; -7; -8; -6] /\
  graph_search rv_fixed example_db DFS false 1 [] HDefault = Some [1; -5; 3; -7; -4; 2; -8; -6] /\
  graph_search rv_fixed example_db BFS true 3 [] HDefault = Some [3; -5; -6; 1; 2; -7; -8; -4] /\
  graph_search rv_fixed example_db DFS false (-4) [] HDefault = Some [-4; 2; -8; -6; 3; -7; 1; -5] /\
  bfs_spec example_graph false 1 = [(1, 0); (-5, 1); (-4, 1); (3, 2); (2, 2); (-7, 3); (-8, 3); (-6, 3)].
Proof. exact example_searches. Qed.
Print Assumptions C14_nonvacuous.

(* The checker of the hypothesis is sound, so adj_ok of any concrete graph is decided by vm_compute. *)
Theorem C14_adj_okb_sound : forall g : graph, adj_okb g = true -> adj_ok g.
Proof. exact adj_okb_sound. Qed.
Print Assumptions C14_adj_okb_sound.

(* ---- the hypothesis adj_ok is discharged by the graph invariant ---- *)

(* wf (GraphSim.v: some abstract multigraph simulates the slot arrays) implies adj_ok ... *)
Theorem C14_wf_adj_ok : forall g : graph, wf g -> adj_ok g.
Proof. exact wf_adj_ok. Qed.
Print Assumptions C14_wf_adj_ok.

(* ... and wf holds after every history of graph operations from the empty graph (GraphSpec.grun_wf;
   gop_ok: ids are passed with the sign of their kind, as DbImpl::graph_index dispatches), so every
   such graph satisfies the hypothesis of the theorems above. *)
Theorem C14_reachable_graphs_adj_ok :
  forall (ops : list gop) (g : graph) (a : agraph),
    Forall gop_ok ops -> grun graph_new a_empty ops = Some (g, a) -> adj_ok g.
Proof. exact grun_adj_ok. Qed.
Print Assumptions C14_reachable_graphs_adj_ok.

Theorem C14_traversal_exact_wf :
  forall (d : db) (a : algo) (reverse : bool) (origin : Z),
    wf (gr d) -> graph_index (gr d) origin = true ->
    exists r, graph_search rv_fixed d a reverse origin [] HDefault = Some (origin :: r) /\
              NoDup (origin :: r) /\
              (forall x, In x (origin :: r) <-> reach (gr d) reverse origin x).
Proof. exact traversal_exact_wf. Qed.
Print Assumptions C14_traversal_exact_wf.
