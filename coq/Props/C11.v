(* C11 — Indexes always reflect current property values exactly.
   Pinned statements only; proofs live in theories/IndexProofs.v, IndexDbProofs.v, IndexDb2Proofs.v,
   IndexDb3Proofs.v, IndexDb4Proofs.v, IndexInvProofs.v (and DbInvProofs.v for the history level).

   Vocabulary.  An index is (key, ids) with ids a list of (value, element id) entries.
     respects P            : the value predicate P cannot tell dbv_eqb-equal values apart
     cntP ids P id         : number of entries of `ids` for element id whose value satisfies P
     cntK l key P          : number of pairs of the property list l with key `key` and value satisfying P
     idx_exact_on E d      : for every index (key, ids), every such P and every id:
                               cntP ids P id = if E id then cntK (values of id) key P else 0
                             i.e. the index is, as a multiset modulo value equality, exactly
                             { (v, id) | id live, (key, v) among the values of id }
     vals_live_on E d      : only live elements (one of the two signs of a slot) have values
     E_ok E                : id and -id are never both live
     live d = graph_index (gr d);  idx_exact d / vals_live d = the above with E := live d
     idx_distinct d        : no key is indexed twice
     idx_inv d             : idx_exact d /\ vals_live d /\ idx_distinct d
     E_del E id            : E without id. *)
From Agdb Require Import Bytes DbValue Graph DbModel Search Queries Revisions QStepProofs
  KvProofs KvDbProofs KvSelectProofs IndexProofs IndexDbProofs IndexDb2Proofs IndexDb3Proofs IndexDb4Proofs
  IndexInvProofs IndexExample DbInvProofs QueryInvProofs SearchLiveProofs HistoryInvProofs HistoryExamples.
Open Scope Z_scope.

(* ---- the invariant holds initially and is kept by every property mutation of DbImpl
        (they do not touch the graph) ---- *)
Theorem C11_invariant_initial : idx_inv db_new.
Proof. exact idx_inv_new. Qed.
Print Assumptions C11_invariant_initial.

Theorem C11_value_mutations_preserve :
  (forall d id x, idx_inv d -> live d id = true -> idx_inv (insert_key_value d id x)) /\
  (forall d id x, idx_inv d -> live d id = true -> idx_inv (insert_or_replace_key_value d id x)) /\
  (forall d id kvs, idx_inv d -> live d id = true -> idx_inv (insert_kvs_replace d id kvs)) /\
  (forall d id kvs, idx_inv d -> live d id = true -> idx_inv (insert_kvs_new d id kvs)) /\
  (forall d id keys, idx_inv d -> kvs_distinct (vals d) -> live d id = true ->
                     idx_inv (snd (remove_keys d id keys))).
Proof.
  exact (conj insert_key_value_inv (conj insert_or_replace_key_value_inv
        (conj insert_kvs_replace_inv (conj insert_kvs_new_inv remove_keys_inv)))).
Qed.
Print Assumptions C11_value_mutations_preserve.

(* removing all values of an element (called AFTER the element left the graph, and for every
   cascaded edge): exact for the live set without that element — for any live set E *)
Theorem C11_remove_all_values :
  forall E d id, E_ok E -> idx_exact_on E d -> vals_live_on E d ->
  (E id = true \/ (E id = false /\ E (- id) = false)) ->
  idx_exact_on (E_del E id) (remove_all_values d id) /\ vals_live_on (E_del E id) (remove_all_values d id).
Proof. intros E d id. exact (remove_all_values_exact id E d). Qed.
Print Assumptions C11_remove_all_values.

(* ---- creating an index covers the data inserted before it; an existing index is an error
        without effect ---- *)
Theorem C11_backfill :
  forall d key,
  match insert_index d key with
  | RErr e => e = ENotAllowed /\ idx_find (indexes d) key <> None
  | ROk (n, d') =>
      idx_find (indexes d) key = None /\
      gr d' = gr d /\ vals d' = vals d /\ aliases d' = aliases d /\
      (forall key', idx_find (indexes d') key' =
                    match idx_find (indexes d) key' with
                    | Some ids => Some ids
                    | None => if dbv_eqb key key' then Some (backfill_pairs d key) else None
                    end) /\
      map fst (indexes d') = map fst (indexes d) ++ [key] /\
      n = Z.of_nat (length (backfill_pairs d key))
  end.
Proof. exact insert_index_spec. Qed.
Print Assumptions C11_backfill.

Theorem C11_backfill_exact :
  forall d key n d', insert_index d key = ROk (n, d') -> idx_inv d -> idx_inv d'.
Proof. exact insert_index_inv. Qed.
Print Assumptions C11_backfill_exact.

Theorem C11_duplicate_index_err :
  forall rv d key, undo d = [] -> idx_find (indexes d) key <> None ->
  exec rv d (InsertIndex key) = (d, QErr ENotAllowed).
Proof. exact exec_insert_index_duplicate. Qed.
Print Assumptions C11_duplicate_index_err.

Theorem C11_remove_index :
  forall d key, idx_inv d ->
  idx_inv (snd (remove_index d key)) /\
  (forall key', idx_find (indexes (snd (remove_index d key))) key' =
                if dbv_eqb key key' then None else idx_find (indexes d) key').
Proof.
  intros d key H. split; [now apply remove_index_inv|].
  destruct H as (_ & _ & H3). pose proof (remove_index_spec d key H3) as S. cbv zeta in S. apply S.
Qed.
Print Assumptions C11_remove_index.

(* ---- consequences of the invariant ---- *)

(* an index search for key K and value V returns, as a multiset, exactly the existing elements
   whose current value of K equals V *)
Theorem C11_index_search_exact :
  forall rv d s l m key op value rest,
  idx_exact d -> kvs_distinct (vals d) ->
  s_algorithm s = AIndex -> s_conditions s = Cond l m (CKeyValue key op value) :: rest ->
  match idx_find (indexes d) key with
  | None => search rv d s = SErr ENotFound
  | Some _ =>
    exists result, search rv d s = SOk result /\
      forall id, count_occ Z.eq_dec result id =
                 if live d id then match kvs_value (vals d) id key with
                                   | Some v' => b2nat (dbv_eqb v' value)
                                   | None => 0%nat
                                   end
                 else 0%nat
  end.
Proof.
  intros rv d s l m key op value rest Hd Hk Ha Hc.
  rewrite (search_index_unfold rv d s l m key op value rest Ha Hc).
  destruct (idx_find (indexes d) key) as [ids|] eqn:F; [|reflexivity].
  eexists. split; [reflexivity|]. intros id. now apply index_search_exact.
Qed.
Print Assumptions C11_index_search_exact.

(* the index listing reports, per indexed key, exactly the number of existing elements having it *)
Theorem C11_index_listing_exact :
  forall rv d, idx_exact d -> kvs_distinct (vals d) -> idx_distinct d ->
  exec_select rv d SelectIndexes =
  QOk (lenZ (indexes d))
      [ {| e_id := 0; e_from := 0; e_to := 0;
           e_values := map (fun ix : index => (fst ix, DU64 (N.of_nat (count_having d (fst ix))))) (indexes d) |} ].
Proof. exact select_indexes_exact. Qed.
Print Assumptions C11_index_listing_exact.

(* ---- non-vacuity: data before the index, a replacement, a removed element ---- *)
Example C11_nonvacuous :
  let d := exec_all rv_fixed db_new c11_history in
  search rv_fixed d (c11_search (DI64 1)) = SOk [3; 2] /\
  search rv_fixed d (c11_search (DI64 2)) = SOk [] /\
  count_having d c11_key = 2%nat /\
  snd (exec rv_fixed d (InsertIndex c11_key)) = QErr ENotAllowed /\
  exec_select rv_fixed d SelectIndexes =
    QOk 1 [ {| e_id := 0; e_from := 0; e_to := 0; e_values := [(c11_key, DU64 2)] |} ].
Proof. exact c11_example. Qed.
Print Assumptions C11_nonvacuous.

(* ---- all histories -------------------------------------------------------------------------
   FULL STATEMENT (property text): for ANY history of property changes, element removals (with the
   cascade over incident edges), index creation and removal, AND ROLLED-BACK TRANSACTIONS, every index
   search returns exactly the matching elements and the listing reports the exact counts.

   Inv / query_ok / traversal_live / all_succeed: see Props/C10.v (same joint invariant).
   PROVED: C11_transaction_partial (idx_inv at every state inside a running transaction, the partial
   state of a failing query included), C11_history_partial (after every history from db_new in which
   no query fails: idx_inv, the exact multiset answer of every index search, the exact listing).
   MISSING for the full statement: (1) `traversal_live rv_fixed` (graph traversals return only
   existing elements; C14/C17) is a hypothesis; (2) ROLLBACK: the undo commands (undo_one) are not
   shown to keep idx_inv, so states after a rolled-back failing query are not covered (C13). *)
Theorem C11_transaction_partial :
  traversal_live rv_fixed ->
  forall d qs acc, Forall query_ok qs -> Inv d -> idx_inv (fst (fst (txn_run rv_fixed d qs acc))).
Proof.
  intros Ht d qs acc Hq Hd. apply Inv_index. exact (transaction_state_Inv rv_fixed Ht eq_refl d qs acc Hq Hd).
Qed.
Print Assumptions C11_transaction_partial.

Theorem C11_history_partial :
  traversal_live rv_fixed ->
  forall qs, Forall query_ok qs -> all_succeed rv_fixed db_new qs ->
  let d := exec_all rv_fixed db_new qs in
  idx_inv d /\
  (forall key ids value id, idx_find (indexes d) key = Some ids ->
     count_occ Z.eq_dec (map snd (filter (fun p : dbvalue * Z => dbv_eqb (fst p) value) ids)) id =
     if live d id then match kvs_value (vals d) id key with
                       | Some v' => b2nat (dbv_eqb v' value)
                       | None => 0%nat
                       end
     else 0%nat) /\
  exec_select rv_fixed d SelectIndexes =
    QOk (lenZ (indexes d))
        [ {| e_id := 0; e_from := 0; e_to := 0;
             e_values := map (fun ix : index => (fst ix, DU64 (N.of_nat (count_having d (fst ix))))) (indexes d) |} ].
Proof. intros Ht. exact (history_indexes rv_fixed Ht eq_refl). Qed.
Print Assumptions C11_history_partial.

Example C11_history_nonvacuous : Forall query_ok c11_history /\ all_succeed rv_fixed db_new c11_history.
Proof. exact c11_history_ok. Qed.
Print Assumptions C11_history_nonvacuous.

(* ---- all histories, UNCONDITIONALLY (supersedes C11_transaction_partial / C11_history_partial) ----
   `traversal_live rv_fixed` is no longer a hypothesis (see Props/C10.v, C10_traversal_live; the old
   hypothesis was false as literally stated, C10_traversal_live_refuted, so the `_partial` theorems
   above were vacuous).  Still restricted here to histories without failing queries; ROLLED-BACK
   queries and transactions are covered by C13_history_atomic (Props/C13.v): Inv — hence idx_inv, the
   exact answer of every index search and the exact listing (C11_inv_exact) — holds after EVERY history. *)
From Agdb Require Import TraversalLiveProofs DbInvariantProofs.

Theorem C11_transaction :
  forall d qs acc, Forall query_ok qs -> Inv d -> idx_inv (fst (fst (txn_run rv_fixed d qs acc))).
Proof. intros d qs acc Hq Hd. apply Inv_index. now apply transaction_state_Inv_fixed. Qed.
Print Assumptions C11_transaction.

(* what the invariant means for every index read, in any state satisfying it *)
Theorem C11_inv_exact :
  forall d, Inv d ->
  idx_inv d /\
  (forall key ids value id, idx_find (indexes d) key = Some ids ->
     count_occ Z.eq_dec (map snd (filter (fun p : dbvalue * Z => dbv_eqb (fst p) value) ids)) id =
     if live d id then match kvs_value (vals d) id key with
                       | Some v' => b2nat (dbv_eqb v' value)
                       | None => 0%nat
                       end
     else 0%nat) /\
  (forall rv, exec_select rv d SelectIndexes =
    QOk (lenZ (indexes d))
        [ {| e_id := 0; e_from := 0; e_to := 0;
             e_values := map (fun ix : index => (fst ix, DU64 (N.of_nat (count_having d (fst ix))))) (indexes d) |} ]).
Proof. exact Inv_indexes. Qed.
Print Assumptions C11_inv_exact.

Theorem C11_history :
  forall qs, Forall query_ok qs -> all_succeed rv_fixed db_new qs ->
  let d := exec_all rv_fixed db_new qs in
  idx_inv d /\
  (forall key ids value id, idx_find (indexes d) key = Some ids ->
     count_occ Z.eq_dec (map snd (filter (fun p : dbvalue * Z => dbv_eqb (fst p) value) ids)) id =
     if live d id then match kvs_value (vals d) id key with
                       | Some v' => b2nat (dbv_eqb v' value)
                       | None => 0%nat
                       end
     else 0%nat) /\
  exec_select rv_fixed d SelectIndexes =
    QOk (lenZ (indexes d))
        [ {| e_id := 0; e_from := 0; e_to := 0;
             e_values := map (fun ix : index => (fst ix, DU64 (N.of_nat (count_having d (fst ix))))) (indexes d) |} ].
Proof. exact history_indexes_fixed. Qed.
Print Assumptions C11_history.
