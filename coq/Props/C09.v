(* C09 — Element properties behave as a per-element ordered key-value map.
   Pinned statements only; proofs live in theories/DbValueEqProofs.v, KvProofs.v, KvDbProofs.v,
   KvSelectProofs.v (and DbInvProofs.v for the history level).

   Vocabulary: `kvs_get s i` is the property list of the element in slot |i| (map order);
   keys are compared with `dbv_eqb` (DbValue's derived equality);
     has_key l k       : some pair of l has a key equal to k
     kv_find l k       : the first such pair
     keys_distinct l   : no two pairs of l have equal keys
     kvs_distinct s    : every element's list is keys_distinct
     vals_distinct ks  : a request / key list without equal keys
     listed ks p       : the key of pair p is one of ks. *)
From Agdb Require Import Bytes DbValue Graph DbModel Search Queries Revisions
  DbValueEqProofs KvProofs KvDbProofs KvSelectProofs QStepProofs
  IndexDb3Proofs DbInvProofs QueryInvProofs SearchLiveProofs HistoryInvProofs HistoryExamples.
Open Scope Z_scope.

(* ---- key equality is an equivalence; on values whose f64 payloads are 64-bit patterns it is
        Leibniz equality ---- *)
Theorem C09_key_equality :
  (forall a, dbv_eqb a a = true) /\
  (forall a b, dbv_eqb a b = dbv_eqb b a) /\
  (forall a b c, dbv_eqb a b = true -> dbv_eqb b c = true -> dbv_eqb a c = true) /\
  (forall a b, dbv_canon a -> dbv_canon b -> (dbv_eqb a b = true <-> a = b)).
Proof. exact (conj dbv_eqb_refl (conj dbv_eqb_sym (conj dbv_eqb_trans dbv_eqb_eq))). Qed.
Print Assumptions C09_key_equality.

(* ---- insert_or_replace: an existing key is replaced IN PLACE (same position, same length,
        only that pair changes), a new key is APPENDED; other elements are untouched ---- *)
Theorem C09_insert_or_replace :
  forall s i x,
  let '(o, s') := kvs_insert_or_replace s i x in
  (forall j, Z.abs i <> Z.abs j -> kvs_get s' j = kvs_get s j) /\
  match o with
  | Some old => exists l1 l2, kvs_get s i = l1 ++ old :: l2 /\ kvs_get s' i = l1 ++ x :: l2 /\
                              has_key l1 (fst x) = false /\ dbv_eqb (fst old) (fst x) = true
  | None => has_key (kvs_get s i) (fst x) = false /\ kvs_get s' i = kvs_get s i ++ [x]
  end.
Proof. exact kvs_insert_or_replace_spec. Qed.
Print Assumptions C09_insert_or_replace.

(* as a map: the inserted key reads the new value, every other key reads as before *)
Theorem C09_insert_or_replace_lookup :
  forall s i x k,
  kvs_value (snd (kvs_insert_or_replace s i x)) i k =
  if dbv_eqb (fst x) k then Some (snd x) else kvs_value s i k.
Proof. exact kvs_insert_or_replace_value. Qed.
Print Assumptions C09_insert_or_replace_lookup.

(* ---- the invariant: no element ever has two equal keys ---- *)
Theorem C09_distinct_keys_invariant :
  kvs_distinct [] /\
  (forall s i x, kvs_distinct s -> kvs_distinct (snd (kvs_insert_or_replace s i x))) /\
  (forall s i k, kvs_distinct s -> kvs_distinct (kvs_remove_value s i k)) /\
  (forall s i, kvs_distinct s -> kvs_distinct (kvs_remove s i)) /\
  (* DbImpl / query-layer loops *)
  (forall d id kvs, kvs_distinct (vals d) -> kvs_distinct (vals (insert_kvs_replace d id kvs))) /\
  (forall d id kvs, kvs_distinct (vals d) -> kvs_get (vals d) id = [] -> keys_distinct kvs ->
                    kvs_distinct (vals (insert_kvs_new d id kvs))) /\
  (forall d id keys, kvs_distinct (vals d) -> kvs_distinct (vals (snd (remove_keys d id keys)))) /\
  (forall d id, kvs_distinct (vals d) -> kvs_distinct (vals (remove_all_values d id))).
Proof.
  repeat split.
  - exact kvs_distinct_nil.
  - exact kvs_insert_or_replace_distinct.
  - exact kvs_remove_value_distinct.
  - exact kvs_remove_distinct.
  - exact insert_kvs_replace_distinct.
  - exact insert_kvs_new_distinct.
  - exact remove_keys_distinct.
  - intros d id H. rewrite remove_all_values_vals. now apply kvs_remove_distinct.
Qed.
Print Assumptions C09_distinct_keys_invariant.

(* ---- inserting values on an existing element (InsertValues / InsertNodes / InsertEdges with ids):
        every key of the list reads the value given for it (the last one if a key is repeated; for
        a list with distinct keys: THE value given), other keys and other elements are unchanged ---- *)
Theorem C09_insert_values :
  forall d id kvs,
  (forall k, kvs_value (vals (insert_kvs_replace d id kvs)) id k = last_value kvs k (kvs_value (vals d) id k)) /\
  (keys_distinct kvs ->
   forall k, kvs_value (vals (insert_kvs_replace d id kvs)) id k =
             match kv_lookup kvs k with Some v => Some v | None => kvs_value (vals d) id k end) /\
  (forall j, Z.abs id <> Z.abs j -> kvs_get (vals (insert_kvs_replace d id kvs)) j = kvs_get (vals d) j).
Proof.
  intros d id kvs. split; [|split].
  - intros k. apply insert_kvs_replace_value.
  - intros Hd k. rewrite insert_kvs_replace_value. now apply last_value_distinct.
  - intros j Hj. now apply insert_kvs_replace_other.
Qed.
Print Assumptions C09_insert_values.

(* values of a newly created element are appended in the given order *)
Theorem C09_insert_new_values :
  forall d id kvs j,
  kvs_get (vals (insert_kvs_new d id kvs)) j =
  if Z.abs id =? Z.abs j then kvs_get (vals d) id ++ kvs else kvs_get (vals d) j.
Proof. exact insert_kvs_new_get. Qed.
Print Assumptions C09_insert_new_values.

(* ---- removing keys deletes exactly the listed keys, keeps the order of the rest, returns their
        number, and touches no other element ---- *)
Theorem C09_remove_keys :
  forall d id keys, keys_distinct (kvs_get (vals d) id) ->
  let r := remove_keys d id keys in
  kvs_get (vals (snd r)) id = filter (fun p => negb (listed keys p)) (kvs_get (vals d) id) /\
  fst r = Z.of_nat (length (filter (listed keys) (kvs_get (vals d) id))) /\
  (forall j, Z.abs id <> Z.abs j -> kvs_get (vals (snd r)) j = kvs_get (vals d) j).
Proof. exact remove_keys_spec. Qed.
Print Assumptions C09_remove_keys.

(* ---- removing an element removes all its properties (so a later element reusing the slot
        starts with none) ---- *)
Theorem C09_remove_element_clears :
  (forall d id j, kvs_get (vals (remove_all_values d id)) j = if Z.abs id =? Z.abs j then [] else kvs_get (vals d) j) /\
  (forall d id d', remove_id d id = (d', ROk true) -> kvs_get (vals d') id = []) /\
  (forall d q d' id, remove_q d q = (d', ROk true) -> db_id d q = ROk id -> kvs_get (vals d') id = []).
Proof. exact (conj remove_all_values_get (conj remove_id_clears remove_q_clears)). Qed.
Print Assumptions C09_remove_element_clears.

(* ---- selection by keys: exactly, for each request position in order, the element's pairs whose
        key first occurs in the request at that position (no side condition) ... ---- *)
Theorem C09_values_by_keys :
  forall s i keys,
  kvs_values_by_keys s i keys =
  flat_map (fun m => filter (fun p : kv => pos_is keys (fst p) m) (kvs_get s i)) (seq 0 (length keys)).
Proof. exact kvs_values_by_keys_buckets. Qed.
Print Assumptions C09_values_by_keys.

(* ... which for distinct keys is: the pair of each requested key that is present, in request order *)
Theorem C09_values_by_keys_distinct :
  forall s i keys, keys_distinct (kvs_get s i) -> vals_distinct keys ->
  kvs_values_by_keys s i keys = flat_map (found_pair (kvs_get s i)) keys.
Proof. exact kvs_values_by_keys_distinct. Qed.
Print Assumptions C09_values_by_keys_distinct.

(* ---- SelectValues (values_of d [] id = the whole list in map order; values_of d keys id = values_by_keys):
        explicit ids: NotFound iff some id misses a requested key, else one element per id;
        search: missing keys are skipped ---- *)
Theorem C09_select_values :
  forall rv d keys,
  (forall l, select_values rv d keys (Ids l) =
             match resolve_all d l with
             | RErr e => QErr e
             | ROk ids => if existsb (missing_key d keys) ids then QErr ENotFound
                          else QOk (lenZ ids) (map (fun id => elem d id (values_of d keys id)) ids)
             end) /\
  (forall s, select_values rv d keys (QSearch s) =
             match search rv d s with
             | SErr e => QErr e
             | SPanic => QPanic
             | SOk ids => QOk (lenZ ids) (map (fun id => elem d id (values_of d keys id)) ids)
             end) /\
  (forall id, values_of d [] id = kvs_get (vals d) id /\ missing_key d [] id = false) /\
  (forall id, keys <> [] -> keys_distinct (kvs_get (vals d) id) -> vals_distinct keys ->
              values_of d keys id = flat_map (found_pair (kvs_get (vals d) id)) keys /\
              missing_key d keys id = existsb (fun k => negb (has_key (kvs_get (vals d) id) k)) keys).
Proof.
  intros rv d keys. split; [|split; [|split]].
  - intros l. apply select_values_ids.
  - intros s. apply select_values_search.
  - intros id. split; [reflexivity|apply missing_key_all].
  - intros id Hne Hl Hk. split; [|now apply missing_key_distinct].
    unfold values_of. destruct keys; [congruence|]. now apply kvs_values_by_keys_distinct.
Qed.
Print Assumptions C09_select_values.

(* keys and key counts are read off the same lists *)
Theorem C09_select_keys :
  forall rv d ids,
  exec_select rv d (SelectKeys ids) =
  match resolve_ids rv d ids with
  | SErr e => QErr e
  | SPanic => QPanic
  | SOk l => QOk (lenZ l) (map (fun id => elem d id (map (fun x : kv => (fst x, default_value)) (kvs_get (vals d) id))) l)
  end.
Proof. exact exec_select_keys. Qed.
Print Assumptions C09_select_keys.

Theorem C09_select_key_count :
  forall rv d ids,
  exec_select rv d (SelectKeyCount ids) =
  match resolve_ids rv d ids with
  | SErr e => QErr e
  | SPanic => QPanic
  | SOk l => QOk (fold_left (fun a id => a + lenZ (kvs_get (vals d) id)) l 0)
                 (map (fun id => elem d id [key_count_kv (lenZ (kvs_get (vals d) id))]) l)
  end.
Proof. exact exec_select_key_count. Qed.
Print Assumptions C09_select_key_count.

(* ---- non-vacuity: a concrete history exercising replace-in-place, append, removal and both
        selections on the model ---- *)
Example C09_nonvacuous :
  let d := exec_all rv_fixed db_new c09_history in
  kvs_get (vals d) 1 = [(c09_k 2, DI64 21); (c09_k 3, DI64 30); (c09_k 4, DI64 40)] /\
  keys_distinct (kvs_get (vals d) 1) /\
  exec_select rv_fixed d (SelectValues [c09_k 4; c09_k 2] (Ids [QId 1])) =
    QOk 1 [elem d 1 [(c09_k 4, DI64 40); (c09_k 2, DI64 21)]] /\
  exec_select rv_fixed d (SelectValues [c09_k 1] (Ids [QId 1])) = QErr ENotFound.
Proof. exact c09_example. Qed.
Print Assumptions C09_nonvacuous.

(* ---- all histories -------------------------------------------------------------------------
   FULL STATEMENT (property text): for ANY history whose insert lists have distinct keys, every
   element's properties form an ordered map without duplicate keys and only existing elements have
   properties (so a new element reusing a slot never inherits any); the selection theorems above
   then describe every read.

   Inv / query_ok / traversal_live / all_succeed: see Props/C10.v (same joint invariant).
   PROVED: C09_transaction_partial (every state inside a running transaction, the partial state of a
   failing query included), C09_history_partial (every history from db_new in which no query fails).
   MISSING for the full statement: (1) `traversal_live rv_fixed` (graph traversals return only
   existing elements; C14/C17) is a hypothesis; (2) states after the rollback of a failing query (C13). *)
Theorem C09_transaction_partial :
  traversal_live rv_fixed ->
  forall d qs acc, Forall query_ok qs -> Inv d ->
  let d1 := fst (fst (txn_run rv_fixed d qs acc)) in kvs_distinct (vals d1) /\ vals_live d1.
Proof.
  intros Ht d qs acc Hq Hd. pose proof (transaction_state_Inv rv_fixed Ht eq_refl d qs acc Hq Hd) as H.
  split; [now apply Inv_distinct|apply (Inv_index _ H)].
Qed.
Print Assumptions C09_transaction_partial.

Theorem C09_history_partial :
  traversal_live rv_fixed ->
  forall qs, Forall query_ok qs -> all_succeed rv_fixed db_new qs ->
  kvs_distinct (vals (exec_all rv_fixed db_new qs)) /\ vals_live (exec_all rv_fixed db_new qs).
Proof. intros Ht. exact (history_values rv_fixed Ht eq_refl). Qed.
Print Assumptions C09_history_partial.

(* id reuse: in a state satisfying the invariant a newly created node or edge (which may reuse the
   slot of a removed element) starts without any property *)
Theorem C09_new_element_empty :
  forall d, Inv d ->
  kvs_get (vals (snd (insert_node_db d))) (fst (insert_node_db d)) = [] /\
  (forall f t e d', live d f = true -> live d t = true -> insert_edge_db d f t = ROk (e, d') ->
                    kvs_get (vals d') e = []).
Proof.
  intros d Hd. split; [apply (insert_node_db_Inv d Hd)|].
  intros f t e d' Hf Ht Hi. apply (insert_edge_db_Inv d f t e d' Hd Hf Ht Hi).
Qed.
Print Assumptions C09_new_element_empty.

Example C09_history_nonvacuous : Forall query_ok c09_history /\ all_succeed rv_fixed db_new c09_history.
Proof. exact c09_history_ok. Qed.
Print Assumptions C09_history_nonvacuous.

(* ---- all histories, UNCONDITIONALLY (supersedes C09_transaction_partial / C09_history_partial) ----
   The hypothesis `traversal_live rv_fixed` is gone: theories/TraversalLiveProofs.v derives from the
   C14 / C17 / C18 developments (under the graph invariant wf, part of Inv) that every id returned by
   any search of the repaired code exists (`search_live_fixed`).  [As literally stated the old hypothesis
   was even too strong to hold — its path-search clause did not ask for an existing origin, see
   C10_traversal_live_refuted — so the two `_partial` theorems above were vacuous; they are kept only
   for the record.]
   STILL RESTRICTED HERE TO histories in which no query fails (`all_succeed`); histories WITH failing
   queries / rolled-back transactions are covered by C13_history_atomic (Props/C13.v), which gives Inv
   — hence the two conjuncts below — after EVERY history (with the capacity bound 2^63 of C13). *)
From Agdb Require Import TraversalLiveProofs DbInvariantProofs.

Theorem C09_transaction :
  forall d qs acc, Forall query_ok qs -> Inv d ->
  let d1 := fst (fst (txn_run rv_fixed d qs acc)) in kvs_distinct (vals d1) /\ vals_live d1.
Proof. intros d qs acc Hq Hd. apply Inv_values. now apply transaction_state_Inv_fixed. Qed.
Print Assumptions C09_transaction.

Theorem C09_history :
  forall qs, Forall query_ok qs -> all_succeed rv_fixed db_new qs ->
  kvs_distinct (vals (exec_all rv_fixed db_new qs)) /\ vals_live (exec_all rv_fixed db_new qs).
Proof. exact history_values_fixed. Qed.
Print Assumptions C09_history.

(* ---- the abstract database: what users rely on, at every point of every history ----------------
   C09_history_all: the joint invariant Inv holds after EVERY history of queries (Db::exec / exec_mut,
   rolled back when they fail) and transactions (committed, or rolled back when a query fails or a
   failure is injected at the end) from the empty database — theories/HistoryAtomicProofs.v, pinned
   with the rollback statements as C13_history_atomic.  item_ok = query_ok for every query (no insert
   list names a key twice), bounded = the capacity stays <= 2^63.
   C09_abstract_database: what Inv means for a user, in one place:
     ids        every id / alias that resolves denotes an existing element;
     aliases    one-to-one names of existing nodes;
     properties an element never has two equal keys, only existing elements have properties (so a new
                element reusing a slot starts with none);
     indexes    an index search for (K, V) returns exactly, as a multiset, the existing elements whose
                value of K equals V;
     searches   every id returned by ANY search (index, elements, breadth/depth first, path; any
                conditions, limit, offset, order) exists;
     graph      every edge joins two existing nodes; a node's out-/in-list is exactly the set of
                existing edges leaving / entering it and the degree counters are their lengths;
                a breadth/depth-first search without conditions from an existing element returns
                exactly the elements reachable from it, each once, origin first;
     removal    any element can be removed (never fails; afterwards it does not exist). *)
From Agdb Require Import GraphSim TraverseSpec AliasProofs HistoryAtomicProofs AbstractDbProofs.

Theorem C09_history_all :
  forall its, Forall item_ok its -> bounded rv_fixed db_new its -> Inv (run_items rv_fixed db_new its).
Proof. exact history_abstract_fixed. Qed.
Print Assumptions C09_history_all.

Theorem C09_abstract_database :
  forall d, Inv d ->
  (forall q id, db_id d q = ROk id -> live d id = true) /\
  (alias_bij d /\ alias_nodes d /\
   forall a b id, imap_value (aliases d) a = Some id -> imap_value (aliases d) b = Some id -> a = b) /\
  (kvs_distinct (vals d) /\ vals_live d) /\
  (forall key ids value id, idx_find (indexes d) key = Some ids ->
     count_occ Z.eq_dec (map snd (filter (fun p : dbvalue * Z => dbv_eqb (fst p) value) ids)) id =
     if live d id then match kvs_value (vals d) id key with
                       | Some v' => IndexProofs.b2nat (dbv_eqb v' value)
                       | None => 0%nat
                       end
     else 0%nat) /\
  (forall s ids, search rv_fixed d s = SOk ids -> forall id, In id ids -> live d id = true) /\
  (forall e, is_edge (gr d) e = true ->
     0 < edge_from (gr d) e /\ is_node (gr d) (edge_from (gr d) e) = true /\
     0 < edge_to (gr d) e /\ is_node (gr d) (edge_to (gr d) e) = true) /\
  (forall n, 0 < n -> is_node (gr d) n = true ->
     (forall e, In e (out_edges (gr d) n) <-> e < 0 /\ is_edge (gr d) e = true /\ edge_from (gr d) e = n) /\
     (forall e, In e (in_edges (gr d) n) <-> e < 0 /\ is_edge (gr d) e = true /\ edge_to (gr d) e = n) /\
     edge_count_from (gr d) n = Z.of_nat (length (out_edges (gr d) n)) /\
     edge_count_to (gr d) n = Z.of_nat (length (in_edges (gr d) n))) /\
  (forall a reverse origin, live d origin = true ->
     exists r, graph_search rv_fixed d a reverse origin [] HDefault = Some (origin :: r) /\
               NoDup (origin :: r) /\ (forall x, In x (origin :: r) <-> reach (gr d) reverse origin x)) /\
  (forall id, exists d' b, remove_id d id = (d', ROk b) /\ live d' id = false).
Proof. exact Inv_abstract. Qed.
Print Assumptions C09_abstract_database.
