(* C23 — Concurrent reads see the same results as sequential reads.
   Pinned statements only; proofs live in theories/ConcReadProofs.v, the model in theories/ConcRead.v
   (small-step interleaving semantics of FileStorage::read: the range check against the file length (a range
   beyond the file is rejected at once, without lock or system call — the code after fix: dfdbce3), then try_lock,
   then seek + read_exact on the SHARED handle under the lock, or open + seek + read_exact on a PRIVATE handle when contended;
   one schedule entry = one system call / lock action of one thread). *)
From Agdb Require Import Bytes ConcRead ConcReadProofs.
Local Open Scope nat_scope.

(* For every number of threads, every reader program per thread (a deterministic reader that issues
   reads depending on the bytes read before), every initial position of the shared cursor and EVERY
   schedule: each completed read returned exactly what the same read returns alone
   (`file_read content pos len`: the bytes, or the OutOfBounds error of a range beyond the file), and the completed reads of
   each thread, followed by the sequential reads of the rest of its program, are the reads it issues
   when run alone. *)
Theorem C23_reads_linear :
  forall (A : Type) (content : bytes) (c0 : nat) (ps : list (prog A)) (sched : list nat),
    let s := run true content (init c0 ps) sched in
    (forall t pos len r, In (t, pos, len, r) (log s) -> r = file_read content pos len) /\
    (forall t p0 th, nth_error ps t = Some p0 -> nth_error (threads s) t = Some th ->
       seq_trace content p0 = tlog t (log s) ++ seq_trace content (code th)).
Proof. exact reads_linear. Qed.
Print Assumptions C23_reads_linear.

(* the instance for fixed request lists (pos,len): a thread's completed reads are a prefix of its
   request list with the sequential results *)
Theorem C23_reads_linear_requests :
  forall (content : bytes) (c0 : nat) (reqs : list (list (nat * nat))) (sched : list nat) t rs,
    nth_error reqs t = Some rs ->
    exists n, tlog t (log (run true content (init_reqs c0 reqs) sched))
              = firstn n (map (fun '(p, l) => (p, l, file_read content p l)) rs).
Proof. exact reads_linear_reqs. Qed.
Print Assumptions C23_reads_linear_requests.

(* A thread with pending work always has an enabled action (try_lock never blocks): in ANY state,
   with or without the lock, its next action either advances it inside `read` or completes the read. *)
Theorem C23_no_deadlock :
  forall (A : Type) (ul : bool) (content : bytes) (s : state A) t th pos len k,
    nth_error (threads s) t = Some th -> code th = Rd pos len k ->
    exists th', nth_error (threads (step ul content s t)) t = Some th' /\
      ((phase (pc th') = S (phase (pc th)) /\ code th' = code th /\ log (step ul content s t) = log s) \/
       ((phase (pc th) = 3 \/ (pc th = Idle /\ in_range content pos len = false)) /\ pc th' = Idle /\
        exists r, code th' = k r /\ log (step ul content s t) = log s ++ [(t, pos, len, r)])).
Proof. exact no_deadlock. Qed.
Print Assumptions C23_no_deadlock.

(* ... and nobody can delay it: a reader scheduled `steps_seq` times (the number of actions it needs ALONE: 4 per read
   in range, 1 per read rejected by the range check; at most 4 x the number of its sequential reads) has returned,
   with its sequential value, whatever the other threads did in between. *)
Theorem C23_completes :
  forall (A : Type) (content : bytes) c0 (ps : list (prog A)) sched t p0,
    nth_error ps t = Some p0 -> steps_seq content p0 <= occ t sched ->
    nth_error (threads (run true content (init c0 ps) sched)) t = Some (mkThread Idle (Ret (run_seq content p0))).
Proof. exact completes. Qed.
Print Assumptions C23_completes.

(* FULL STATEMENT of the property's second half: "every immutable query / read transaction run by
   several threads returns the result it returns when run alone, and none fails".
   What is proved (partial): every reader above the byte store that is a deterministic function of
   the bytes its reads return (a `prog`: Storage::value_as_bytes, the collection loaders and the
   queries built on them take &self and keep no other shared mutable state) returns, under every
   schedule, its sequential value `run_seq content p0` — in particular it fails iff it fails alone.
   Missing: (1) the real query code is not translated into `prog` (the correspondence is the
   stress run of checks/c23.py: results of 16-64 threads = sequential baseline); (2) the model
   cannot exhibit kernel-level offset sharing between duplicated descriptors, short reads of
   read_exact, or memory ordering; the memory-mapped variant reads an immutable in-memory buffer
   and is the instance with no shared cursor at all. *)
Theorem C23_queries_equal_partial :
  forall (A : Type) (content : bytes) c0 (ps : list (prog A)) sched t p0 th a,
    nth_error ps t = Some p0 ->
    nth_error (threads (run true content (init c0 ps) sched)) t = Some th ->
    code th = Ret a -> a = run_seq content p0.
Proof. exact queries_equal. Qed.
Print Assumptions C23_queries_equal_partial.

(* The mutation the lock guards against: the same program with every thread on the shared handle
   and no lock has a 2-thread schedule returning wrong bytes to one thread and a spurious error to
   the other (the same schedule with the lock returns the sequential results). *)
Theorem C23_refuted_without_lock :
  log (run false wit_content (init_reqs 4 wit_reqs) wit_sched)
    = [(0, 0, 2, Some [x03; x04]); (1, 2, 2, None)] /\
  file_read wit_content 0 2 = Some [x01; x02] /\ file_read wit_content 2 2 = Some [x03; x04] /\
  log (run true wit_content (init_reqs 4 wit_reqs) (wit_sched ++ [1; 1]))
    = [(0, 0, 2, Some [x01; x02]); (1, 2, 2, Some [x03; x04])].
Proof. exact refuted_without_lock. Qed.
Print Assumptions C23_refuted_without_lock.

(* non-vacuity: three threads (two adaptive readers: read a length byte, then that many bytes; one
   reading inside, straddling the end (error) and an empty read beyond the end (error)); the lock is taken
   by thread 1 first (0 and 2 contended), later by 0 (1 and 2 contended) *)
Example C23_nonvacuous :
  let s := run true ex_content (init 5 ex_progs) ex_sched in
  map code (threads s) = [Ret (Some [x0a; x0b]); Ret None; Ret (Some [x0a; x0b])] /\
  log s = [(1, 3, 2, Some [x0c; x0d]); (0, 0, 1, Some [x02]); (2, 0, 1, Some [x02]); (1, 4, 2, None); (1, 9, 0, None);
           (0, 1, 2, Some [x0a; x0b]); (2, 1, 2, Some [x0a; x0b])] /\
  lock s = None /\
  run_seq ex_content ex_adaptive = Some [x0a; x0b].
Proof. exact example_run. Qed.
Print Assumptions C23_nonvacuous.
