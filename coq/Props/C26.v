(* C26 — Database files stay inside their owner's directory and never collide.
   Pinned statements only; the model is theories/Paths.v, proofs live in theories/PathsProofs.v.

   `b "..."` is the byte string of the literal (PathsProofs.b).  `data` is the configured data
   directory; every positive theorem holds for an ARBITRARY byte string `data` (relative or
   absolute, with "." / ".." / repeated or trailing '/' in it, even empty).
   Paths are compared after lexical resolution (`resolve`: '/'-split, "." dropped, ".." pops;
   no symlinks).

   Shape of the result: for a server WITHOUT name validation (`accepts_today` = accept every
   name: the code up to /repo 7a9106f) both properties are REFUTED (witnesses (a)-(h),
   C26_today_refuted, C26_today_clash_refuted; all of them were reproduced on the real server and
   stay in the harness's name list); with the validator `valid_name` they are PROVED in full
   (C26_contained, C26_disjoint, C26_no_dir_clash and their boolean forms).  Since /repo 7a9106f
   the server's `utilities::validate_db_name` is this `valid_name`, applied to the target name of
   add / copy / rename; checks/c26.py finds it in the source and runs the model in strict mode,
   so a name the server accepts but `valid_name` rejects (or vice versa) is a disagreement. *)
From Agdb Require Import Bytes Paths PathsProofs.
Import String.StringSyntax.
Local Open Scope nat_scope.

(* ---------- what the candidate validator is ---------- *)

Theorem C26_valid_name_defect :
  forall n : name, valid_name n = true <-> name_defect_of n = None.
Proof. exact valid_name_defect. Qed.
Print Assumptions C26_valid_name_defect.

(* valid_name = the conjunction of the seven rules *)
Theorem C26_valid_name_rules :
  forall n : name,
    valid_name n = true <->
    (* NEmpty *)          n <> [] /\
    (* NNul *)            ~ In x00 n /\
    (* NSeparator *)      (~ In x2f n /\ ~ In x5c n) /\
    (* NDotName *)        (n <> b "." /\ n <> b "..") /\
    (* NLeadingDot *)     (forall r, n <> x2e :: r) /\
    (* NReserved *)       (n <> b "audit" /\ n <> b "backups") /\
    (* NReservedSuffix *) (forall a, n <> a ++ b ".bak") /\ (forall a, n <> a ++ b ".log") /\
                          (forall a, n <> a ++ b ".audit").
Proof. exact valid_name_rules. Qed.
Print Assumptions C26_valid_name_rules.

(* and a reported defect is a rule that really is violated *)
Theorem C26_name_defect_sound :
  forall (n : name) (x : name_defect),
    name_defect_of n = Some x ->
    match x with
    | NEmpty => n = []
    | NNul => In x00 n
    | NSeparator => In x2f n \/ In x5c n
    | NDotName => n = b "." \/ n = b ".."
    | NLeadingDot => exists r, n = x2e :: r
    | NReserved => n = b "audit" \/ n = b "backups"
    | NReservedSuffix => exists a, n = a ++ b ".bak" \/ n = a ++ b ".log" \/ n = a ++ b ".audit"
    end.
Proof. exact name_defect_sound. Qed.
Print Assumptions C26_name_defect_sound.

(* ---------- supporting facts about the model ---------- *)

(* joining a plain component (non-empty, no '/', not "." or "..") pushes exactly that component,
   whatever the left operand looks like *)
Theorem C26_resolve_join :
  forall (p : path) (c : bytes),
    normal_comp c = true -> resolve (join p c) = r_extend (resolve p) [c].
Proof. exact resolve_join. Qed.
Print Assumptions C26_resolve_join.

(* for valid names the WAL agdb creates (wal_filename of the database path) is the file the
   server removes in delete_db / do_clear_db *)
Theorem C26_wal_agrees :
  forall (data : path) (o d : name),
    valid_name o = true -> valid_name d = true ->
    wal_filename (db_file data o d) = server_wal data o d.
Proof. exact wal_agrees. Qed.
Print Assumptions C26_wal_agrees.

(* the complete layout: every file of (o, d) resolves to <data>/o/<rel_path k d> *)
Theorem C26_files_resolved :
  forall (data : path) (o d : name) (k : fkind) (f : path),
    valid_name o = true -> valid_name d = true ->
    In (k, f) (files data o d) ->
    resolve f = r_extend (resolve data) (o :: rel_path k d).
Proof. exact files_resolved. Qed.
Print Assumptions C26_files_resolved.

(* ---------- 1. containment ---------- *)

Theorem C26_contained :
  forall (data : path) (o d : name),
    valid_name o = true -> valid_name d = true ->
    forall (k : fkind) (f : path), In (k, f) (files data o d) ->
    inside (resolve (join data o)) (resolve f) = true.
Proof. exact contained. Qed.
Print Assumptions C26_contained.

Theorem C26_valid_no_escape :
  forall (data : path) (o d : name),
    valid_name o = true -> valid_name d = true -> escapes data o d = false.
Proof. exact valid_no_escape. Qed.
Print Assumptions C26_valid_no_escape.

(* ---------- 2. disjointness ---------- *)

Theorem C26_disjoint :
  forall (data : path) (o d o' d' : name),
    valid_name o = true -> valid_name d = true -> valid_name o' = true -> valid_name d' = true ->
    (o, d) <> (o', d') ->
    forall (k : fkind) (f : path) (k' : fkind) (f' : path),
      In (k, f) (files data o d) -> In (k', f') (files data o' d') ->
      resolve f <> resolve f' /\
      inside (resolve f) (resolve f') = false /\
      inside (resolve f') (resolve f) = false.
Proof. exact disjoint. Qed.
Print Assumptions C26_disjoint.

(* a database file is never one of the directories the server needs (owner dir, audit,
   backups — of any valid owner, its own included), nor an ancestor of one *)
Theorem C26_no_dir_clash :
  forall (data : path) (o d o' : name),
    valid_name o = true -> valid_name d = true -> valid_name o' = true ->
    forall (k : fkind) (f g : path), In (k, f) (files data o d) -> In g (dirs data o') ->
    resolve f <> resolve g /\ inside (resolve f) (resolve g) = false.
Proof. exact no_dir_clash. Qed.
Print Assumptions C26_no_dir_clash.

Theorem C26_valid_no_clash :
  forall (data : path) (o d o' d' : name),
    valid_name o = true -> valid_name d = true -> valid_name o' = true -> valid_name d' = true ->
    (o, d) <> (o', d') -> clashes data o d o' d' = false.
Proof. exact valid_no_clash. Qed.
Print Assumptions C26_valid_no_clash.

(* ---------- 3. today's validator: refuted ---------- *)

Theorem C26_today_refuted :
  ~ (forall (data : path) (o d : name),
        accepts_today o = true -> accepts_today d = true -> escapes data o d = false).
Proof. exact today_refuted. Qed.
Print Assumptions C26_today_refuted.

Theorem C26_today_clash_refuted :
  ~ (forall (data : path) (o d o' d' : name),
        accepts_today o = true -> accepts_today d = true ->
        accepts_today o' = true -> accepts_today d' = true ->
        (o, d) <> (o', d') -> clashes data o d o' d' = false).
Proof. exact today_clash_refuted. Qed.
Print Assumptions C26_today_clash_refuted.

(* (a) database ".x" is the file the server (and agdb) uses as the WAL of database "x" *)
Lemma C26_wal_collision_refuted :
  exists (data : path) (o d d' : name),
    data = b "agdb_server_data" /\ o = b "alice" /\ d = b "x" /\ d' = b ".x" /\
    accepts_today o = true /\ accepts_today d = true /\ accepts_today d' = true /\
    (o, d) <> (o, d') /\
    server_wal data o d = db_file data o d' /\
    wal_filename (db_file data o d) = db_file data o d' /\
    clashes data o d o d' = true.
Proof. exact wal_collision_refuted. Qed.
Print Assumptions C26_wal_collision_refuted.

(* (b) databases "audit" and "backups" are the per-owner directories; the audit log / backup of
   any other database of that owner lies inside them *)
Lemma C26_reserved_dir_refuted :
  exists (data : path) (o d1 d2 d : name),
    data = b "agdb_server_data" /\ o = b "alice" /\ d1 = b "audit" /\ d2 = b "backups" /\ d = b "x" /\
    accepts_today o = true /\ accepts_today d1 = true /\ accepts_today d2 = true /\
    db_file data o d1 = db_audit_dir data o /\
    db_file data o d2 = db_backup_dir data o /\
    inside (resolve (db_file data o d1)) (resolve (db_audit_file data o d)) = true /\
    inside (resolve (db_file data o d2)) (resolve (db_backup_file data o d)) = true /\
    clashes data o d1 o d = true /\ clashes data o d2 o d = true.
Proof. exact reserved_dir_refuted. Qed.
Print Assumptions C26_reserved_dir_refuted.

(* (c) alice's database "../bob/x" is bob's database "x" *)
Lemma C26_other_owner_refuted :
  exists (data : path) (o d o' d' : name),
    data = b "agdb_server_data" /\ o = b "alice" /\ d = b "../bob/x" /\ o' = b "bob" /\ d' = b "x" /\
    accepts_today o = true /\ accepts_today d = true /\
    (o, d) <> (o', d') /\
    resolve (db_file data o d) = resolve (db_file data o' d') /\
    inside (resolve (join data o)) (resolve (db_file data o d)) = false /\
    escapes data o d = true /\ clashes data o d o' d' = true.
Proof. exact other_owner_refuted. Qed.
Print Assumptions C26_other_owner_refuted.

(* (d) "a/../b" is database "b" *)
Lemma C26_dotdot_alias_refuted :
  exists (data : path) (o d d' : name),
    data = b "agdb_server_data" /\ o = b "alice" /\ d = b "a/../b" /\ d' = b "b" /\
    accepts_today o = true /\ accepts_today d = true /\
    (o, d) <> (o, d') /\
    resolve (db_file data o d) = resolve (db_file data o d') /\
    clashes data o d o d' = true.
Proof. exact dotdot_alias_refuted. Qed.
Print Assumptions C26_dotdot_alias_refuted.

(* (e) an absolute name replaces the whole path *)
Lemma C26_absolute_refuted :
  exists (data : path) (o d : name),
    data = b "agdb_server_data" /\ o = b "alice" /\ d = b "/tmp/x" /\
    accepts_today o = true /\ accepts_today d = true /\
    db_file data o d = b "/tmp/x" /\
    inside (resolve (join data o)) (resolve (db_file data o d)) = false /\
    escapes data o d = true.
Proof. exact absolute_refuted. Qed.
Print Assumptions C26_absolute_refuted.

(* (f) "../../x" leaves the data directory; "../../../x" climbs above the working directory *)
Lemma C26_escape_data_dir_refuted :
  exists (data : path) (o d d2 : name),
    data = b "agdb_server_data" /\ o = b "alice" /\ d = b "../../x" /\ d2 = b "../../../x" /\
    accepts_today o = true /\ accepts_today d = true /\ accepts_today d2 = true /\
    resolve (db_file data o d) = {| r_abs := false; r_ups := 0; r_comps := [b "x"] |} /\
    inside (resolve data) (resolve (db_file data o d)) = false /\
    resolve (db_file data o d2) = {| r_abs := false; r_ups := 1; r_comps := [b "x"] |} /\
    escapes data o d = true /\ escapes data o d2 = true.
Proof. exact escape_data_dir_refuted. Qed.
Print Assumptions C26_escape_data_dir_refuted.

(* (g) the rollback temporary of database "y.bak" is the backup of database "y" *)
Lemma C26_rollback_tmp_refuted :
  exists (data : path) (o d d' : name),
    data = b "agdb_server_data" /\ o = b "alice" /\ d = b "y.bak" /\ d' = b "y" /\
    accepts_today o = true /\ accepts_today d = true /\
    (o, d) <> (o, d') /\
    rollback_tmp data o d = db_backup_file data o d' /\
    clashes data o d o d' = true.
Proof. exact rollback_tmp_refuted. Qed.
Print Assumptions C26_rollback_tmp_refuted.

(* (h) with a '/' in the name the server removes a different file than the WAL agdb created *)
Lemma C26_wal_mismatch_refuted :
  exists (data : path) (o d : name),
    data = b "agdb_server_data" /\ o = b "alice" /\ d = b "a/b" /\
    accepts_today o = true /\ accepts_today d = true /\
    wal_filename (db_file data o d) = b "agdb_server_data/alice/a/.b" /\
    server_wal data o d = b "agdb_server_data/alice/.a/b" /\
    wal_filename (db_file data o d) <> server_wal data o d /\
    resolve (wal_filename (db_file data o d)) <> resolve (server_wal data o d).
Proof. exact wal_mismatch_refuted. Qed.
Print Assumptions C26_wal_mismatch_refuted.

(* every witness name is rejected by valid_name, by the expected rule *)
Lemma C26_witnesses_rejected :
  map name_defect_of
    [b ".x"; b "audit"; b "backups"; b "../bob/x"; b "a/../b"; b "/tmp/x"; b "../../x";
     b "y.bak"; b "a/b"; b ""; b ".."; b "a\b"; b "x.log"; b "x.audit"]
  = [Some NLeadingDot; Some NReserved; Some NReserved; Some NSeparator; Some NSeparator;
     Some NSeparator; Some NSeparator; Some NReservedSuffix; Some NSeparator; Some NEmpty;
     Some NDotName; Some NSeparator; Some NReservedSuffix; Some NReservedSuffix].
Proof. exact witnesses_rejected. Qed.
Print Assumptions C26_witnesses_rejected.

(* ---------- 4. non-vacuity ---------- *)

(* a valid pair, its eight resolved files, the three directories, and no escape *)
Example C26_nonvacuous_files :
  let data := b "agdb_server_data" in
  let o := b "alice" in
  let d := b "db1" in
  let at_ l := {| r_abs := false; r_ups := 0; r_comps := b "agdb_server_data" :: b "alice" :: l |} in
  valid_name o = true /\ valid_name d = true /\
  map (fun kf => (fst kf, resolve (snd kf))) (files data o d) =
    [ (FDb, at_ [b "db1"]);
      (FWal, at_ [b ".db1"]);
      (FWalServer, at_ [b ".db1"]);
      (FBackup, at_ [b "backups"; b "db1.bak"]);
      (FBackupAudit, at_ [b "backups"; b "db1.log"]);
      (FAudit, at_ [b "audit"; b "db1.log"]);
      (FTmpDb, at_ [b "backups"; b "db1"]);
      (FTmpAudit, at_ [b "backups"; b "db1.audit"]) ] /\
  map resolve (dirs data o) = [at_ []; at_ [b "audit"]; at_ [b "backups"]] /\
  escapes data o d = false.
Proof. exact example_files. Qed.
Print Assumptions C26_nonvacuous_files.

(* distinct valid pairs (same owner / different owners) do not clash; a pair clashes with itself,
   so `clashes` is not constantly false *)
Example C26_nonvacuous_noclash :
  let data := b "agdb_server_data" in
  valid_name (b "alice") = true /\ valid_name (b "bob") = true /\
  valid_name (b "db1") = true /\ valid_name (b "db2") = true /\
  (b "alice", b "db1") <> (b "alice", b "db2") /\
  (b "alice", b "db1") <> (b "bob", b "db1") /\
  clashes data (b "alice") (b "db1") (b "alice") (b "db2") = false /\
  clashes data (b "alice") (b "db1") (b "bob") (b "db1") = false /\
  clashes data (b "alice") (b "db1") (b "alice") (b "db1") = true.
Proof. exact example_noclash. Qed.
Print Assumptions C26_nonvacuous_noclash.
