(* C29 — Entries committed by a leader survive every later leader.
   Pinned statements only; proofs in theories/RaftProofs.v; model theories/Raft.v.

   FULL STATEMENT (false of the faithful model):
     forall size evs, leader_completeness (c_hist (run size evs))
   where the ghost history records `GCommit i true t idx e` when leader i (term t) commits index idx holding e
   and `GLeader j t' log` when j becomes leader holding `log`; leader_completeness says every GLeader that
   comes after a leader's GCommit has `log_at log idx = e`. *)
From Coq Require Import NArith List.
From Agdb Require Import Raft RaftWitness RaftProofs.
Import ListNotations.
Open Scope N_scope.

(* refuted: corpus/C29/old_term_commit.txt (3 nodes) *)
Theorem C29_refuted : ~ (forall size evs, leader_completeness (c_hist (run size evs))).
Proof. exact C29_refuted. Qed.
Print Assumptions C29_refuted.

(* the failing history has one leader per term, no double vote, no stale vote, every acknowledgement from a
   matching log: the cause is the commit rule (a leader of term 3 commits its entry of term 1 by counting
   replicas) together with a vote rule that compares index, term and commit separately *)
Theorem C29_refuted_single_leader :
  exists size evs, let h := c_hist (run size evs) in
    election_safety h /\ double_vote_b h = false /\ stale_vote_b h = false /\ ack_diverged_b h = false /\
    ~ leader_completeness h.
Proof. exact C29_refuted_single_leader. Qed.
Print Assumptions C29_refuted_single_leader.
