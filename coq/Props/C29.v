(* C29 — Entries committed by a leader survive every later leader.
   Pinned statements only; proofs in theories/RaftProofs.v; model theories/Raft.v.

   `rv : raftrev` is the revision of raft.rs (Raft.v): `rr_pinned` before all repairs, `rr_before_ack_fix` after the
   two election repairs of C27, `rr_fixed` after these and the acknowledgement repair `fix_ack_term` ("a leader counts
   only acknowledgements of its current term", fixes/C28-count-only-current-term-acks.diff); the check compares the code
   with the model of the revision found in the source tree.

   FULL STATEMENT (false of the faithful model of every revision):
     forall size evs, leader_completeness (c_hist (run rv size evs))
   where the ghost history records `GCommit i true t idx e` when leader i (term t) commits index idx holding e
   and `GLeader j t' log` when j becomes leader holding `log`; leader_completeness says every GLeader that
   comes after a leader's GCommit has `log_at log idx = e`.

   What is machine-checked:
   * the refutation, split by cause; `classes h` = (double vote, stale vote counted, ack from diverged log,
     old-term commit, ack below voted term), plus a THIRD log-replication class found while attempting the
     conditional proof, `commit-without-quorum` (RaftLog.v) — the class removed by the acknowledgement repair: its
     witness is stated for the revisions without that repair, and the same event list is harmless under `rr_fixed`
     (`C29_commit_noquorum_witness_harmless_fixed`);
   * the CONDITIONAL THEOREM `C29_partial` for rr_fixed: if none of the three log-replication
     classes occurs, every entry committed by a leader of term t is in the log of every later leader of a HIGHER
     term; `C29_partial_literal` gives the literal statement under one more hypothesis that excludes a harmless
     situation (a stale candidate becomes Leader of an OLDER term after the commit), and
     `C29_literal_refuted_by_late_leader` shows that this hypothesis cannot be dropped: the literal statement is
     stronger than Raft's Leader Completeness and fails in a history that is fine. *)
From Coq Require Import NArith List.
From Agdb Require Import Raft RaftWitness RaftProofs RaftLog RaftLogProofs RaftLogMatch RaftLogLC RaftLogCA RaftLogAck.
Import ListNotations.
Open Scope N_scope.

(* refuted, every revision: corpus/C29/old_term_commit.txt (3 nodes) *)
Theorem C29_refuted : forall rv, ~ (forall size evs, leader_completeness (c_hist (run rv size evs))).
Proof. exact C29_refuted. Qed.
Print Assumptions C29_refuted.

(* independent causes, each in a history with one leader per term where no other class occurs.  Every revision:
   the leader commits an entry of an older term by counting replicas (and the vote rule compares index, term and
   commit separately) *)
Theorem C29_refuted_old_term_commit : forall rv,
  exists size evs, let h := c_hist (run rv size evs) in
    election_safety h /\ classes h = (false, false, false, true, false) /\ ~ leader_completeness h.
Proof. exact C29_refuted_old_term_commit. Qed.
Print Assumptions C29_refuted_old_term_commit.

(* every revision: an Append is acknowledged by a follower whose log differs from the leader's below the appended entry *)
Theorem C29_refuted_ack_diverged : forall rv,
  exists size evs, let h := c_hist (run rv size evs) in
    election_safety h /\ classes h = (false, false, true, false, false) /\ ~ leader_completeness h.
Proof. exact C29_refuted_ack_diverged. Qed.
Print Assumptions C29_refuted_ack_diverged.

(* before the election repairs only (the class cannot occur after them, `C27_fixed_no_election_classes`):
   a voter keeps its old term after voting and acknowledges the old leader's Append *)
Theorem C29_refuted_ack_below_vote :
  exists size evs, let h := c_hist (run rr_pinned size evs) in
    election_safety h /\ classes h = (false, false, false, false, true) /\ ~ leader_completeness h.
Proof. exact C29_refuted_ack_below_vote. Qed.
Print Assumptions C29_refuted_ack_below_vote.

(* ------------------------------------------------------------------ a THIRD log-replication class (RaftLog.v)
   `commit_noquorum_b rv size evs` (KnownClass commit-without-quorum): a Leader raised its commit index over an
   index at which fewer than size/2+1 nodes of its term hold its entry — commit() counts rows of the peer table
   that are not acknowledgements of the current term (rows are never reset on election, update_node writes them
   from the peer's own requests, response() accepts acknowledgements of any term).
   Every revision WITHOUT the acknowledgement repair (in particular `rr_before_ack_fix` = the code before the patch):
   a 5-node history with one leader per term in which NONE of the five classes of `classes` occurs
   ends with a new leader that lacks a leader-committed entry (corpus/C29/commit_noquorum.txt). *)
Theorem C29_refuted_commit_noquorum : forall rv, fix_ack_term rv = false ->
  exists size evs, let h := c_hist (run rv size evs) in
    size <> 1 /\ election_safety h /\ classes h = (false, false, false, false, false) /\
    commit_noquorum_b rv size evs = true /\ ~ leader_completeness h.
Proof. exact RaftLogProofs.C29_refuted_commit_noquorum. Qed.
Print Assumptions C29_refuted_commit_noquorum.

Theorem C29_refuted_commit_noquorum_before_ack_fix :
  exists size evs, let h := c_hist (run rr_before_ack_fix size evs) in
    size <> 1 /\ election_safety h /\ classes h = (false, false, false, false, false) /\
    commit_noquorum_b rr_before_ack_fix size evs = true /\ ~ leader_completeness h.
Proof. exact RaftLogProofs.C29_refuted_commit_noquorum_before_ack_fix. Qed.
Print Assumptions C29_refuted_commit_noquorum_before_ack_fix.

(* hence, before the acknowledgement repair, "no acknowledgement from a diverged log and no old-term commit" does NOT
   imply the property *)
Theorem C29_two_classes_not_enough : forall rv, fix_ack_term rv = false ->
  ~ (forall size evs, size <> 1 ->
       ack_diverged_b (c_hist (run rv size evs)) = false -> old_term_commit_b (c_hist (run rv size evs)) = false ->
       leader_completeness (c_hist (run rv size evs))).
Proof. exact two_classes_not_enough_C29. Qed.
Print Assumptions C29_two_classes_not_enough.

(* the SAME event lists (corpus/C28/commit_noquorum.txt, corpus/C29/commit_noquorum.txt) under the repaired revision:
   every leader holds every entry committed by an earlier leader (literal reading), all nodes agree on what they
   committed, one leader per term, nothing committed without a quorum *)
Example C29_commit_noquorum_witness_harmless_fixed :
  (let c := run rr_fixed w28_commit_noquorum_n w28_commit_noquorum in
   committed_agree c /\ leader_completeness (c_hist c) /\ election_safety (c_hist c) /\
   commit_noquorum_b rr_fixed w28_commit_noquorum_n w28_commit_noquorum = false) /\
  (let c := run rr_fixed w29_commit_noquorum_n w29_commit_noquorum in
   committed_agree c /\ leader_completeness (c_hist c) /\ election_safety (c_hist c) /\
   commit_noquorum_b rr_fixed w29_commit_noquorum_n w29_commit_noquorum = false).
Proof. exact commit_noquorum_witnesses_harmless_fixed. Qed.
Print Assumptions C29_commit_noquorum_witness_harmless_fixed.

(* ------------------------------------------------------------------ the ROOT CAUSE of `commit-without-quorum`, and its repair
   `stale_ack_counted_b rv size evs` (RaftLog.v; a function of the run, reconstructed with a ghost that records for
   every row of every peer table whether it was written by `commit()` from an Ok answer to an Append/Heartbeat request
   of the leader's current term since the node became Leader): at a step that raises the commit index of a node that
   is and stays Leader, some row of ANOTHER node with log_index >= the new commit index — a row `commit()` counted —
   is not such an acknowledgement.  Unlike the semantic marker `commit_noquorum_b` it does not fire when a correct
   leader counts a follower that acknowledged and has since moved to a higher term.

   PROVED (RaftLogAck.v), every cluster size (1 included), every adversarial event list: with the acknowledgement
   repair the marker is never set — a Leader counts only acknowledgements of its current term.  Invariant: every row of
   another node in a Leader's table that is not a fresh acknowledgement has log_index 0 (cleared at election; written
   since by `commit()` only, which the guard of `response()` admits only for answers of the current term), and a row
   with log_index 0 is not counted at a step that raises the commit index. *)
Theorem C29_no_stale_ack_fixed : forall size evs, stale_ack_counted_b rr_fixed size evs = false.
Proof. exact RaftLogAck.stale_ack_never_fixed. Qed.
Print Assumptions C29_no_stale_ack_fixed.

(* the same for every revision with the acknowledgement repair, whatever the election flags *)
Theorem C29_no_stale_ack_any_election_revision : forall rv size evs,
  fix_ack_term rv = true -> stale_ack_counted_b rv size evs = false.
Proof. exact RaftLogAck.stale_ack_never. Qed.
Print Assumptions C29_no_stale_ack_any_election_revision.

(* non-vacuity / the defect before the repair: in both `commit_noquorum` corpus histories the leader of term 2
   counts the row of the deposed leader of term 1, written by `update_node` from that leader's own Append request *)
Example C29_stale_ack_before_ack_fix :
  stale_ack_counted_b rr_before_ack_fix w28_commit_noquorum_n w28_commit_noquorum = true /\
  stale_ack_counted_b rr_before_ack_fix w29_commit_noquorum_n w29_commit_noquorum = true.
Proof. exact RaftLogAck.stale_ack_witnesses_before_ack_fix. Qed.
Print Assumptions C29_stale_ack_before_ack_fix.

(* ------------------------------------------------------------------ the CONDITIONAL THEOREM
   PROVED for the repaired code (rr_fixed), every cluster size other than 1 and every
   adversarial event list (proof: RaftLogWf.v, RaftLogMatch.v, RaftLogHand.v, RaftLogLC.v — log matching, then the
   inductive invariant LC; C27_election_safety and the election invariants J, K are used at every step):

   if none of the THREE log-replication classes occurs in the run
        ack-from-diverged-log   ack_diverged_b (c_hist ..) = false
        old-term-commit         old_term_commit_b (c_hist ..) = false
        commit-without-quorum   commit_noquorum_b rr_fixed size evs = false
   then an entry committed by a leader of term t is in the log of every node that becomes leader later FOR A HIGHER
   TERM (Raft's Leader Completeness).  So these three classes are the only ways raft.rs (with the C27 repairs)
   can lose a leader-committed entry to a leader of a higher term.
   NOT DONE (hence `_partial`): the third hypothesis is still the SEMANTIC marker.  With the acknowledgement repair the
   root cause is gone (`C29_no_stale_ack_fixed`), but the semantic marker can still be set in harmless histories of
   rr_fixed (a follower acknowledges and then votes in a higher term before the leader counts it), so the hypothesis
   cannot simply be dropped: that needs Raft's acknowledgement-history argument (an acknowledgement of (T, idx) by v
   precedes every vote of v for a term > T; quorum intersection between ackers and voters) in place of the present
   state invariant "a quorum of nodes of term T holds the entry at the commit step" — RAFT_NOTES.md, round 5. *)
Theorem C29_partial : forall size evs,
  size <> 1 ->
  ack_diverged_b (c_hist (run rr_fixed size evs)) = false ->
  old_term_commit_b (c_hist (run rr_fixed size evs)) = false ->
  commit_noquorum_b rr_fixed size evs = false ->
  forall h1 h2 i t idx e j t' log,
    c_hist (run rr_fixed size evs) = h1 ++ GCommit i true t idx e :: h2 -> In (GLeader j t' log) h2 -> t < t' ->
    log_at log idx = e.
Proof. exact RaftLogCA.C29_partial_stmt. Qed.
Print Assumptions C29_partial.

(* The LITERAL full statement (`leader_completeness`: EVERY later GLeader, whatever its term) needs one more
   hypothesis, which excludes a situation that is NOT a defect: a stale candidate of an older term collects its
   delayed votes and becomes Leader of that older term after the commit (it cannot commit anything: every member of
   a quorum has a higher term).  `late_leader_b h` = some GLeader of a term <= t follows a leader's commit of term t. *)
Theorem C29_partial_literal : forall size evs,
  size <> 1 ->
  ack_diverged_b (c_hist (run rr_fixed size evs)) = false ->
  old_term_commit_b (c_hist (run rr_fixed size evs)) = false ->
  commit_noquorum_b rr_fixed size evs = false ->
  RaftLogLC.late_leader_b (c_hist (run rr_fixed size evs)) = false ->
  leader_completeness (c_hist (run rr_fixed size evs)).
Proof. exact RaftLogCA.C29_partial_literal_stmt. Qed.
Print Assumptions C29_partial_literal.

(* and that hypothesis cannot be dropped: a 3-node history without any of the six classes in which node 1 becomes
   Leader of term 1 after node 0 (term 2) has committed — the literal statement of C29 is stronger than Raft's
   property and fails in a history that is harmless *)
Theorem C29_literal_refuted_by_late_leader :
  exists size evs, size <> 1 /\
    ack_diverged_b (c_hist (run rr_fixed size evs)) = false /\
    old_term_commit_b (c_hist (run rr_fixed size evs)) = false /\
    commit_noquorum_b rr_fixed size evs = false /\
    ~ leader_completeness (c_hist (run rr_fixed size evs)).
Proof. exact RaftLogCA.C29_literal_refuted_stmt. Qed.
Print Assumptions C29_literal_refuted_by_late_leader.

(* non-vacuity: the fault-free 3-node history `wlog_ok` (node 0 elected, two entries replicated to and committed on
   all three nodes, leader commits recorded) satisfies every hypothesis *)
Example C29_partial_nonvacuous :
  (ack_diverged_b (c_hist (run rr_fixed 3 RaftLogMatch.wlog_ok)) = false /\
   old_term_commit_b (c_hist (run rr_fixed 3 RaftLogMatch.wlog_ok)) = false /\
   commit_noquorum_b rr_fixed 3 RaftLogMatch.wlog_ok = false) /\
  RaftLogLC.late_leader_b (c_hist (run rr_fixed 3 RaftLogMatch.wlog_ok)) = false /\
  map n_commit (c_nodes (run rr_fixed 3 RaftLogMatch.wlog_ok)) = [2; 2; 2] /\
  leader_completeness_b (c_hist (run rr_fixed 3 RaftLogMatch.wlog_ok)) = true /\
  existsb (fun g => match g with GCommit _ true _ _ _ => true | _ => false end)
          (c_hist (run rr_fixed 3 RaftLogMatch.wlog_ok)) = true.
Proof. exact RaftLogCA.nonvacuous_stmt. Qed.
Print Assumptions C29_partial_nonvacuous.
