(* C29 — Entries committed by a leader survive every later leader.
   Pinned statements only; proofs in theories/RaftProofs.v; model theories/Raft.v.

   `rv : raftrev` is the revision of the election code (Raft.v; `rr_pinned` before, `rr_fixed` after the two
   election repairs of C27); the check compares the code with the model of the revision found in the source tree.

   FULL STATEMENT (false of the faithful model of every revision):
     forall size evs, leader_completeness (c_hist (run rv size evs))
   where the ghost history records `GCommit i true t idx e` when leader i (term t) commits index idx holding e
   and `GLeader j t' log` when j becomes leader holding `log`; leader_completeness says every GLeader that
   comes after a leader's GCommit has `log_at log idx = e`.

   No conditional theorem (`~ known_class -> leader_completeness`) is proved: it needs the log-matching and
   leader-completeness invariants of a repaired protocol.  What is machine-checked is the refutation, split by
   cause; `classes h` = (double vote, stale vote counted, ack from diverged log, old-term commit, ack below voted term). *)
From Coq Require Import NArith List.
From Agdb Require Import Raft RaftWitness RaftProofs RaftLog RaftLogProofs.
Import ListNotations.
Open Scope N_scope.

(* refuted, every revision: corpus/C29/old_term_commit.txt (3 nodes) *)
Theorem C29_refuted : forall rv, ~ (forall size evs, leader_completeness (c_hist (run rv size evs))).
Proof. exact C29_refuted. Qed.
Print Assumptions C29_refuted.

(* independent causes, each in a history with one leader per term where no other class occurs.  Every revision:
   the leader commits an entry of an older term by counting replicas (and the vote rule compares index, term and
   commit separately) *)
Theorem C29_refuted_old_term_commit : forall rv,
  exists size evs, let h := c_hist (run rv size evs) in
    election_safety h /\ classes h = (false, false, false, true, false) /\ ~ leader_completeness h.
Proof. exact C29_refuted_old_term_commit. Qed.
Print Assumptions C29_refuted_old_term_commit.

(* every revision: an Append is acknowledged by a follower whose log differs from the leader's below the appended entry *)
Theorem C29_refuted_ack_diverged : forall rv,
  exists size evs, let h := c_hist (run rv size evs) in
    election_safety h /\ classes h = (false, false, true, false, false) /\ ~ leader_completeness h.
Proof. exact C29_refuted_ack_diverged. Qed.
Print Assumptions C29_refuted_ack_diverged.

(* before the election repairs only (the class cannot occur after them, `C27_fixed_no_election_classes`):
   a voter keeps its old term after voting and acknowledges the old leader's Append *)
Theorem C29_refuted_ack_below_vote :
  exists size evs, let h := c_hist (run rr_pinned size evs) in
    election_safety h /\ classes h = (false, false, false, false, true) /\ ~ leader_completeness h.
Proof. exact C29_refuted_ack_below_vote. Qed.
Print Assumptions C29_refuted_ack_below_vote.

(* ------------------------------------------------------------------ a THIRD log-replication class (RaftLog.v)
   `commit_noquorum_b rv size evs` (KnownClass commit-without-quorum): a Leader raised its commit index over an
   index at which fewer than size/2+1 nodes of its term hold its entry — commit() counts rows of the peer table
   that are not acknowledgements of the current term (rows are never reset on election, update_node writes them
   from the peer's own requests, response() accepts acknowledgements of any term).
   Every revision: a 5-node history with one leader per term in which NONE of the five classes of `classes` occurs
   ends with a new leader that lacks a leader-committed entry (corpus/C29/commit_noquorum.txt). *)
Theorem C29_refuted_commit_noquorum : forall rv,
  exists size evs, let h := c_hist (run rv size evs) in
    size <> 1 /\ election_safety h /\ classes h = (false, false, false, false, false) /\
    commit_noquorum_b rv size evs = true /\ ~ leader_completeness h.
Proof. exact RaftLogProofs.C29_refuted_commit_noquorum. Qed.
Print Assumptions C29_refuted_commit_noquorum.

(* hence "no acknowledgement from a diverged log and no old-term commit" does NOT imply the property *)
Theorem C29_two_classes_not_enough : forall rv,
  ~ (forall size evs, size <> 1 ->
       ack_diverged_b (c_hist (run rv size evs)) = false -> old_term_commit_b (c_hist (run rv size evs)) = false ->
       leader_completeness (c_hist (run rv size evs))).
Proof. exact two_classes_not_enough_C29. Qed.
Print Assumptions C29_two_classes_not_enough.
