(* C17 — Path search returns a minimum-cost path.
   Pinned statements only; proofs live in theories/PathProofs.v.

   Model: Search.v `path_loop` / `path_search` (graph_search/path_search.rs + PathHandler of
   db/db_search_handlers.rs).  The graph hypotheses are `adj_ok` (AdjOk.v).  The revision only
   enters through the value comparison inside `eval_conditions`; every theorem holds for every
   revision `rv`.

   Vocabulary (PathProofs.v):
     ecost rv d conds x   the cost PathHandler::process gives element x: 1 if x passes the
                          conditions, 2 if it does not, 0 if the conditions stop the search at x
                          (C17_ecost); `usable` = non-zero cost
     esel  rv d conds x   whether x passes the conditions (C17_esel)
     is_path g o w p      p = [o; e1; n1; ...; ek; w] alternates nodes and existing edges, each
                          edge leading from the node before it to the node after it; o is an
                          existing node (a walk: repeated nodes are allowed)
     cost p / usable_path p   sum of ecost / all ecost non-zero, over the elements after the origin
     dist_free conds      no `distance` condition and no `beyond` modifier at any depth: the
                          conditions do not look at the distance argument (C17_dist_free).
                          PathSearch passes |current path| + 1 as "distance" for both the edge
                          and the node it reaches, so for distance-dependent conditions the cost
                          of an element depends on the path it is reached by and "minimum cost"
                          has no path-independent meaning; optimality is stated for dist_free
                          condition lists. *)
From Agdb Require Import Bytes DbValue Graph DbModel Search Revisions AdjOk PathProofs.
From Agdb Require GraphSim AdjOkWf.
Open Scope Z_scope.

(* ---- the vocabulary means what it says ---- *)

Theorem C17_ecost : forall rv d conds x,
  ecost rv d conds x = match eval_conditions rv d x 0 conds with
                       | Continue true => 1 | Continue false => 2 | _ => 0 end.
Proof. exact ecost_spec. Qed.
Print Assumptions C17_ecost.

Theorem C17_esel : forall rv d conds x, esel rv d conds x = sc_true (eval_conditions rv d x 0 conds).
Proof. exact esel_spec. Qed.
Print Assumptions C17_esel.

Theorem C17_dist_free : forall rv d i k1 k2 conds,
  dist_free conds = true -> eval_conditions rv d i k1 conds = eval_conditions rv d i k2 conds.
Proof. exact eval_conditions_dist_free. Qed.
Print Assumptions C17_dist_free.

(* is_path (built from the origin by appending an edge and its target) read from the front:
   is_pathb g o w (x :: l) checks x = o, o is an existing node, and l = [e1; n1; ...; ek; nk]
   where every ei is an existing edge from the previous node to ni, ending at w *)
Theorem C17_is_path_checker : forall g o w p, adj_ok g -> (is_pathb g o w p = true <-> is_path g o w p).
Proof. exact is_pathb_spec. Qed.
Print Assumptions C17_is_path_checker.

(* ---- the internal result of the loop, started as path_search starts it ---- *)

(* the initial work list: the origin alone, cost 0, with the flag `add` of the origin; path_search
   runs the loop with add := esel o and returns  map fst (filter snd els) *)
Theorem C17_init : forall o add, init o add = {| p_elems := [(o, add)]; p_cost := 0 |}.
Proof. exact init_eq. Qed.
Print Assumptions C17_init.

Theorem C17_path_search_unfold : forall rv d conds o dst,
  node_id (gr d) o = true -> node_id (gr d) dst = true -> o <> dst ->
  path_search rv d conds o dst =
  match path_loop rv d conds dst (path_fuel (gr d)) [init o (esel rv d conds o)] [] with
  | Some els => Some (map fst (filter snd els))
  | None => None
  end.
Proof. exact path_search_unfold. Qed.
Print Assumptions C17_path_search_unfold.

(* soundness: a non-empty result is a path from the origin to the destination, all of whose
   elements after the origin are usable, each carrying its own selection flag *)
Theorem C17_sound : forall rv d conds o dst add fuel els,
  adj_ok (gr d) -> dist_free conds = true -> node_id (gr d) o = true ->
  path_loop rv d conds dst fuel [init o add] [] = Some els -> els <> [] ->
  is_path (gr d) o dst (map fst els) /\ usable_path rv d conds (map fst els) /\
  flags_ok rv d conds add els.
Proof. exact path_loop_sound. Qed.
Print Assumptions C17_sound.

(* optimality (Dijkstra): no usable path from the origin to the destination is cheaper *)
Theorem C17_optimal : forall rv d conds o dst add fuel els,
  adj_ok (gr d) -> dist_free conds = true -> node_id (gr d) o = true ->
  path_loop rv d conds dst fuel [init o add] [] = Some els -> els <> [] ->
  forall q, is_path (gr d) o dst q -> usable_path rv d conds q ->
            cost rv d conds (map fst els) <= cost rv d conds q.
Proof. exact path_loop_optimal. Qed.
Print Assumptions C17_optimal.

(* the internal result is empty exactly when there is no usable path *)
Theorem C17_empty_iff : forall rv d conds o dst add fuel els,
  adj_ok (gr d) -> dist_free conds = true -> node_id (gr d) o = true ->
  path_loop rv d conds dst fuel [init o add] [] = Some els ->
  (els = [] <-> forall q, is_path (gr d) o dst q -> ~ usable_path rv d conds q).
Proof. exact path_loop_empty_iff. Qed.
Print Assumptions C17_empty_iff.

(* with the fuel path_search supplies, the loop always answers (every condition list) *)
Theorem C17_loop_no_fuel : forall rv d conds dst,
  adj_ok (gr d) -> forall o add, node_id (gr d) o = true ->
  path_loop rv d conds dst (length (g_from (gr d)) * length (g_from (gr d)) + 2)
            [ {| p_elems := [(o, add)]; p_cost := 0 |} ] [] <> None.
Proof. exact path_loop_init_no_fuel. Qed.
Print Assumptions C17_loop_no_fuel.

(* ---- path_search itself ---- *)

(* the fuel is never exhausted, for every condition list and all arguments *)
Theorem C17_no_fuel : forall rv d conds dst,
  adj_ok (gr d) -> forall o, path_search rv d conds o dst <> None.
Proof. exact path_search_no_fuel. Qed.
Print Assumptions C17_no_fuel.

(* For distinct existing nodes the search answers; the answer is either empty because no usable
   path exists, or the selected (condition-passing) elements, in order and the origin included,
   of a minimum-cost usable path.
   NOTE the final result can also be empty in the second case: when no element of the minimum-cost
   path passes the conditions (C17_nothing_selected below).  "Empty exactly when no usable path
   exists" therefore holds for the internal result (C17_empty_iff) and, at the level of
   path_search, when every element passes (C17_no_conditions_empty_iff). *)
Theorem C17_path_search : forall rv d conds o dst,
  adj_ok (gr d) -> dist_free conds = true ->
  node_id (gr d) o = true -> node_id (gr d) dst = true -> o <> dst ->
  exists r, path_search rv d conds o dst = Some r /\
    ((r = [] /\ forall q, is_path (gr d) o dst q -> ~ usable_path rv d conds q) \/
     (exists p, is_path (gr d) o dst p /\ usable_path rv d conds p /\
                r = filter (esel rv d conds) p /\
                forall q, is_path (gr d) o dst q -> usable_path rv d conds q ->
                          cost rv d conds p <= cost rv d conds q)).
Proof. exact path_search_total. Qed.
Print Assumptions C17_path_search.

(* a non-empty answer (ids as DbImpl resolves nodes: positive) *)
Theorem C17_path_search_sound : forall rv d conds o dst r,
  adj_ok (gr d) -> dist_free conds = true -> 0 < o -> 0 < dst ->
  path_search rv d conds o dst = Some r -> r <> [] ->
  exists p, is_path (gr d) o dst p /\ usable_path rv d conds p /\
            r = filter (esel rv d conds) p /\
            forall q, is_path (gr d) o dst q -> usable_path rv d conds q ->
                      cost rv d conds p <= cost rv d conds q.
Proof. exact path_search_sound. Qed.
Print Assumptions C17_path_search_sound.

(* for ANY condition list, also distance-dependent ones (where element costs depend on the path
   and only this part of the property is meaningful): a non-empty answer consists of the
   flagged elements of a directed path from the origin to the destination *)
Theorem C17_sound_any_conditions : forall rv d conds dst,
  adj_ok (gr d) -> forall o r, 0 < o -> 0 < dst ->
  path_search rv d conds o dst = Some r -> r <> [] ->
  exists els, r = map fst (filter snd els) /\ is_path (gr d) o dst (map fst els).
Proof. exact path_search_any_sound. Qed.
Print Assumptions C17_sound_any_conditions.

(* origin = destination, or an endpoint that is not a node: empty *)
Theorem C17_degenerate : forall rv d conds o dst,
  o = dst \/ is_node (gr d) o = false \/ is_node (gr d) dst = false ->
  path_search rv d conds o dst = Some [].
Proof. exact path_search_degenerate. Qed.
Print Assumptions C17_degenerate.

(* without conditions every element costs 1 and is selected: the result is empty exactly when the
   origin equals the destination, an endpoint is not an existing node, or no path exists ... *)
Theorem C17_no_conditions_empty_iff : forall rv d o dst,
  adj_ok (gr d) -> 0 < o -> 0 < dst ->
  (path_search rv d [] o dst = Some [] <->
   o = dst \/ node_id (gr d) o = false \/ node_id (gr d) dst = false \/
   forall q, ~ is_path (gr d) o dst q).
Proof. exact path_search_nil_empty_iff. Qed.
Print Assumptions C17_no_conditions_empty_iff.

(* ... and otherwise it is a complete path with the fewest elements *)
Theorem C17_no_conditions_shortest : forall rv d o dst r,
  adj_ok (gr d) -> 0 < o -> 0 < dst ->
  path_search rv d [] o dst = Some r -> r <> [] ->
  is_path (gr d) o dst r /\ forall q, is_path (gr d) o dst q -> (length r <= length q)%nat.
Proof. exact path_search_nil_shortest. Qed.
Print Assumptions C17_no_conditions_shortest.

(* ---- non-vacuity (example_graph of AdjOk.v: 1 -(-4)-> 2, 1 -(-5)-> 3, 2 -(-6)-> 3, 3 -(-7)-> 1,
        2 -(-8)-> 2) ---- *)

Example C17_plain :
  adj_ok (gr dbg) /\ path_search rv_fixed dbg [] 1 3 = Some [1; -5; 3] /\
  is_path (gr dbg) 1 3 [1; -5; 3].
Proof. exact ex_plain. Qed.
Print Assumptions C17_plain.

(* graph5: 1 -(-6)-> 2 -(-7)-> 5 and 1 -(-8)-> 3 -(-9)-> 4 -(-10)-> 5; conds5 fails exactly
   2, -6, -7: the cheapest path (cost 6) has more hops than the shortest one (cost 7) *)
Example C17_cost_vs_hops :
  adj_ok (gr db5) /\ dist_free conds5 = true /\
  path_search rv_fixed db5 [] 1 5 = Some [1; -6; 2; -7; 5] /\
  path_search rv_fixed db5 conds5 1 5 = Some [1; -8; 3; -9; 4; -10; 5] /\
  is_pathb (gr db5) 1 5 [1; -6; 2; -7; 5] = true /\
  is_pathb (gr db5) 1 5 [1; -8; 3; -9; 4; -10; 5] = true /\
  cost rv_fixed db5 conds5 [1; -6; 2; -7; 5] = 7 /\
  cost rv_fixed db5 conds5 [1; -8; 3; -9; 4; -10; 5] = 6.
Proof. exact ex_cost_vs_hops. Qed.
Print Assumptions C17_cost_vs_hops.

(* an element at which the conditions stop the search is not used *)
Example C17_stop :
  dist_free [Cond LAnd MNotBeyond (CIds [QId (-5)])] = true /\
  ecost rv_fixed dbg [Cond LAnd MNotBeyond (CIds [QId (-5)])] (-5) = 0 /\
  path_search rv_fixed dbg [Cond LAnd MNotBeyond (CIds [QId (-5)])] 1 3 = Some [1; -4; 2; -6; 3] /\
  path_search rv_fixed dbg [Cond LAnd MNotBeyond (CIds [QId (-5); QId 2])] 1 3 = Some [].
Proof. exact ex_stop. Qed.
Print Assumptions C17_stop.

(* a usable minimum-cost path is found (internal result) but none of its elements passes the
   conditions, so the final result is empty *)
Example C17_nothing_selected :
  let cs := [Cond LAnd MNone (CIds [QId 2; QId (-6)])] in
  dist_free cs = true /\
  path_loop rv_fixed dbg cs 3 (path_fuel (gr dbg)) [init 1 (esel rv_fixed dbg cs 1)] [] =
    Some [(1, false); (-5, false); (3, false)] /\
  path_search rv_fixed dbg cs 1 3 = Some [].
Proof. exact ex_nothing_selected. Qed.
Print Assumptions C17_nothing_selected.

(* Why optimality and "empty iff no usable path" are stated for dist_free conditions.
   graph6: 1 -(-7)-> 2 -(-8)-> 3, 1 -(-9)-> 4 -(-10)-> 5 -(-11)-> 3, 3 -(-12)-> 6; conds6 =
   distance < 7 and "not one of 2, -7, -8".  Node 3 is settled through the cheaper 3-hop path;
   from there edge -12 is met at "distance" 8 and refused.  Along 1 -7 2 -8 3 -12 6 every
   element has a non-zero cost at the distance the search gives it, yet the result is empty. *)
Example C17_distance_dependent :
  adj_ok (gr db6) /\ dist_free conds6 = false /\
  path_search rv_fixed db6 conds6 1 6 = Some [] /\
  is_pathb (gr db6) 1 6 [1; -7; 2; -8; 3; -12; 6] = true /\
  map fst [path_cost rv_fixed db6 conds6 (-7) 2; path_cost rv_fixed db6 conds6 2 2;
           path_cost rv_fixed db6 conds6 (-8) 4; path_cost rv_fixed db6 conds6 3 4;
           path_cost rv_fixed db6 conds6 (-12) 6; path_cost rv_fixed db6 conds6 6 6] = [2; 2; 2; 1; 1; 1] /\
  path_search rv_fixed db6 [Cond LAnd MNone (CDistance (KLessThan 7))] 1 6 = Some [1; -7; 2; -8; 3; -12; 6].
Proof. exact ex_distance_dependent. Qed.
Print Assumptions C17_distance_dependent.

Example C17_degenerate_examples :
  path_search rv_fixed dbg [] 1 1 = Some [] /\ path_search rv_fixed dbg [] 1 9 = Some [] /\
  path_search rv_fixed dbg [] 9 1 = Some [].
Proof. exact ex_degenerate. Qed.
Print Assumptions C17_degenerate_examples.

(* ---- the hypothesis adj_ok is discharged by the graph invariant (AdjOkWf.v): wf holds after
   every history of graph operations from the empty graph (GraphSpec.grun_wf) ---- *)
Theorem C17_path_search_wf : forall rv d conds o dst,
  GraphSim.wf (gr d) -> dist_free conds = true ->
  node_id (gr d) o = true -> node_id (gr d) dst = true -> o <> dst ->
  exists r, path_search rv d conds o dst = Some r /\
    ((r = [] /\ forall q, is_path (gr d) o dst q -> ~ usable_path rv d conds q) \/
     (exists p, is_path (gr d) o dst p /\ usable_path rv d conds p /\
                r = filter (esel rv d conds) p /\
                forall q, is_path (gr d) o dst q -> usable_path rv d conds q ->
                          cost rv d conds p <= cost rv d conds q)).
Proof. exact AdjOkWf.path_search_total_wf. Qed.
Print Assumptions C17_path_search_wf.
