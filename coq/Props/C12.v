(* C12 — Every stored value reads back bit-for-bit.
   Pinned statements only; proofs live in theories/ValueIndexProofs.v.

   The model (theories/ValueIndex.v) is the 16-byte value index of
   db_value_index.rs and DbValue::store_db_value / load_db_value of db_value.rs over
   an ABSTRACT record store: an association list  storage index |-> bytes  plus an
   allocator `alloc` naming the index of the next inserted record.  All that is
   assumed of the allocator is `alloc_ok alloc st`: at the store in question it
   returns a non-zero u64 index that names no record.  (That the real record store
   behaves like this, including across reopening, is C04 / C05.) *)
From Agdb Require Import Bytes Utf8 Codec DbValue ValueIndex ValueIndexProofs.
Open Scope N_scope.

(* Every value a Rust program can hold — byte strings and UTF-8 strings of EVERY
   length (the 15 / 16 inline boundary is a case split of the proof), every i64 and
   u64, every one of the 2^64 f64 bit patterns (NaN payloads, signed zeros), vectors
   of any length — loads back identical from the store `store_db_value` returns, and
   from every store that extends it; `store` only adds: the result store is the old
   one or the old one plus ONE record under the allocator's fresh index. *)
Theorem C12_roundtrip :
  forall (alloc : store -> N) (v : dbvalue) (st : store),
    wf_value v = true -> alloc_ok alloc st ->
    let (ix, st') := store_db_value alloc v st in
    load_db_value ix st' = Ok v /\
    (forall st'', extends st' st'' -> load_db_value ix st'' = Ok v) /\
    length ix = 16%nat /\
    (st' = st \/ exists b, st' = (alloc st, b) :: st) /\
    (forall i b, lookup i st = Some b -> lookup i st' = Some b).
Proof. exact roundtrip_full. Qed.
Print Assumptions C12_roundtrip.

(* A key-value pair is two indexes (32 bytes); both components read back, the
   key also after the value's record was added on top of it. *)
Theorem C12_kv_roundtrip :
  forall (alloc : store -> N) (k v : dbvalue) (st : store),
    wf_value k = true -> wf_value v = true ->
    alloc_ok alloc st -> alloc_ok alloc (snd (store_db_value alloc k st)) ->
    length (fst (store_kv alloc k v st)) = 32%nat /\
    load_kv (fst (store_kv alloc k v st)) (snd (store_kv alloc k v st)) = Ok (k, v).
Proof. exact kv_roundtrip_full. Qed.
Print Assumptions C12_kv_roundtrip.

(* Type nibble, size nibble and payload never overwrite each other: for every
   16-byte index, what each setter changes and what it leaves alone.  The byte-15
   mask / shift facts are finite sweeps over the 256 byte values (vm_compute +
   forallb_forall). *)
Theorem C12_index_fields_disjoint :
  forall ix : vindex, length ix = 16%nat ->
  (forall t, length (set_type ix t) = 16%nat /\ vi_size (set_type ix t) = vi_size ix /\
             firstn 15 (set_type ix t) = firstn 15 ix /\ (t < 16 -> vi_type (set_type ix t) = t)) /\
  (forall bs, lenN bs <= 15 ->
     fst (set_value ix bs) = true /\ length (snd (set_value ix bs)) = 16%nat /\
     vi_type (snd (set_value ix bs)) = vi_type ix /\
     vi_size (snd (set_value ix bs)) = lenN bs /\ vi_value (snd (set_value ix bs)) = bs /\
     skipn (length bs) (firstn 15 (snd (set_value ix bs))) = skipn (length bs) (firstn 15 ix)) /\
  (forall bs, 15 < lenN bs -> set_value ix bs = (false, ix)) /\
  (forall n, n < two64 ->
     length (set_index ix n) = 16%nat /\ vi_type (set_index ix n) = vi_type ix /\
     vi_size (set_index ix n) = 0 /\ vi_index (set_index ix n) = n /\
     skipn 8 (firstn 15 (set_index ix n)) = skipn 8 (firstn 15 ix)) /\
  (vi_type ix < 16 /\ vi_size ix < 16 /\ vi_type ix * 16 + vi_size ix = byte15 ix).
Proof. exact index_fields_disjoint. Qed.
Print Assumptions C12_index_fields_disjoint.

(* VecValue::remove of a stored value (and of a stored pair) frees exactly the
   records `store` allocated: the store is literally the one before `store`; a
   value that is not inline did occupy a record, which is unreadable afterwards. *)
Theorem C12_remove_frees_exactly :
  forall (alloc : store -> N) (v : dbvalue) (st : store),
    alloc_ok alloc st ->
    remove_value (fst (store_db_value alloc v st)) (snd (store_db_value alloc v st)) = Ok st /\
    (is_value (fst (store_db_value alloc v st)) = false ->
       lookup (vi_index (fst (store_db_value alloc v st))) (snd (store_db_value alloc v st)) <> None /\
       lookup (vi_index (fst (store_db_value alloc v st))) st = None).
Proof. exact remove_frees_exactly_full. Qed.
Print Assumptions C12_remove_frees_exactly.

Theorem C12_kv_remove_frees_exactly :
  forall (alloc : store -> N) (k v : dbvalue) (st : store),
    alloc_ok alloc st -> alloc_ok alloc (snd (store_db_value alloc k st)) ->
    remove_kv (fst (store_kv alloc k v st)) (snd (store_kv alloc k v st)) = Ok st.
Proof. exact kv_remove_frees_exactly. Qed.
Print Assumptions C12_kv_remove_frees_exactly.

(* the allocator hypothesis is satisfiable: the driver's allocator (one past the
   largest index in use) is fresh whenever two more indexes fit into a u64 *)
Theorem C12_allocator_exists :
  forall (k : dbvalue) (st : store),
    (forall i, In i (keys st) -> i + 2 < two64) ->
    alloc_ok fresh_ix st /\ alloc_ok fresh_ix (snd (store_db_value fresh_ix k st)).
Proof. exact fresh_ix_ok_twice. Qed.
Print Assumptions C12_allocator_exists.

(* non-vacuity: boundary values of every kind are well-formed and round-trip in a
   non-empty store; 15 bytes are inline, 16 bytes (ending in a 4-byte UTF-8
   sequence) go out of line as `len ++ bytes`; a pair of out-of-line values reads back *)
Example C12_nonvacuous :
  forallb wf_value ex_values = true /\
  forallb (fun v => rt_ok v [(7, [x01])]) ex_values = true /\
  is_value (fst (store_db_value fresh_ix (DString ex_str15) [])) = true /\
  is_value (fst (store_db_value fresh_ix (DString ex_str16) [])) = false /\
  snd (store_db_value fresh_ix (DString ex_str16) []) = [(1, le64 16 ++ ex_str16)] /\
  load_kv (fst (store_kv fresh_ix (DString ex_str16) (DVecF64 [9221120237041090561]) []))
          (snd (store_kv fresh_ix (DString ex_str16) (DVecF64 [9221120237041090561]) []))
    = Ok (DString ex_str16, DVecF64 [9221120237041090561]).
Proof. exact examples_roundtrip. Qed.
Print Assumptions C12_nonvacuous.
