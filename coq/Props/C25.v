(* C25 — A server query batch is all-or-nothing and audited exactly.
   Pinned statements only; proofs live in theories/AuthProofs.v. *)
From Agdb Require Import Bytes Auth AuthProofs.
Open Scope N_scope.

(* A batch that fails (any query of it fails, or the caller may not run it) leaves the server
   state — content and audit log of every database — unchanged. *)
Theorem C25_all_or_nothing :
  forall (s : state) (now : N) (tok : option N) (o d : N) (qs : list query),
    resp_ok (fst (step s now tok (ReqDb o d (OExecMut qs)))) = false ->
    snd (step s now tok (ReqDb o d (OExecMut qs))) = s.
Proof. intros; apply step_err_unchanged; assumption. Qed.
Print Assumptions C25_all_or_nothing.
