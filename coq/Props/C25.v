(* C25 — A server query batch is all-or-nothing and audited exactly.
   Pinned statements only; proofs live in theories/AuthProofs*.v.  The model (theories/Auth.v):
   exec_batch_mut = UserDb::exec_mut (transaction_mut over the batch, t_exec_mut per query, `:n`
   result injection, audit record per mutating query), exec_batch_read = UserDb::exec (t_exec),
   apply_db (OExecMut) = routes + DbPool::exec_mut (audit appended only after the transaction
   succeeded; a batch without mutating query goes through the read path).
   Vocabulary (definitions in AuthProofsBatch.v, no axioms):
     is_batch req              req is exec / exec_mut on the user or the admin endpoint
     audit_view s o d          the audit log of database (o, d)
     injected c rs qs          the queries of a batch after `:n` injection
     audit_of_batch who c qs   = [(who, q') | q' in injected c [] qs, q' of a mutating kind]
     contribution s now tok req o d   audit_of_batch of req if it is a SUCCESSFUL exec_mut on (o, d)
                               (submitter = the caller, or the server admin on the admin endpoint), else []
     contributions s tr o d    concatenation of the contributions along the sequence *)
From Agdb Require Import Bytes Auth AuthProofs AuthProofsTokens AuthProofsPerm AuthProofsBatch
  AuthProofsMatrix AuthProofsExamples.
Open Scope N_scope.

(* A batch that is not answered with success (a query of it fails, a `:n` is dangling, the caller
   may not run it, the database does not exist) leaves the whole server state — content and audit
   log of every database — unchanged.  (That the real transaction rolls back completely is C13; the
   correspondence run compares dump and audit after every failed batch.) *)
Theorem C25_all_or_nothing :
  forall (s : state) (now : N) (tok : option N) (req : request),
    is_batch req = true -> resp_ok (fst (step s now tok req)) = false -> snd (step s now tok req) = s.
Proof. exact batch_all_or_nothing. Qed.
Print Assumptions C25_all_or_nothing.

(* The read endpoint never changes anything, whatever it answers. *)
Theorem C25_exec_is_pure :
  forall (s : state) (now : N) (tok : option N) (o d : N) (qs : list query),
    snd (step s now tok (ReqDb o d (OExec qs))) = s /\ snd (step s now tok (ReqAdminDb o d (OExec qs))) = s.
Proof. exact exec_endpoint_pure. Qed.
Print Assumptions C25_exec_is_pure.

(* For every sequence of batches — any users, tokens, databases, both endpoints, allowed or not,
   succeeding or failing — the audit log of (o, d) afterwards is its log before followed, in order,
   by the mutating queries (after injection) of exactly the successful exec_mut batches on (o, d),
   each attributed to the user who submitted it. *)
Theorem C25_audit_exact :
  forall (tr : list event) (s : state) (o d : N) (au : list aentry),
    forallb (fun e => is_batch (snd e)) tr = true ->
    audit_view s o d = Some au ->
    audit_view (run s tr) o d = Some (au ++ contributions s tr o d).
Proof. exact audit_exact. Qed.
Print Assumptions C25_audit_exact.

(* what a successful transaction hands to the audit writer is exactly that specification *)
Theorem C25_batch_audit_spec :
  forall (who : N) (qs : list query) (c : content) (rs : list qresult) (au : list aentry) c' rs' au',
    exec_batch_mut who c rs au qs = Some (c', rs', au') ->
    au' = au ++ map (fun q => (who, q)) (filter (fun q => kind_is_write (kind_of q)) (injected c rs qs)).
Proof. exact exec_batch_mut_audit. Qed.
Print Assumptions C25_batch_audit_spec.

(* read-only batches through exec_mut add nothing *)
Theorem C25_read_batch_not_audited :
  forall (who : N) (c : content) (qs : list query), batch_is_write qs = false -> audit_of_batch who c qs = [].
Proof. exact audit_of_read_batch. Qed.
Print Assumptions C25_read_batch_not_audited.

(* `:n` resolves to ALL ids of result n (spliced in place), literal ids stay, and a reference to a
   result that does not exist makes the query — hence the batch — fail *)
Theorem C25_injection :
  (forall rs ids, inject rs ids = if forallb (ref_ok rs) ids then Some (flat_map (ref_ids rs) ids) else None) /\
  (forall c rs ids m,
      forallb (ref_ok rs) ids = false ->
      exec_query c rs (QSetValue ids m) = None /\ exec_query c rs (QRemoveValue ids) = None /\
      exec_query c rs (QSelect ids) = None).
Proof. exact (conj inject_spec bad_reference_fails). Qed.
Print Assumptions C25_injection.

(* the classification the endpoints, the read-only transaction and the audit use is one table *)
Theorem C25_query_classification :
  forall k : qkind, kind_is_write k = negb (kind_read_allowed k) /\ kind_audited k = kind_is_write k.
Proof. exact kind_tables_agree. Qed.
Print Assumptions C25_query_classification.

(* ---- non-vacuity ---- *)

(* six batches: a writer's mutating batch with `:0`, a failing batch, a denied batch (read role), a
   read-only batch through exec_mut, a read through exec, the server admin's batch: the audit log is
   exactly the four mutating queries of the two successful mutating batches, with the right users *)
Example C25_nonvacuous_batches :
  forallb (fun e => is_batch (snd e)) batch_trace = true /\
  audit_view mx_state 1 10 = Some [] /\
  contributions mx_state batch_trace 1 10 =
    [ (3, QInsertNode 5); (3, QSetValue [QId 2; QId 1] 6); (0, QRemoveValue [QId 1]); (0, QProbe PRemoveIndex) ] /\
  db_view (run mx_state batch_trace) 1 10 =
    Some (mkContent [None; Some 6] false,
          [ (3, QInsertNode 5); (3, QSetValue [QId 2; QId 1] 6); (0, QRemoveValue [QId 1]); (0, QProbe PRemoveIndex) ]).
Proof. exact batch_example. Qed.
Print Assumptions C25_nonvacuous_batches.

Example C25_nonvacuous_injection :
  inject [mkRes 1 [(4, [])]; mkRes 2 [(1, []); (2, [])]] [QRes 1; QId 9; QRes 0] = Some [1; 2; 9; 4] /\
  inject [mkRes 1 [(4, [])]] [QRes 1] = None /\
  exec_query (mkContent [Some 1] false) [mkRes 1 [(1, [])]] (QSetValue [QRes 3] 5) = None.
Proof. exact injection_example. Qed.
Print Assumptions C25_nonvacuous_injection.
