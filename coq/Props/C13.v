(* C13 — A failed transaction or query leaves no observable effect.
   Pinned statements only; proofs live in theories/Undo*.v.

   Model: theories/DbModel.v (every DbImpl mutation with the undo commands it pushes,
   `undo_one` = one arm of DbImpl::rollback, `rollback_cmds`/`rollback`), theories/Queries.v
   (`exec` = one query as one transaction, `transaction` = transaction_mut with a closure that
   runs the queries and optionally fails at the end).
   `obs_eq d d'` (theories/UndoObs.v) is the equivalence the property allows: every slot has the
   same kind (free / node / edge with the same endpoints), same node count, every node's
   out-/in-lists are permutations, every element's key-value list is a permutation, the alias maps
   agree in both directions, every index key is present in both with permuted (value,id) lists. *)
From Agdb Require Import Bytes DbValue Graph DbModel Search Queries Revisions UndoBase UndoObs UndoWitness.
From Coq Require Import Permutation.
Open Scope Z_scope.

(* ---- the two defects of the pinned tree (all fix flags off), repaired by fix: commits ---- *)

(* (i) rollback stopped at the first ReplaceKeyValue command: db = node 1 {k:1};
   transaction [insert a node; set k:2 on node 1] that fails at the end keeps node 2. *)
Theorem C13_pinned_refuted_replace :
  let d := fst (exec rv_pinned db_new (InsertNodes 1 (Single [(DString [x6b], DI64 1)]) [] (Ids []))) in
  let d' := fst (transaction rv_pinned d
                   [InsertNodes 1 (Single []) [] (Ids []);
                    InsertValues (Ids [QId 1]) (Single [(DString [x6b], DI64 2)])] true) in
  ~ obs_eq d d' /\
  slot_kind (gr d) 2 = KFree /\ slot_kind (gr d') 2 = KNode /\
  node_count (gr d) = 1 /\ node_count (gr d') = 2.
Proof. exact pinned_refuted_replace. Qed.
Print Assumptions C13_pinned_refuted_replace.

(* (ii) stealing an alias recorded no inverse for the previous holder: nodes 1 "a", 2 "b";
   transaction [alias "a" -> node 2] that fails leaves node 1 without its alias. *)
Theorem C13_pinned_refuted_alias_steal :
  let d := fst (exec rv_pinned db_new (InsertNodes 2 (Single []) [[x61]; [x62]] (Ids []))) in
  let d' := fst (transaction rv_pinned d [InsertAliases (Ids [QId 2]) [[x61]]] true) in
  ~ obs_eq d d' /\
  imap_value (aliases d) [x61] = Some 1 /\ imap_value (aliases d') [x61] = None /\
  imap_key (aliases d) 1 = Some [x61] /\ imap_key (aliases d') 1 = None.
Proof. exact pinned_refuted_alias_steal. Qed.
Print Assumptions C13_pinned_refuted_alias_steal.

(* (iii) third defect, found while proving this property and repaired by fix: 883e1ef
   (flag fix_nodes_ids_alias; every other fix already on): `insert nodes ids [2] aliases ["a"]`
   called insert_new_alias on the existing node 2, dropping its alias "b" and stealing "a" from
   node 1 with only `RemoveAlias "a"` recorded: after the failed transaction both nodes have no alias. *)
Theorem C13_nodes_ids_alias_refuted :
  let rv := {| fix_rollback_replace := true; fix_alias_steal_undo := true; fix_alias_nodes_only := true;
               fix_strict_order := true; fix_slice_clamp := true; fix_edge_origin := true;
               fix_visited_chain := true; fix_nodes_ids_alias := false |} in
  let d := fst (exec rv db_new (InsertNodes 2 (Single []) [[x61]; [x62]] (Ids []))) in
  let d' := fst (transaction rv d [InsertNodes 0 (Single []) [[x61]] (Ids [QId 2])] true) in
  ~ obs_eq d d' /\
  imap_key (aliases d) 1 = Some [x61] /\ imap_key (aliases d) 2 = Some [x62] /\
  imap_key (aliases d') 1 = None /\ imap_key (aliases d') 2 = None.
Proof. exact nodes_ids_alias_refuted. Qed.
Print Assumptions C13_nodes_ids_alias_refuted.

Example C13_fixed_restores_nodes_ids_alias :
  let d := fst (exec rv_fixed db_new (InsertNodes 2 (Single []) [[x61]; [x62]] (Ids []))) in
  let d' := fst (transaction rv_fixed d [InsertNodes 0 (Single []) [[x61]] (Ids [QId 2])] true) in
  obs_eq d d' /\ undo d' = [].
Proof. exact fixed_restores_nodes_ids_alias. Qed.
Print Assumptions C13_fixed_restores_nodes_ids_alias.

(* the same transactions on the repaired revision restore the state, including the ids
   that are handed out next *)
Example C13_fixed_restores_replace :
  let d := fst (exec rv_fixed db_new (InsertNodes 1 (Single [(DString [x6b], DI64 1)]) [] (Ids []))) in
  let d' := fst (transaction rv_fixed d
                   [InsertNodes 1 (Single []) [] (Ids []);
                    InsertValues (Ids [QId 1]) (Single [(DString [x6b], DI64 2)])] true) in
  obs_eq d d' /\ next_slots 4 (gr d) = next_slots 4 (gr d') /\ undo d' = [].
Proof. exact fixed_restores_replace. Qed.
Print Assumptions C13_fixed_restores_replace.

Example C13_fixed_restores_alias_steal :
  let d := fst (exec rv_fixed db_new (InsertNodes 2 (Single []) [[x61]; [x62]] (Ids []))) in
  let d' := fst (transaction rv_fixed d [InsertAliases (Ids [QId 2]) [[x61]]] true) in
  obs_eq d d' /\ next_slots 4 (gr d) = next_slots 4 (gr d') /\ undo d' = [].
Proof. exact fixed_restores_alias_steal. Qed.
Print Assumptions C13_fixed_restores_alias_steal.

(* a single query failing part-way (second id does not exist) on the repaired revision *)
Example C13_fixed_restores_failing_query :
  let d := fst (exec rv_fixed db_new (InsertNodes 1 (Single [(DString [x6b], DI64 1)]) [] (Ids []))) in
  let '(d', r) := exec rv_fixed d (InsertValues (Ids [QId 1; QId 9]) (Single [(DString [x6b], DI64 2)])) in
  r = QErr ENotFound /\ obs_eq d d' /\ kvs_get (vals d') 1 = [(DString [x6b], DI64 1)].
Proof. exact fixed_restores_failing_query. Qed.
Print Assumptions C13_fixed_restores_failing_query.
