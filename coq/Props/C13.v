(* C13 — A failed transaction or query leaves no observable effect.
   Pinned statements only; proofs live in theories/Undo*.v.

   Model: theories/DbModel.v (every DbImpl mutation with the undo commands it pushes,
   `undo_one` = one arm of DbImpl::rollback, `rollback_cmds`/`rollback`), theories/Queries.v
   (`exec` = one query as one transaction, `transaction` = transaction_mut with a closure that
   runs the queries and optionally fails at the end).
   `obs_eq d d'` (theories/UndoObs.v) is the equivalence the property allows: every slot has the
   same kind (free / node / edge with the same endpoints), same node count, every node's
   out-/in-lists are permutations, every element's key-value list is a permutation, the alias maps
   agree in both directions, every index key is present in both with permuted (value,id) lists. *)
From Agdb Require Import Bytes DbValue Graph DbModel Search Queries Revisions UndoBase UndoObs UndoWitness
  UndoKv UndoGraph UndoDb UndoStepsKv UndoStepsKv2 UndoMain UndoFinal UndoLift UndoLiftEx UndoRemoveNode UndoRemoveNode2.
From Coq Require Import Permutation.
Open Scope Z_scope.

(* ======================================================================================
   Positive theorems (for every revision with fix_rollback_replace and fix_alias_steal_undo on,
   in particular rv_fixed = /repo).

   Vocabulary (theories/UndoDb.v, UndoGraph.v, UndoMain.v):
   * `rep g a`   : the four slot arrays g are well formed (equal lengths, capacity <= 2^63, the free
                   chain is duplicate free and consists of zeroed free slots, every node's out-/in-chain
                   is duplicate free, consists exactly of the edges whose source/target it is and has
                   the recorded degree, every edge's endpoints are nodes) and represent the abstract
                   graph a (kinds, out-/in-lists, count, LIFO free list, capacity).
   * `sim d d'`  : both states are well formed (graph `rep`, alias map a bijection, unique keys per
                   element, unique index keys) and observationally equal: same kinds/endpoints, node
                   count, adjacency up to order, SAME allocation stream (free list then capacity,
                   capacity+1, ...), alias maps equal as functions, key-value lists permutations,
                   index lists permutations.   `db_ok d := sim d d`.
   * `pstep rv d d1` : d1 results from d by one mutation primitive of DbModel.v (insert_node_db,
                   insert_edge_db, remove_edge_db on an edge, removal of an isolated node = last step
                   of remove_node_db, insert_new_alias on an unused alias and alias-less element,
                   insert_alias, remove_alias, insert_key_value of a new key,
                   insert_or_replace_key_value, reserve_kv, remove_keys, remove_all_values,
                   insert_index, remove_index); removals of indexed pairs carry the side condition
                   that the index lists the pair (`idx_has`).   `psteps` = finite sequences.
   ====================================================================================== *)

(* C13_step_inverse — for each primitive: the commands cs it pushed, rolled back from the
   post-state (or from any state similar to it — the congruence needed for sequences), give a
   state similar to the pre-state.  The re-inserted node/edge gets its old slot because the free
   list is LIFO (part of `sim`: same allocation stream). *)
Theorem C13_step_inverse :
  forall rv, fix_rollback_replace rv = true -> fix_alias_steal_undo rv = true ->
  forall d d1, db_ok d -> pstep rv d d1 -> capacity (gr d1) <= two63z ->
    exists cs, undo d1 = cs ++ undo d /\
      (forall e, sim e d1 -> exists e', rollback_cmds rv e cs = ROk e' /\ sim e' d) /\
      (exists d', rollback_cmds rv d1 cs = ROk d' /\ obs_eq d d') /\
      db_ok d1.
Proof. exact step_inverse. Qed.
Print Assumptions C13_step_inverse.

(* the equivalence is a congruence for the undo commands of a primitive *)
Theorem C13_undo_congruence :
  forall rv, fix_rollback_replace rv = true -> fix_alias_steal_undo rv = true ->
  forall d d1 e1 e2 cs,
    db_ok d -> pstep rv d d1 -> capacity (gr d1) <= two63z -> undo d1 = cs ++ undo d ->
    sim e1 d1 -> sim e2 d1 ->
    exists e1' e2', rollback_cmds rv e1 cs = ROk e1' /\ rollback_cmds rv e2 cs = ROk e2' /\ sim e1' e2'.
Proof. exact undo_congruence. Qed.
Print Assumptions C13_undo_congruence.

(* C13_rollback_restores — every finite sequence of primitives executed from a well-formed state
   with an empty undo stack (= inside one transaction) is undone by `rollback`: it succeeds and the
   result is observationally equal to the start, with the same degree counters and handing out
   the same ids afterwards; and it is again well formed.  (capacity <= 2^63: ids fit i64.) *)
Theorem C13_rollback_restores :
  forall rv, fix_rollback_replace rv = true -> fix_alias_steal_undo rv = true ->
  forall d d1, db_ok d -> undo d = [] -> psteps rv d d1 -> capacity (gr d1) <= two63z ->
    exists d', rollback rv d1 = ROk d' /\
      obs_eq d d' /\
      (forall n, slot_kind (gr d) n = KNode ->
         edge_count_from (gr d) n = edge_count_from (gr d') n /\ edge_count_to (gr d) n = edge_count_to (gr d') n) /\
      (forall k, capacity (gr d) + Z.of_nat k <= two63z -> capacity (gr d') + Z.of_nat k <= two63z ->
         next_slots k (gr d) = next_slots k (gr d')) /\
      db_ok d'.
Proof. exact rollback_restores_obs. Qed.
Print Assumptions C13_rollback_restores.

(* remove_node_db (alias removal; for every edge of the node remove_edge_db + remove_all_values; then
   the node, which is isolated by then) is a sequence of these primitives, so both theorems above
   apply to it: same side condition (the indexed properties of the node's edges are listed in
   their indexes), the alias given is the node's alias. *)
Theorem C13_step_inverse_remove_node_db :
  forall rv, fix_rollback_replace rv = true -> fix_alias_steal_undo rv = true ->
  forall d n alias,
    db_ok d -> 0 < n -> is_node (gr d) n = true ->
    match alias with Some a => imap_value (aliases d) a = Some n | None => True end ->
    (forall x, In x (node_edges d n) -> idx_has_all d (fst (fst x))) ->
    exists d1, remove_node_db d n alias = (d1, None) /\ psteps rv d d1 /\ capacity (gr d1) = capacity (gr d).
Proof. exact remove_node_db_psteps. Qed.
Print Assumptions C13_step_inverse_remove_node_db.

(* non-vacuity: the empty database is well formed; a concrete 7-step history (2 nodes, an edge, an
   alias, a property, the edge removed, the property replaced) satisfies the hypotheses; a concrete
   graph with an edge satisfies the graph well-formedness premise *)
Example C13_db_ok_new : db_ok db_new.
Proof. exact db_ok_new. Qed.
Print Assumptions C13_db_ok_new.

Example C13_history_restored :
  psteps rv_fixed db_new ex_d7 /\
  node_count (gr ex_d7) = 2 /\ kvs_get (vals ex_d7) 1 = [(DString [x6b], DI64 2)] /\ length (undo ex_d7) = 7%nat /\
  exists d', rollback rv_fixed ex_d7 = ROk d' /\ obs_eq db_new d' /\ db_ok d'.
Proof. exact (conj ex_psteps ex_restored). Qed.
Print Assumptions C13_history_restored.

Example C13_graph_wf_example :
  exists a, rep (gr ex_d5) a /\ ak a 3 = KEdge 1 2 /\ aout a 1 = [3] /\ ain a 2 = [3] /\ afree a = [].
Proof. exact ex_rep. Qed.
Print Assumptions C13_graph_wf_example.

(* ---- lifting to Queries.exec / Queries.transaction: PARTIAL ----
   FULL statement (the property's): for every mutating query q and every list of queries qs, from
   every reachable database d:  exec rv_fixed d q = (d', QErr e) -> obs_eq d d',  and a transaction
   that fails (a failing query or a failure injected at the end, no panic) ends in d' with obs_eq d d'.
   PROVED below for `liftable` queries: InsertAliases, RemoveAliases, InsertIndex, RemoveIndex and all
   read-only queries (their primitives need no cross-component side condition), from every well-formed d.
   MISSING for InsertNodes, InsertEdges, InsertValues, Remove, RemoveValues: their decomposition into
   `pstep`s (C13_rollback_restores then applies) needs the side conditions of the primitives, which
   follow from database invariants not proved here: (1) every indexed pair of an element is listed in
   its index (`idx_has_all`, needed by remove_keys / remove_all_values / value replacement; this is
   property C11), (2) a slot handed out by the allocator has an empty key-value list and no alias
   (needed by insert_key_value / insert_new_alias on fresh elements; C09/C10), (3) remove_node_db
   removes all edges of the node before the node (the node is isolated at CInsertNode time). *)
Theorem C13_exec_failure_restores_partial :
  forall rv, fix_rollback_replace rv = true -> fix_alias_steal_undo rv = true ->
  forall d q d' e,
    liftable q = true -> db_ok d -> undo d = [] -> exec rv d q = (d', QErr e) ->
    obs_eq d d' /\ db_ok d' /\ undo d' = [].
Proof. exact exec_failure_restores. Qed.
Print Assumptions C13_exec_failure_restores_partial.

Theorem C13_transaction_failure_restores_partial :
  forall rv, fix_rollback_replace rv = true -> fix_alias_steal_undo rv = true ->
  forall d qs fail_at_end,
    Forall (fun q => liftable q = true) qs -> db_ok d -> undo d = [] ->
    let '(d1, results, all_ok) := txn_run rv d qs [] in
    existsb (fun r => match r with QPanic => true | _ => false end) results = false ->
    all_ok && negb fail_at_end = false ->
    exists d', transaction rv d qs fail_at_end = (d', results) /\ obs_eq d d' /\ db_ok d' /\ undo d' = [].
Proof. exact transaction_failure_restores. Qed.
Print Assumptions C13_transaction_failure_restores_partial.

(* non-vacuity: the alias-stealing transaction of witness (ii) is covered, from a well-formed state *)
Example C13_lift_example :
  let d := fst (exec rv_fixed db_new (InsertNodes 2 (Single []) [[x61]; [x62]] (Ids []))) in
  let qs := [InsertAliases (Ids [QId 2]) [[x61]]] in
  Forall (fun q => liftable q = true) qs /\ db_ok d /\ undo d = [] /\
  exists d', transaction rv_fixed d qs true = (d', [QOk 1 []]) /\ obs_eq d d'.
Proof. exact lift_example. Qed.
Print Assumptions C13_lift_example.

(* ---- the two defects of the pinned tree (all fix flags off), repaired by fix: commits ---- *)

(* (i) rollback stopped at the first ReplaceKeyValue command: db = node 1 {k:1};
   transaction [insert a node; set k:2 on node 1] that fails at the end keeps node 2. *)
Theorem C13_pinned_refuted_replace :
  let d := fst (exec rv_pinned db_new (InsertNodes 1 (Single [(DString [x6b], DI64 1)]) [] (Ids []))) in
  let d' := fst (transaction rv_pinned d
                   [InsertNodes 1 (Single []) [] (Ids []);
                    InsertValues (Ids [QId 1]) (Single [(DString [x6b], DI64 2)])] true) in
  ~ obs_eq d d' /\
  slot_kind (gr d) 2 = KFree /\ slot_kind (gr d') 2 = KNode /\
  node_count (gr d) = 1 /\ node_count (gr d') = 2.
Proof. exact pinned_refuted_replace. Qed.
Print Assumptions C13_pinned_refuted_replace.

(* (ii) stealing an alias recorded no inverse for the previous holder: nodes 1 "a", 2 "b";
   transaction [alias "a" -> node 2] that fails leaves node 1 without its alias. *)
Theorem C13_pinned_refuted_alias_steal :
  let d := fst (exec rv_pinned db_new (InsertNodes 2 (Single []) [[x61]; [x62]] (Ids []))) in
  let d' := fst (transaction rv_pinned d [InsertAliases (Ids [QId 2]) [[x61]]] true) in
  ~ obs_eq d d' /\
  imap_value (aliases d) [x61] = Some 1 /\ imap_value (aliases d') [x61] = None /\
  imap_key (aliases d) 1 = Some [x61] /\ imap_key (aliases d') 1 = None.
Proof. exact pinned_refuted_alias_steal. Qed.
Print Assumptions C13_pinned_refuted_alias_steal.

(* (iii) third defect, found while proving this property and repaired by fix: 883e1ef
   (flag fix_nodes_ids_alias; every other fix already on): `insert nodes ids [2] aliases ["a"]`
   called insert_new_alias on the existing node 2, dropping its alias "b" and stealing "a" from
   node 1 with only `RemoveAlias "a"` recorded: after the failed transaction both nodes have no alias. *)
Theorem C13_nodes_ids_alias_refuted :
  let rv := {| fix_rollback_replace := true; fix_alias_steal_undo := true; fix_alias_nodes_only := true;
               fix_strict_order := true; fix_slice_clamp := true; fix_edge_origin := true;
               fix_visited_chain := true; fix_nodes_ids_alias := false; fix_empty_alias := false |} in
  let d := fst (exec rv db_new (InsertNodes 2 (Single []) [[x61]; [x62]] (Ids []))) in
  let d' := fst (transaction rv d [InsertNodes 0 (Single []) [[x61]] (Ids [QId 2])] true) in
  ~ obs_eq d d' /\
  imap_key (aliases d) 1 = Some [x61] /\ imap_key (aliases d) 2 = Some [x62] /\
  imap_key (aliases d') 1 = None /\ imap_key (aliases d') 2 = None.
Proof. exact nodes_ids_alias_refuted. Qed.
Print Assumptions C13_nodes_ids_alias_refuted.

Example C13_fixed_restores_nodes_ids_alias :
  let d := fst (exec rv_fixed db_new (InsertNodes 2 (Single []) [[x61]; [x62]] (Ids []))) in
  let d' := fst (transaction rv_fixed d [InsertNodes 0 (Single []) [[x61]] (Ids [QId 2])] true) in
  obs_eq d d' /\ undo d' = [].
Proof. exact fixed_restores_nodes_ids_alias. Qed.
Print Assumptions C13_fixed_restores_nodes_ids_alias.

(* the same transactions on the repaired revision restore the state, including the ids
   that are handed out next *)
Example C13_fixed_restores_replace :
  let d := fst (exec rv_fixed db_new (InsertNodes 1 (Single [(DString [x6b], DI64 1)]) [] (Ids []))) in
  let d' := fst (transaction rv_fixed d
                   [InsertNodes 1 (Single []) [] (Ids []);
                    InsertValues (Ids [QId 1]) (Single [(DString [x6b], DI64 2)])] true) in
  obs_eq d d' /\ next_slots 4 (gr d) = next_slots 4 (gr d') /\ undo d' = [].
Proof. exact fixed_restores_replace. Qed.
Print Assumptions C13_fixed_restores_replace.

Example C13_fixed_restores_alias_steal :
  let d := fst (exec rv_fixed db_new (InsertNodes 2 (Single []) [[x61]; [x62]] (Ids []))) in
  let d' := fst (transaction rv_fixed d [InsertAliases (Ids [QId 2]) [[x61]]] true) in
  obs_eq d d' /\ next_slots 4 (gr d) = next_slots 4 (gr d') /\ undo d' = [].
Proof. exact fixed_restores_alias_steal. Qed.
Print Assumptions C13_fixed_restores_alias_steal.

(* a single query failing part-way (second id does not exist) on the repaired revision *)
Example C13_fixed_restores_failing_query :
  let d := fst (exec rv_fixed db_new (InsertNodes 1 (Single [(DString [x6b], DI64 1)]) [] (Ids []))) in
  let '(d', r) := exec rv_fixed d (InsertValues (Ids [QId 1; QId 9]) (Single [(DString [x6b], DI64 2)])) in
  r = QErr ENotFound /\ obs_eq d d' /\ kvs_get (vals d') 1 = [(DString [x6b], DI64 1)].
Proof. exact fixed_restores_failing_query. Qed.
Print Assumptions C13_fixed_restores_failing_query.

(* ======================================================================================
   ALL QUERY KINDS, AND WHOLE HISTORIES  (supersedes the two `_partial` theorems above)
   theories/PstepOpsProofs.v, QueryPstepsProofs.v, InvSimProofs.v, RollbackInvProofs.v, NoPanicProofs.v,
   HistoryAtomicProofs.v, HistoryAtomicExamples.v.

   The decomposition of InsertNodes, InsertEdges, InsertValues, Remove (nodes with the cascade over their
   edges, edges) and RemoveValues into the 14 primitives of C13_step_inverse needs side conditions that
   are exactly what the joint invariant `Inv` of C09 / C10 / C11 (Props/C10.v: graph wf, aliases a
   bijection onto existing nodes, no element with two equal keys, indexes exact, values only on existing
   elements) provides — C13_primitives_from_Inv:
     - a removed / replaced pair of an existing element is listed in the index on its key (idx_exact);
     - a slot handed out by the allocator carries no values and no alias (vals_live, alias_nodes);
     - remove_node_db removes every incident edge (with its values) before the node (graph wf).
   Hence every mutating query, whatever its outcome, and every prefix of a transaction, is a sequence of
   primitives (C13_query_decomposes; `reach rv d d1` = capacities only grow, and when db_ok d holds and
   capacity (gr d1) <= 2^63, psteps rv d d1), and C13_rollback_restores applies.

   HInv d  =  Inv d /\ db_ok d /\ undo d = []     (both invariants, outside a transaction)
   restored d d' = obs_eq d d' /\ same degree counters /\ same ids handed out next (C13_restored_def).
   hitem = HQuery q (Db::exec / exec_mut: one query as its own transaction)
         | HTxn qs fail_at_end (transaction_mut running qs, then failing or not);
   run_item / run_items run a history; item_peak = the state just before the commit / rollback;
   item_failed = the query returned an error / the transaction was rolled back;
   bounded rv d its = the capacity of every item_peak along the history is <= 2^63.

   SCOPE (the two hypotheses that are not in the property text):
     (a) item_ok / query_ok: no insert list names a key twice (C09's quantifier).  Both invariants have a
         unique-keys component; and WITHOUT this quantifier "no observable effect" is FALSE for the model
         (hence, the model being faithful, presumably for the code): C13_duplicate_keys_refuted.
     (b) the capacity bound 2^63 (ids fit i64; slot 2^63 would collide with the free-list sentinel
         i64::MIN) — `bounded` / the `capacity ... <= two63z` premises.
   ====================================================================================== *)
From Agdb Require GraphSim.
From Agdb Require Import AliasProofs IndexDb3Proofs DbInvProofs QueryInvProofs QStepProofs InvSimProofs RollbackInvProofs
  PstepOpsProofs QueryPstepsProofs TraversalLiveProofs NoPanicProofs WfRepProofs HistoryAtomicProofs HistoryAtomicInv HistoryAtomicExamples.

Theorem C13_restored_def :
  forall d d', restored d d' <->
    obs_eq d d' /\
    (forall n, slot_kind (gr d) n = KNode ->
       edge_count_from (gr d) n = edge_count_from (gr d') n /\ edge_count_to (gr d) n = edge_count_to (gr d') n) /\
    (forall k, capacity (gr d) + Z.of_nat k <= two63z -> capacity (gr d') + Z.of_nat k <= two63z ->
       next_slots k (gr d) = next_slots k (gr d')).
Proof. intros d d'. reflexivity. Qed.
Print Assumptions C13_restored_def.

(* what Inv provides to the primitives *)
Theorem C13_primitives_from_Inv :
  forall d, Inv d ->
  (forall id, live d id = true -> idx_has_all d id) /\
  (live d (fst (insert_node_db d)) = false /\
   kvs_get (vals (snd (insert_node_db d))) (fst (insert_node_db d)) = [] /\
   imap_key (aliases d) (fst (insert_node_db d)) = None) /\
  (forall n alias d0, 0 < n -> live d n = true ->
     match alias with Some al => imap_value (aliases d) al = Some n | None => True end ->
     remove_node_db d n alias = (d0, None) ->
     reach rv_fixed d (remove_all_values d0 n)).
Proof.
  intros d Hd. split; [intros id Hl; now apply idx_has_all_of_Inv|]. split.
  - pose proof (insert_node_db_fresh d Hd) as Hf. split; [exact Hf|]. split; [apply (insert_node_db_Inv d Hd)|].
    now apply fresh_no_alias.
  - intros n alias d0 Hn Hl Hal E. exact (remove_node_full_reach rv_fixed eq_refl eq_refl d n alias d0 Hd Hn Hl Hal E).
Qed.
Print Assumptions C13_primitives_from_Inv.

Theorem C13_reach_def :
  forall d d1, reach rv_fixed d d1 <->
    capacity (gr d) <= capacity (gr d1) /\ (db_ok d -> capacity (gr d1) <= two63z -> psteps rv_fixed d d1).
Proof. intros d d1. reflexivity. Qed.
Print Assumptions C13_reach_def.

(* every query (all kinds), whatever its outcome, and every prefix of a transaction *)
Theorem C13_query_decomposes :
  (forall d q, query_ok q -> Inv d -> reach rv_fixed d (fst (exec_in_txn rv_fixed d q))) /\
  (forall qs d acc, Forall query_ok qs -> Inv d -> reach rv_fixed d (fst (fst (txn_run rv_fixed d qs acc)))).
Proof.
  split.
  - exact (exec_in_txn_reach rv_fixed eq_refl eq_refl eq_refl search_live_fixed).
  - exact (txn_run_reach rv_fixed eq_refl eq_refl eq_refl eq_refl search_live_fixed).
Qed.
Print Assumptions C13_query_decomposes.

(* the repaired code never panics, so a query / transaction always ends in a commit or a rollback *)
Theorem C13_no_panic :
  forall d q, snd (exec_in_txn rv_fixed d q) <> QPanic.
Proof. exact (exec_in_txn_no_panic rv_fixed eq_refl). Qed.
Print Assumptions C13_no_panic.

(* every rollback keeps the graph invariant and the alias bijection; Inv is invariant under `sim` *)
Theorem C13_rollback_keeps_wf :
  forall d d', rollback rv_fixed d = ROk d' -> uok d -> GraphSim.wf (gr d) -> alias_bij d ->
    GraphSim.wf (gr d') /\ alias_bij d'.
Proof. exact (rollback_wf_bij rv_fixed). Qed.
Print Assumptions C13_rollback_keeps_wf.

Theorem C13_Inv_of_sim :
  forall d d', Inv d -> UndoDb.sim d' d -> GraphSim.wf (gr d') -> alias_bij d' -> Inv d'.
Proof. exact Inv_of_sim. Qed.
Print Assumptions C13_Inv_of_sim.

(* the C13 well-formedness follows from the joint invariant (theories/WfRepProofs.v: the graph invariant
   wf of C08 implies the array well-formedness `rep` of C13 when the capacity fits i64), so Inv is the
   only assumption on the state below *)
Theorem C13_db_ok_from_Inv :
  forall d, Inv d -> capacity (gr d) <= two63z -> db_ok d.
Proof. exact Inv_db_ok. Qed.
Print Assumptions C13_db_ok_from_Inv.

(* ---- a failing query: ALL query kinds, from EVERY state satisfying Inv (outside a transaction) ---- *)
Theorem C13_exec_failure_restores :
  forall d q d' e,
    query_ok q -> Inv d -> undo d = [] -> capacity (gr (fst (exec_in_txn rv_fixed d q))) <= two63z ->
    exec rv_fixed d q = (d', QErr e) ->
    restored d d' /\ Inv d' /\ undo d' = [] /\ capacity (gr d') <= two63z.
Proof. exact exec_failure_restores_Inv. Qed.
Print Assumptions C13_exec_failure_restores.

(* ---- a transaction: committed, or failing at any point (a failing query, or a failure injected after
        the last query): the results are those of the queries run, the state satisfies HInv, and when it
        failed the state is restored ---- *)
Theorem C13_transaction_failure_restores :
  forall d qs fail_at_end,
    Forall query_ok qs -> Inv d -> undo d = [] -> capacity (gr (fst (fst (txn_run rv_fixed d qs [])))) <= two63z ->
    let r := transaction rv_fixed d qs fail_at_end in
    (Inv (fst r) /\ undo (fst r) = [] /\ capacity (gr (fst r)) <= two63z) /\
    snd r = snd (fst (txn_run rv_fixed d qs [])) /\
    (negb (snd (txn_run rv_fixed d qs []) && negb fail_at_end) = true -> restored d (fst r)).
Proof. exact transaction_atomic_Inv. Qed.
Print Assumptions C13_transaction_failure_restores.

(* ---- every history of queries and transactions from the empty database, failing or not: at every
        point both invariants hold, and every failed item was a no-op observationally ---- *)
Theorem C13_history_atomic :
  forall its pre it post,
    Forall item_ok its -> bounded rv_fixed db_new its -> its = pre ++ it :: post ->
    let a := run_items rv_fixed db_new pre in
    HInv a /\ HInv (run_item rv_fixed a it) /\
    (item_failed rv_fixed a it = true -> restored a (run_item rv_fixed a it)).
Proof. exact history_atomic_fixed. Qed.
Print Assumptions C13_history_atomic.

Theorem C13_history_invariant :
  forall its, Forall item_ok its -> bounded rv_fixed db_new its ->
    Inv (run_items rv_fixed db_new its) /\ db_ok (run_items rv_fixed db_new its) /\ undo (run_items rv_fixed db_new its) = [].
Proof. exact history_HInv_fixed. Qed.
Print Assumptions C13_history_invariant.

(* non-vacuity: seven items; a query failing part-way on an indexed value, a transaction failing at the
   end after removing an aliased node with its edge (cascade) and creating a node in the freed slot, a
   transaction whose third query fails, a committed removal *)
Example C13_history_nonvacuous :
  Forall item_ok ha_history /\ bounded rv_fixed db_new ha_history /\
  failed_flags db_new ha_history = [false; false; false; true; true; true; false].
Proof. exact ha_history_ok. Qed.
Print Assumptions C13_history_nonvacuous.

Example C13_history_states :
  let d3 := run_items rv_fixed db_new (firstn 3 ha_history) in
  let d6 := run_items rv_fixed db_new (firstn 6 ha_history) in
  let d7 := run_items rv_fixed db_new ha_history in
  elements (gr d3) = [1; 2; -3] /\ obs_eqb d3 d6 = true /\
  next_slots 3 (gr d3) = next_slots 3 (gr d6) /\
  search rv_fixed d6 {| s_algorithm := AIndex; s_origin := QId 0; s_destination := QId 0; s_limit := 0; s_offset := 0;
                        s_order_by := []; s_conditions := [Cond LAnd MNone (CKeyValue ha_k CEqual (DI64 1))] |} = SOk [1] /\
  imap_value (aliases d6) [x61] = Some 1 /\ imap_value (aliases d6) [x62] = None /\
  elements (gr d7) = [1] /\ undo d7 = [].
Proof. exact ha_history_states. Qed.
Print Assumptions C13_history_states.

(* ---- why (a) is needed: with a key named twice in one insert list, a rolled-back transaction is
        observable.  History: `insert nodes values [[k:1, k:2]]` (node 1 gets BOTH pairs), then the
        transaction [remove values k from node 1; fail].  Rollback re-appends the pairs newest first:
        node 1 ends with [k:2, k:1] — equal for obs_eq (multisets), but a key lookup reads the first
        pair: `search elements where k == 1` returns [1] before and [] after the failed transaction. ---- *)
Theorem C13_duplicate_keys_refuted :
  ~ query_ok (InsertNodes 1 (Multi [[(ha_k, DI64 1); (ha_k, DI64 2)]]) [] (Ids [])) /\
  snd (transaction rv_fixed dup_d0 dup_txn true) = [QOk 2 []] /\
  kvs_get (vals dup_d0) 1 = [(ha_k, DI64 1); (ha_k, DI64 2)] /\
  kvs_get (vals dup_d1) 1 = [(ha_k, DI64 2); (ha_k, DI64 1)] /\
  obs_eq dup_d0 dup_d1 /\
  search rv_fixed dup_d0 dup_search = SOk [1] /\
  search rv_fixed dup_d1 dup_search = SOk [] /\
  exec_select rv_fixed dup_d0 (SearchQ dup_search) <> exec_select rv_fixed dup_d1 (SearchQ dup_search).
Proof. exact dup_keys_witness. Qed.
Print Assumptions C13_duplicate_keys_refuted.
