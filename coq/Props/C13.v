(* C13 — A failed transaction or query leaves no observable effect.
   Pinned statements only; proofs live in theories/Undo*.v.

   Model: theories/DbModel.v (every DbImpl mutation with the undo commands it pushes,
   `undo_one` = one arm of DbImpl::rollback, `rollback_cmds`/`rollback`), theories/Queries.v
   (`exec` = one query as one transaction, `transaction` = transaction_mut with a closure that
   runs the queries and optionally fails at the end).
   `obs_eq d d'` (theories/UndoObs.v) is the equivalence the property allows: every slot has the
   same kind (free / node / edge with the same endpoints), same node count, every node's
   out-/in-lists are permutations, every element's key-value list is a permutation, the alias maps
   agree in both directions, every index key is present in both with permuted (value,id) lists. *)
From Agdb Require Import Bytes DbValue Graph DbModel Search Queries Revisions UndoBase UndoObs UndoWitness
  UndoKv UndoGraph UndoDb UndoStepsKv UndoStepsKv2 UndoMain UndoFinal UndoLift UndoLiftEx UndoRemoveNode UndoRemoveNode2.
From Coq Require Import Permutation.
Open Scope Z_scope.

(* ======================================================================================
   Positive theorems (for every revision with fix_rollback_replace and fix_alias_steal_undo on,
   in particular rv_fixed = /repo).

   Vocabulary (theories/UndoDb.v, UndoGraph.v, UndoMain.v):
   * `rep g a`   : the four slot arrays g are well formed (equal lengths, capacity <= 2^63, the free
                   chain is duplicate free and consists of zeroed free slots, every node's out-/in-chain
                   is duplicate free, consists exactly of the edges whose source/target it is and has
                   the recorded degree, every edge's endpoints are nodes) and represent the abstract
                   graph a (kinds, out-/in-lists, count, LIFO free list, capacity).
   * `sim d d'`  : both states are well formed (graph `rep`, alias map a bijection, unique keys per
                   element, unique index keys) and observationally equal: same kinds/endpoints, node
                   count, adjacency up to order, SAME allocation stream (free list then capacity,
                   capacity+1, ...), alias maps equal as functions, key-value lists permutations,
                   index lists permutations.   `db_ok d := sim d d`.
   * `pstep rv d d1` : d1 results from d by one mutation primitive of DbModel.v (insert_node_db,
                   insert_edge_db, remove_edge_db on an edge, removal of an isolated node = last step
                   of remove_node_db, insert_new_alias on an unused alias and alias-less element,
                   insert_alias, remove_alias, insert_key_value of a new key,
                   insert_or_replace_key_value, reserve_kv, remove_keys, remove_all_values,
                   insert_index, remove_index); removals of indexed pairs carry the side condition
                   that the index lists the pair (`idx_has`).   `psteps` = finite sequences.
   ====================================================================================== *)

(* C13_step_inverse — for each primitive: the commands cs it pushed, rolled back from the
   post-state (or from any state similar to it — the congruence needed for sequences), give a
   state similar to the pre-state.  The re-inserted node/edge gets its old slot because the free
   list is LIFO (part of `sim`: same allocation stream). *)
Theorem C13_step_inverse :
  forall rv, fix_rollback_replace rv = true -> fix_alias_steal_undo rv = true ->
  forall d d1, db_ok d -> pstep rv d d1 -> capacity (gr d1) <= two63z ->
    exists cs, undo d1 = cs ++ undo d /\
      (forall e, sim e d1 -> exists e', rollback_cmds rv e cs = ROk e' /\ sim e' d) /\
      (exists d', rollback_cmds rv d1 cs = ROk d' /\ obs_eq d d') /\
      db_ok d1.
Proof. exact step_inverse. Qed.
Print Assumptions C13_step_inverse.

(* the equivalence is a congruence for the undo commands of a primitive *)
Theorem C13_undo_congruence :
  forall rv, fix_rollback_replace rv = true -> fix_alias_steal_undo rv = true ->
  forall d d1 e1 e2 cs,
    db_ok d -> pstep rv d d1 -> capacity (gr d1) <= two63z -> undo d1 = cs ++ undo d ->
    sim e1 d1 -> sim e2 d1 ->
    exists e1' e2', rollback_cmds rv e1 cs = ROk e1' /\ rollback_cmds rv e2 cs = ROk e2' /\ sim e1' e2'.
Proof. exact undo_congruence. Qed.
Print Assumptions C13_undo_congruence.

(* C13_rollback_restores — every finite sequence of primitives executed from a well-formed state
   with an empty undo stack (= inside one transaction) is undone by `rollback`: it succeeds and the
   result is observationally equal to the start, with the same degree counters and handing out
   the same ids afterwards; and it is again well formed.  (capacity <= 2^63: ids fit i64.) *)
Theorem C13_rollback_restores :
  forall rv, fix_rollback_replace rv = true -> fix_alias_steal_undo rv = true ->
  forall d d1, db_ok d -> undo d = [] -> psteps rv d d1 -> capacity (gr d1) <= two63z ->
    exists d', rollback rv d1 = ROk d' /\
      obs_eq d d' /\
      (forall n, slot_kind (gr d) n = KNode ->
         edge_count_from (gr d) n = edge_count_from (gr d') n /\ edge_count_to (gr d) n = edge_count_to (gr d') n) /\
      (forall k, capacity (gr d) + Z.of_nat k <= two63z -> capacity (gr d') + Z.of_nat k <= two63z ->
         next_slots k (gr d) = next_slots k (gr d')) /\
      db_ok d'.
Proof. exact rollback_restores_obs. Qed.
Print Assumptions C13_rollback_restores.

(* remove_node_db (alias removal; for every edge of the node remove_edge_db + remove_all_values; then
   the node, which is isolated by then) is a sequence of these primitives, so both theorems above
   apply to it: same side condition (the indexed properties of the node's edges are listed in
   their indexes), the alias given is the node's alias. *)
Theorem C13_step_inverse_remove_node_db :
  forall rv, fix_rollback_replace rv = true -> fix_alias_steal_undo rv = true ->
  forall d n alias,
    db_ok d -> 0 < n -> is_node (gr d) n = true ->
    match alias with Some a => imap_value (aliases d) a = Some n | None => True end ->
    (forall x, In x (node_edges d n) -> idx_has_all d (fst (fst x))) ->
    exists d1, remove_node_db d n alias = (d1, None) /\ psteps rv d d1 /\ capacity (gr d1) = capacity (gr d).
Proof. exact remove_node_db_psteps. Qed.
Print Assumptions C13_step_inverse_remove_node_db.

(* non-vacuity: the empty database is well formed; a concrete 7-step history (2 nodes, an edge, an
   alias, a property, the edge removed, the property replaced) satisfies the hypotheses; a concrete
   graph with an edge satisfies the graph well-formedness premise *)
Example C13_db_ok_new : db_ok db_new.
Proof. exact db_ok_new. Qed.
Print Assumptions C13_db_ok_new.

Example C13_history_restored :
  psteps rv_fixed db_new ex_d7 /\
  node_count (gr ex_d7) = 2 /\ kvs_get (vals ex_d7) 1 = [(DString [x6b], DI64 2)] /\ length (undo ex_d7) = 7%nat /\
  exists d', rollback rv_fixed ex_d7 = ROk d' /\ obs_eq db_new d' /\ db_ok d'.
Proof. exact (conj ex_psteps ex_restored). Qed.
Print Assumptions C13_history_restored.

Example C13_graph_wf_example :
  exists a, rep (gr ex_d5) a /\ ak a 3 = KEdge 1 2 /\ aout a 1 = [3] /\ ain a 2 = [3] /\ afree a = [].
Proof. exact ex_rep. Qed.
Print Assumptions C13_graph_wf_example.

(* ---- lifting to Queries.exec / Queries.transaction: PARTIAL ----
   FULL statement (the property's): for every mutating query q and every list of queries qs, from
   every reachable database d:  exec rv_fixed d q = (d', QErr e) -> obs_eq d d',  and a transaction
   that fails (a failing query or a failure injected at the end, no panic) ends in d' with obs_eq d d'.
   PROVED below for `liftable` queries: InsertAliases, RemoveAliases, InsertIndex, RemoveIndex and all
   read-only queries (their primitives need no cross-component side condition), from every well-formed d.
   MISSING for InsertNodes, InsertEdges, InsertValues, Remove, RemoveValues: their decomposition into
   `pstep`s (C13_rollback_restores then applies) needs the side conditions of the primitives, which
   follow from database invariants not proved here: (1) every indexed pair of an element is listed in
   its index (`idx_has_all`, needed by remove_keys / remove_all_values / value replacement; this is
   property C11), (2) a slot handed out by the allocator has an empty key-value list and no alias
   (needed by insert_key_value / insert_new_alias on fresh elements; C09/C10), (3) remove_node_db
   removes all edges of the node before the node (the node is isolated at CInsertNode time). *)
Theorem C13_exec_failure_restores_partial :
  forall rv, fix_rollback_replace rv = true -> fix_alias_steal_undo rv = true ->
  forall d q d' e,
    liftable q = true -> db_ok d -> undo d = [] -> exec rv d q = (d', QErr e) ->
    obs_eq d d' /\ db_ok d' /\ undo d' = [].
Proof. exact exec_failure_restores. Qed.
Print Assumptions C13_exec_failure_restores_partial.

Theorem C13_transaction_failure_restores_partial :
  forall rv, fix_rollback_replace rv = true -> fix_alias_steal_undo rv = true ->
  forall d qs fail_at_end,
    Forall (fun q => liftable q = true) qs -> db_ok d -> undo d = [] ->
    let '(d1, results, all_ok) := txn_run rv d qs [] in
    existsb (fun r => match r with QPanic => true | _ => false end) results = false ->
    all_ok && negb fail_at_end = false ->
    exists d', transaction rv d qs fail_at_end = (d', results) /\ obs_eq d d' /\ db_ok d' /\ undo d' = [].
Proof. exact transaction_failure_restores. Qed.
Print Assumptions C13_transaction_failure_restores_partial.

(* non-vacuity: the alias-stealing transaction of witness (ii) is covered, from a well-formed state *)
Example C13_lift_example :
  let d := fst (exec rv_fixed db_new (InsertNodes 2 (Single []) [[x61]; [x62]] (Ids []))) in
  let qs := [InsertAliases (Ids [QId 2]) [[x61]]] in
  Forall (fun q => liftable q = true) qs /\ db_ok d /\ undo d = [] /\
  exists d', transaction rv_fixed d qs true = (d', [QOk 1 []]) /\ obs_eq d d'.
Proof. exact lift_example. Qed.
Print Assumptions C13_lift_example.

(* ---- the two defects of the pinned tree (all fix flags off), repaired by fix: commits ---- *)

(* (i) rollback stopped at the first ReplaceKeyValue command: db = node 1 {k:1};
   transaction [insert a node; set k:2 on node 1] that fails at the end keeps node 2. *)
Theorem C13_pinned_refuted_replace :
  let d := fst (exec rv_pinned db_new (InsertNodes 1 (Single [(DString [x6b], DI64 1)]) [] (Ids []))) in
  let d' := fst (transaction rv_pinned d
                   [InsertNodes 1 (Single []) [] (Ids []);
                    InsertValues (Ids [QId 1]) (Single [(DString [x6b], DI64 2)])] true) in
  ~ obs_eq d d' /\
  slot_kind (gr d) 2 = KFree /\ slot_kind (gr d') 2 = KNode /\
  node_count (gr d) = 1 /\ node_count (gr d') = 2.
Proof. exact pinned_refuted_replace. Qed.
Print Assumptions C13_pinned_refuted_replace.

(* (ii) stealing an alias recorded no inverse for the previous holder: nodes 1 "a", 2 "b";
   transaction [alias "a" -> node 2] that fails leaves node 1 without its alias. *)
Theorem C13_pinned_refuted_alias_steal :
  let d := fst (exec rv_pinned db_new (InsertNodes 2 (Single []) [[x61]; [x62]] (Ids []))) in
  let d' := fst (transaction rv_pinned d [InsertAliases (Ids [QId 2]) [[x61]]] true) in
  ~ obs_eq d d' /\
  imap_value (aliases d) [x61] = Some 1 /\ imap_value (aliases d') [x61] = None /\
  imap_key (aliases d) 1 = Some [x61] /\ imap_key (aliases d') 1 = None.
Proof. exact pinned_refuted_alias_steal. Qed.
Print Assumptions C13_pinned_refuted_alias_steal.

(* (iii) third defect, found while proving this property and repaired by fix: 883e1ef
   (flag fix_nodes_ids_alias; every other fix already on): `insert nodes ids [2] aliases ["a"]`
   called insert_new_alias on the existing node 2, dropping its alias "b" and stealing "a" from
   node 1 with only `RemoveAlias "a"` recorded: after the failed transaction both nodes have no alias. *)
Theorem C13_nodes_ids_alias_refuted :
  let rv := {| fix_rollback_replace := true; fix_alias_steal_undo := true; fix_alias_nodes_only := true;
               fix_strict_order := true; fix_slice_clamp := true; fix_edge_origin := true;
               fix_visited_chain := true; fix_nodes_ids_alias := false; fix_empty_alias := false |} in
  let d := fst (exec rv db_new (InsertNodes 2 (Single []) [[x61]; [x62]] (Ids []))) in
  let d' := fst (transaction rv d [InsertNodes 0 (Single []) [[x61]] (Ids [QId 2])] true) in
  ~ obs_eq d d' /\
  imap_key (aliases d) 1 = Some [x61] /\ imap_key (aliases d) 2 = Some [x62] /\
  imap_key (aliases d') 1 = None /\ imap_key (aliases d') 2 = None.
Proof. exact nodes_ids_alias_refuted. Qed.
Print Assumptions C13_nodes_ids_alias_refuted.

Example C13_fixed_restores_nodes_ids_alias :
  let d := fst (exec rv_fixed db_new (InsertNodes 2 (Single []) [[x61]; [x62]] (Ids []))) in
  let d' := fst (transaction rv_fixed d [InsertNodes 0 (Single []) [[x61]] (Ids [QId 2])] true) in
  obs_eq d d' /\ undo d' = [].
Proof. exact fixed_restores_nodes_ids_alias. Qed.
Print Assumptions C13_fixed_restores_nodes_ids_alias.

(* the same transactions on the repaired revision restore the state, including the ids
   that are handed out next *)
Example C13_fixed_restores_replace :
  let d := fst (exec rv_fixed db_new (InsertNodes 1 (Single [(DString [x6b], DI64 1)]) [] (Ids []))) in
  let d' := fst (transaction rv_fixed d
                   [InsertNodes 1 (Single []) [] (Ids []);
                    InsertValues (Ids [QId 1]) (Single [(DString [x6b], DI64 2)])] true) in
  obs_eq d d' /\ next_slots 4 (gr d) = next_slots 4 (gr d') /\ undo d' = [].
Proof. exact fixed_restores_replace. Qed.
Print Assumptions C13_fixed_restores_replace.

Example C13_fixed_restores_alias_steal :
  let d := fst (exec rv_fixed db_new (InsertNodes 2 (Single []) [[x61]; [x62]] (Ids []))) in
  let d' := fst (transaction rv_fixed d [InsertAliases (Ids [QId 2]) [[x61]]] true) in
  obs_eq d d' /\ next_slots 4 (gr d) = next_slots 4 (gr d') /\ undo d' = [].
Proof. exact fixed_restores_alias_steal. Qed.
Print Assumptions C13_fixed_restores_alias_steal.

(* a single query failing part-way (second id does not exist) on the repaired revision *)
Example C13_fixed_restores_failing_query :
  let d := fst (exec rv_fixed db_new (InsertNodes 1 (Single [(DString [x6b], DI64 1)]) [] (Ids []))) in
  let '(d', r) := exec rv_fixed d (InsertValues (Ids [QId 1; QId 9]) (Single [(DString [x6b], DI64 2)])) in
  r = QErr ENotFound /\ obs_eq d d' /\ kvs_get (vals d') 1 = [(DString [x6b], DI64 1)].
Proof. exact fixed_restores_failing_query. Qed.
Print Assumptions C13_fixed_restores_failing_query.
