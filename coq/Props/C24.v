(* C24 — The server enforces authentication and per-database permissions.
   Pinned statements only; proofs live in theories/AuthProofs*.v.  The model (theories/Auth.v):
   `authorize s now tok req` = the guards of routes/**, user_id.rs, server_db.rs in code order,
   `apply` = the action, `step` = authorize then apply, `run` = a request sequence.
   Vocabulary from the proof files (definitions, no axioms):
     db_view s o d        content and audit log of database (o, d), None if it does not exist
     weak s now tok o d   the caller is unauthenticated, or is neither the server admin nor the owner
                          name o and holds no role or only Read on (o, d)
     all_weak s tr o d    every request of the sequence tr is made by a `weak` caller (in the state
                          reached at that point)
     nongrant / all_nongrant   same with "is not a db admin of (o, d)" instead of "none or Read"
     tok_wf s             token ids are unique and older than the next fresh id (true initially, kept by step)
     tok_inv P s t        every session record with id t satisfies P, and t is not a future id
     killed s now tok req r   the sessions the documentation says `req` revokes
     permitted s u o d op  the permission the documentation's table requires for op, on the state
     matrix_cell t h      is_allow (authorize scenario (token of the caller holding h) (endpoint t)) *)
From Agdb Require Import Bytes Auth AuthProofs AuthProofsTokens AuthProofsPerm AuthProofsRoles
  AuthProofsBatch AuthProofsMatrix AuthProofsExamples.
Open Scope N_scope.

(* ---- 1. a rejected request has no effect ---- *)

(* Any request the server answers with an error (a denial by `authorize` — 401/403/404/46x — or a
   failing action) leaves the whole server state, hence every database's content, audit log and
   role table, exactly as it was. *)
Theorem C24_no_effect_without_permission :
  forall (s : state) (now : N) (tok : option N) (req : request),
    resp_ok (fst (step s now tok req)) = false -> snd (step s now tok req) = s.
Proof. exact step_err_unchanged. Qed.
Print Assumptions C24_no_effect_without_permission.

(* Without a valid, unexpired, not-logged-out token everything except login is answered 401. *)
Theorem C24_unauthenticated_rejected :
  forall (s : state) (now : N) (tok : option N) (req : request),
    user_of_token s now tok = None -> is_login req = false -> step s now tok req = (RespErr 401, s).
Proof. exact unauthenticated_step. Qed.
Print Assumptions C24_unauthenticated_rejected.

(* ---- 2. read-role users (and users without role, and unauthenticated callers) never change a database ---- *)

(* For EVERY request sequence all of whose callers lack write permission on (o, d), the content and
   the audit log of (o, d) — and whether it exists — are the same before and after. *)
Theorem C24_read_role_never_mutates :
  forall (tr : list event) (s : state) (o d : N),
    all_weak s tr o d -> db_view (run s tr) o d = db_view s o d.
Proof. exact weak_run_view. Qed.
Print Assumptions C24_read_role_never_mutates.

(* ---- 3. revocation ---- *)

(* token-table invariant of reachable states *)
Theorem C24_token_invariant :
  (forall admin ttl users, tok_wf (init_state admin ttl users)) /\
  (forall tr s, tok_wf s -> tok_wf (run s tr)).
Proof. exact (conj tok_wf_init tok_wf_run). Qed.
Print Assumptions C24_token_invariant.

(* every successful logout (current / all / others / by session id), admin logout, admin logout-all
   and user deletion removes every session the documentation says it revokes ... *)
Theorem C24_revocation_takes_effect :
  forall (s : state) (now : N) (tok : option N) (req : request) (r : tokrec),
    tok_wf s -> resp_ok (fst (step s now tok req)) = true ->
    In r (s_tokens s) -> killed s now tok req r = true ->
    tok_inv (fun _ => False) (snd (step s now tok req)) (t_id r).
Proof. exact revocation_kills. Qed.
Print Assumptions C24_revocation_takes_effect.

(* ... and a removed session is rejected by every later request of every sequence *)
Theorem C24_revoked_forever :
  forall (s : state) (t : N) (tr : list event) (now : N) (req : request),
    tok_inv (fun _ => False) s t -> is_login req = false ->
    step (run s tr) now (Some t) req = (RespErr 401, run s tr).
Proof. exact revoked_forever. Qed.
Print Assumptions C24_revoked_forever.

(* expiry: a live token is bounded by its expiry time, and after that time it is rejected, whatever
   happened in between (tokens are never extended) *)
Theorem C24_expiry :
  (forall s t r, tok_wf s -> find_token s t = Some r -> tok_inv (fun x => t_exp x <= t_exp r) s t) /\
  (forall s t e tr now req,
      tok_inv (fun r => t_exp r <= e) s t -> e < now -> is_login req = false ->
      step (run s tr) now (Some t) req = (RespErr 401, run s tr)).
Proof. exact (conj live_token_bound expired_forever). Qed.
Print Assumptions C24_expiry.

(* role removal: after a successful `db user remove` the user holds no role; a user without role
   (not the owner name) is refused every operation on that database; and this stays so over every
   sequence of requests by callers who are not entitled to grant roles on it *)
Theorem C24_role_removal :
  (forall s now tok o d t,
      resp_ok (fst (step s now tok (ReqDb o d (OUserRemove t)))) = true ->
      role_of (snd (step s now tok (ReqDb o d (OUserRemove t)))) t o d = None) /\
  (forall tr s v o d op,
      role_of s v o d = None -> v <> o -> all_nongrant s tr o d ->
      role_of (run s tr) v o d = None /\ authorize_db (run s tr) v o d op <> Allow).
Proof.
  exact (conj uremove_clears_role
              (fun tr s v o d op H1 H2 H3 =>
                 conj (removed_role_stays tr s v o d H1 H3) (removed_role_denied tr s v o d op H1 H2 H3))).
Qed.
Print Assumptions C24_role_removal.

(* ---- 4. the documented permission matrix ---- *)

(* soundness on ALL states: whenever the guards of a /db/{owner}/{db}/... endpoint let a caller
   through, the caller holds the permission the documentation's table requires (owner = the owner
   name; admin / write / read = a role of at least that level on the database) — with the single
   exception of a user removing themselves *)
Theorem C24_guards_imply_documented_permission :
  forall (s : state) (u o d : N) (op : dbop),
    authorize_db s u o d op = Allow -> permitted s u o d op \/ self_remove u op.
Proof. exact authorize_db_sound. Qed.
Print Assumptions C24_guards_imply_documented_permission.

(* admin endpoints: only a live token of the configured server admin *)
Theorem C24_admin_endpoints_admin_only :
  forall (s : state) (now : N) (tok : option N) (req : request),
    match req with
    | ReqAdminDbList | ReqAdminDb _ _ _ | ReqAdminUserAdd _ _ | ReqAdminUserChangePassword _ _
    | ReqAdminUserDelete _ | ReqAdminUserLogout _ _ | ReqAdminUserLogoutAll | ReqAdminUserList | ReqAdminStatus => True
    | _ => False
    end ->
    authorize s now tok req = Allow -> user_of_token s now tok = Some (s_admin s).
Proof. exact admin_only. Qed.
Print Assumptions C24_admin_endpoints_admin_only.

(* the finite table endpoint x {owner, db admin, write, read, no role}: `authorize` allows — and the
   operation then succeeds — exactly where the documentation's table says (scenario: mx_state, one
   representative request per endpoint with generic arguments) *)
Theorem C24_documented_matrix :
  (forall t h, matrix_cell t h = doc_allows (doc_perm t) h) /\
  (forall t h, resp_ok (fst (step mx_state 0 (Some (caller_of h)) (ReqDb 1 (fst (rep t)) (snd (rep t)))))
               = doc_allows (doc_perm t) h) /\
  (forall h, holds_of mx_state (caller_of h) 1 10 = h).
Proof. exact (conj matrix_table (conj matrix_performed scenario_holds)). Qed.
Print Assumptions C24_documented_matrix.

(* admin endpoints on the scenario: allowed to the server admin, refused to the owner, db admin,
   writer, reader, role-less user, a missing token and an expired admin token *)
Theorem C24_admin_matrix :
  forallb (fun req =>
             is_allow (authorize mx_state 0 (Some 0) req)
             && forallb (fun h => negb (is_allow (authorize mx_state 0 (Some (caller_of h)) req)))
                        [HOwner; HAdmin; HWrite; HRead; HNone]
             && negb (is_allow (authorize mx_state 0 None req))
             && negb (is_allow (authorize mx_state 2000 (Some 0) req)))
          admin_reqs = true.
Proof. exact admin_matrix. Qed.
Print Assumptions C24_admin_matrix.

(* REFUTED cell (code and documentation differ; confirmed on the real server, recorded as finding
   `user_remove_self_without_admin`): the documentation requires db admin for user/remove, the
   handler lets a read-role user remove THEMSELVES, which changes the role table. *)
Theorem C24_matrix_self_remove_refuted :
  exists s now tok o d u,
    user_of_token s now tok = Some u /\ holds_of s u o d = HRead /\
    doc_allows (doc_perm (tag_of (OUserRemove u))) (holds_of s u o d) = false /\
    authorize s now tok (ReqDb o d (OUserRemove u)) = Allow /\
    role_of s u o d = Some RoRead /\
    role_of (snd (step s now tok (ReqDb o d (OUserRemove u)))) u o d = None.
Proof. exact matrix_self_remove_refuted. Qed.
Print Assumptions C24_matrix_self_remove_refuted.

(* the read/write classification of the 18 query kinds used by the exec / exec_mut guards
   (utilities.rs required_role) is the complement of what the read-only transaction accepts
   (user_db.rs t_exec) and equals the audited list (t_exec_mut) *)
Theorem C24_query_classification :
  forall k : qkind, kind_is_write k = negb (kind_read_allowed k) /\ kind_audited k = kind_is_write k.
Proof. exact kind_tables_agree. Qed.
Print Assumptions C24_query_classification.

(* ---- non-vacuity ---- *)

(* a reader, a role-less user and a missing token issue requests (reads, a copy and a self-removal
   succeed, the rest is refused): every caller is `weak`, the database is unchanged, the copy exists *)
Example C24_nonvacuous_weak_sequence :
  all_weak mx_state weak_trace 1 10 /\
  db_view (run mx_state weak_trace) 1 10 = Some (mkContent [Some 7] false, []) /\
  role_of (run mx_state weak_trace) 4 4 12 = Some RoAdmin.
Proof. exact weak_trace_ok. Qed.
Print Assumptions C24_nonvacuous_weak_sequence.

(* login, use until the expiry second, rejection after it, logout, rejection, fresh login *)
Example C24_nonvacuous_revocation :
  let s0 := init_state 0 60 [(0, 1); (1, 101)] in
  let s1 := snd (step s0 5 None (ReqLogin 1 101)) in
  let s2 := snd (step s1 7 (Some 0) (ReqLogout LoCurrent)) in
  tok_wf s1 /\
  fst (step s1 6 (Some 0) ReqStatus) = RespOk 200 (BStatus 1 false 1) /\
  fst (step s1 65 (Some 0) ReqStatus) = RespOk 200 (BStatus 1 false 1) /\
  fst (step s1 66 (Some 0) ReqStatus) = RespErr 401 /\
  fst (step s1 7 (Some 0) (ReqLogout LoCurrent)) = RespOk 201 BNone /\
  fst (step s2 8 (Some 0) ReqStatus) = RespErr 401 /\
  fst (step s2 8 None (ReqLogin 1 101)) = RespOk 200 (BToken 1).
Proof. exact revocation_example. Qed.
Print Assumptions C24_nonvacuous_revocation.
