(* C24 — The server enforces authentication and per-database permissions.
   Pinned statements only; proofs live in theories/AuthProofs.v. *)
From Agdb Require Import Bytes Auth AuthProofs.
Open Scope N_scope.

(* Any request the server answers with an error (a denial by `authorize` — 401/403/404/46x — or a
   failing action) leaves the whole server state, hence every database's content, audit log and
   role table, exactly as it was. *)
Theorem C24_no_effect_without_permission :
  forall (s : state) (now : N) (tok : option N) (req : request),
    resp_ok (fst (step s now tok req)) = false -> snd (step s now tok req) = s.
Proof. exact step_err_unchanged. Qed.
Print Assumptions C24_no_effect_without_permission.
