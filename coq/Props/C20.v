(* C20 — Binary serialization round-trips and reports its exact size.
   Pinned statements only; proofs live in theories/CodecProofs.v. *)
From Agdb Require Import Bytes Utf8 Codec CodecProofs.
Open Scope N_scope.

(* Every well-typed value of every type description (built-ins, and any nesting of
   derived structs / tuples / enums / vectors), followed by arbitrary further
   bytes, decodes to itself and consumes exactly `size v` bytes — for both build
   profiles and every revision of the decoder's guards. *)
Theorem C20_roundtrip :
  forall (p : profile) (g : guards) (t : ty) (v : val) (rest : bytes),
    ty_ok t = true -> has_type t v = true ->
    dec p g t (enc v ++ rest) = Ok (v, size v).
Proof. exact roundtrip. Qed.
Print Assumptions C20_roundtrip.

(* serialized_size (computed as the code does, by summing parts) is the number
   of bytes produced — for every value, typed or not. *)
Theorem C20_size : forall v : val, size v = lenN (enc v).
Proof. exact size_enc. Qed.
Print Assumptions C20_size.

(* the hypotheses are satisfiable by a nested, non-trivial value *)
Example C20_nonvacuous :
  let t := TStruct [TU64; TVec (TEnum [[]; [TStr; TI64]]); TTime] in
  let v := VStruct [VU64 7; VVec [VEnum 1 [VStr [x61; x62]; VI64 (-5)]; VEnum 0 []]; VTime 1 500000000 false] in
  ty_ok t = true /\ has_type t v = true /\
  dec Debug guards_fixed t (enc v ++ [xff]) = Ok (v, size v).
Proof. exact rt_example. Qed.
Print Assumptions C20_nonvacuous.
