(* C01 — Log recovery restores the last committed storage content at every crash point.
   Pinned statements only; proofs live in theories/FileWalProofs.v. *)
From Agdb Require Import Bytes FileWal FileWalProofs.
Open Scope nat_scope.

(* For every committed file content d0 (empty log), every list of storage-data calls
   (write / resize / flush) whose writes start inside the file or at its end and whose sizes
   fit 2^60 bytes (wp), and every crash cut (k, j) — the first k file-system calls (three
   appends per undo record, then the data call; or the log truncation of a flush) completed
   and the (k+1)-th torn after its first j bytes — recovery (drop the torn log tail, undo
   the records newest first, clear the log) yields exactly the content the file had when the
   last flush before the cut completed (`expect`), with an empty log.  Dropping the storage
   with an unfinished transaction runs the same recovery. *)
Theorem C01_recover_restores :
  forall (d0 : bytes) (ops : list op) (k j : nat),
    wp d0 ops ->
    recover walrev_fixed
      (crash {| data := d0; wal := [] |} (trace walrev_fixed {| data := d0; wal := [] |} ops) k j)
    = {| data := expect d0 {| data := d0; wal := [] |} ops k; wal := [] |}.
Proof. exact recover_from_committed. Qed.
Print Assumptions C01_recover_restores.

(* inside one transaction (no flush) every cut recovers the content before it *)
Theorem C01_transaction_rolled_back :
  forall (ops : list op), no_flush ops = true ->
  forall d0 st k, expect d0 st ops k = d0.
Proof. exact expect_no_flush. Qed.
Print Assumptions C01_transaction_rolled_back.

(* the same holds from any state whose log is a valid undo log of its data (`Good`),
   e.g. in the middle of nested transactions *)
Theorem C01_recover_restores_general :
  forall ops st d0 k j, Good d0 st -> wp (data st) ops ->
  recover walrev_fixed (crash st (trace walrev_fixed st ops) k j)
  = {| data := expect d0 st ops k; wal := [] |}.
Proof. exact recover_restores. Qed.
Print Assumptions C01_recover_restores_general.

(* a torn record at the end of the log is ignored, complete records are all read *)
Theorem C01_repair_torn_tail :
  forall rs p v m, Forall ok_rec rs -> ok_rec (p, v) -> m < length (enc_rec p v) ->
  records (encs rs ++ firstn m (enc_rec p v)) = rs.
Proof.
  intros rs p v m H1 H2 H3. apply records_encs; [exact H1|now apply prefix_incomplete].
Qed.
Print Assumptions C01_repair_torn_tail.

(* the three defects of the code before the fix: commit (each switched back on alone) *)
Theorem C01_pinned_refuted_replay_order :
  let d0 := [x01; x02; x03; x04] in
  let ops := [OWrite 1 [x0a]; OWrite 1 [x0b]] in
  let rv := {| w_newest_first := false; w_log_growth := true; w_skip_empty := true |} in
  data (recover rv (crash (st0 d0) (trace rv (st0 d0) ops) 8 0)) = [x01; x0a; x03; x04].
Proof. exact pinned_replay_order. Qed.
Print Assumptions C01_pinned_refuted_replay_order.

Theorem C01_pinned_refuted_growth :
  let d0 := [x01; x02] in
  let rv := {| w_newest_first := true; w_log_growth := false; w_skip_empty := true |} in
  data (recover rv (crash (st0 d0) (trace rv (st0 d0) [OResize 4]) 4 0)) = [x01; x02; x00; x00].
Proof. exact pinned_growth. Qed.
Print Assumptions C01_pinned_refuted_growth.

Theorem C01_pinned_refuted_empty_write :
  let d0 := [x01; x02; x03; x04] in
  let rv := {| w_newest_first := true; w_log_growth := true; w_skip_empty := false |} in
  data (recover rv (crash (st0 d0) (trace rv (st0 d0) [OWrite 2 []]) 4 0)) = [x01; x02].
Proof. exact pinned_empty_write. Qed.
Print Assumptions C01_pinned_refuted_empty_write.

(* non-vacuity: in-place, straddling and appending writes, shrink, growth, empty write *)
Example C01_nonvacuous :
  let d0 := [x01; x02; x03; x04; x05; x06] in
  let ops := [OWrite 1 [x0a; x0b]; OWrite 5 [x0c; x0d; x0e]; OResize 3; OWrite 3 [x0f]; OResize 9; OWrite 2 []] in
  wp d0 ops /\ no_flush ops = true /\
  forall k j, k <= 30 -> j <= 3 ->
    recover walrev_fixed (crash (st0 d0) (trace walrev_fixed (st0 d0) ops) k j) = st0 d0.
Proof. exact wp_example. Qed.
Print Assumptions C01_nonvacuous.
