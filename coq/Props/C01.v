(* C01 — Log recovery restores the last committed storage content at every crash point.
   Pinned statements only; proofs live in theories/FileWalProofs.v, FileWalGuardProofs.v and FileWalRestartProofs.v. *)
From Agdb Require Import Bytes FileWal FileWalProofs FileWalGuardProofs FileWalRestartProofs.
Open Scope nat_scope.

(* For every committed file content d0 (empty log), every list of storage-data calls
   (write / resize / flush) whose writes start inside the file or at its end and whose sizes
   fit 2^60 bytes (wp), and every crash cut (k, j) — the first k file-system calls (three
   appends per undo record, then the data call; or the log truncation of a flush) completed
   and the (k+1)-th torn after its first j bytes — recovery (drop the torn log tail, undo
   the records newest first, clear the log) yields exactly the content the file had when the
   last flush before the cut completed (`expect`), with an empty log.  Dropping the storage
   with an unfinished transaction runs the same recovery. *)
Theorem C01_recover_restores :
  forall (d0 : bytes) (ops : list op) (k j : nat),
    wp d0 ops ->
    recover walrev_fixed
      (crash {| data := d0; wal := [] |} (trace walrev_fixed {| data := d0; wal := [] |} ops) k j)
    = {| data := expect d0 {| data := d0; wal := [] |} ops k; wal := [] |}.
Proof. exact recover_from_committed. Qed.
Print Assumptions C01_recover_restores.

(* inside one transaction (no flush) every cut recovers the content before it *)
Theorem C01_transaction_rolled_back :
  forall (ops : list op), no_flush ops = true ->
  forall d0 st k, expect d0 st ops k = d0.
Proof. exact expect_no_flush. Qed.
Print Assumptions C01_transaction_rolled_back.

(* the same holds from any state whose log is a valid undo log of its data (`Good`),
   e.g. in the middle of nested transactions *)
Theorem C01_recover_restores_general :
  forall ops st d0 k j, Good d0 st -> wp (data st) ops ->
  recover walrev_fixed (crash st (trace walrev_fixed st ops) k j)
  = {| data := expect d0 st ops k; wal := [] |}.
Proof. exact recover_restores. Qed.
Print Assumptions C01_recover_restores_general.

(* a torn record at the end of the log is ignored, complete records are all read *)
Theorem C01_repair_torn_tail :
  forall rs p v m, Forall ok_rec rs -> ok_rec (p, v) -> m < length (enc_rec p v) ->
  records (encs rs ++ firstn m (enc_rec p v)) = rs.
Proof.
  intros rs p v m H1 H2 H3. apply records_encs; [exact H1|now apply prefix_incomplete].
Qed.
Print Assumptions C01_repair_torn_tail.

(* ---- recovery with the position guard of apply_wal_record (fix: reject a log record positioned
   beyond the end of the file; `recover_g`, None = FileStorage::new returns the error) ----

   Under exactly the hypotheses of C01_recover_restores — every committed content, every well-positioned
   operation list, every crash cut incl. torn calls on either file — the guard never fires: the guarded
   recovery succeeds and returns what the unguarded one returns, i.e. the content at the last completed
   flush with an empty log.  (The guard is evaluated per record at replay time against the data as
   already modified by the newer records; the invariant Good' carries "each logged position is <= the
   length of the data at the moment that record is undone".) *)
Theorem C01_guarded_recovery_agrees :
  forall (d0 : bytes) (ops : list op) (k j : nat),
    wp d0 ops ->
    let c := crash {| data := d0; wal := [] |} (trace walrev_fixed {| data := d0; wal := [] |} ops) k j in
    recover_g walrev_fixed c = Some (recover walrev_fixed c) /\
    recover_g walrev_fixed c = Some {| data := expect d0 {| data := d0; wal := [] |} ops k; wal := [] |}.
Proof. exact recover_g_from_committed. Qed.
Print Assumptions C01_guarded_recovery_agrees.

(* the same from any state whose log is a valid undo log of its data with every position inside the
   data it is applied to (Good'; it implies Good) *)
Theorem C01_guarded_recovery_agrees_general :
  forall ops st d0 k j, Good' d0 st -> wp (data st) ops ->
  recover_g walrev_fixed (crash st (trace walrev_fixed st ops) k j)
  = Some (recover walrev_fixed (crash st (trace walrev_fixed st ops) k j)).
Proof. exact recover_g_restores. Qed.
Print Assumptions C01_guarded_recovery_agrees_general.

Theorem C01_guarded_invariant_implies_plain :
  forall d0 st, Good' d0 st -> Good d0 st.
Proof. exact good'_good. Qed.
Print Assumptions C01_guarded_invariant_implies_plain.

(* on ANY pair of files and any revision: when the guarded recovery succeeds it is the unguarded one *)
Theorem C01_guarded_recovery_sound :
  forall rv st st', recover_g rv st = Some st' -> st' = recover rv st.
Proof. exact recover_g_some. Qed.
Print Assumptions C01_guarded_recovery_sound.

(* the guard does fire on a log the storage did not write: one record positioned beyond the end of the
   file is an error (16 bytes of garbage: p = 2^40, v = [] is the witness of the C07 findings
   alloc-FileStorage.read/FileStorageMemoryMapped.new and hang-Storage.read_records) *)
Theorem C01_guard_fires :
  forall (d : bytes) (p : nat) (v : bytes), ok_rec (p, v) -> length d < p ->
  recover_g walrev_fixed {| data := d; wal := enc_rec p v |} = None.
Proof. exact guard_fires. Qed.
Print Assumptions C01_guard_fires.

Example C01_guard_fires_garbage_log :
  let d := [x01; x02; x03] in
  recover_g walrev_fixed {| data := d; wal := le64 1000 ++ le64 0 |} = None.
Proof. exact guard_fires_far. Qed.
Print Assumptions C01_guard_fires_garbage_log.

(* "the end" is the current end at replay time: the newer record (applied first) truncates to 2, the
   older one then lies beyond the end; in the other order, and alone, both are accepted *)
Example C01_guard_current_end :
  let d := [x01; x02; x03] in
  recover_g walrev_fixed {| data := d; wal := enc_rec 3 [x0a] ++ enc_rec 2 [] |} = None /\
  recover_g walrev_fixed {| data := d; wal := enc_rec 3 [x0a] |} = Some {| data := [x01; x02; x03; x0a]; wal := [] |} /\
  recover_g walrev_fixed {| data := d; wal := enc_rec 2 [] ++ enc_rec 3 [x0a] |} = Some {| data := [x01; x02]; wal := [] |}.
Proof. exact guard_fires_current_end. Qed.
Print Assumptions C01_guard_current_end.

(* ---- recovery is itself crash safe (the repaired code: guard + each record removed from the log as soon
   as it is undone; FileWal.recovery_calls true is its sequence of file-system calls: cut a torn tail,
   per record newest first [guard; undo; set_len of the log to the record's start], clear) ----

   Take any crash cut (k, j) of normal operation as in C01_recover_restores, then ANY number of recoveries
   each interrupted at ANY of its calls (cuts = list of (k', j'): k' calls of that recovery completed, the
   next one — an undo write — torn after j' bytes).  The next recovery then runs to its end without the guard
   firing (snd = true), its calls leave exactly the content of the last completed flush with an empty log,
   and that is what the recovery function recover_g returns. *)
Theorem C01_recovery_restartable :
  forall (d0 : bytes) (ops : list op) (k j : nat) (cuts : list (nat * nat)),
    wp d0 ops ->
    let c := crash {| data := d0; wal := [] |} (trace walrev_fixed {| data := d0; wal := [] |} ops) k j in
    let c' := fold_left interrupted cuts c in
    let want := {| data := expect d0 {| data := d0; wal := [] |} ops k; wal := [] |} in
    snd (recovery_calls true c') = true /\
    run_calls c' (fst (recovery_calls true c')) = want /\
    recover_g walrev_fixed c' = Some want.
Proof. exact recovery_after_interruptions. Qed.
Print Assumptions C01_recovery_restartable.

(* the invariant behind it: the states a crash leaves (Recoverable: a valid guarded undo log + a torn
   tail) are closed under every cut of recovery, and recovery ends in the committed content *)
Theorem C01_recovery_cuts_recoverable :
  forall d0 st, Recoverable d0 st ->
  exists cs, recovery_calls true st = (cs, true) /\
             (forall k j, Recoverable d0 (crash st cs k j)) /\
             run_calls st cs = {| data := d0; wal := [] |}.
Proof. exact recovery_restartable. Qed.
Print Assumptions C01_recovery_cuts_recoverable.

Theorem C01_crash_cuts_recoverable :
  forall ops st d0 k j, Good' d0 st -> wp (data st) ops ->
  Recoverable (expect d0 st ops k) (crash st (trace walrev_fixed st ops) k j).
Proof. exact crash_recoverable. Qed.
Print Assumptions C01_crash_cuts_recoverable.

(* the call sequence and the recovery FUNCTIONS agree on ALL files (also on logs the storage did not
   write): not interrupted, the calls of the repaired code end in the result of recover_g — which is the
   result of recover — or the guard fires and recover_g is None; the calls of the code of /repo (g = false)
   end in the result of recover *)
Theorem C01_recovery_calls_agree :
  forall st,
    match recovery_calls true st with
    | (cs, true) => recover_g walrev_fixed st = Some (run_calls st cs) /\ run_calls st cs = recover walrev_fixed st
    | (_, false) => recover_g walrev_fixed st = None
    end /\
    snd (recovery_calls false st) = true /\
    run_calls st (fst (recovery_calls false st)) = recover walrev_fixed st.
Proof.
  intros st. split; [|exact (recovery_calls_plain_end st)].
  pose proof (recovery_calls_spec st) as S. pose proof (recovery_calls_end st) as E.
  destruct (recovery_calls true st) as [cs [|]]; [split; [exact S|now apply E]|exact S].
Qed.
Print Assumptions C01_recovery_calls_agree.

(* WHY the guard alone (first version of fixes/C07-wal-position.diff) was rejected: the code of /repo replays
   the whole log and clears it only at the end (recovery_calls false).  A recovery interrupted after the
   undo calls and before the clear leaves the undone file with the FULL log; on the next open the newest
   record lies beyond the end of the (already truncated) file: the guard fires and the database can never
   be opened again, where the unguarded recovery restores it.  2 committed bytes; resize 5; resize 4; crash.
   With the records removed as they are undone (recovery_calls true) every cut recovers. *)
Theorem C01_simple_guard_refuted :
  let d0 := [x01; x02] in
  let c := run_calls (st0 d0) (trace walrev_fixed (st0 d0) [OResize 5; OResize 4]) in
  let cs := fst (recovery_calls false c) in
  recover_g walrev_fixed (crash c cs 2 0) = None /\
  recover walrev_fixed (crash c cs 2 0) = st0 d0 /\
  forall k, k <= 6 -> recover_g walrev_fixed (crash c (fst (recovery_calls true c)) k 0) = Some (st0 d0).
Proof. exact simple_guard_refuted. Qed.
Print Assumptions C01_simple_guard_refuted.

(* the same with 50 committed bytes; resize 100; resize 90 (the log then holds (50, []) and (90, 10 bytes)) *)
Theorem C01_simple_guard_refuted_50 :
  let d0 := repeat x01 50 in
  let c := run_calls (st0 d0) (trace walrev_fixed (st0 d0) [OResize 100; OResize 90]) in
  let cut := crash c (fst (recovery_calls false c)) 2 0 in
  length (data cut) = 50 /\ records (wal cut) = [(50, []); (90, repeat x00 10)] /\
  recover_g walrev_fixed cut = None /\ recover walrev_fixed cut = st0 d0.
Proof. exact simple_guard_refuted_50. Qed.
Print Assumptions C01_simple_guard_refuted_50.

(* the three defects of the code before the fix: commit (each switched back on alone) *)
Theorem C01_pinned_refuted_replay_order :
  let d0 := [x01; x02; x03; x04] in
  let ops := [OWrite 1 [x0a]; OWrite 1 [x0b]] in
  let rv := {| w_newest_first := false; w_log_growth := true; w_skip_empty := true |} in
  data (recover rv (crash (st0 d0) (trace rv (st0 d0) ops) 8 0)) = [x01; x0a; x03; x04].
Proof. exact pinned_replay_order. Qed.
Print Assumptions C01_pinned_refuted_replay_order.

Theorem C01_pinned_refuted_growth :
  let d0 := [x01; x02] in
  let rv := {| w_newest_first := true; w_log_growth := false; w_skip_empty := true |} in
  data (recover rv (crash (st0 d0) (trace rv (st0 d0) [OResize 4]) 4 0)) = [x01; x02; x00; x00].
Proof. exact pinned_growth. Qed.
Print Assumptions C01_pinned_refuted_growth.

Theorem C01_pinned_refuted_empty_write :
  let d0 := [x01; x02; x03; x04] in
  let rv := {| w_newest_first := true; w_log_growth := true; w_skip_empty := false |} in
  data (recover rv (crash (st0 d0) (trace rv (st0 d0) [OWrite 2 []]) 4 0)) = [x01; x02].
Proof. exact pinned_empty_write. Qed.
Print Assumptions C01_pinned_refuted_empty_write.

(* non-vacuity: in-place, straddling and appending writes, shrink, growth, empty write *)
Example C01_nonvacuous :
  let d0 := [x01; x02; x03; x04; x05; x06] in
  let ops := [OWrite 1 [x0a; x0b]; OWrite 5 [x0c; x0d; x0e]; OResize 3; OWrite 3 [x0f]; OResize 9; OWrite 2 []] in
  wp d0 ops /\ no_flush ops = true /\
  forall k j, k <= 30 -> j <= 3 ->
    recover walrev_fixed (crash (st0 d0) (trace walrev_fixed (st0 d0) ops) k j) = st0 d0.
Proof. exact wp_example. Qed.
Print Assumptions C01_nonvacuous.
