(* C28 — Committed cluster log entries agree on all nodes and never change.
   Pinned statements only; proofs in theories/RaftProofs.v, RaftInv.v; model theories/Raft.v.

   `rv : raftrev` is the revision of raft.rs (Raft.v): `rr_pinned` before all repairs, `rr_before_ack_fix` after the
   two election repairs of C27, `rr_fixed` after these and the acknowledgement repair `fix_ack_term` ("a leader counts
   only acknowledgements of its current term", fixes/C28-count-only-current-term-acks.diff); the check compares the code
   with the model of the revision found in the source tree.

   FULL STATEMENT: for every cluster size and every event list of the adversary
     (a) the commit index of a node never decreases,
     (b) an entry at an index <= commit of a node is never removed or replaced there,
     (c) forall size evs, committed_agree (run rv size evs): no two nodes hold different entries at an index
         both have committed.
   (a), (b) are proved for every revision.  (c) is false of the faithful model of EVERY revision (`C28c_refuted*`):
   the election repairs remove the class `ack below voted term` (and the two election classes) but not the
   log-replication defects.  `classes h` = (double vote, stale vote counted, ack from diverged log, old-term
   commit, ack below voted term) are the decidable defect classes of a history; a THIRD log-replication class,
   `commit-without-quorum` (RaftLog.v), was found while attempting the conditional proof; it is the class removed by
   the acknowledgement repair: its witnesses are stated for the revisions without that repair
   (`C28c_refuted_commit_noquorum`, `..._before_ack_fix`), the same event list is harmless under `rr_fixed`
   (`C28c_commit_noquorum_witness_harmless_fixed`).
   CONDITIONAL THEOREM `C28c_partial` for rr_fixed: if none of the three log-replication
   classes occurs in the run, (c) holds — these three classes are the only ways raft.rs (with the repairs)
   can commit different entries at one index. *)
From Coq Require Import NArith List.
From Agdb Require Import Raft RaftWitness RaftProofs RaftInv RaftLog RaftLogProofs RaftLogMatch RaftLogLC RaftLogCA RaftLogAck.
Import ListNotations.
Open Scope N_scope.

(* (a) PROVED for every adversarial event list: the commit index of node i never decreases
   (`run size (evs ++ evs')` is any continuation of `run size evs`).  The degenerate one-node cluster, which
   exchanges no messages, is excluded (`size <> 1`). *)
Theorem C28a_commit_monotone : forall rv size evs evs' i,
  size <> 1 -> commit_of (run rv size evs) i <= commit_of (run rv size (evs ++ evs')) i.
Proof. exact commit_monotone. Qed.
Print Assumptions C28a_commit_monotone.

(* (b) PROVED for every adversarial event list: an entry held at a committed index of node i is still there,
   unchanged, after any continuation (truncate-on-append never cuts at or below the commit index) *)
Theorem C28b_committed_stable : forall rv size evs evs' i idx e,
  size <> 1 ->
  idx <= commit_of (run rv size evs) i ->
  log_at (logs_of (run rv size evs) i) idx = Some e ->
  log_at (logs_of (run rv size (evs ++ evs')) i) idx = Some e.
Proof. exact committed_stable. Qed.
Print Assumptions C28b_committed_stable.

(* non-vacuity: a run in which node 0 has committed two entries *)
Example C28ab_nonvacuous : forall rv,
  let c := run rv w28_ack_diverged_n w28_ack_diverged in
  commit_of c 1 = 2 /\ log_at (logs_of c 1) 2 = Some (mkEntry 2 2 22).
Proof. exact C28ab_example. Qed.
Print Assumptions C28ab_nonvacuous.

(* (c) refuted, every revision: corpus/C28/ack_diverged.txt, 28 events, 3 nodes *)
Theorem C28c_refuted : forall rv, ~ (forall size evs, committed_agree (run rv size evs)).
Proof. exact C28c_refuted. Qed.
Print Assumptions C28c_refuted.

(* (c) fails in histories with one leader per term in which exactly one defect class occurs — independent
   causes.  1 (every revision): validate_log_append has no previous-entry check *)
Theorem C28c_refuted_ack_diverged : forall rv,
  exists size evs, let c := run rv size evs in
    election_safety (c_hist c) /\ classes (c_hist c) = (false, false, true, false, false) /\ ~ committed_agree c.
Proof. exact C28c_refuted_ack_diverged. Qed.
Print Assumptions C28c_refuted_ack_diverged.

(* 2 (every revision): the leader commits an entry of an older term by counting replicas *)
Theorem C28c_refuted_old_term_commit : forall rv,
  exists size evs, let c := run rv size evs in
    election_safety (c_hist c) /\ classes (c_hist c) = (false, false, false, true, false) /\ ~ committed_agree c.
Proof. exact C28c_refuted_old_term_commit. Qed.
Print Assumptions C28c_refuted_old_term_commit.

(* 3 (before the election repairs only; `C27_fixed_no_election_classes` shows the class cannot occur after them):
   a voter keeps its old term after voting and still acknowledges the old leader's Append *)
Theorem C28c_refuted_ack_below_vote :
  exists size evs, let c := run rr_pinned size evs in
    election_safety (c_hist c) /\ classes (c_hist c) = (false, false, false, false, true) /\ ~ committed_agree c.
Proof. exact C28c_refuted_ack_below_vote. Qed.
Print Assumptions C28c_refuted_ack_below_vote.

(* ------------------------------------------------------------------ a THIRD log-replication class (RaftLog.v)
   `commit_noquorum_b rv size evs` (KnownClass commit-without-quorum): a Leader raised its commit index over an
   index at which fewer than size/2+1 nodes of its term hold its entry — commit() counts rows of the peer table
   that are not acknowledgements of the current term (rows are never reset on election, update_node writes them
   from the peer's own requests, response() accepts acknowledgements of any term).
   4 (every revision WITHOUT the acknowledgement repair, in particular `rr_before_ack_fix` = the code before the patch):
   a 5-node history with one leader per term in which NONE of the five classes of `classes` occurs ends with two nodes
   that have committed different entries at index 2 (corpus/C28/commit_noquorum.txt). *)
Theorem C28c_refuted_commit_noquorum : forall rv, fix_ack_term rv = false ->
  exists size evs, let c := run rv size evs in
    size <> 1 /\ election_safety (c_hist c) /\ classes (c_hist c) = (false, false, false, false, false) /\
    commit_noquorum_b rv size evs = true /\ ~ committed_agree c.
Proof. exact RaftLogProofs.C28c_refuted_commit_noquorum. Qed.
Print Assumptions C28c_refuted_commit_noquorum.

Theorem C28c_refuted_commit_noquorum_before_ack_fix :
  exists size evs, let c := run rr_before_ack_fix size evs in
    size <> 1 /\ election_safety (c_hist c) /\ classes (c_hist c) = (false, false, false, false, false) /\
    commit_noquorum_b rr_before_ack_fix size evs = true /\ ~ committed_agree c.
Proof. exact RaftLogProofs.C28c_refuted_commit_noquorum_before_ack_fix. Qed.
Print Assumptions C28c_refuted_commit_noquorum_before_ack_fix.

(* hence, before the acknowledgement repair, "no acknowledgement from a diverged log and no old-term commit" does NOT
   imply (c) *)
Theorem C28c_two_classes_not_enough : forall rv, fix_ack_term rv = false ->
  ~ (forall size evs, size <> 1 ->
       ack_diverged_b (c_hist (run rv size evs)) = false -> old_term_commit_b (c_hist (run rv size evs)) = false ->
       committed_agree (run rv size evs)).
Proof. exact two_classes_not_enough_C28c. Qed.
Print Assumptions C28c_two_classes_not_enough.

(* the SAME event lists (corpus/C28/commit_noquorum.txt, corpus/C29/commit_noquorum.txt) under the repaired revision:
   the stale row is cleared when the node becomes Leader, nothing is committed without a quorum, all nodes agree on
   what they committed, every leader holds every entry committed by an earlier leader, one leader per term *)
Example C28c_commit_noquorum_witness_harmless_fixed :
  (let c := run rr_fixed w28_commit_noquorum_n w28_commit_noquorum in
   committed_agree c /\ leader_completeness (c_hist c) /\ election_safety (c_hist c) /\
   commit_noquorum_b rr_fixed w28_commit_noquorum_n w28_commit_noquorum = false) /\
  (let c := run rr_fixed w29_commit_noquorum_n w29_commit_noquorum in
   committed_agree c /\ leader_completeness (c_hist c) /\ election_safety (c_hist c) /\
   commit_noquorum_b rr_fixed w29_commit_noquorum_n w29_commit_noquorum = false).
Proof. exact commit_noquorum_witnesses_harmless_fixed. Qed.
Print Assumptions C28c_commit_noquorum_witness_harmless_fixed.

(* ------------------------------------------------------------------ the ROOT CAUSE of `commit-without-quorum`, and its repair
   `stale_ack_counted_b rv size evs` (RaftLog.v; a function of the run, reconstructed with a ghost that records for
   every row of every peer table whether it was written by `commit()` from an Ok answer to an Append/Heartbeat request
   of the leader's current term since the node became Leader): at a step that raises the commit index of a node that
   is and stays Leader, some row of ANOTHER node with log_index >= the new commit index — a row `commit()` counted —
   is not such an acknowledgement.  Unlike the semantic marker `commit_noquorum_b` it does not fire when a correct
   leader counts a follower that acknowledged and has since moved to a higher term.

   PROVED (RaftLogAck.v), every cluster size (1 included), every adversarial event list: with the acknowledgement
   repair the marker is never set — a Leader counts only acknowledgements of its current term.  Invariant: every row of
   another node in a Leader's table that is not a fresh acknowledgement has log_index 0 (cleared at election; written
   since by `commit()` only, which the guard of `response()` admits only for answers of the current term), and a row
   with log_index 0 is not counted at a step that raises the commit index. *)
Theorem C28c_no_stale_ack_fixed : forall size evs, stale_ack_counted_b rr_fixed size evs = false.
Proof. exact RaftLogAck.stale_ack_never_fixed. Qed.
Print Assumptions C28c_no_stale_ack_fixed.

(* the same for every revision with the acknowledgement repair, whatever the election flags *)
Theorem C28c_no_stale_ack_any_election_revision : forall rv size evs,
  fix_ack_term rv = true -> stale_ack_counted_b rv size evs = false.
Proof. exact RaftLogAck.stale_ack_never. Qed.
Print Assumptions C28c_no_stale_ack_any_election_revision.

(* non-vacuity / the defect before the repair: in both `commit_noquorum` corpus histories the leader of term 2
   counts the row of the deposed leader of term 1, written by `update_node` from that leader's own Append request *)
Example C28c_stale_ack_before_ack_fix :
  stale_ack_counted_b rr_before_ack_fix w28_commit_noquorum_n w28_commit_noquorum = true /\
  stale_ack_counted_b rr_before_ack_fix w29_commit_noquorum_n w29_commit_noquorum = true.
Proof. exact RaftLogAck.stale_ack_witnesses_before_ack_fix. Qed.
Print Assumptions C28c_stale_ack_before_ack_fix.

(* ------------------------------------------------------------------ towards a conditional theorem for (c)
   LOG MATCHING, PROVED for the repaired code (rr_fixed), every cluster size other
   than 1 and every adversarial event list, under the single hypothesis that the class ack-from-diverged-log does
   not occur: if two nodes hold entries of the same term at index idx, their logs agree at every index <= idx
   (so an (index, term) pair determines the entry, data included).  Proof: RaftLogWf.v, RaftLogMatch.v (inductive
   invariant LI; C27_election_safety is used at every step).
   This is step (1) of the standard safety argument; steps (2) leader completeness and (3) agreement follow below. *)
Theorem C28_log_matching_partial : forall size evs,
  size <> 1 -> ack_diverged_b (c_hist (run rr_fixed size evs)) = false ->
  forall a b, In a (c_nodes (run rr_fixed size evs)) -> In b (c_nodes (run rr_fixed size evs)) ->
  forall idx ea eb, log_at (n_logs a) idx = Some ea -> log_at (n_logs b) idx = Some eb -> e_term ea = e_term eb ->
  forall j, j <= idx -> log_at (n_logs a) j = log_at (n_logs b) j.
Proof. exact RaftLogMatch.log_matching_partial. Qed.
Print Assumptions C28_log_matching_partial.

(* same hypothesis: every log is well formed — the entry at index idx carries index idx and a term <= the node's
   term, and terms are sorted along the log *)
Theorem C28_logs_wf_partial : forall size evs nd,
  size <> 1 -> ack_diverged_b (c_hist (run rr_fixed size evs)) = false -> In nd (c_nodes (run rr_fixed size evs)) ->
  (forall idx e, log_at (n_logs nd) idx = Some e -> e_index e = idx /\ e_term e <= n_term nd) /\
  (forall i j ei ej, i <= j -> log_at (n_logs nd) i = Some ei -> log_at (n_logs nd) j = Some ej -> e_term ei <= e_term ej).
Proof. exact RaftLogMatch.logs_wf_partial. Qed.
Print Assumptions C28_logs_wf_partial.

(* non-vacuity: a fault-free 3-node history (node 0 elected; two entries replicated to and committed on all three
   nodes) satisfies the hypothesis (and has no old-term commit) *)
Example C28_log_matching_nonvacuous :
  let c := run rr_fixed 3 RaftLogMatch.wlog_ok in
  ack_diverged_b (c_hist c) = false /\ old_term_commit_b (c_hist c) = false /\
  map n_commit (c_nodes c) = [2; 2; 2] /\
  map n_logs (c_nodes c) = [[mkEntry 1 1 11; mkEntry 2 1 12]; [mkEntry 1 1 11; mkEntry 2 1 12]; [mkEntry 1 1 11; mkEntry 2 1 12]].
Proof. exact RaftLogMatch.wlog_ok_facts. Qed.
Print Assumptions C28_log_matching_nonvacuous.

(* ------------------------------------------------------------------ the CONDITIONAL THEOREM for (c)
   PROVED for the repaired code (rr_fixed), every cluster size other than 1 and every
   adversarial event list: if none of the three log-replication classes occurs in the run
        ack-from-diverged-log   ack_diverged_b (c_hist ..) = false
        old-term-commit         old_term_commit_b (c_hist ..) = false
        commit-without-quorum   commit_noquorum_b rr_fixed size evs = false
   then no two nodes hold different entries at an index both have committed.
   NOT DONE (hence `_partial`): the third hypothesis is still the SEMANTIC marker.  With the acknowledgement repair the
   root cause is gone (`C28c_no_stale_ack_fixed`), but the semantic marker can still be set in harmless histories of
   rr_fixed (a follower acknowledges and then votes in a higher term before the leader counts it), so the hypothesis
   cannot simply be dropped: that needs Raft's acknowledgement-history argument (an acknowledgement of (T, idx) by v
   precedes every vote of v for a term > T; quorum intersection between ackers and voters) in place of the present
   state invariant "a quorum of nodes of term T holds the entry at the commit step" — RAFT_NOTES.md, round 5.
   Proof: RaftLogWf.v, RaftLogMatch.v (log matching), RaftLogHand.v, RaftLogLC.v (leader completeness, invariant LC),
   RaftLogCA.v (invariant CA: every committed index of every node was committed by a leader with the entry the node
   holds; two leader commits of one index are commits of the same entry). *)
Theorem C28c_partial : forall size evs,
  size <> 1 ->
  ack_diverged_b (c_hist (run rr_fixed size evs)) = false ->
  old_term_commit_b (c_hist (run rr_fixed size evs)) = false ->
  commit_noquorum_b rr_fixed size evs = false ->
  committed_agree (run rr_fixed size evs).
Proof. exact RaftLogCA.C28c_partial_stmt. Qed.
Print Assumptions C28c_partial.

(* same hypotheses: whatever a node has committed was committed by a leader, and the node holds that entry *)
Theorem C28c_committed_by_leader_partial : forall size evs nd idx,
  size <> 1 ->
  ack_diverged_b (c_hist (run rr_fixed size evs)) = false ->
  old_term_commit_b (c_hist (run rr_fixed size evs)) = false ->
  commit_noquorum_b rr_fixed size evs = false ->
  In nd (c_nodes (run rr_fixed size evs)) -> 1 <= idx -> idx <= n_commit nd ->
  exists i T e, In (GCommit i true T idx (Some e)) (c_hist (run rr_fixed size evs)) /\ log_at (n_logs nd) idx = Some e.
Proof. exact RaftLogCA.C28c_committed_by_leader_stmt. Qed.
Print Assumptions C28c_committed_by_leader_partial.

(* non-vacuity: the fault-free 3-node history `wlog_ok` (node 0 elected, two entries replicated to and committed on
   all three nodes) satisfies the three hypotheses *)
Example C28c_partial_nonvacuous :
  (ack_diverged_b (c_hist (run rr_fixed 3 RaftLogMatch.wlog_ok)) = false /\
   old_term_commit_b (c_hist (run rr_fixed 3 RaftLogMatch.wlog_ok)) = false /\
   commit_noquorum_b rr_fixed 3 RaftLogMatch.wlog_ok = false) /\
  RaftLogLC.late_leader_b (c_hist (run rr_fixed 3 RaftLogMatch.wlog_ok)) = false /\
  map n_commit (c_nodes (run rr_fixed 3 RaftLogMatch.wlog_ok)) = [2; 2; 2] /\
  leader_completeness_b (c_hist (run rr_fixed 3 RaftLogMatch.wlog_ok)) = true /\
  existsb (fun g => match g with GCommit _ true _ _ _ => true | _ => false end)
          (c_hist (run rr_fixed 3 RaftLogMatch.wlog_ok)) = true.
Proof. exact RaftLogCA.nonvacuous_stmt. Qed.
Print Assumptions C28c_partial_nonvacuous.
