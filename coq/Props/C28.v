(* C28 — Committed cluster log entries agree on all nodes and never change.
   Pinned statements only; proofs in theories/RaftProofs.v, RaftInv.v; model theories/Raft.v.

   FULL STATEMENT: for every cluster size and every event list of the adversary
     (a) the commit index of a node never decreases,
     (b) an entry at an index <= commit of a node is never removed or replaced there,
     (c) forall size evs, committed_agree (run size evs): no two nodes hold different entries at an index
         both have committed.
   (c) is false of the faithful model (`C28c_refuted*`). *)
From Coq Require Import NArith List.
From Agdb Require Import Raft RaftWitness RaftProofs.
Import ListNotations.
Open Scope N_scope.

(* (c) refuted: corpus/C28/ack_diverged.txt, 28 events, 3 nodes *)
Theorem C28c_refuted : ~ (forall size evs, committed_agree (run size evs)).
Proof. exact C28c_refuted. Qed.
Print Assumptions C28c_refuted.

(* (c) fails even when every term has one leader, nobody votes twice, no stale vote is counted and the leader
   only commits entries of its own term: validate_log_append has no previous-entry check *)
Theorem C28c_refuted_single_leader :
  exists size evs, let c := run size evs in
    election_safety (c_hist c) /\ double_vote_b (c_hist c) = false /\ stale_vote_b (c_hist c) = false /\
    old_term_commit_b (c_hist c) = false /\ ~ committed_agree c.
Proof. exact C28c_refuted_single_leader. Qed.
Print Assumptions C28c_refuted_single_leader.

(* ... and independently when every acknowledgement comes from a matching log: the leader commits an
   entry of an older term by counting replicas (corpus/C28/old_term_commit.txt) *)
Theorem C28c_refuted_old_term_commit :
  exists size evs, let c := run size evs in
    election_safety (c_hist c) /\ double_vote_b (c_hist c) = false /\ stale_vote_b (c_hist c) = false /\
    ack_diverged_b (c_hist c) = false /\ ~ committed_agree c.
Proof. exact C28c_refuted_old_term_commit. Qed.
Print Assumptions C28c_refuted_old_term_commit.
