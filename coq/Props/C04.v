(* C04 — Stored data survives any pattern of space reuse and defragmentation.
   Pinned statements only; proofs live in theories/Records*Proofs.v, theories/Storage*.v
   (reading guide at the head of theories/StorageProofs.v).

   Models: Records.v / Storage.v = the code of storage_records.rs / storage.rs (generic in the byte
   store, instantiated here at the canonical byte stores `ops_file`, `ops_mem`); StorageSpec.v = the
   abstract map index |-> bytes as an acceptor of observations.
   `tiles s rg`: the data file of state s is the 24-byte version record followed by the gapless
   sequence of regions rg (index, payload), each with its 16-byte header (index, size); the record
   table holds exactly the live regions (index <> 0) at their positions, the two free maps hold exactly
   the free regions (index 0), the maps agree with each other, the free-index list threaded through
   slot 0 is duplicate-free and disjoint from the live indexes, all lengths are below 2^64. *)
From Agdb Require Import Bytes Records RecordsProofs RecordsTableProofs Storage StorageSpec
  StorageLayout StorageWp StorageOps StorageOps2 StorageRefine StorageReopen StorageOptimize StorageProofs StorageSim.
Open Scope N_scope.

(* ---- the invariant ---- *)
Theorem C04_tiles_init : fst init_file = s_init /\ fst init_mem = s_init /\ tiles s_init [].
Proof. exact (conj (f_equal fst init_file_eq) (conj (f_equal fst init_mem_eq) tiles_init)). Qed.
Print Assumptions C04_tiles_init.

(* after every history of insert, insert-at, replace, resize, move, remove, optimize, reopen (drop+open
   and backup+open), transactions and reads — on a file-like or a memory-like byte store — the file tiles *)
Theorem C04_tiles_preserved :
  forall (ops : store_ops cdata) (fl : bool), kind ops fl ->
  forall (l : list sop) (s' : ST), st_exec cdata ops s_init l = Some s' -> exists rg, tiles s' rg.
Proof. exact tiles_reachable. Qed.
Print Assumptions C04_tiles_preserved.

(* ---- refinement: FULL statement ----
   For every operation list, every observation of the storage — returned indexes, value reads at any
   offset/size, sizes, error kinds (NotFound for removed / never used / zero indexes, OutOfBounds,
   NotAllowed), transaction ids — is exactly what the abstract map index |-> bytes allows
   (an insert may return any unused non-zero index; a removed index is unreadable; a file-backed storage
   dropped with an open transaction comes back with the map at the last point with no transaction open).
   A history can end early only with `ObPanic` (u64 overflow: a request that does not fit into 2^64
   bytes); `ObFault` (a byte-store call outside the contract pos <= len) is never observed. *)
Theorem C04_refines_map :
  (forall l, accepts true spec_init l (st_run cdata ops_file (fst init_file) l) = true) /\
  (forall l, accepts false spec_init l (st_run cdata ops_mem (fst init_mem) l) = true).
Proof. exact (conj refines_map_file refines_map_mem). Qed.
Print Assumptions C04_refines_map.

(* one step, from any state related to a specification state *)
Theorem C04_step_refines :
  forall ops fl, kind ops fl -> forall s sp o, Rel s sp ->
    snd (st_step cdata ops s o) = ObPanic \/
    exists sp', spec_step fl sp o (snd (st_step cdata ops s o)) = Some sp' /\ Rel (fst (st_step cdata ops s o)) sp'.
Proof. exact step_refines. Qed.
Print Assumptions C04_step_refines.

(* ---- defragmentation ----
   after optimize_storage the file consists of the live regions only, in their old order:
   len = 24 + sum over the live values of (16 + size); both free maps are empty; every value is unchanged *)
Theorem C04_optimize_tight :
  forall ops, canon ops -> forall s rg, tiles s rg ->
  let r := optimize_storage cdata ops s in
  snd r = RPanic \/
  (snd r = ROk tt /\ tiles (fst r) (lmap rg) /\ all_live (lmap rg) /\
   (forall j, j <> 0 -> m_get (lmap rg) j = m_get rg j) /\
   lenN (cur (sdata (fst r))) = region_sum (lmap rg) /\
   fps (rtab (fst r)) = [] /\ fsp (rtab (fst r)) = []).
Proof. exact optimize_tight. Qed.
Print Assumptions C04_optimize_tight.

(* ---- reopening ----
   loading the content of a tiled storage (backup + open; or drop + open with no transaction open)
   succeeds and yields a tiled storage with the same regions, hence the same live values *)
Theorem C04_reopen_preserves :
  forall ops, canon ops -> forall s rg, tiles s rg ->
  (forall r, r = reopen_copy cdata ops s -> snd r = ROk tt /\ tiles (fst r) rg /\ tx (fst r) = 0) /\
  (tx s = 0 -> dur (sdata s) = cur (sdata s) ->
   forall r, r = reopen cdata ops s -> snd r = ROk tt /\ tiles (fst r) rg /\ tx (fst r) = 0).
Proof. exact reopen_preserves. Qed.
Print Assumptions C04_reopen_preserves.

(* ---- the selection rules of the free maps (Records level) ---- *)
Theorem C04_take_free_rule :
  forall rs k rs' p s, fwf rs -> take_free rs k = Some (rs', (p, s)) ->
    m_get (fps rs) p = Some s /\ k <= s /\ (s = k \/ k + 16 <= s) /\ rs' = remove_free rs p.
Proof. exact take_free_spec. Qed.
Print Assumptions C04_take_free_rule.

(* ---- non-vacuity ---- *)
(* a concrete history (insert, remove, reuse, grow, defragment, reopen, a failed replace that leaves its
   transaction open, reopen of a file-backed storage with that transaction open) is answered by the
   concrete model exactly as the abstract map demands — by evaluation *)
Example C04_sample_history_accepted :
  let ops := [SInsert [x01; x02; x03]; SInsert [x04]; SRemove 1; SInsert [x05]; SValue 1; SValue 2; SLen;
              SResize 2 40; SValue 2; SOptimize; SLen; SReopen; SValue 1; SValueAt 2 1; SReplace 7 [];
              STransaction; SInsert [x06]; SReopen; SValue 3] in
  accepts true spec_init ops (st_run cdata ops_file (fst init_file) ops) = true.
Proof. vm_compute. reflexivity. Qed.
Print Assumptions C04_sample_history_accepted.

(* a reachable state with live and free regions *)
Example C04_tiles_nonvacuous :
  let l := [SInsert [x01; x02; x03]; SInsert [x04]; SInsert [x05; x06]; SRemove 2] in
  exists s', st_exec cdata ops_file s_init l = Some s' /\ lenN (cur (sdata s')) = 78 /\ fps (rtab s') = [(43, 1)].
Proof. eexists. split; [vm_compute; reflexivity|]. split; vm_compute; reflexivity. Qed.
Print Assumptions C04_tiles_nonvacuous.

(* ================= storage level of C05 / C06 (to be moved to Props/C05.v, Props/C06.v) ================= *)

(* C05 (storage level): reopening (drop + open with no transaction open), backup + open of the copy, and
   defragmentation preserve the live map index |-> bytes exactly *)
Theorem C05_storage_maintenance :
  forall ops, canon ops -> forall s rg, tiles s rg ->
  (* backup + open *)
  (snd (reopen_copy cdata ops s) = ROk tt /\ tiles (fst (reopen_copy cdata ops s)) rg) /\
  (* drop + open *)
  (tx s = 0 -> dur (sdata s) = cur (sdata s) ->
   snd (reopen cdata ops s) = ROk tt /\ tiles (fst (reopen cdata ops s)) rg) /\
  (* optimize *)
  (snd (optimize_storage cdata ops s) = RPanic \/
   (snd (optimize_storage cdata ops s) = ROk tt /\ tiles (fst (optimize_storage cdata ops s)) (lmap rg) /\
    forall j, j <> 0 -> m_get (lmap rg) j = m_get rg j)).
Proof. exact storage_maintenance. Qed.
Print Assumptions C05_storage_maintenance.

(* C06 (storage level): each of the three back-ends, modelled literally (Storage.v: mem_raw = MemoryStorage
   with its `end < len` copy-in-place / `resize(pos); extend` split, file_raw = FileStorage::write with its
   early return on empty writes, mapped_raw = the pair, memory answering reads), satisfies the laws of the
   canonical byte store for every write that does not start beyond the end and every read inside the data *)
Theorem C06_instances_lawful :
  lawful bytes mem_raw ops_mem rd_mem /\ lawful cdata file_raw ops_file rd_file /\
  lawful (cdata * bytes) mapped_raw ops_file rd_mapped.
Proof. exact (conj mem_lawful (conj file_lawful mapped_lawful)). Qed.
Print Assumptions C06_instances_lawful.

(* Storage<D> is parametric in a lawful byte store: related states give equal observations for every
   operation list, as long as the canonical run stays inside the contract *)
Theorem C06_storage_parametric :
  forall (T : Type) (opsT : store_ops T) (opsC : store_ops cdata) (rd : T -> cdata -> Prop),
    canon opsC -> lawful T opsT opsC rd ->
    forall l s1 s2, srel T rd s1 s2 -> ~ In ObFault (st_run cdata opsC s2 l) ->
      st_run T opsT s1 l = st_run cdata opsC s2 l.
Proof. exact sim_run. Qed.
Print Assumptions C06_storage_parametric.

(* hence, from an empty store, the three back-ends produce exactly the observations of the canonical model
   (which C04 shows to be the abstract map's) for EVERY operation list; FileStorage and
   FileStorageMemoryMapped agree on everything; MemoryStorage agrees with them on every history that does
   not drop the storage (it has no persistence: a `reopen` is a backup + open there) *)
Theorem C06_backends_agree :
  forall l,
  st_run bytes mem_raw (fst (with_data bytes mem_raw [])) l = st_run cdata ops_mem (fst init_mem) l /\
  st_run cdata file_raw (fst (with_data cdata file_raw empty_cdata)) l = st_run cdata ops_file (fst init_file) l /\
  st_run (cdata * bytes) mapped_raw (fst (with_data (cdata * bytes) mapped_raw (empty_cdata, []))) l
    = st_run cdata ops_file (fst init_file) l.
Proof. exact backends_agree. Qed.
Print Assumptions C06_backends_agree.

Theorem C06_mem_file_agree :
  forall l, no_reopen l = true -> forall s, st_run cdata ops_mem s l = st_run cdata ops_file s l.
Proof. exact mem_file_agree. Qed.
Print Assumptions C06_mem_file_agree.
