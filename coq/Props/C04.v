(* C04 — Stored data survives any pattern of space reuse and defragmentation.
   Pinned statements only; proofs live in theories/RecordsProofs.v, theories/StorageProofs.v. *)
From Agdb Require Import Bytes Records Storage StorageSpec.
Open Scope N_scope.

(* a concrete history (insert, remove, reuse, grow, defragment, reopen, a failed replace that leaves its
   transaction open, reopen of a file-backed storage with that transaction open) is answered by the
   concrete model exactly as the abstract map specification demands *)
Example C04_sample_history_accepted :
  let ops := [SInsert [x01; x02; x03]; SInsert [x04]; SRemove 1; SInsert [x05]; SValue 1; SValue 2; SLen;
              SResize 2 40; SValue 2; SOptimize; SLen; SReopen; SValue 1; SValueAt 2 1; SReplace 7 [];
              STransaction; SInsert [x06]; SReopen; SValue 3] in
  accepts true spec_init ops (st_run cdata ops_file (fst init_file) ops) = true.
Proof. vm_compute. reflexivity. Qed.
Print Assumptions C04_sample_history_accepted.
