(* C07 — Opening or reading a damaged database file never crashes the process.
   Pinned statements only; proofs live in theories/OpenFileProofs.v and theories/ValueLoadProofs.v.

   FULL STATEMENT (not proved in full — see below what is):
     for every data byte string and optional recovery log byte string, every storage variant and
     every read query q:
       open_db data log  is  Ok db  or  Err,   and   Ok db -> read db q  is  Ok  or  Err,
       every allocation request made on the way is <= 1024 * (|data| + |log|) + 65536 bytes,
       and neither ever fails to terminate,
     where open_db = recovery (repair / records / replay), the back-end's `new`, Storage::read_records,
     the root record decode (DbStorageIndex, legacy conversion), DbGraph / DbIndexedMap / DbIndexes /
     DbKeyValues::from_storage, and read = every select / search query.

   WHAT IS PROVED (all about the executable models OpenFile.v / ValueIndex.v, tied to /repo by the
   differential run of checks/c07.py):
     * C07_open_total_partial     the STORAGE LAYER of open_db — recovery log repair / parse / replay, the
                                  three back-ends' `new` and `read`, read_records with its header, size and
                                  version checks and the version migration, the record table sizing — for
                                  the REPAIRED code (all four bounds-check flags on), for every input a file
                                  system can hold (|data| + |log| <= 2^50): the result is a storage state or an
                                  error; never a panic, never non-termination; the only allocation request that
                                  can exceed the limit is the record table (known class
                                  alloc-StorageRecords.set_record/Storage.read_records), and then it does exceed it.
     * C07_value_read_total_partial  Storage::value_as_bytes of ANY index on ANY state that open returned:
                                  bytes or an error, buffers within the limit.
     * C07_load_value_total_partial  DbValue::load_db_value (both checks of C07-value-index.diff in) on EVERY
                                  16-byte index and every record store: a value or an error.
     * C07_load_value_current     the tree as it is (numeric check in, `_ => panic!()` pinned by the suite):
                                  load_db_value panics exactly when the type nibble is 0 or 10..15 (known
                                  class panic-db_value-explicit-panic).
     * C07_db_load_total_partial  (round 5, last section) the LOAD of the whole database above the storage layer —
                                  root record decode, DbVec / graph / multi-map / index loaders, the complete read
                                  of every component — on EVERY record store: a database or an error, or the one
                                  listed panic site (unknown value type nibble), or one of two write paths the model
                                  stops at (creation when there is no root record; the legacy conversion).
   MISSING for the full statement: the two write paths just named and the QUERY layer that reads an opened damaged
   database lazily (crash sites explored by mutation, repaired in /repo, and re-checked by the mutation run on every
   check; two classes there are known findings: cyclic sibling-edge lists make searches run forever / grow without
   bound).  The log position check (flag og_wal_pos) is the
   repair fixes/C07-wal-position.diff; checks/c07.py reads off the source tree whether it is present (then the
   tree corresponds to og_fixed and the two classes alloc-FileStorage.read/FileStorageMemoryMapped.new and
   hang-Storage.read_records are no longer accepted) or not (og_current, for which
   C07_current_log_position_refuted shows the violation). *)
From Agdb Require Import Bytes Utf8 Codec DbValue ValueIndex ValueIndexProofs OpenFile OpenFileProofs ValueLoadProofs.
From Agdb Require Import Records StorageSpec DbModel StoredDb StoredDbRep StoredDbExampleBase LoadOutcome LoadOutcomeProofs LoadOutcomeAgree LoadOutcomeExample.
Open Scope N_scope.

Theorem C07_open_total_partial :
  forall (be : backend) (data : bytes) (wal : option bytes),
    lenN data + wal_len wal <= 1125899906842624 ->
    match open_file og_fixed be data wal with
    | OOk _ | OErr => True
    | OAlloc ATable n => alloc_limit (lenN data) (wal_len wal) < n
    | OAlloc ABuffer _ | OPanic | OFuel => False
    end.
Proof. exact open_file_total. Qed.
Print Assumptions C07_open_total_partial.

(* the replay of the recovery log with the position check: a record is applied only inside the file or at
   its end (otherwise the open fails with an error), it extends the file by at most its own payload, and
   the whole recovery by at most the length of the log — the file can no longer be extended sparsely *)
Theorem C07_replay_record_bound :
  forall (be : backend) (limit : N) (d : bytes) (pos : N) (v d' : bytes),
    wal_apply_rec og_fixed be limit d (pos, v) = OOk d' ->
    pos <= lenN d /\ lenN d' <= N.max (lenN d) (pos + lenN v).
Proof. exact replay_record_bound. Qed.
Print Assumptions C07_replay_record_bound.

Theorem C07_recovery_length_bound :
  forall (be : backend) (limit : N) (data wal : bytes),
    limit <= isize_max -> lenN wal <= limit ->
    match wal_recover og_fixed be limit data wal with
    | OOk d => lenN d <= lenN data + lenN wal
    | OErr => True
    | _ => False
    end.
Proof.
  intros be limit data wal H1 H2. destruct (recovery_length_bound be limit data wal H1 H2) as [Hok Hlen].
  destruct (wal_recover og_fixed be limit data wal) as [d| | |s n|]; cbn in Hok; try tauto. now apply Hlen.
Qed.
Print Assumptions C07_recovery_length_bound.

Theorem C07_value_read_total_partial :
  forall (be : backend) (data : bytes) (wal : option bytes) (st : ostate) (i : N),
    lenN data + wal_len wal <= 1125899906842624 ->
    open_file og_fixed be data wal = OOk st ->
    match value_as_bytes og_fixed be (alloc_limit (lenN data) (wal_len wal)) st i with
    | OOk _ | OErr => True
    | _ => False
    end.
Proof. exact open_file_read_total. Qed.
Print Assumptions C07_value_read_total_partial.

Theorem C07_load_value_total_partial :
  forall (ix : vindex) (st : store),
    (forall i b, lookup i st = Some b -> lenN b < two60) ->
    match load_db_value_g vg_fixed ix st with Ok _ | Err => True | _ => False end.
Proof. exact load_fixed_total. Qed.
Print Assumptions C07_load_value_total_partial.

Theorem C07_load_value_current :
  forall (ix : vindex) (st : store),
    (forall i b, lookup i st = Some b -> lenN b < two60) ->
    match load_db_value_g vg_current ix st with
    | Ok _ | Err => True
    | Panic => is_known_type (vi_type ix) = false
    | _ => False
    end.
Proof. exact load_current_total. Qed.
Print Assumptions C07_load_value_current.

(* the bounds checks do not disturb C12: what `store` wrote loads back under every revision *)
Theorem C07_checks_preserve_roundtrip :
  forall (g : vguards) (alloc : store -> N) (v : dbvalue) (st : store),
    wf_value v = true -> alloc_ok alloc st ->
    load_db_value_g g (fst (store_db_value alloc v st)) (snd (store_db_value alloc v st)) = Ok v.
Proof. exact load_g_roundtrip. Qed.
Print Assumptions C07_checks_preserve_roundtrip.

(* The defects that were repaired (og_pinned = the code before the fix: commits 345fbb9..51d65f2), each
   with the repaired outcome next to it.  Classes: 0 opens, 1 error, 2 panic, 3 allocation of a buffer
   above the limit, 4 allocation of the record table above the limit, 5 no termination.
     ex_short          17-byte file: short read through the memory back-ends' unchecked slice
     ex_max_index      record index u64::MAX: index + 1 overflows
     ex_version_size   version record of 2^40 bytes: FileStorage::read allocates before it reads
     ex_log_back16     recovery log size field -16: WriteAheadLog::repair never advances
     ex_log_back8      size field -8: repair walks on, records() allocates 2^64 - 8 bytes
     ex_log_far        log record positioned at 2^40: the file is extended sparsely — still so in a tree
                       without fixes/C07-wal-position.diff (og_current: all checks but the position check) *)
Theorem C07_pinned_refuted :
  cls og_pinned BMemory ex_short None = 2 /\ cls og_fixed BMemory ex_short None = 1 /\
  cls og_pinned BMapped ex_short None = 2 /\ cls og_pinned BFile ex_short None = 1 /\
  cls og_pinned BFile ex_max_index None = 2 /\ cls og_fixed BFile ex_max_index None = 1 /\
  cls og_pinned BFile ex_version_size None = 3 /\ cls og_fixed BFile ex_version_size None = 1 /\
  cls og_pinned BMemory ex_version_size None = 2 /\
  cls og_pinned BFile ex_intact (Some ex_log_back16) = 5 /\ cls og_fixed BFile ex_intact (Some ex_log_back16) = 0 /\
  cls og_pinned BFile ex_intact (Some ex_log_back8) = 2 /\ cls og_fixed BFile ex_intact (Some ex_log_back8) = 0 /\
  cls og_pinned BMapped ex_intact (Some ex_log_far) = 3 /\ cls og_pinned BFile ex_intact (Some ex_log_far) = 5 /\
  cls og_current BMapped ex_intact (Some ex_log_far) = 3 /\ cls og_current BFile ex_intact (Some ex_log_far) = 5 /\
  cls og_fixed BMapped ex_intact (Some ex_log_far) = 1 /\ cls og_fixed BFile ex_intact (Some ex_log_far) = 1.
Proof. exact pinned_witnesses. Qed.
Print Assumptions C07_pinned_refuted.

(* a tree without the log position check violates the property through the log position (classes
   alloc-FileStorage.read/FileStorageMemoryMapped.new and hang-Storage.read_records) *)
Theorem C07_current_log_position_refuted :
  cls og_current BMapped ex_intact (Some ex_log_far) = 3 /\ cls og_current BFile ex_intact (Some ex_log_far) = 5.
Proof. exact current_log_position. Qed.
Print Assumptions C07_current_log_position_refuted.

(* the known class of the record table is real also for the repaired code: a 40-byte file, 26 TB requested *)
Theorem C07_table_class_witness :
  open_file og_fixed BFile ex_big_index None = OAlloc ATable 26388279066648 /\
  open_file og_fixed BMemory ex_big_index None = OAlloc ATable 26388279066648 /\
  alloc_limit (lenN ex_big_index) 0 < 26388279066648.
Proof. exact table_class_witness. Qed.
Print Assumptions C07_table_class_witness.

(* a record size that passes the lenient check of read_records and is then read:
   MemoryStorage::read sliced out of range, now an error *)
Theorem C07_lenient_size_refuted :
  (exists st, open_file og_pinned BMemory ex_lenient None = OOk st /\
              value_as_bytes og_pinned BMemory (alloc_limit (lenN ex_lenient) 0) st 1 = OPanic) /\
  (exists st, open_file og_fixed BMemory ex_lenient None = OOk st /\
              value_as_bytes og_fixed BMemory (alloc_limit (lenN ex_lenient) 0) st 1 = OErr).
Proof. exact lenient_read_witness. Qed.
Print Assumptions C07_lenient_size_refuted.

Theorem C07_load_value_pinned_refuted :
  load_db_value_g vg_pinned (repeat x00 16) [] = Panic /\
  load_db_value_g vg_pinned (repeat x00 15 ++ [x23]) [] = Panic /\
  load_db_value_g vg_current (repeat x00 15 ++ [xa0]) [] = Panic /\
  load_db_value_g vg_current (repeat x00 15 ++ [x23]) [] = Err.
Proof.
  exact (conj load_pinned_unknown_type (conj load_pinned_short_numeric
          (conj load_current_unknown_type load_current_short_numeric))).
Qed.
Print Assumptions C07_load_value_pinned_refuted.

(* non-vacuity: an intact file satisfies the hypothesis, opens on every back-end, its record reads back *)
Example C07_nonvacuous :
  forall be, exists st,
    open_file og_fixed be ex_intact None = OOk st /\ o_table st = [(1, (24, 3))] /\
    value_as_bytes og_fixed be (alloc_limit (lenN ex_intact) 0) st 1 = OOk [x61; x62; x63] /\
    realistic ex_intact None.
Proof. exact intact_opens. Qed.
Print Assumptions C07_nonvacuous.

(* ------------------------------------------------------------------------------------------------------------------
   ABOVE THE STORAGE LAYER (round 5): the LOAD of the whole database, DbImpl::new on an ARBITRARY record store.
   Model: theories/LoadOutcome.v — `load_outcome m root` for a record map m (index -> bytes: what the storage layer hands
   to the collections once it opened the file) = the outcome of try_new_with_storage (root record incl. the test for
   the legacy format, DbGraph / DbIndexedMap / DbIndexes / DbKeyValues::from_storage with DbVec::from_storage's checked
   length, every index's key through load_db_value) followed by the COMPLETE read of every component (VecIterator on
   every vector, every table's three vectors, every element's DbVec<DbKeyValue>).  Tied to /repo on every run of
   checks/c07.py: the record store of each damaged input whose storage layer opens -> extracted load_outcome, against
   DbFile::new on the same bytes (class of the open: opens / error / panic site / allocation).

   FULL STATEMENT for this layer: for every record map and root index the outcome is a database or an error.
   PROVED:  C07_db_load_total_partial — for EVERY record map (records below 2^60 bytes: any file) and root index the
   outcome is Loaded / LErr, or
       LPanic    the `_ => panic!()` of DbValue::load_db_value for a type nibble 0 or 10..15 — the ONE listed crash site
                 (known class panic-db_value-explicit-panic; the suite pins it).  That it is the only one is
                 C07_db_load_total_with_type_check: the same model with the check of fixes/C07-value-type.diff
                 (revision flag vg_type_checked) never panics, and the flag is read at no other place;
       LFresh    there is no root record: the code CREATES a database in this storage — a write path, not a load;
       LLegacy   a 40..47 byte root record whose values table loads: legacy::convert_to_current_version starts
                 rewriting the file — not modelled beyond this point;
   never LHugeAlloc: no read buffer exceeds 65536 + 1024 x (sum of the record sizes) — indeed none exceeds the largest
   record.  PARTIAL because of LFresh / LLegacy (two write paths the model stops at; the mutation run covers them with
   the direct oracle only) and because the queries that read an opened damaged database lazily are not modelled
   (two known classes live there: cyclic sibling lists). *)
Theorem C07_db_load_total_partial :
  forall (m : vmap) (root : N),
    (forall i b, m_get m i = Some b -> lenN b < two60) ->
    match load_outcome m root with
    | Loaded _ | LErr | LFresh | LLegacy | LPanic => True
    | LHugeAlloc _ => False
    end.
Proof. exact load_outcome_total. Qed.
Print Assumptions C07_db_load_total_partial.

Theorem C07_db_load_total_with_type_check :
  forall (m : vmap) (root : N),
    (forall i b, m_get m i = Some b -> lenN b < two60) ->
    match load_outcome_g vg_fixed (lo_limit m) m root with
    | Loaded _ | LErr | LFresh | LLegacy => True
    | LPanic | LHugeAlloc _ => False
    end.
Proof. exact load_outcome_fixed_total. Qed.
Print Assumptions C07_db_load_total_with_type_check.

(* for every revision of the two value-index checks and every limit that admits the records themselves: a panic needs
   a missing check *)
Theorem C07_db_load_total_any_revision :
  forall (g : vguards) (L : N) (m : vmap) (root : N),
    (forall i b, m_get m i = Some b -> lenN b <= L) ->
    (forall i b, m_get m i = Some b -> lenN b < two60) ->
    match load_outcome_g g L m root with
    | Loaded _ | LErr | LFresh | LLegacy => True
    | LPanic => vg_num_checked g = false \/ vg_type_checked g = false
    | LHugeAlloc _ => False
    end.
Proof. exact load_outcome_g_total. Qed.
Print Assumptions C07_db_load_total_any_revision.

(* FULL: on a record store that HOLDS a database (`stored_db`: the relation of C05's L3 theorems) the outcome model
   loads it, and what it returns is THE database the loader `load_db` of C05_db_reload returns (Leibniz equality), hence
   equal to the represented one up to sd_eqv — the exact treatment of damaged value indexes, the allocation limit and
   the order open-then-read change nothing on well-formed stores. *)
Theorem C07_db_load_agrees_with_C05 :
  forall (m : vmap) (root : N) (d : db),
    stored_db (m_get m) root d ->
    exists d', load_outcome m root = Loaded d' /\ load_db m root = Some d' /\ sd_eqv d d' /\ undo d' = [].
Proof. intros m root d H. exact (load_outcome_of_stored vg_current m root d H). Qed.
Print Assumptions C07_db_load_agrees_with_C05.

(* the same for every revision of the value-index checks *)
Theorem C07_db_load_agrees_with_C05_any_revision :
  forall (g : vguards) (m : vmap) (root : N) (d : db),
    stored_db (m_get m) root d ->
    exists d', load_outcome_g g (lo_limit m) m root = Loaded d' /\ load_db m root = Some d' /\ sd_eqv d d' /\ undo d' = [].
Proof. exact load_outcome_of_stored. Qed.
Print Assumptions C07_db_load_agrees_with_C05_any_revision.

(* the model run is the loader PROGRAM run on the record map: nothing in `lo_run` beyond `cp_run sd_step` but the
   allocation limit *)
Theorem C07_db_load_run_is_program_run :
  forall (A : Type) (L : N) (m : vmap) (p : Collections.cprog A),
    (forall i b, m_get m i = Some b -> lenN b <= L) ->
    lo_run L p m = lo_of_cres (snd (Collections.cp_run sd_step p m)).
Proof. intros A L m p H. exact (lo_run_cp_run L m p H). Qed.
Print Assumptions C07_db_load_run_is_program_run.

(* non-vacuity: every outcome occurs.  The stored example database of C05 (sx_store: index, two nodes, an alias, an
   edge, long and inline values) loads to itself; ONE damaged byte in it — the type nibble of the first index key, byte
   23 of the DbVec<DbIndexStorageIndex> record — makes DbImpl::new panic at the listed site (an error with the type
   check); no root record; a root record of 39 / 40 bytes; a legacy-sized root record whose values table loads. *)
Example C07_db_load_nonvacuous :
  load_outcome sx_store 1 = Loaded sx_db /\
  load_outcome lo_ex_damaged 1 = LPanic /\ lo_open_class lo_ex_damaged 1 = 2 /\
  load_outcome_g vg_fixed (lo_limit lo_ex_damaged) lo_ex_damaged 1 = LErr /\
  load_outcome [] 1 = LFresh /\
  load_outcome [(1, repeat x00 39)] 1 = LErr /\
  load_outcome lo_ex_legacy 1 = LLegacy.
Proof.
  destruct lo_ex_loads as (A & _). destruct lo_ex_panic as (B & C & D). destruct lo_ex_others as (E & F & _ & G & _).
  repeat split; assumption.
Qed.
Print Assumptions C07_db_load_nonvacuous.
