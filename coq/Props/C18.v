(* C18 — Elements search visits every existing element once in id-slot order.
   Pinned statements only; proofs live in theories/ElementsSearchProofs.v (search part)
   and theories/GraphSpec.v, ElementsGraphProofs.v (graph part, at the end of this file).

   SEARCH PART.  The elements search (graph_search/element_search.rs, model:
   Search.elements_search) walks the list `elements (gr d)` from the front; the
   "distance" handed to the conditions is the position of the element in that list
   (`graph.iter().enumerate()`), starting at 0.  Definitions used below
   (theories/ElementsSearchProofs.v):

     sc_nofinish c  :=  match c with Finish _ => False | _ => True end
     ifilter p els k :=  the positional filter: keeps element i at position n of els
                         iff p i (k + n) = true     (C18_ifilter_def, C18_ifilter_In)
     sublist l1 l2  :=  l1 is an order-preserving sub-sequence of l2 (inductive: nil / skip / keep)
     zslice limit offset l := skip `offset`, then take `limit` (0 = no limit)   (C18_zslice_def) *)
From Agdb Require Import Bytes DbValue Graph DbModel Search ElementsSearchProofs.
From Coq Require Import Sorted.
Open Scope Z_scope.

(* ---- conditions never finish a search: only the limit handlers do ---- *)

Theorem C18_eval_data_nofinish :
  forall (rv : revision) (d : db) (index distance : Z) (c : cond_data),
    sc_nofinish (eval_data rv d index distance c).
Proof. exact eval_data_nofinish. Qed.
Print Assumptions C18_eval_data_nofinish.

Theorem C18_conditions_never_finish :
  forall (rv : revision) (d : db) (index distance : Z) (conds : list cond) (b : bool),
    eval_conditions rv d index distance conds <> Finish b.
Proof. exact eval_conditions_not_finish. Qed.
Print Assumptions C18_conditions_never_finish.

(* ---- the positional filter ---- *)

Theorem C18_ifilter_def :
  forall p : Z -> Z -> bool,
    (forall k, ifilter p [] k = []) /\
    (forall i r k, ifilter p (i :: r) k = if p i k then i :: ifilter p r (k + 1) else ifilter p r (k + 1)).
Proof. exact ifilter_eqns. Qed.
Print Assumptions C18_ifilter_def.

(* With the default handler (no limit, no offset) the elements search examines every
   element of `elements (gr d)` exactly once, front to back, and returns exactly those
   the conditions accept — for every revision, every database and every condition list. *)
Theorem C18_elements_search_is_filter :
  forall (rv : revision) (d : db) (conds : list cond),
    elements_search rv d conds HDefault =
    ifilter (fun i k => sc_true (eval_conditions rv d i k conds)) (elements (gr d)) 0.
Proof. exact elements_search_default. Qed.
Print Assumptions C18_elements_search_is_filter.

(* exact membership: the element at position n is returned iff accepted at distance k + n *)
Theorem C18_ifilter_In :
  forall (p : Z -> Z -> bool) (els : list Z) (k i : Z),
    In i (ifilter p els k) <->
    exists n : nat, nth_error els n = Some i /\ p i (k + Z.of_nat n) = true.
Proof. exact ifilter_In. Qed.
Print Assumptions C18_ifilter_In.

(* nothing but listed elements is returned (so never a removed element, given the graph part) *)
Theorem C18_ifilter_incl :
  forall (p : Z -> Z -> bool) (els : list Z) (k i : Z), In i (ifilter p els k) -> In i els.
Proof. exact ifilter_incl. Qed.
Print Assumptions C18_ifilter_incl.

(* the result is an order-preserving sub-sequence of the element list *)
Theorem C18_ifilter_sublist :
  forall (p : Z -> Z -> bool) (els : list Z) (k : Z), sublist (ifilter p els k) els.
Proof. exact ifilter_sublist. Qed.
Print Assumptions C18_ifilter_sublist.

Theorem C18_ifilter_mask :
  forall (p : Z -> Z -> bool) (els : list Z) (k : Z),
    exists bs : list bool,
      length bs = length els /\ ifilter p els k = map fst (filter snd (combine els bs)).
Proof. exact ifilter_mask. Qed.
Print Assumptions C18_ifilter_mask.

(* each element at most once when the element list has no duplicates *)
Theorem C18_ifilter_NoDup :
  forall (p : Z -> Z -> bool) (els : list Z) (k : Z), NoDup els -> NoDup (ifilter p els k).
Proof. exact ifilter_NoDup. Qed.
Print Assumptions C18_ifilter_NoDup.

(* when the predicate ignores the distance the result is a plain filter *)
Theorem C18_ifilter_const :
  forall (p : Z -> Z -> bool) (els : list Z) (k : Z),
    (forall i k k', In i els -> p i k = p i k') ->
    ifilter p els k = filter (fun i => p i 0) els.
Proof. exact ifilter_const. Qed.
Print Assumptions C18_ifilter_const.

(* sub-sequences inherit membership, duplicate-freeness and any (strong) sortedness —
   to be combined with the graph part: `elements g` is strictly increasing in |id| *)
Theorem C18_sublist_In :
  forall (A : Type) (l1 l2 : list A), sublist l1 l2 -> forall x, In x l1 -> In x l2.
Proof. exact sublist_In. Qed.
Print Assumptions C18_sublist_In.

Theorem C18_sublist_NoDup :
  forall (A : Type) (l1 l2 : list A), sublist l1 l2 -> NoDup l2 -> NoDup l1.
Proof. exact sublist_NoDup. Qed.
Print Assumptions C18_sublist_NoDup.

Theorem C18_sublist_StronglySorted :
  forall (A : Type) (R : A -> A -> Prop) (l1 l2 : list A),
    sublist l1 l2 -> StronglySorted R l2 -> StronglySorted R l1.
Proof. exact sublist_StronglySorted. Qed.
Print Assumptions C18_sublist_StronglySorted.

(* ---- the query level (SearchQuery::search with the Elements algorithm) ---- *)

Theorem C18_search_elements_plain :
  forall (rv : revision) (d : db) (s : search_query),
    s_algorithm s = AElements -> s_limit s = 0 -> s_offset s = 0 -> s_order_by s = [] ->
    search rv d s =
    SOk (ifilter (fun i k => sc_true (eval_conditions rv d i k (s_conditions s))) (elements (gr d)) 0).
Proof. exact search_elements_plain. Qed.
Print Assumptions C18_search_elements_plain.

Theorem C18_zslice_def :
  forall (limit offset : Z) (l : list Z),
    zslice limit offset l =
    if limit =? 0 then skipn (Z.to_nat offset) l else firstn (Z.to_nat limit) (skipn (Z.to_nat offset) l).
Proof. exact zslice_eqn. Qed.
Print Assumptions C18_zslice_def.

(* limit/offset without order_by are applied on the fly by the Limit/Offset/LimitOffset
   handlers; the streamed result is the slice of the filtered list (limit and offset are u64
   in the code, hence non-negative) *)
Theorem C18_elements_search_limit_offset :
  forall (rv : revision) (d : db) (conds : list cond) (limit offset : Z),
    0 <= limit -> 0 <= offset ->
    elements_search rv d conds (handler_of limit offset) =
    zslice limit offset
      (ifilter (fun i k => sc_true (eval_conditions rv d i k conds)) (elements (gr d)) 0).
Proof. exact elements_search_stream. Qed.
Print Assumptions C18_elements_search_limit_offset.

Theorem C18_search_elements_unordered :
  forall (rv : revision) (d : db) (s : search_query),
    s_algorithm s = AElements -> s_order_by s = [] -> 0 <= s_limit s -> 0 <= s_offset s ->
    search rv d s =
    SOk (zslice (s_limit s) (s_offset s)
           (ifilter (fun i k => sc_true (eval_conditions rv d i k (s_conditions s))) (elements (gr d)) 0)).
Proof. exact search_elements_unordered. Qed.
Print Assumptions C18_search_elements_unordered.

(* with order_by: the whole filtered list is sorted (stable) and then sliced eagerly *)
Theorem C18_search_elements_ordered :
  forall (rv : revision) (d : db) (s : search_query),
    s_algorithm s = AElements -> s_order_by s <> [] ->
    search rv d s =
    slice_ids rv (s_limit s) (s_offset s)
      (stable_sort (order_cmp d (s_order_by s))
         (ifilter (fun i k => sc_true (eval_conditions rv d i k (s_conditions s))) (elements (gr d)) 0)).
Proof. exact search_elements_ordered. Qed.
Print Assumptions C18_search_elements_ordered.

(* the eager slice (with the clamp fix of SearchQuery::slice) is the same slice function *)
Theorem C18_slice_ids_is_zslice :
  forall (rv : revision) (limit offset : Z) (ids : list Z),
    fix_slice_clamp rv = true -> 0 <= limit -> 0 <= offset ->
    slice_ids rv limit offset ids = SOk (zslice limit offset ids).
Proof. exact slice_ids_clamp. Qed.
Print Assumptions C18_slice_ids_is_zslice.

(* ---- non-vacuity: a concrete history with a removal and slot reuse ----
   nodes 1 2 3, edges 1->2 (-4), 2->3 (-5), 3->3 (-6); node 2 is removed (edges -4 -5 go with
   it) and a new node reuses slot 2.  The conditions `distance < 2 or edge` keep 1 and 2 (by
   position), drop 3, keep -6; with limit 1 offset 1 the result is [2]; `edge_count > 1` keeps only
   node 3 (its self-loop counts on both sides).
   ex_node d = snd (insert_node_db d);  ex_edge d f t = the db after insert_edge_db d f t;
   ex_remove d id = fst (remove_id d id);  ex_query limit offset conds = the Elements query. *)
Example C18_nonvacuous :
  let d0 := ex_remove (ex_edge (ex_edge (ex_edge (ex_node (ex_node (ex_node db_new))) 1 2) 2 3) 3 3) 2 in
  let d := ex_node d0 in
  let conds := [Cond LAnd MNone (CDistance (KLessThan 2)); Cond LOr MNone CEdge] in
  elements (gr d0) = [1; 3; -6] /\
  elements (gr d) = [1; 2; 3; -6] /\
  forall rv,
    search rv d (ex_query 0 0 conds) = SOk [1; 2; -6] /\
    search rv d (ex_query 0 0 []) = SOk [1; 2; 3; -6] /\
    search rv d (ex_query 1 1 conds) = SOk [2] /\
    search rv d (ex_query 0 0 [Cond LAnd MNone (CEdgeCount (KGreaterThan 1))]) = SOk [3].
Proof. vm_compute. repeat split; reflexivity. Qed.
Print Assumptions C18_nonvacuous.

(* GRAPH PART (theories/GraphSpec.v, ElementsGraphProofs.v, GraphC08.v).
   `elements g` is the model of GraphIterator / next_element.  "existing element" is
   `graph_index g i = true` (DbImpl::graph_index: the sign of the id selects the node / edge check).
   The first six statements hold for EVERY graph value, by the definition of the iteration alone;
   C18_elements_abstract ties them to the abstract multigraph of C08 on every reachable graph. *)
From Agdb Require Import GraphArr GraphSim GraphProofs GraphSpec GraphC08 ElementsGraphProofs.

(* exactly the existing nodes and edges, with the sign of their kind *)
Theorem C18_elements_exact :
  forall (g : graph) (i : Z), In i (elements g) <-> graph_index g i = true.
Proof. exact elements_in. Qed.
Print Assumptions C18_elements_exact.

(* in strictly increasing magnitude of the ids (= slot order), hence each once *)
Theorem C18_elements_sorted :
  forall g : graph, StronglySorted (fun x y => Z.abs x < Z.abs y) (elements g).
Proof. exact elements_sorted. Qed.
Print Assumptions C18_elements_sorted.

Theorem C18_elements_nodup : forall g : graph, NoDup (elements g).
Proof. exact elements_nodup. Qed.
Print Assumptions C18_elements_nodup.

(* every existing element is visited at exactly one position, earlier positions have smaller |id| *)
Theorem C18_elements_once :
  forall (g : graph) (i : Z), graph_index g i = true ->
    exists n, nth_error (elements g) n = Some i /\ forall m, nth_error (elements g) m = Some i -> m = n.
Proof. exact elements_once. Qed.
Print Assumptions C18_elements_once.

Theorem C18_elements_order :
  forall (g : graph) (n m : nat) (x y : Z),
    (n < m)%nat -> nth_error (elements g) n = Some x -> nth_error (elements g) m = Some y -> Z.abs x < Z.abs y.
Proof. exact elements_order. Qed.
Print Assumptions C18_elements_order.

(* never a freed slot (from_meta < 0), never slot 0 or a slot beyond the arrays; nodes positive, edges negative *)
Theorem C18_elements_not_freed :
  forall (g : graph) (i : Z), In i (elements g) ->
    (0 <= fmeta g i /\ i <> 0 /\ Z.abs i < capacity g) /\
    ((0 < i /\ is_node g i = true) \/ (i < 0 /\ is_edge g i = true)).
Proof. exact elements_not_freed_sign. Qed.
Print Assumptions C18_elements_not_freed.

(* on every graph related to an abstract multigraph (C08: every graph reachable by a history of
   insertions and removals): exactly the abstract nodes and the abstract edge ids *)
Theorem C18_elements_abstract :
  forall g a fl i, sim g a fl -> (In i (elements g) <-> In i (a_nodes a) \/ In i (a_edge_ids a)).
Proof. exact elements_abstract. Qed.
Print Assumptions C18_elements_abstract.

(* the elements search (default handler): element i at position n is returned iff the conditions
   accept it at distance n; the result is an order-preserving selection of the iteration, hence in
   strictly increasing |id|, duplicate-free, and consists of existing elements only *)
Theorem C18_elements_search_result :
  forall (rv : revision) (d : db) (conds : list cond),
    let r := elements_search rv d conds HDefault in
    (forall i, In i r <-> exists n, nth_error (elements (gr d)) n = Some i /\
                                    sc_true (eval_conditions rv d i (Z.of_nat n) conds) = true) /\
    sublist r (elements (gr d)) /\
    StronglySorted (fun x y => Z.abs x < Z.abs y) r /\ NoDup r /\
    (forall i, In i r -> graph_index (gr d) i = true).
Proof. exact elements_search_result. Qed.
Print Assumptions C18_elements_search_result.

(* with any handler (limit / offset): only existing elements are ever returned — in particular
   never a removed one (C08_db_cascade: a removed element is no longer `graph_index`) *)
Theorem C18_elements_search_existing :
  forall (rv : revision) (d : db) (conds : list cond) (h : handler_kind) (i : Z),
    In i (elements_search rv d conds h) -> graph_index (gr d) i = true.
Proof. exact elements_search_existing. Qed.
Print Assumptions C18_elements_search_existing.
