(* C27 — At most one cluster leader per term.
   Pinned statements only; proofs live in theories/RaftProofs.v; the model is theories/Raft.v
   (transcription of agdb_server/src/raft.rs; `run size evs` = the cluster of `size` nodes after the
   adversary's event list: timer readings, deliveries, losses, duplications, client appends).

   FULL STATEMENT (false of the faithful model, see the two `_refuted` theorems):
     forall size evs, election_safety (c_hist (run size evs))
   i.e. under any interleaving of message delivery, loss, duplication and reordering and any timer
   expirations, no two cluster nodes are ever leaders for the same term. *)
From Coq Require Import NArith List.
From Agdb Require Import Raft RaftWitness RaftProofs.
Import ListNotations.
Open Scope N_scope.

(* the full statement is refuted: a concrete 11-event history of a 3-node cluster (corpus/C27/double_vote.txt,
   replayed on the implementation by every run of the check) has two leaders of term 1 *)
Theorem C27_refuted_double_vote : ~ (forall size evs, election_safety (c_hist (run size evs))).
Proof. exact C27_refuted_double_vote. Qed.
Print Assumptions C27_refuted_double_vote.

(* a second, independent cause: no node supports two candidates in one term, yet two leaders of one term
   (5 nodes, corpus/C27/stale_vote.txt): a candidate counts the Ok answer to a Vote request of an earlier term *)
Theorem C27_refuted_stale_vote :
  exists size evs, double_vote_b (c_hist (run size evs)) = false /\ ~ election_safety (c_hist (run size evs)).
Proof. exact C27_refuted_stale_vote. Qed.
Print Assumptions C27_refuted_stale_vote.
