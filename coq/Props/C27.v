(* C27 — At most one cluster leader per term.
   Pinned statements only; proofs live in theories/RaftProofs.v, RaftElect.v and RaftVote.v; the model is
   theories/Raft.v (transcription of agdb_server/src/raft.rs; `run rv size evs` = the cluster of `size` nodes after
   the adversary's event list: timer readings, deliveries, losses, duplications, client appends).

   The model carries the revision `rv : raftrev` of raft.rs (Raft.v):
     fix_vote_term  — vote_request adopts the request's term when it grants the vote,
     fix_vote_match — response() counts a Vote/Ok answer only if it answers a request of the candidate's current term,
     fix_ack_term   — a leader counts only acknowledgements of its current term (a repair of the log replication,
                      C28c / C29; irrelevant for elections: `C27_election_safety_any_ack_revision`);
   `rr_fixed` has all repairs, `rr_before_ack_fix` the two election repairs only, `rr_pinned` none (raft.rs as it was
   when the defects were found).  The check reads the source tree it runs against and compares the code with the
   model of THAT revision.

   FULL STATEMENT: forall size evs, election_safety (c_hist (run rv size evs))
   i.e. under any interleaving of message delivery, loss, duplication and reordering and any timer
   expirations, no two cluster nodes are ever leaders for the same term.
   * `rr_fixed` (and every revision with both election repairs): PROVED at full strength, `C27_election_safety` —
     every cluster size, every event list.
   * every revision lacking one of the two election repairs: machine-checked FALSE (`C27_refuted_*`); the two defect classes `double_vote_b` (a node
     supports two candidates, itself included, in one term) and `stale_vote_b` (a candidate counts the Ok answer to
     a Vote request of another term) are the recorded findings the two repairs remove. *)
From Coq Require Import NArith List.
From Agdb Require Import Raft RaftWitness RaftProofs RaftInv RaftElect RaftVote.
Import ListNotations.
Open Scope N_scope.

(* ------------------------------------------------------------------ the repaired revision: the full property *)

(* for EVERY cluster size (the one-node cluster included) and EVERY adversarial event list — delivery in any order,
   loss, duplication, arbitrary timer readings at every timer read, client appends — no two distinct nodes ever
   become Leader with the same term.
   Proof: inductive invariant over `run` on the ghost history of votes — a node's term never decreases and every
   support it gives (a granted vote or its own candidacy) is for a term above its term before and at most its term
   after, so it supports at most one candidate per term; every Leader of term t holds Ok answers to ITS Vote
   requests of term t from a majority; two majorities intersect (`C27_quorum_intersection`). *)
Theorem C27_election_safety : forall size evs, election_safety (c_hist (run rr_fixed size evs)).
Proof. exact election_safety_fixed. Qed.
Print Assumptions C27_election_safety.

(* the same for every revision with both election repairs, whatever the acknowledgement flag — in particular for
   `rr_before_ack_fix`, the code before the repair of `commit-without-quorum` *)
Theorem C27_election_safety_any_ack_revision : forall rv size evs,
  fix_vote_term rv = true -> fix_vote_match rv = true -> election_safety (c_hist (run rv size evs)).
Proof. exact election_safety_elect_fixed. Qed.
Print Assumptions C27_election_safety_any_ack_revision.

(* the three defect classes rooted in the election code never occur in the repaired revision: no node supports two
   candidates in one term, no candidate counts a vote of another term, no node acknowledges an Append/Heartbeat
   of a term below one it voted in (the class `ack-below-voted-term` of C28/C29 shares the root cause of
   `double-vote` and disappears with the same repair) *)
Theorem C27_fixed_no_election_classes : forall size evs,
  size <> 1 ->
  let h := c_hist (run rr_fixed size evs) in
  double_vote_b h = false /\ stale_vote_b h = false /\ ack_below_vote_b h = false.
Proof. exact fixed_no_election_classes. Qed.
Print Assumptions C27_fixed_no_election_classes.

(* non-vacuity: a run of the repaired revision that elects four leaders in four terms; the two event lists that
   produced two leaders of term 1 before the repairs (corpus/C27) now elect exactly one; a one-node cluster *)
Example C27_election_safety_nonvacuous :
  leaders (c_hist (run rr_fixed w29_old_term_commit_n w29_old_term_commit)) = [(0, 1); (2, 2); (0, 3); (2, 4)] /\
  leaders (c_hist (run rr_fixed w27_double_vote_n w27_double_vote)) = [(0, 1)] /\
  leaders (c_hist (run rr_fixed w27_stale_vote_n w27_stale_vote)) = [(2, 1)] /\
  leaders (c_hist (run rr_fixed 1 [ClientAppend 0 7; Tick 0 0 []])) = [(0, 1)].
Proof. exact election_fixed_example. Qed.
Print Assumptions C27_election_safety_nonvacuous.

(* ------------------------------------------------------------------ the revision before the repairs: refuted *)

(* a concrete 11-event history of a 3-node cluster (corpus/C27/double_vote.txt, replayed on the implementation by
   every run of the check) has two leaders of term 1 *)
Theorem C27_refuted_double_vote : ~ (forall size evs, election_safety (c_hist (run rr_pinned size evs))).
Proof. exact C27_refuted_double_vote. Qed.
Print Assumptions C27_refuted_double_vote.

(* a second, independent cause: no node supports two candidates in one term, yet two leaders of one term
   (5 nodes, corpus/C27/stale_vote.txt): a candidate counts the Ok answer to a Vote request of an earlier term *)
Theorem C27_refuted_stale_vote :
  exists size evs, double_vote_b (c_hist (run rr_pinned size evs)) = false /\
                   ~ election_safety (c_hist (run rr_pinned size evs)).
Proof. exact C27_refuted_stale_vote. Qed.
Print Assumptions C27_refuted_stale_vote.

(* both election repairs are needed: the property is false of every revision that lacks one of them (whatever the
   acknowledgement flag); together with `C27_election_safety_any_ack_revision`: the property holds of a revision iff
   it has both election repairs *)
Theorem C27_refuted_unless_both_repairs :
  forall rv, (fix_vote_term rv && fix_vote_match rv)%bool = false ->
             ~ (forall size evs, election_safety (c_hist (run rv size evs))).
Proof. exact C27_refuted_unless_both_repairs. Qed.
Print Assumptions C27_refuted_unless_both_repairs.

(* ------------------------------------------------------------------ every revision *)

(* two majorities of any universe of nodes share a member (any cluster size) *)
Theorem C27_quorum_intersection : forall (U A B : list N),
  NoDup A -> NoDup B -> incl A U -> incl B U ->
  (length U < 2 * length A)%nat -> (length U < 2 * length B)%nat ->
  exists x, In x A /\ In x B.
Proof. exact quorum_intersection. Qed.
Print Assumptions C27_quorum_intersection.

(* election safety, conditional form, for every revision, every cluster size (other than the degenerate one-node
   cluster) and EVERY adversarial event list whose history is outside the two classes.  Proof: invariant "every
   Leader of term t was supported for t by a majority" over `run`, then quorum intersection. *)
Theorem C27_partial : forall rv size evs,
  size <> 1 ->
  double_vote_b (c_hist (run rv size evs)) = false ->
  stale_vote_b (c_hist (run rv size evs)) = false ->
  election_safety (c_hist (run rv size evs)).
Proof. exact election_safety_partial. Qed.
Print Assumptions C27_partial.

(* non-vacuity: a run satisfying both hypotheses that elects four leaders in four terms *)
Example C27_partial_nonvacuous : forall rv,
  let h := c_hist (run rv w29_old_term_commit_n w29_old_term_commit) in
  double_vote_b h = false /\ stale_vote_b h = false /\ leaders h = [(0, 1); (2, 2); (0, 3); (2, 4)].
Proof. exact election_partial_example. Qed.
Print Assumptions C27_partial_nonvacuous.
