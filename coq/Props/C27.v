(* C27 — At most one cluster leader per term.
   Pinned statements only; proofs live in theories/RaftProofs.v and RaftElect.v; the model is theories/Raft.v
   (transcription of agdb_server/src/raft.rs; `run size evs` = the cluster of `size` nodes after the
   adversary's event list: timer readings, deliveries, losses, duplications, client appends).

   FULL STATEMENT (false of the faithful model, see the two `_refuted` theorems):
     forall size evs, election_safety (c_hist (run size evs))
   i.e. under any interleaving of message delivery, loss, duplication and reordering and any timer
   expirations, no two cluster nodes are ever leaders for the same term.
   PROVED INSTEAD: `C27_partial` — the statement for every history outside the two decidable defect classes
   `double_vote_b` (a node supports two candidates, itself included, in one term) and `stale_vote_b`
   (a candidate counts the Ok answer to a Vote request of another term); both classes are recorded findings. *)
From Coq Require Import NArith List.
From Agdb Require Import Raft RaftWitness RaftProofs RaftInv RaftElect.
Import ListNotations.
Open Scope N_scope.

(* the full statement is refuted: a concrete 11-event history of a 3-node cluster (corpus/C27/double_vote.txt,
   replayed on the implementation by every run of the check) has two leaders of term 1 *)
Theorem C27_refuted_double_vote : ~ (forall size evs, election_safety (c_hist (run size evs))).
Proof. exact C27_refuted_double_vote. Qed.
Print Assumptions C27_refuted_double_vote.

(* a second, independent cause: no node supports two candidates in one term, yet two leaders of one term
   (5 nodes, corpus/C27/stale_vote.txt): a candidate counts the Ok answer to a Vote request of an earlier term *)
Theorem C27_refuted_stale_vote :
  exists size evs, double_vote_b (c_hist (run size evs)) = false /\ ~ election_safety (c_hist (run size evs)).
Proof. exact C27_refuted_stale_vote. Qed.
Print Assumptions C27_refuted_stale_vote.

(* two majorities of any universe of nodes share a member (any cluster size) *)
Theorem C27_quorum_intersection : forall (U A B : list N),
  NoDup A -> NoDup B -> incl A U -> incl B U ->
  (length U < 2 * length A)%nat -> (length U < 2 * length B)%nat ->
  exists x, In x A /\ In x B.
Proof. exact quorum_intersection. Qed.
Print Assumptions C27_quorum_intersection.

(* election safety for every cluster size (other than the degenerate one-node cluster) and EVERY adversarial
   event list whose history is outside the two known classes.  Proof: invariant "every Leader of term t was
   supported for t by a majority" over `run`, then quorum intersection. *)
Theorem C27_partial : forall size evs,
  size <> 1 ->
  double_vote_b (c_hist (run size evs)) = false ->
  stale_vote_b (c_hist (run size evs)) = false ->
  election_safety (c_hist (run size evs)).
Proof. exact election_safety_partial. Qed.
Print Assumptions C27_partial.

(* non-vacuity: a run satisfying both hypotheses that elects four leaders in four terms *)
Example C27_partial_nonvacuous :
  let h := c_hist (run w29_old_term_commit_n w29_old_term_commit) in
  double_vote_b h = false /\ stale_vote_b h = false /\ leaders h = [(0, 1); (2, 2); (0, 3); (2, 4)].
Proof. exact election_partial_example. Qed.
Print Assumptions C27_partial_nonvacuous.
