(* C22 — User types stored with the derive macros read back unchanged.
   Pinned statements only; proofs in theories/DeriveTypeProofs.v, the model in theories/DeriveType.v:
   struct descriptions (plain / Option / #[agdb(flatten)] / #[agdb(skip)] / db_id fields, rename = the
   description carries the stored key), DbType::to_db_values (`to_values`), DbType::from_db_element
   (`from_element`), DbType::db_keys (`db_keys`), the From / TryFrom<DbValue> tables (`to_dbvalue`,
   `from_dbvalue`; custom value types through the C20 codec).  f32 / Vec<f32> are not modelled. *)
From Agdb Require Import Bytes Utf8 Codec DbValue Graph DbModel Search Queries DeriveType DeriveTypeProofs.
From Agdb Require DbInvProofs.
Open Scope N_scope.

(* Conversions, every kind: converting the value of a field to a DbValue and back gives the value —
   checked narrowing (u32, i32, Vec<i32>, Vec<u32>) succeeds on widened values, bool and Vec<bool> come back
   from 0/1, a custom value type comes back from Bytes(serialize(v)), a vector of custom values from the
   serialized Vec<DbValue> and the EMPTY vector from Bytes([]) — for both build profiles. *)
Theorem C22_conversion_roundtrip :
  forall (p : profile) (k : fkind) (v : fval), fval_ok k v = true -> from_dbvalue p k (to_dbvalue v) = Ok v.
Proof. exact conv_roundtrip. Qed.
Print Assumptions C22_conversion_roundtrip.

(* The round trip, full strength: for every description whose stored keys are distinct (also through
   flatten) and every well-typed value, from_db_element on ANY pair list that answers the lookups of the
   struct's keys like the list of to_db_values does — extra unrelated pairs anywhere, any order that keeps the
   first occurrence of each of the struct's keys — is Ok of the value with db_id := Some(id) (`norm`; skipped
   fields are the unit value SSkip on both sides = "defaulted"). *)
Theorem C22_roundtrip :
  forall (p : profile) (id : Z) (fs : list fdesc) (l : list sval) (stored : list kv),
    NoDup (names fs) -> svals_ok fs l = true ->
    (forall n, In n (names fs) -> find_key n stored = find_key n (fields_values fs l)) ->
    from_element p id stored fs = Ok (norm id l).
Proof. exact roundtrip_lookup. Qed.
Print Assumptions C22_roundtrip.

(* instance: exactly what insert().element(&v) stores (with the "db_element_id" pair of a
   #[derive(DbElement)] type, provided no field is stored under that key) *)
Theorem C22_roundtrip_stored :
  forall (p : profile) (id : Z) (element : option bytes) (fs : list fdesc) (l : list sval),
    NoDup (names fs) -> svals_ok fs l = true ->
    (element = None \/ ~ In element_id_key (names fs)) ->
    from_element p id (to_values element fs l) fs = Ok (norm id l).
Proof. exact roundtrip. Qed.
Print Assumptions C22_roundtrip_stored.

(* instance: the struct's pairs between unrelated pairs of the same element *)
Theorem C22_roundtrip_in_context :
  forall (p : profile) (id : Z) (fs : list fdesc) (l : list sval) (pre post : list kv),
    NoDup (names fs) -> svals_ok fs l = true ->
    (forall n, In n (names fs) -> find_key n pre = None /\ find_key n post = None) ->
    from_element p id (pre ++ fields_values fs l ++ post) fs = Ok (norm id l).
Proof. exact roundtrip_context. Qed.
Print Assumptions C22_roundtrip_in_context.

(* Update through db_id, on the validated database model (theories/Queries.v), every revision:
   `insert().element(&v)` with db_id = Some(id) is InsertValuesQuery { ids: [id], values: Multi([to_db_values(v)]) }
   (query_builder/insert.rs).  On an existing element it succeeds, reports the number of pairs, returns no new
   element, leaves the graph and the aliases as they are, leaves the key-value list of EVERY other element as it is,
   and the element's own list is the insert-or-replace per key of the new pairs (a key already present keeps its
   position, a new key is appended, keys the value does not store — None options — keep their old pair). *)
Theorem C22_update_by_id :
  forall (rv : revision) (d : db) (id : Z) (kvs : list kv),
    graph_index (gr d) id = true ->
    exists d', exec rv d (InsertValues (Ids [QId id]) (Multi [kvs])) = (d', QOk (lenZ kvs) []) /\
      gr d' = gr d /\ aliases d' = aliases d /\
      (forall j, Z.abs id <> Z.abs j -> kvs_get (vals d') j = kvs_get (vals d) j) /\
      kvs_get (vals d') id = upsert_pairs (kvs_get (vals d) id) kvs.
Proof. exact update_by_id. Qed.
Print Assumptions C22_update_by_id.

(* "Selecting it back as that type": select().elements::<T>().ids(id) is SelectValuesQuery { keys: T::db_keys(), ids }
   (`select_pairs` = Queries.select_values on the element's pairs: [] = all pairs, otherwise the requested pairs in
   request order by DbModel.kvs_values_by_keys, NotFound if a key is missing), followed by from_db_element.  With the
   repaired db_keys (fixed = true = /repo after fix: 61eb706) the selection succeeds and the value reads back — for every
   description with distinct keys, every well-typed value and every stored pair list with the right lookups. *)
Theorem C22_select_roundtrip :
  forall (p : profile) (id : Z) (fs : list fdesc) (l : list sval) (stored : list kv),
    NoDup (names fs) -> svals_ok fs l = true ->
    (forall n, In n (names fs) -> find_key n stored = find_key n (fields_values fs l)) ->
    exists sel, select_pairs (db_keys true fs) stored = Ok sel /\ from_element p id sel fs = Ok (norm id l).
Proof. exact select_roundtrip. Qed.
Print Assumptions C22_select_roundtrip.

(* `select_pairs` is not a re-description: it IS the select query of the validated database model
   (Transaction::exec(SelectValuesQuery { keys, ids: [id] }) = Queries.exec_select) applied to an existing element. *)
Theorem C22_select_is_query :
  forall (rv : revision) (d : db) (id : Z) (keys : list bytes),
    graph_index (gr d) id = true ->
    exec_select rv d (SelectValues (map DString keys) (Ids [QId id])) =
    match select_pairs keys (kvs_get (vals d) id) with
    | Ok sel => QOk 1 [elem d id sel]
    | _ => QErr ENotFound
    end.
Proof. exact select_is_query. Qed.
Print Assumptions C22_select_is_query.

(* The property's first sentence, end to end on the validated database model, for every revision and every database
   state satisfying the C08-C11 state invariant (DbInvProofs.Inv: reachable states): `insert().element(&v)` with
   db_id = None is InsertValuesQuery { ids: [Id(0)], values: Multi([to_db_values(v)]) }; it creates a new node `id`
   whose pairs are exactly to_db_values(v) (a reused slot starts empty), and select().elements::<T>().ids(id) on the
   resulting database followed by from_db_element is Ok of the value with db_id := Some(id). *)
Theorem C22_insert_select_roundtrip :
  forall (rv : revision) (p : profile) (d : db) (element : option bytes) (fs : list fdesc) (l : list sval),
    DbInvProofs.Inv d ->
    NoDup (names fs) -> svals_ok fs l = true -> (element = None \/ ~ In element_id_key (names fs)) ->
    let kvs := to_values element fs l in
    exists id d1,
      exec rv d (InsertValues (Ids [QId 0]) (Multi [kvs])) = (d1, QOk (lenZ kvs) [elem d1 id []]) /\
      graph_index (gr d1) id = true /\ kvs_get (vals d1) id = kvs /\
      exists sel,
        exec_select rv d1 (SelectValues (map DString (db_keys true fs)) (Ids [QId id])) = QOk 1 [elem d1 id sel] /\
        from_element p id sel fs = Ok (norm id l).
Proof. exact insert_select_roundtrip. Qed.
Print Assumptions C22_insert_select_roundtrip.

(* The defect found by the check and repaired (known_findings.txt `fixed: property=C22 61eb706`): with the PINNED macro
   (fixed = false) a type without an own Option field that flattens a struct with one asks for too few keys — the
   flattened required field is missing (error), an all-optional flattened struct silently reads back as None; with the
   repaired db_keys (fixes/C22-flatten-option-keys.diff) both values read back. *)
Theorem C22_flatten_option_keys_pinned_refuted :
  db_keys false w_fs = [[x74]] /\ select_then_read false w_fs w_val = Err /\
  db_keys false w2_fs = [[x6b]] /\ select_then_read false w2_fs w2_val = Ok [SPlain (FU64 1); SFlat [SOpt None]] /\
  db_keys true w_fs = [] /\ select_then_read true w_fs w_val = Ok (norm 1 w_val) /\
  db_keys true w2_fs = [] /\ select_then_read true w2_fs w2_val = Ok (norm 1 w2_val).
Proof. exact keys_pinned_refuted. Qed.
Print Assumptions C22_flatten_option_keys_pinned_refuted.

(* non-vacuity: a #[derive(DbElement)] type with db_id, u32, renamed String, Vec<String>, a None option, Vec<bool>,
   a custom value, a vector of two custom values, an EMPTY vector of custom values, a skipped field and a flattened
   struct with an f64 (a NaN pattern) and a Some(Vec<u8>) option: hypotheses hold, 10 pairs are stored, the value
   reads back from them and from a reordered list with foreign pairs in front *)
Example C22_nonvacuous :
  NoDup (names ex_fs) /\ svals_ok ex_fs ex_val = true /\ ~ In element_id_key (names ex_fs) /\
  length (to_values (Some [x45]) ex_fs ex_val) = 10%nat /\
  from_element Release 5 (to_values (Some [x45]) ex_fs ex_val) ex_fs = Ok (norm 5 ex_val) /\
  from_element Debug 5 ((DI64 1, DU64 1) :: (DString [x7a; x7a], DI64 0) :: rev (to_values (Some [x45]) ex_fs ex_val)) ex_fs
    = Ok (norm 5 ex_val).
Proof. exact example_roundtrip. Qed.
Print Assumptions C22_nonvacuous.

Example C22_update_nonvacuous :
  upsert_pairs [(DString [x6e], DU64 1); (DI64 9, DI64 9); (DString [x6f], DI64 (-3))]
               (to_values None [DId true; DPlain [x6e] KU32; DOpt [x6f] KI32; DPlain [x7a] KBool]
                          [SId (Some 4%Z); SPlain (FU32 2); SOpt None; SPlain (FBool true)])
  = [(DString [x6e], DU64 2); (DI64 9, DI64 9); (DString [x6f], DI64 (-3)); (DString [x7a], DU64 1)].
Proof. exact example_update. Qed.
Print Assumptions C22_update_nonvacuous.
