(* C30 — A healthy cluster elects a leader and replicates appended entries.
   Pinned statements only; proofs in theories/RaftLive.v, RaftLiveInd.v, RaftLiveInd3.v, RaftLiveInd5.v, RaftLiveAll.v, RaftLiveAll3.v; model theories/Raft.v.

   FULL STATEMENT: when all messages are delivered and timers fire as configured, a cluster (any size, any
   fault-free interleaving, any number of appended entries) elects exactly one leader, and every entry appended
   at the leader is eventually present and committed on every node.
   `rv : raftrev` is the revision of the election code (Raft.v: before / after each of the two election repairs of
   C27); every statement below holds for every revision, so in particular for the one the source tree has.
   PROVED (partial with respect to the full statement — cluster sizes and schedules are restricted as written in
   each statement; nothing is claimed for other sizes):
   * 3 nodes, EVERY fault-free interleaving of the schedule `script3` (two appends);
   * 3 and 5 nodes, oldest-first delivery, two appends;
   * 3 and 5 nodes, oldest-first (FIFO) delivery, ANY number of appended entries with any payloads
     (`C30_fifo_unbounded_3_partial` / `_5_partial`, induction over the payload list; second half of this file);
   * 3 nodes, EVERY per-channel-FIFO interleaving (messages of one pair of nodes in order, different pairs race),
     ANY number of appended entries (`C30_channel_fifo_unbounded_3_partial`; last part of this file). *)
From Coq Require Import NArith List.
From Agdb Require Import Raft RaftProofs RaftLive RaftLiveInd RaftLiveInd3 RaftLiveInd5 RaftLiveAll RaftLiveAll3.
Import ListNotations.
Open Scope N_scope.

(* `ff_run script c c'`: the scripted actions (node 0's election timer — its configured first election timeout is
   0 ms —, two client appends at the leader, a heartbeat round) happen one after the other; after each of them the
   messages in flight are delivered in ANY order, none lost or duplicated, until none is left.
   Every such run of a 3-node cluster ends with exactly one leader, the other nodes its followers, every log
   equal to the appended entries [101; 102] and committed on every node.
   (Reflective exhaustive exploration with a proved soundness lemma; 37800 interleavings for the election alone.) *)
Theorem C30_all_interleavings_3_partial : forall rv c',
  ff_run rv [Tick 0 0 []; ClientAppend 0 101; ClientAppend 0 102; Tick 0 1001 [1; 2]] (init_default 3) c' ->
  all_synced_b c' [101; 102] = true.
Proof. exact C30_all_interleavings_3. Qed.
Print Assumptions C30_all_interleavings_3_partial.

(* the relation is inhabited (the oldest-first run is one of its runs) *)
Example C30_nonvacuous : forall rv, exists c',
  ff_run rv [Tick 0 0 []; ClientAppend 0 101; ClientAppend 0 102; Tick 0 1001 [1; 2]] (init_default 3) c' /\
  all_synced_b c' [101; 102] = true.
Proof. exact C30_nonvacuous. Qed.
Print Assumptions C30_nonvacuous.

(* configured timers, oldest-first delivery, two appended entries: the cluster of 3 (resp. 5) nodes becomes
   quiescent with exactly one leader, all logs equal and committed everywhere; one leader per term throughout *)
Theorem C30_fifo_3_partial : forall rv,
  let c := healthy rv 3 [101; 102] in
  c_net c = [] /\ all_synced_b c [101; 102] = true /\ election_safety_b (c_hist c) = true.
Proof. exact C30_fifo_3. Qed.
Print Assumptions C30_fifo_3_partial.

Theorem C30_fifo_5_partial : forall rv,
  let c := healthy rv 5 [101; 102] in
  c_net c = [] /\ all_synced_b c [101; 102] = true /\ election_safety_b (c_hist c) = true.
Proof. exact C30_fifo_5. Qed.
Print Assumptions C30_fifo_5_partial.

(* ================================================================== any number of appended entries (FIFO schedule)

   `fifo_drain rv c c'`: the OLDEST message in flight is delivered (`Deliver 0 0`: no timer has expired at the
   receiver) again and again until the network is empty — a relation, no fuel, no bound; it is deterministic.
   `fifo_run rv actions c c'`: the scripted actions happen one after the other, each followed by `fifo_drain`.
   `live_actions size payloads` = node 0's election timer fires (configured first election timeout 0 ms); then one
   `ClientAppend 0 d` per payload d; then one heartbeat round (`Tick 0 1001 peers`: all heartbeat timers of node 0 due).
   This is the order in which the real server delivers (one queue per peer, the sender awaits each answer).

   For EVERY revision of the election code, EVERY list of payloads (any length) and the state c' in which that run
   ends: nothing is in flight, node 0 is the only leader and every other node its follower, every node is in term 1,
   every node's log is exactly the payloads in order (entry i has index i and term 1) and every node's commit index
   is the number of payloads; hence the goal predicate of the bounded statements above holds too.
   Proof: induction over the payloads with the steady state `ss_gen size k pt L` (all logs = L with k entries, all
   commit indices = k, the leader's table holds (k, pt, k) for every node); one append round from the steady state
   with a symbolic k / L / payload is evaluated symbolically (8 deliveries for 3 nodes, 16 for 5): the leader commits
   on the acknowledgement that completes the quorum and the heartbeats it then sends carry the new commit index to
   the followers within the same round.
   NOT covered (hence `_partial` with respect to the full statement): other cluster sizes (the round lemmas are
   proved per size, not for a symbolic size), other schedules for more than two appends, appends issued while
   messages are still in flight. *)
Theorem C30_fifo_unbounded_3_partial : forall rv payloads c',
  fifo_run rv (live_actions 3 payloads) (init_default 3) c' ->
  c_net c' = [] /\
  map n_state (c_nodes c') = [Leader; Follower 0; Follower 0] /\
  Forall (fun nd => n_term nd = 1 /\ n_logs nd = mk_log 1 0 payloads /\ n_commit nd = lenN payloads) (c_nodes c') /\
  all_synced_b c' payloads = true.
Proof. exact C30_fifo_unbounded_3_proof. Qed.
Print Assumptions C30_fifo_unbounded_3_partial.

Theorem C30_fifo_unbounded_5_partial : forall rv payloads c',
  fifo_run rv (live_actions 5 payloads) (init_default 5) c' ->
  c_net c' = [] /\
  map n_state (c_nodes c') = [Leader; Follower 0; Follower 0; Follower 0; Follower 0] /\
  Forall (fun nd => n_term nd = 1 /\ n_logs nd = mk_log 1 0 payloads /\ n_commit nd = lenN payloads) (c_nodes c') /\
  all_synced_b c' payloads = true.
Proof. exact C30_fifo_unbounded_5_proof. Qed.
Print Assumptions C30_fifo_unbounded_5_partial.

(* such a run exists for every payload list, and it is the run of ONE event list of the model:
   `live_script fe fa fh size payloads` = Tick 0 0 [], fe deliveries of the oldest message, then per payload
   ClientAppend 0 d and fa deliveries, then the heartbeat Tick and fh deliveries (12/8/4 for 3 nodes, 24/16/8 for 5) *)
Theorem C30_fifo_unbounded_3_run : forall rv payloads,
  fifo_run rv (live_actions 3 payloads) (init_default 3) (run rv 3 (live_script 12 8 4 3 payloads)).
Proof. exact live_fifo_script_3. Qed.
Print Assumptions C30_fifo_unbounded_3_run.

Theorem C30_fifo_unbounded_5_run : forall rv payloads,
  fifo_run rv (live_actions 5 payloads) (init_default 5) (run rv 5 (live_script 24 16 8 5 payloads)).
Proof. exact live_fifo_script_5. Qed.
Print Assumptions C30_fifo_unbounded_5_run.

(* the FIFO runs are among the fault-free runs `ff_run` of the first half of this file *)
Theorem C30_fifo_is_fault_free : forall rv actions c c', fifo_run rv actions c c' -> ff_run rv actions c c'.
Proof. exact fifo_run_ff. Qed.
Print Assumptions C30_fifo_is_fault_free.

(* with the repaired election code (the code in /repo) at most one leader per term at every moment of these runs
   (the full C27 theorem applied to the event list of the run) *)
Theorem C30_fifo_election_safety : forall size actions c',
  fifo_run rr_fixed actions (init_default size) c' -> election_safety (c_hist c').
Proof. exact fifo_run_election_safety. Qed.
Print Assumptions C30_fifo_election_safety.

(* non-vacuity: for three payloads the run exists, and evaluating its event list gives what the theorem says *)
Example C30_fifo_unbounded_3_example :
  let c := run rr_fixed 3 (live_script 12 8 4 3 [7; 8; 9]) in
  fifo_run rr_fixed (live_actions 3 [7; 8; 9]) (init_default 3) c /\
  c_net c = [] /\
  map n_state (c_nodes c) = [Leader; Follower 0; Follower 0] /\
  map n_logs (c_nodes c) = repeat [mkEntry 1 1 7; mkEntry 2 1 8; mkEntry 3 1 9] 3 /\
  map n_commit (c_nodes c) = [3; 3; 3] /\
  all_synced_b c [7; 8; 9] = true.
Proof. split; [exact (live_fifo_script_3 rr_fixed [7; 8; 9]) | vm_compute; repeat split; reflexivity]. Qed.
Print Assumptions C30_fifo_unbounded_3_example.

Example C30_fifo_unbounded_5_example :
  let c := run rr_fixed 5 (live_script 24 16 8 5 [7; 8; 9]) in
  fifo_run rr_fixed (live_actions 5 [7; 8; 9]) (init_default 5) c /\
  c_net c = [] /\
  map n_state (c_nodes c) = [Leader; Follower 0; Follower 0; Follower 0; Follower 0] /\
  map n_logs (c_nodes c) = repeat [mkEntry 1 1 7; mkEntry 2 1 8; mkEntry 3 1 9] 5 /\
  map n_commit (c_nodes c) = [3; 3; 3; 3; 3] /\
  all_synced_b c [7; 8; 9] = true.
Proof. split; [exact (live_fifo_script_5 rr_fixed [7; 8; 9]) | vm_compute; repeat split; reflexivity]. Qed.
Print Assumptions C30_fifo_unbounded_5_example.

(* ================================================================== any number of appended entries, every
   per-channel-FIFO interleaving (3 nodes)

   `pf_run rv c c'` (RaftLiveAll.v): again and again ANY in-flight message is delivered that has no older in-flight
   message of the same channel in front of it (channel = the pair (sender, receiver) of the request; a response
   belongs to the channel of the request it answers), until the network is empty; nothing is lost or duplicated;
   `Deliver k 0`: no timer has expired at the receiver.  This is what the server's transport gives: one ordered
   connection per peer, deliveries to different peers race.  `pff_run rv actions c c'`: the scripted actions one after
   the other, each followed by `pf_run`.
   For EVERY revision of the election code, EVERY payload list (any length) and EVERY such run of a 3-node cluster:
   the same conclusion as `C30_fifo_unbounded_3_partial`.
   Proof: induction over the payloads; the steady state is generalised over the fields no handler reads (they are
   where the interleavings differ); the election round is covered by the reflective exploration of ALL interleavings
   on the concrete initial state, the heartbeat round by a symbolic exploration of ALL interleavings, an append round
   (symbolic k, log, payload) by a symbolic exploration of all per-channel-FIFO interleavings (tactic `explore_p`: a
   depth-first walk of the graph of symbolic states with the states already proved kept as hypotheses).
   NOT covered (hence `_partial`): 5 and more nodes; interleavings in which a message overtakes an older one of its
   own channel during an APPEND round (for two appends they are covered by C30_all_interleavings_3_partial; for a
   symbolic round the same exploration proves it — 214 symbolic states, about 5 minutes — and was left out to keep
   every file under 2 minutes); appends issued while messages are in flight. *)
Theorem C30_channel_fifo_unbounded_3_partial : forall rv payloads c',
  pff_run rv (live_actions 3 payloads) (init_default 3) c' ->
  c_net c' = [] /\
  map n_state (c_nodes c') = [Leader; Follower 0; Follower 0] /\
  Forall (fun nd => n_term nd = 1 /\ n_logs nd = mk_log 1 0 payloads /\ n_commit nd = lenN payloads) (c_nodes c') /\
  all_synced_b c' payloads = true.
Proof. exact C30_pf_unbounded_3_proof. Qed.
Print Assumptions C30_channel_fifo_unbounded_3_partial.

(* the relations are nested: oldest-first ⊆ per-channel FIFO ⊆ any order *)
Theorem C30_schedules_nested : forall rv c c',
  (fifo_drain rv c c' -> pf_run rv c c') /\ (pf_run rv c c' -> dl_run rv c c').
Proof. intros rv c c'. split; [apply fifo_drain_pf | apply pf_run_dl]. Qed.
Print Assumptions C30_schedules_nested.

(* non-vacuity: for every payload list the oldest-first run is one of these runs; and a run that is NOT oldest-first
   (the second follower's append is delivered and acknowledged before the first follower's) is another one, for which
   evaluation gives what the theorem says *)
Example C30_channel_fifo_inhabited : forall rv payloads,
  pff_run rv (live_actions 3 payloads) (init_default 3) (run rv 3 (live_script 12 8 4 3 payloads)).
Proof. exact live_pf_3_inhabited. Qed.
Print Assumptions C30_channel_fifo_inhabited.

Example C30_channel_fifo_example :
  let c0 := step rr_fixed (run rr_fixed 3 (Tick 0 0 [] :: repeat (Deliver 0 0) 12)) (ClientAppend 0 7) in
  let c2 := run_from rr_fixed c0 (map (fun k => Deliver k 0) [1; 1; 0; 0; 1; 0; 1; 0]%nat) in
  pf_run rr_fixed c0 c2 /\
  c_net c2 = [] /\ map n_logs (c_nodes c2) = repeat [mkEntry 1 1 7] 3 /\ map n_commit (c_nodes c2) = [1; 1; 1].
Proof.
  intros c0 c2. split; [|vm_compute; repeat split; reflexivity].
  subst c2. apply pf_check_sound. vm_compute. reflexivity.
Qed.
Print Assumptions C30_channel_fifo_example.
