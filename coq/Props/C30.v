(* C30 — A healthy cluster elects a leader and replicates appended entries.
   Pinned statements only; proofs in theories/RaftLive.v; model theories/Raft.v.

   FULL STATEMENT: when all messages are delivered and timers fire as configured, a cluster (any size, any
   fault-free interleaving, any number of appended entries) elects exactly one leader, and every entry appended
   at the leader is eventually present and committed on every node.
   PROVED (partial): the statements below, for the cluster sizes and schedules written in them. *)
From Coq Require Import NArith List.
From Agdb Require Import Raft RaftProofs RaftLive.
Import ListNotations.
Open Scope N_scope.

(* configured timers (node 0's first election timeout is 0 ms), oldest-first delivery, two appended entries:
   the cluster of 3 (resp. 5) nodes becomes quiescent with exactly one leader, every other node its follower,
   all logs equal to the appended entries and committed everywhere; one leader per term throughout *)
Theorem C30_fifo_3_partial :
  let c := healthy 3 [101; 102] in
  c_net c = [] /\ all_synced_b c [101; 102] = true /\ election_safety_b (c_hist c) = true.
Proof. exact C30_fifo_3. Qed.
Print Assumptions C30_fifo_3_partial.

Theorem C30_fifo_5_partial :
  let c := healthy 5 [101; 102] in
  c_net c = [] /\ all_synced_b c [101; 102] = true /\ election_safety_b (c_hist c) = true.
Proof. exact C30_fifo_5. Qed.
Print Assumptions C30_fifo_5_partial.
