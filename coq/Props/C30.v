(* C30 — A healthy cluster elects a leader and replicates appended entries.
   Pinned statements only; proofs in theories/RaftLive.v; model theories/Raft.v.

   FULL STATEMENT: when all messages are delivered and timers fire as configured, a cluster (any size, any
   fault-free interleaving, any number of appended entries) elects exactly one leader, and every entry appended
   at the leader is eventually present and committed on every node.
   `rv : raftrev` is the revision of the election code (Raft.v: before / after each of the two election repairs of
   C27); every statement below holds for every revision, so in particular for the one the source tree has.
   PROVED (partial — the cluster size, the schedule and the number of appended entries are bounded as written
   in each statement; nothing is claimed for other sizes or for arbitrarily many appends):
   * 3 nodes, EVERY fault-free interleaving of the schedule `script3`;
   * 3 and 5 nodes, oldest-first delivery. *)
From Coq Require Import NArith List.
From Agdb Require Import Raft RaftProofs RaftLive.
Import ListNotations.
Open Scope N_scope.

(* `ff_run script c c'`: the scripted actions (node 0's election timer — its configured first election timeout is
   0 ms —, two client appends at the leader, a heartbeat round) happen one after the other; after each of them the
   messages in flight are delivered in ANY order, none lost or duplicated, until none is left.
   Every such run of a 3-node cluster ends with exactly one leader, the other nodes its followers, every log
   equal to the appended entries [101; 102] and committed on every node.
   (Reflective exhaustive exploration with a proved soundness lemma; 37800 interleavings for the election alone.) *)
Theorem C30_all_interleavings_3_partial : forall rv c',
  ff_run rv [Tick 0 0 []; ClientAppend 0 101; ClientAppend 0 102; Tick 0 1001 [1; 2]] (init_default 3) c' ->
  all_synced_b c' [101; 102] = true.
Proof. exact C30_all_interleavings_3. Qed.
Print Assumptions C30_all_interleavings_3_partial.

(* the relation is inhabited (the oldest-first run is one of its runs) *)
Example C30_nonvacuous : forall rv, exists c',
  ff_run rv [Tick 0 0 []; ClientAppend 0 101; ClientAppend 0 102; Tick 0 1001 [1; 2]] (init_default 3) c' /\
  all_synced_b c' [101; 102] = true.
Proof. exact C30_nonvacuous. Qed.
Print Assumptions C30_nonvacuous.

(* configured timers, oldest-first delivery, two appended entries: the cluster of 3 (resp. 5) nodes becomes
   quiescent with exactly one leader, all logs equal and committed everywhere; one leader per term throughout *)
Theorem C30_fifo_3_partial : forall rv,
  let c := healthy rv 3 [101; 102] in
  c_net c = [] /\ all_synced_b c [101; 102] = true /\ election_safety_b (c_hist c) = true.
Proof. exact C30_fifo_3. Qed.
Print Assumptions C30_fifo_3_partial.

Theorem C30_fifo_5_partial : forall rv,
  let c := healthy rv 5 [101; 102] in
  c_net c = [] /\ all_synced_b c [101; 102] = true /\ election_safety_b (c_hist c) = true.
Proof. exact C30_fifo_5. Qed.
Print Assumptions C30_fifo_5_partial.
