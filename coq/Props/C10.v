(* C10 — Aliases form a one-to-one mapping onto existing nodes.
   Pinned statements only; proofs live in theories/ImapProofs.v, AliasProofs.v, AliasQueryProofs.v.

   Vocabulary (theories/DbModel.v): the alias map is `imap` = the two association lists k2v / v2k of
   IndexedMapImpl<String, DbId>; `imap_value m a` resolves alias a, `imap_key m id` gives the alias of id.
     bij m          : the two directions are inverse to each other and list no key twice
     imap_equiv m m': m and m' answer every lookup (both directions) alike
     alias_bij d    : bij (aliases d)
     alias_nodes d  : every aliased id is positive and `is_node (gr d) id = true`. *)
From Agdb Require Import Bytes DbValue Graph DbModel Search Queries Revisions
  ImapProofs AliasProofs QStepProofs AliasQueryProofs AliasRollbackProofs
  DbInvProofs QueryInvProofs SearchLiveProofs HistoryInvProofs HistoryExamples EmptyAliasProofs.
Open Scope Z_scope.

(* ---- the map is a bijection at all times (IndexedMap level: every sequence of insert / remove_key) ---- *)
Theorem C10_bijection :
  bij imap_empty /\
  (forall m a id, bij m -> bij (imap_insert m a id)) /\
  (forall m a, bij m -> bij (imap_remove_key m a)).
Proof. exact (conj bij_empty (conj bij_imap_insert bij_imap_remove_key)). Qed.
Print Assumptions C10_bijection.

(* each alias names at most one id (a function) and each id carries at most one alias *)
Theorem C10_one_to_one :
  forall m a b id, bij m -> imap_value m a = Some id -> imap_value m b = Some id -> a = b.
Proof. exact bij_injective. Qed.
Print Assumptions C10_one_to_one.

(* inserting alias a for id: a |-> id, the previous alias of id and the previous holder of a are
   unmapped, everything else is unchanged *)
Theorem C10_insert_semantics :
  forall m a id, bij m ->
  let m' := imap_insert m a id in
  imap_value m' a = Some id /\ imap_key m' id = Some a /\
  (forall x, x <> a ->
     imap_value m' x = match imap_key m id with
                       | Some k => if bytes_eqb k x then None else imap_value m x
                       | None => imap_value m x
                       end) /\
  (forall y, y <> id ->
     imap_key m' y = match imap_value m a with
                     | Some v => if v =? y then None else imap_key m y
                     | None => imap_key m y
                     end).
Proof. exact imap_insert_semantics. Qed.
Print Assumptions C10_insert_semantics.

Theorem C10_remove_semantics :
  forall m a,
  let m' := imap_remove_key m a in
  imap_value m' a = None /\
  (forall x, x <> a -> imap_value m' x = imap_value m x) /\
  (forall y, imap_key m' y = match imap_value m a with
                             | Some v => if v =? y then None else imap_key m y
                             | None => imap_key m y
                             end).
Proof. exact imap_remove_semantics. Qed.
Print Assumptions C10_remove_semantics.

(* ---- DbImpl level (every revision) ---- *)

(* DbImpl::insert_alias (remove the node's old alias twice, then IndexedMap::insert) is, on lookups,
   exactly IndexedMap::insert; both invariants are kept when the id is an existing node *)
Theorem C10_db_insert_alias :
  forall rv d id a, alias_bij d ->
  alias_bij (insert_alias rv d id a) /\
  imap_equiv (aliases (insert_alias rv d id a)) (imap_insert (aliases d) a id) /\
  (alias_nodes d -> 0 < id -> is_node (gr d) id = true -> alias_nodes (insert_alias rv d id a)).
Proof.
  intros rv d id a Hb.
  exact (conj (insert_alias_bij rv d id a Hb) (conj (insert_alias_equiv rv d id a Hb) (insert_alias_nodes rv d id a Hb))).
Qed.
Print Assumptions C10_db_insert_alias.

Theorem C10_db_insert_new_alias :
  forall d id a, alias_bij d ->
  alias_bij (insert_new_alias d id a) /\
  aliases (insert_new_alias d id a) = imap_insert (aliases d) a id /\
  (alias_nodes d -> 0 < id -> is_node (gr d) id = true -> alias_nodes (insert_new_alias d id a)).
Proof.
  intros d id a Hb.
  exact (conj (insert_new_alias_bij d id a Hb) (conj eq_refl (insert_new_alias_nodes d id a Hb))).
Qed.
Print Assumptions C10_db_insert_new_alias.

(* removing an alias: reported iff it existed; afterwards unresolvable, all others as before *)
Theorem C10_db_remove_alias :
  forall d a,
  fst (remove_alias d a) = (match imap_value (aliases d) a with Some _ => true | None => false end) /\
  (forall x, imap_value (aliases (snd (remove_alias d a))) x =
             if bytes_eqb a x then None else imap_value (aliases d) x) /\
  (alias_bij d -> alias_bij (snd (remove_alias d a))) /\
  (alias_nodes d -> alias_nodes (snd (remove_alias d a))).
Proof.
  intros d a.
  exact (conj (remove_alias_fst d a) (conj (remove_alias_value d a)
        (conj (remove_alias_bij d a) (remove_alias_nodes d a)))).
Qed.
Print Assumptions C10_db_remove_alias.

(* removing a node by id (whatever the outcome of the graph part): no alias resolves to it any more,
   aliases of other ids are untouched, the map stays one-to-one *)
Theorem C10_db_remove_node :
  forall d id, alias_bij d -> graph_index (gr d) id = true -> 0 < id ->
  alias_bij (fst (remove_id d id)) /\
  (forall x, imap_value (aliases (fst (remove_id d id))) x <> Some id) /\
  (forall x y, y <> id -> imap_value (aliases d) x = Some y ->
               imap_value (aliases (fst (remove_id d id))) x = Some y).
Proof.
  intros d id Hb Hg Hp. split; [now apply remove_id_bij|].
  split; intros x; [|intros y]; now apply (remove_id_node_alias_gone d id x Hb Hg Hp).
Qed.
Print Assumptions C10_db_remove_node.

(* ---- query layer ---- *)

(* resolving an alias and selecting a node's alias agree with the mapping *)
Theorem C10_resolve_select_agree :
  forall rv d a id, alias_bij d ->
  (db_id d (QAlias a) = ROk id <->
   select_aliases rv d (Ids [QId id]) = QOk 1 [elem d id [alias_kv a]]).
Proof. exact resolve_select_agree. Qed.
Print Assumptions C10_resolve_select_agree.

(* an empty alias anywhere in an InsertAliases query: the query fails (every revision) ... *)
Theorem C10_empty_alias_rejected :
  forall rv d ids (als : list bytes), In ([] : bytes) als ->
  exists e, snd (exec rv d (InsertAliases ids als)) = QErr e.
Proof.
  intros rv d ids als Hin. apply exec_insert_aliases_err. now apply insert_aliases_empty_rejected.
Qed.
Print Assumptions C10_empty_alias_rejected.

(* ... and when it is the first one the database is literally unchanged *)
Theorem C10_empty_alias_first_no_effect :
  forall rv d q l (als : list bytes), undo d = [] -> length l = length als ->
  exec rv d (InsertAliases (Ids (q :: l)) ([] :: als)) = (d, QErr ENotAllowed).
Proof. exact exec_insert_aliases_empty_first. Qed.
Print Assumptions C10_empty_alias_first_no_effect.

(* ... and in general, on the repaired code (alias-steal undo record): a REJECTED InsertAliases query
   (empty alias, edge id, unknown id, ... at any position) returns an error and has no effect:
   db_equiv d2 d = same graph, values, indexes and (empty) undo stack, and an alias map that answers
   every lookup, in both directions, as before *)
Theorem C10_rejected_insert_aliases_no_effect :
  forall d ids (als : list bytes),
  alias_bij d -> undo d = [] -> step_is_ok (insert_aliases rv_fixed d ids als) = false ->
  exists d2 e, exec rv_fixed d (InsertAliases ids als) = (d2, QErr e) /\ db_equiv d2 d.
Proof. exact (insert_aliases_rejected_no_effect rv_fixed eq_refl). Qed.
Print Assumptions C10_rejected_insert_aliases_no_effect.

Theorem C10_empty_alias_no_effect :
  forall d ids (als : list bytes),
  alias_bij d -> undo d = [] -> In ([] : bytes) als ->
  exists d2 e, exec rv_fixed d (InsertAliases ids als) = (d2, QErr e) /\ db_equiv d2 d.
Proof.
  intros d ids als Hb Hu Hin. apply (insert_aliases_rejected_no_effect rv_fixed eq_refl d ids als Hb Hu).
  now apply insert_aliases_empty_rejected.
Qed.
Print Assumptions C10_empty_alias_no_effect.

(* the pinned code (before fix ca1154f: no undo record for the previous holder of a stolen alias):
   the same rejected query loses the alias of node 1 *)
Theorem C10_steal_pinned_refuted :
  let dp := exec_all rv_pinned db_new c10_steal_history in
  let df := exec_all rv_fixed db_new c10_steal_history in
  imap_value (aliases dp) [x78] = Some 1 /\
  snd (exec rv_pinned dp c10_steal_query) = QErr ENotAllowed /\
  imap_value (aliases (fst (exec rv_pinned dp c10_steal_query))) [x78] = None /\
  exec rv_fixed df c10_steal_query = (df, QErr ENotAllowed).
Proof. exact c10_steal_witness. Qed.
Print Assumptions C10_steal_pinned_refuted.

(* after the fix: an edge id anywhere in an InsertAliases query makes the query fail *)
Theorem C10_edge_alias_rejected :
  forall d l (als : list bytes) id, In (QId id) l -> id < 0 ->
  exists e, snd (exec rv_fixed d (InsertAliases (Ids l) als)) = QErr e.
Proof.
  intros d l als id Hin Hneg. apply exec_insert_aliases_err.
  now apply (insert_aliases_edge_rejected rv_fixed d l als id eq_refl).
Qed.
Print Assumptions C10_edge_alias_rejected.

(* the pinned code (before fix 01b295e): after two nodes and an edge, `insert aliases "e" ids(-3)`
   succeeds — the alias names an edge, so "every aliased id is an existing node" is violated *)
Theorem C10_pinned_refuted :
  let d := exec_all rv_pinned db_new c10_history in
  imap_value (aliases d) [x65] = Some (-3) /\ is_edge (gr d) (-3) = true /\ graph_index (gr d) 3 = false /\
  ~ alias_nodes d.
Proof. exact c10_pinned_witness. Qed.
Print Assumptions C10_pinned_refuted.

(* the same history on the repaired code: the third query is rejected and changes nothing *)
Example C10_fixed_witness :
  let d2 := exec_all rv_fixed db_new (firstn 2 c10_history) in
  exec rv_fixed d2 (InsertAliases (Ids [QId (-3)]) [[x65]]) = (d2, QErr ENotAllowed).
Proof. exact c10_fixed_witness. Qed.
Print Assumptions C10_fixed_witness.

(* ---- all histories -------------------------------------------------------------------------
   FULL STATEMENT (property text): at all times — after every history of queries from the empty
   database — the alias map is one-to-one and every aliased id is an existing node.

   Inv d (theories/DbInvProofs.v) = graph well-formed (C08's wf) /\ alias_bij d /\ alias_nodes d /\
   no element with two equal keys /\ indexes exact.  query_ok q = the insert lists of q have distinct
   keys (C09's quantifier; irrelevant for aliases but part of the joint invariant).

   PROVED: C10_step (every mutating query, WHATEVER ITS OUTCOME, maps an Inv state to an Inv state:
   the partial state left by a failing query included), C10_transaction_partial (every state inside
   a running transaction), C10_history_partial (every history from db_new in which no query fails).
   MISSING for the full statement:
     (1) `traversal_live rv_fixed` is a hypothesis: breadth/depth-first and path searches return only
         existing elements (C14 / C17 territory; index searches and element scans are discharged).
         It matters only for queries whose ids are given by such a search.
     (2) the state after the ROLLBACK of a failing query (`exec` on QErr) is not covered: that needs
         C13 (rollback restores the pre-transaction state). *)
Theorem C10_step :
  traversal_live rv_fixed ->
  forall d q, query_ok q -> Inv d -> Inv (step_db (exec_mut_step rv_fixed d q)).
Proof.
  intros Ht d q. exact (exec_mut_step_Inv rv_fixed (search_live_of_traversal rv_fixed Ht) eq_refl d q).
Qed.
Print Assumptions C10_step.

Theorem C10_transaction_partial :
  traversal_live rv_fixed ->
  forall d qs acc, Forall query_ok qs -> Inv d ->
  let d1 := fst (fst (txn_run rv_fixed d qs acc)) in alias_bij d1 /\ alias_nodes d1.
Proof.
  intros Ht d qs acc Hq Hd. apply Inv_aliases. exact (transaction_state_Inv rv_fixed Ht eq_refl d qs acc Hq Hd).
Qed.
Print Assumptions C10_transaction_partial.

Theorem C10_history_partial :
  traversal_live rv_fixed ->
  forall qs, Forall query_ok qs -> all_succeed rv_fixed db_new qs ->
  alias_bij (exec_all rv_fixed db_new qs) /\ alias_nodes (exec_all rv_fixed db_new qs).
Proof. intros Ht. exact (history_aliases rv_fixed Ht eq_refl). Qed.
Print Assumptions C10_history_partial.

Example C10_history_nonvacuous :
  Forall query_ok (firstn 2 c10_history) /\ all_succeed rv_fixed db_new (firstn 2 c10_history).
Proof. exact c10_history_ok. Qed.
Print Assumptions C10_history_nonvacuous.

(* ---- all histories, UNCONDITIONALLY (supersedes C10_step / C10_transaction_partial / C10_history_partial) ----
   `traversal_live rv_fixed` is no longer a hypothesis.  theories/TraversalLiveProofs.v proves, from the
   C14 / C17 / C18 developments under the graph invariant wf:
     traversal_live_on rv_fixed = breadth/depth-first searches (any conditions, any limit/offset) and
     path searches (any conditions) started from EXISTING origins / destinations return only existing
     elements; hence search_live rv_fixed (every id returned by ANY search exists in an Inv state).
   The hypothesis as it was literally stated above is FALSE (C10_traversal_live_refuted): its path-search
   clause did not ask the origin to exist, and the raw path_search started at the negated id of a node
   returns that negated id.  DbImpl resolves every origin through db_id, so the relativised statement is
   the one that matters; the three `_partial` theorems above were vacuous and are kept for the record.
   Still restricted here to histories without failing queries; C13_history_atomic (Props/C13.v) removes
   that restriction. *)
From Agdb Require Import TraversalLiveProofs DbInvariantProofs.

Theorem C10_traversal_live :
  traversal_live_on rv_fixed /\ search_live rv_fixed.
Proof. exact (conj traversal_live_holds search_live_fixed). Qed.
Print Assumptions C10_traversal_live.

Theorem C10_traversal_live_refuted : ~ traversal_live rv_fixed.
Proof. exact traversal_live_refuted. Qed.
Print Assumptions C10_traversal_live_refuted.

Theorem C10_step_inv :
  forall d q, query_ok q -> Inv d -> Inv (step_db (exec_mut_step rv_fixed d q)).
Proof. exact step_Inv_fixed. Qed.
Print Assumptions C10_step_inv.

Theorem C10_transaction :
  forall d qs acc, Forall query_ok qs -> Inv d ->
  let d1 := fst (fst (txn_run rv_fixed d qs acc)) in alias_bij d1 /\ alias_nodes d1.
Proof. intros d qs acc Hq Hd. apply Inv_aliases. now apply transaction_state_Inv_fixed. Qed.
Print Assumptions C10_transaction.

Theorem C10_history :
  forall qs, Forall query_ok qs -> all_succeed rv_fixed db_new qs ->
  alias_bij (exec_all rv_fixed db_new qs) /\ alias_nodes (exec_all rv_fixed db_new qs).
Proof. exact history_aliases_fixed. Qed.
Print Assumptions C10_history.
(* ---- empty aliases through the OTHER alias-inserting queries (fix: b8b5b10) ----
   The property text: "empty aliases ... are rejected without effect".  InsertAliases always checked; InsertNodes
   (aliases of new nodes, insert-or-update of existing nodes by ids) and InsertValues (insert-or-update through an
   alias that does not resolve) did not, and created a node named "" (found by a reader of the property text, not by
   the proofs above: C10_empty_alias_rejected was stated for InsertAliases only, and the generator produced empty
   aliases for that query only).  Repaired revision: *)
Theorem C10_empty_alias_insert_nodes_no_effect :
  forall rv, fix_empty_alias rv = true ->
  forall d count values (als : list bytes) ids, undo d = [] -> In ([] : bytes) als ->
  exec rv d (InsertNodes count values als ids) = (d, QErr ENotAllowed).
Proof. exact exec_insert_nodes_empty_alias. Qed.
Print Assumptions C10_empty_alias_insert_nodes_no_effect.

Theorem C10_empty_alias_insert_values_no_effect :
  forall rv, fix_empty_alias rv = true ->
  forall d kvs e, undo d = [] -> db_id d (QAlias []) = RErr e ->
  exec rv d (InsertValues (Ids [QAlias []]) (Single kvs)) = (d, QErr ENotAllowed).
Proof. exact exec_insert_values_empty_alias. Qed.
Print Assumptions C10_empty_alias_insert_values_no_effect.

(* inside a longer id list / a running transaction: the step itself fails before touching the database *)
Theorem C10_empty_alias_insert_values_step :
  forall rv, fix_empty_alias rv = true ->
  forall d acc kvs e, db_id d (QAlias []) = RErr e -> insert_values_q rv d acc (QAlias []) kvs = StErr d ENotAllowed.
Proof. exact insert_values_q_empty_alias. Qed.
Print Assumptions C10_empty_alias_insert_values_step.

(* the pinned code, and the code with every other repair, accepted them *)
Theorem C10_empty_alias_nodes_pinned_refuted :
  let d := fst (exec rv_pinned db_new q_nodes_empty) in
  snd (exec rv_pinned db_new q_nodes_empty) <> QErr ENotAllowed /\ db_id d (QAlias []) = ROk 1.
Proof. exact empty_alias_nodes_pinned_refuted. Qed.
Print Assumptions C10_empty_alias_nodes_pinned_refuted.

Theorem C10_empty_alias_values_pinned_refuted :
  let d := fst (exec rv_pinned db_new q_values_empty) in
  snd (exec rv_pinned db_new q_values_empty) <> QErr ENotAllowed /\ db_id d (QAlias []) = ROk 1.
Proof. exact empty_alias_values_pinned_refuted. Qed.
Print Assumptions C10_empty_alias_values_pinned_refuted.

Theorem C10_empty_alias_before_fix_refuted :
  db_id (fst (exec rv_no_empty_fix db_new q_nodes_empty)) (QAlias []) = ROk 1 /\
  db_id (fst (exec rv_no_empty_fix db_new q_values_empty)) (QAlias []) = ROk 1.
Proof. exact empty_alias_before_fix_refuted. Qed.
Print Assumptions C10_empty_alias_before_fix_refuted.

Example C10_empty_alias_fixed_example :
  exec rv_fixed db_new q_nodes_empty = (db_new, QErr ENotAllowed) /\
  exec rv_fixed db_new q_values_empty = (db_new, QErr ENotAllowed).
Proof. exact empty_alias_fixed_example. Qed.
Print Assumptions C10_empty_alias_fixed_example.

(* ---- no alias in the map is ever empty (theories/NoEmptyAliasProofs.v) ----
   nea d = the empty alias does not resolve.  C10_no_empty_alias_step: every query of every kind executed
   inside a transaction, whatever its outcome, keeps nea — for every revision with fix_empty_alias on and
   from ANY state (no invariant needed): InsertAliases, InsertNodes and InsertValues are the only queries
   that add aliases and all three reject the empty one; removals only remove.
   C10_history_no_empty_alias: after every history of queries and transactions from the empty database,
   failing ones included (a rollback restores the alias map of the state before: C13_history_atomic; same
   two hypotheses item_ok / bounded), the empty alias does not resolve and no element is named "". *)
From Agdb Require Import HistoryAtomicProofs NoEmptyAliasProofs.

Theorem C10_no_empty_alias_step :
  forall rv, fix_empty_alias rv = true ->
  forall d q, imap_value (aliases d) [] = None -> imap_value (aliases (fst (exec_in_txn rv d q))) [] = None.
Proof. exact exec_in_txn_nea. Qed.
Print Assumptions C10_no_empty_alias_step.

Theorem C10_history_no_empty_alias :
  forall its, Forall item_ok its -> bounded rv_fixed db_new its ->
  let d := run_items rv_fixed db_new its in
  imap_value (aliases d) [] = None /\ forall id, imap_key (aliases d) id <> Some [].
Proof. exact history_no_empty_alias_fixed. Qed.
Print Assumptions C10_history_no_empty_alias.
