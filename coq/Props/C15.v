(* C15 — Search conditions select and prune exactly as documented.
   Pinned statements only; proofs live in theories/CondProofs.v (and DbValueProofs.v).
   `DocSpec` (in CondProofs.v) is the documented semantics written independently of the
   model: the And / Or / Modifiers / Results tables of queries.md and a recursive reference
   evaluator `doc_eval` written from the prose. *)
From Agdb Require Import Bytes DbValue DbValueProofs Graph DbModel Search Revisions CondProofs.
Import DocSpec.
Open Scope Z_scope.

(* #### And: sc_and is the documented table — as a function (doc_and reads the six rows as
   unordered pairs), row by row in both orders, the rows cover every pair, commutative. *)
Theorem C15_and_table :
  (forall l r : sc, sc_and l r = doc_and l r) /\
  (forall k1 k2 k a b, In (k1, k2, k) and_rows ->
     sc_and (mk k1 a) (mk k2 b) = mk k (a && b) /\ sc_and (mk k2 b) (mk k1 a) = mk k (a && b)) /\
  (forall k1 k2, exists k, In (k1, k2, k) and_rows \/ In (k2, k1, k) and_rows) /\
  (forall l r : sc, sc_and l r = sc_and r l).
Proof. exact and_table. Qed.
Print Assumptions C15_and_table.

(* #### Or *)
Theorem C15_or_table :
  (forall l r : sc, sc_or l r = doc_or l r) /\
  (forall k1 k2 k a b, In (k1, k2, k) or_rows ->
     sc_or (mk k1 a) (mk k2 b) = mk k (a || b) /\ sc_or (mk k2 b) (mk k1 a) = mk k (a || b)) /\
  (forall k1 k2, exists k, In (k1, k2, k) or_rows \/ In (k2, k1, k) or_rows) /\
  (forall l r : sc, sc_or l r = sc_or r l).
Proof. exact or_table. Qed.
Print Assumptions C15_or_table.

(* "Finish ... is only used internally with offset and limit": evaluating conditions
   (any nesting, any modifiers) never yields Finish — for every revision. *)
Theorem C15_no_finish :
  forall rv d index distance conds b, eval_conditions rv d index distance conds <> Finish b.
Proof. exact no_finish. Qed.
Print Assumptions C15_no_finish.

(* #### Results: only Distance and Where may yield Stop; everything else yields Continue. *)
Theorem C15_result_table :
  forall rv d index distance c,
    kind_of (eval_data rv d index distance c) = KContinue \/
    (may_stop c = true /\ kind_of (eval_data rv d index distance c) = KStop).
Proof. exact result_table. Qed.
Print Assumptions C15_result_table.

Example C15_result_table_stop :
  forall rv d,
    eval_data rv d 1 3 (CDistance (KLessThan 2)) = Stop false /\
    eval_data rv d 1 3 (CWhere [Cond LAnd MNone (CDistance (KEqual 3))]) = Stop true /\
    eval_data rv d 1 3 (CWhere [Cond LAnd MNotBeyond CNode]) = Stop true.
Proof. exact result_table_stop_witness. Qed.
Print Assumptions C15_result_table_stop.

(* #### Modifiers.  `step_result lg md distance result c0` is one iteration of the loop of
   evaluate_conditions (eval_where_fold below): the accumulated `result` combined by `lg`
   with the `md`-modified outcome `c0` of the condition. *)
Theorem C15_eval_is_fold :
  forall rv d index distance conds,
    eval_conditions rv d index distance conds =
    fold_left (fun result c =>
                 match c with
                 | Cond lg md data => step_result lg md distance result (eval_data rv d index distance data)
                 end) conds (Continue true).
Proof. exact eval_where_fold. Qed.
Print Assumptions C15_eval_is_fold.

Theorem C15_modifiers :
  (* Beyond / NotBeyond never affect element selection *)
  (forall lg md distance result c0, md = MBeyond \/ md = MNotBeyond ->
     sc_true (step_result lg md distance result c0) = sc_true result) /\
  (* traversal, chained with And: Continue becomes Stop exactly when the Beyond condition
     fails (not at the start element) / the NotBeyond condition passes *)
  (forall distance result c0,
     step_result LAnd MBeyond distance result c0 =
       (if sc_true c0 || (distance =? 0) then result else stop_and result) /\
     step_result LAnd MNotBeyond distance result c0 =
       (if sc_true c0 then stop_and result else result)) /\
  (* traversal, chained with Or (table: x || Continue = Continue, x || Stop = x) *)
  (forall distance result c0, kind_of result <> KFinish ->
     step_result LOr MBeyond distance result c0 =
       (if sc_true c0 || (distance =? 0) then Continue (sc_true result) else result) /\
     step_result LOr MNotBeyond distance result c0 =
       (if sc_true c0 then result else Continue (sc_true result))) /\
  (* the start element is exempt from Beyond *)
  (forall result c0, step_result LAnd MBeyond 0 result c0 = result /\
                     step_result LOr MBeyond 0 result c0 = Continue (sc_true result)) /\
  (* Not reverses the selection result and nothing else *)
  (forall lg distance result c0,
     step_result lg MNot distance result c0 = sc_logic lg result (mk (kind_of c0) (negb (sc_true c0)))) /\
  (* the documented modifier table (doc_modifier), chained by the documented And / Or *)
  (forall lg md distance result c0,
     step_result lg md distance result c0 = doc_logic lg result (doc_modifier md lg distance c0)).
Proof. exact modifiers. Qed.
Print Assumptions C15_modifiers.

(* Key-value comparisons are type strict (the repaired code: fix_strict_order). *)
Theorem C15_type_strict :
  (forall op l r,
     In op [CEqual; CGreaterThan; CGreaterThanOrEqual; CLessThan; CLessThanOrEqual] ->
     value_compare true op l r = true -> same_kind l r = true) /\
  (forall l r, same_kind l r = false -> value_compare true CNotEqual l r = true) /\
  (forall op l r,
     In op [CContains; CStartsWith; CEndsWith] ->
     value_compare true op l r = true ->
     In (kind l, kind r) container_pairs /\
     (same_kind l r = true \/ In (kind l, kind r) cross_kind_pairs)) /\
  (forall op l r, value_compare true op l r = doc_compare op l r).
Proof. exact type_strict. Qed.
Print Assumptions C15_type_strict.

(* each documented container pair is inhabited; Equal(1_i64).compare(1_u64) is false *)
Example C15_type_strict_examples :
  let s := fun l => DString l in
  value_compare true CContains (s [x61; x62; x63]) (s [x62; x63]) = true /\
  value_compare true CContains (s [x61; x62; x63; x64]) (DVecString [[x62; x63]; [x64]]) = true /\
  value_compare true CContains (DVecI64 [1; 2]) (DI64 2) = true /\
  value_compare true CContains (DVecI64 [1; 2]) (DVecI64 [2; 1]) = true /\
  value_compare true CContains (DVecU64 [1; 2]%N) (DU64 2) = true /\
  value_compare true CContains (DVecU64 [1; 2]%N) (DVecU64 [2]%N) = true /\
  value_compare true CContains (DVecF64 [1; 2]%N) (DF64 2) = true /\
  value_compare true CContains (DVecF64 [1; 2]%N) (DVecF64 [2]%N) = true /\
  value_compare true CContains (DVecString [[x61]; [x62]]) (s [x62]) = true /\
  value_compare true CContains (DVecString [[x61]; [x62]]) (DVecString [[x62]]) = true /\
  value_compare true CStartsWith (s [x61; x62; x63]) (DVecString [[x61]; [x62]]) = true /\
  value_compare true CEndsWith (DVecI64 [1; 2]) (DI64 2) = true /\
  value_compare true CEqual (DU64 1) (DI64 1) = false.
Proof. exact container_pairs_inhabited. Qed.
Print Assumptions C15_type_strict_examples.

(* the defect that was repaired: the pinned code ordered values across kinds *)
Theorem C15_type_strict_pinned_refuted :
  value_compare (fix_strict_order rv_pinned) CGreaterThan (DU64 5) (DI64 30) = true /\
  same_kind (DU64 5) (DI64 30) = false /\
  value_compare (fix_strict_order rv_fixed) CGreaterThan (DU64 5) (DI64 30) = false.
Proof. exact type_strict_pinned_refuted. Qed.
Print Assumptions C15_type_strict_pinned_refuted.

(* Distance: selection = the numerical comparison; Stop only when no greater distance can
   satisfy it, Continue only when this or a greater distance does. *)
Theorem C15_distance :
  forall c dist,
    sc_true (compare_distance c dist) = count_compare c dist /\
    kind_of (compare_distance c dist) <> KFinish /\
    (kind_of (compare_distance c dist) = KStop ->
       forall dist', dist < dist' -> count_compare c dist' = false) /\
    (kind_of (compare_distance c dist) = KContinue ->
       exists dist', dist <= dist' /\ count_compare c dist' = true).
Proof. exact distance_spec. Qed.
Print Assumptions C15_distance.

(* The evaluator of the code (all ten condition kinds, all modifiers, both logic operators,
   any nesting depth) is the documented reference evaluator — for the repaired code and
   every revision with strict comparisons. *)
Theorem C15_eval_matches_doc :
  forall d index distance conds,
    eval_conditions rv_fixed d index distance conds = doc_eval d index distance conds.
Proof. intros. apply eval_matches_doc. reflexivity. Qed.
Print Assumptions C15_eval_matches_doc.

(* before the repair the evaluator did not meet the documentation: age = 5_u64 passed `age > 30_i64` *)
Theorem C15_eval_matches_doc_pinned_refuted :
  let conds := [Cond LAnd MNone (CKeyValue (DString [x61; x67; x65]) CGreaterThan (DI64 30))] in
  eval_conditions rv_pinned strict_example_db 1 0 conds = Continue true /\
  doc_eval strict_example_db 1 0 conds = Continue false /\
  eval_conditions rv_fixed strict_example_db 1 0 conds = Continue false.
Proof. exact eval_matches_doc_pinned_refuted. Qed.
Print Assumptions C15_eval_matches_doc_pinned_refuted.

Example C15_eval_example :
  let conds := [Cond LAnd MNone CNode;
                Cond LOr MNone (CWhere [Cond LAnd MNone CEdge; Cond LAnd MNot (CIds [QId (-2)])]);
                Cond LAnd MBeyond (CDistance (KLessThan 3));
                Cond LAnd MNotBeyond (CIds [QId 7])] in
  doc_eval db_new 7 2 conds = Stop true /\ doc_eval db_new (-2) 4 conds = Stop false /\
  doc_eval db_new (-3) 1 conds = Continue true.
Proof. exact eval_matches_doc_example. Qed.
Print Assumptions C15_eval_example.

(* Selection and extent of the traversal: in the search loop an unvisited element is added
   iff the control is true, its neighbourhood is followed iff the control is Continue (not
   followed iff Stop), the search ends iff Finish (which only limit/offset produce); without
   limit/offset the control is the documented evaluator's. *)
Theorem C15_search_step :
  forall rv d a reverse origin conds h f index dist rest vis counter acc control counter',
    visited vis index = false ->
    handle h counter (eval_conditions rv d index dist conds) = (control, counter') ->
    search_loop rv d a reverse origin conds h (S f) ((index, dist) :: rest) vis counter acc =
    let acc' := if sc_true control then index :: acc else acc in
    match kind_of control with
    | KFinish => Some (rev acc')
    | _ => search_loop rv d a reverse origin conds h f
             (expand rv (gr d) a reverse origin rest (index, dist) (follows control))
             (Z.abs index :: vis) counter' acc'
    end.
Proof. exact search_loop_step. Qed.
Print Assumptions C15_search_step.

Theorem C15_search_step_doc :
  forall d a reverse origin conds f index dist rest vis counter acc,
    visited vis index = false ->
    search_loop rv_fixed d a reverse origin conds HDefault (S f) ((index, dist) :: rest) vis counter acc =
    let c := doc_eval d index dist conds in
    search_loop rv_fixed d a reverse origin conds HDefault f
      (expand rv_fixed (gr d) a reverse origin rest (index, dist) (follows c))
      (Z.abs index :: vis) counter (if sc_true c then index :: acc else acc).
Proof. intros. apply search_step_doc; [reflexivity|assumption]. Qed.
Print Assumptions C15_search_step_doc.

Theorem C15_elements_step_doc :
  forall d conds index r distance counter acc,
    elements_loop rv_fixed d conds HDefault (index :: r) distance counter acc =
    elements_loop rv_fixed d conds HDefault r (distance + 1) counter
      (if sc_true (doc_eval d index distance conds) then index :: acc else acc).
Proof. intros. apply elements_loop_step_doc. reflexivity. Qed.
Print Assumptions C15_elements_step_doc.

(* "Paths": cost 1 for an element that passes (selected), 2 for one that fails, 0 (its paths are
   no longer considered) when the search is not to continue beyond it *)
Theorem C15_path_cost :
  forall d conds index distance,
    path_cost rv_fixed d conds index distance =
    match doc_eval d index distance conds with
    | Continue add => (if add then 1 else 2, add)
    | Stop add => (0, add)
    | Finish add => (0, add)
    end /\ kind_of (doc_eval d index distance conds) <> KFinish.
Proof. intros. apply path_cost_doc. reflexivity. Qed.
Print Assumptions C15_path_cost.
