(* C08 — Graph mutations behave like an abstract directed multigraph.
   Pinned statements only; proofs live in theories/GraphArr.v GraphSim*.v GraphOps*.v GraphProofs.v
   GraphRemove.v GraphSpec.v GraphWf.v GraphC08.v (graph level) and theories/DbCascadeProofs.v (DbImpl level).

   MODEL.  theories/Graph.v is the slot-array graph of agdb/src/graph.rs (four arrays from / to /
   from_meta / to_meta, free list threaded through from_meta, per-node out-/in-lists threaded through
   from_meta / to_meta; the unlink loops run on fuel = capacity and return None when it runs out).

   ABSTRACT MULTIGRAPH (theories/GraphSim.v, GraphSpec.v).
     agraph = {| a_nodes : list Z;  a_edges : list (slot, (source, target)) |}, edges NEWEST FIRST;
     the id of an edge is `- slot`.  a_out a n / a_in a n = the ids of the edges whose source / target is n,
     in that order (a self-loop is in both) — C08_a_out_def, C08_a_in_def.
     astep a op out = the abstract step that ACCEPTS the id `out` chosen by the implementation
     (C08_astep_def): a new node must get a positive id whose magnitude is used by no node and no edge, a
     new edge a negative one, and goes to the head of its endpoints' lists; an edge insertion with a missing
     endpoint must fail and change nothing; removing a node removes it with all incident edges (a self-loop
     once); removals of absent elements change nothing.
     grun g a ops runs the implementation (gstep) and the acceptor side by side; None = a loop ran out of
     fuel or the specification rejected an id.
     sim g a fl = the simulation relation (fl = the free list): all arrays have the same length >= 1, slot 0
     holds the free-list head and the node count, the free list is duplicate-free and consists of unused slots
     (from = to = to_meta = 0, from_meta < 0), every node's out-/in-list is exactly the chain of the abstract
     adjacency, the stored degrees are the list lengths, edge endpoints are nodes.   wf g = exists a fl, sim g a fl.

   SIGNS.  ids are passed with the sign of their kind (gop_ok): DbImpl resolves every id through
   db_id / graph_index, which dispatch on the sign.  The raw GraphImpl functions look only at |id|
   (C08_raw_negative_endpoint_witness shows why the restriction is needed). *)
From Agdb Require Import Bytes DbValue Graph DbModel GraphArr GraphSim GraphProofs GraphRemove GraphSpec GraphWf GraphC08 DbCascadeProofs.
From Coq Require Import Sorted Permutation.
Open Scope Z_scope.

(* ---- the specification, spelled out ---- *)

Theorem C08_astep_def :
  forall (a : agraph) (op : gop) (out : option Z),
    astep a op out =
    match op, out with
    | GInsertNode, Some i =>
        if (0 <? i) && a_fresh a i then Some {| a_nodes := i :: a_nodes a; a_edges := a_edges a |} else None
    | GInsertEdge f t, Some i =>
        if (i <? 0) && a_fresh a (- i) && zmem f (a_nodes a) && zmem t (a_nodes a)
        then Some {| a_nodes := a_nodes a; a_edges := (- i, (f, t)) :: a_edges a |} else None
    | GInsertEdge f t, None =>
        if zmem f (a_nodes a) && zmem t (a_nodes a) then None else Some a
    | GRemoveNode n, None =>
        Some {| a_nodes := zrem n (a_nodes a); a_edges := filter (keep_edge n) (a_edges a) |}
    | GRemoveEdge e, None =>
        Some {| a_nodes := a_nodes a; a_edges := remE (- e) (a_edges a) |}
    | _, _ => None
    end.
Proof. exact astep_def. Qed.
Print Assumptions C08_astep_def.

Theorem C08_a_fresh_def :
  forall a s, a_fresh a s = true <-> ~ In s (a_nodes a) /\ ~ In s (map eslot (a_edges a)).
Proof. exact a_fresh_def. Qed.
Print Assumptions C08_a_fresh_def.

Theorem C08_gstep_def :
  forall (g : graph) (op : gop),
    gstep g op =
    match op with
    | GInsertNode => let '(i, g') := insert_node g in Some (g', Some i)
    | GInsertEdge f t => match insert_edge g f t with
                         | Some (i, g') => Some (g', Some i)
                         | None => Some (g, None)
                         end
    | GRemoveNode n => match remove_node g n with Some g' => Some (g', None) | None => None end
    | GRemoveEdge e => match remove_edge g e with Some g' => Some (g', None) | None => None end
    end.
Proof. exact gstep_def. Qed.
Print Assumptions C08_gstep_def.

Theorem C08_grun_def :
  forall (g : graph) (a : agraph) (ops : list gop),
    grun g a ops =
    match ops with
    | [] => Some (g, a)
    | op :: r =>
      match gstep g op with
      | None => None
      | Some (g', out) => match astep a op out with None => None | Some a' => grun g' a' r end
      end
    end.
Proof. exact grun_def. Qed.
Print Assumptions C08_grun_def.

Theorem C08_zrem_def : forall s l y, In y (zrem s l) <-> In y l /\ y <> s.
Proof. exact zrem_def. Qed.
Print Assumptions C08_zrem_def.

Theorem C08_a_out_def :
  forall a n e, In e (a_out a n) <-> exists x, In x (a_edges a) /\ e = - eslot x /\ esrc x = n.
Proof. exact a_out_in_iff. Qed.
Print Assumptions C08_a_out_def.

Theorem C08_a_in_def :
  forall a n e, In e (a_in a n) <-> exists x, In x (a_edges a) /\ e = - eslot x /\ etgt x = n.
Proof. exact a_in_in_iff. Qed.
Print Assumptions C08_a_in_def.

(* a new edge is the head of its source's out-list and of its target's in-list; removing an edge
   deletes it from the lists and keeps the order of the others; removing a node keeps exactly the
   edges that do not touch it *)
Theorem C08_adjacency_insert :
  forall nodes E s f t n,
    a_out {| a_nodes := nodes; a_edges := (s, (f, t)) :: E |} n =
      (if f =? n then - s :: a_out {| a_nodes := nodes; a_edges := E |} n
       else a_out {| a_nodes := nodes; a_edges := E |} n) /\
    a_in {| a_nodes := nodes; a_edges := (s, (f, t)) :: E |} n =
      (if t =? n then - s :: a_in {| a_nodes := nodes; a_edges := E |} n
       else a_in {| a_nodes := nodes; a_edges := E |} n).
Proof. exact adjacency_insert. Qed.
Print Assumptions C08_adjacency_insert.

Theorem C08_adjacency_remove :
  forall nodes E s n,
    a_out {| a_nodes := nodes; a_edges := remE s E |} n = zrem (- s) (a_out {| a_nodes := nodes; a_edges := E |} n) /\
    a_in {| a_nodes := nodes; a_edges := remE s E |} n = zrem (- s) (a_in {| a_nodes := nodes; a_edges := E |} n).
Proof. exact adjacency_remove. Qed.
Print Assumptions C08_adjacency_remove.

Theorem C08_remove_node_edges :
  forall n E x, In x (filter (keep_edge n) E) <-> In x E /\ esrc x <> n /\ etgt x <> n.
Proof. exact keep_edge_in. Qed.
Print Assumptions C08_remove_node_edges.

(* ---- the invariant ---- *)

Theorem C08_wf_new : sim graph_new a_empty [] /\ wf graph_new.
Proof. exact new_wf. Qed.
Print Assumptions C08_wf_new.

(* what the simulation means for everything the graph API can observe: node count, existence and
   sign of every id, element iteration, both adjacency iterators in order, both degree counts (a
   self-loop is in a_out and a_in of its node, hence counted on both sides), edge endpoints *)
Theorem C08_observations :
  forall g a fl, sim g a fl ->
    (node_count g = Z.of_nat (length (a_nodes a)) /\
     (forall i, graph_index g i = true <-> (0 < i /\ In i (a_nodes a)) \/ (i < 0 /\ In i (a_edge_ids a))) /\
     (forall i, In i (elements g) <-> In i (a_nodes a) \/ In i (a_edge_ids a)) /\
     (forall n, In n (a_nodes a) ->
        out_edges g n = a_out a n /\ edge_count_from g n = Z.of_nat (length (a_out a n)) /\
        in_edges g n = a_in a n /\ edge_count_to g n = Z.of_nat (length (a_in a n))) /\
     (forall x, In x (a_edges a) -> edge_from g (- eslot x) = esrc x /\ edge_to g (- eslot x) = etgt x)) /\
    (NoDup (a_nodes a) /\ (forall n, In n (a_nodes a) -> 0 < n) /\
     NoDup (a_edge_ids a) /\ (forall e, In e (a_edge_ids a) -> e < 0) /\
     (forall n, In n (a_nodes a) -> ~ In (- n) (a_edge_ids a)) /\
     (forall x, In x (a_edges a) -> In (esrc x) (a_nodes a) /\ In (etgt x) (a_nodes a))).
Proof. exact sim_observations. Qed.
Print Assumptions C08_observations.

(* the abstract graph is determined by the arrays: its nodes and edges are those of the canonical
   abstraction `abs g` (read off the element iteration), the per-node orders are fixed by C08_observations *)
Theorem C08_abs_unique :
  forall g a fl, sim g a fl ->
    Permutation (a_nodes a) (a_nodes (abs g)) /\ Permutation (a_edges a) (a_edges (abs g)).
Proof. exact sim_abs. Qed.
Print Assumptions C08_abs_unique.

(* the free list `fl` of the simulation: threaded through from_meta from slot 0 (fhead [] = i64::MIN,
   fhead (x :: _) = - x; fchain next (x :: r) = (next x = fhead r /\ fchain next r)), duplicate-free, made of
   cleared unused slots; below capacity 2^63 (whose negation is i64::MIN) no slot is ever leaked: the free
   list is exactly the set of slots with from_meta < 0 *)
Theorem C08_free_list :
  forall g a fl, sim g a fl ->
    fmeta g 0 = fhead fl /\ fchain (fmeta g) fl /\ NoDup fl /\
    (forall s, In s fl -> 0 < s < capacity g /\ fmeta g s < 0 /\ from g s = 0 /\ to g s = 0 /\ tmeta g s = 0 /\
                          ~ In s (a_nodes a) /\ ~ In s (map eslot (a_edges a))) /\
    (capacity g <= 9223372036854775808 -> forall s, 0 < s < capacity g -> (fmeta g s < 0 <-> In s fl)).
Proof. exact sim_free_list. Qed.
Print Assumptions C08_free_list.

(* ---- the four mutations are simulation steps ---- *)

(* insert_node: the new id is positive, its magnitude is used by no node and no edge, it is the next
   free-list entry or the first slot beyond the arrays, and exactly that node is added *)
Theorem C08_insert_node :
  forall g a fl, sim g a fl ->
    let '(x, g') := insert_node g in
    0 < x /\ ~ In x (a_nodes a) /\ ~ In x (map eslot (a_edges a)) /\
    (x = capacity g \/ In x fl) /\
    sim g' {| a_nodes := x :: a_nodes a; a_edges := a_edges a |} (tl fl).
Proof. exact insert_node_sim. Qed.
Print Assumptions C08_insert_node.

(* insert_edge between existing nodes: succeeds, the id is negative with an unused magnitude, exactly
   that edge is added, as the newest one *)
Theorem C08_insert_edge :
  forall g a fl f t, sim g a fl -> In f (a_nodes a) -> In t (a_nodes a) ->
    exists x g', insert_edge g f t = Some (- x, g') /\
      0 < x /\ ~ In x (a_nodes a) /\ ~ In x (map eslot (a_edges a)) /\
      (x = capacity g \/ In x fl) /\
      sim g' {| a_nodes := a_nodes a; a_edges := (x, (f, t)) :: a_edges a |} (tl fl).
Proof. exact insert_edge_sim. Qed.
Print Assumptions C08_insert_edge.

(* insert_edge with a missing endpoint fails; no new graph is produced (no effect) *)
Theorem C08_insert_edge_missing :
  forall g a fl f t, sim g a fl -> 0 <= f -> 0 <= t ->
    ~ (In f (a_nodes a) /\ In t (a_nodes a)) -> insert_edge g f t = None.
Proof. exact insert_edge_none. Qed.
Print Assumptions C08_insert_edge_missing.

(* remove_edge: never out of fuel; removes exactly that edge; absent ids are a no-op *)
Theorem C08_remove_edge :
  forall g a fl e, sim g a fl -> In e (a_edges a) ->
    exists g', remove_edge g (- eslot e) = Some g' /\
      sim g' {| a_nodes := a_nodes a; a_edges := remE (eslot e) (a_edges a) |} (free_push (eslot e) fl).
Proof. exact remove_edge_sim. Qed.
Print Assumptions C08_remove_edge.

Theorem C08_remove_edge_absent :
  forall g a fl i, sim g a fl -> ~ In (Z.abs i) (map eslot (a_edges a)) -> remove_edge g i = Some g.
Proof. exact remove_edge_noop. Qed.
Print Assumptions C08_remove_edge_absent.

(* remove_node: neither loop runs out of fuel; removes exactly the node and every edge that has it
   as source or target (a self-loop once); absent ids are a no-op *)
Theorem C08_remove_node :
  forall g a fl n, sim g a fl -> In n (a_nodes a) ->
    exists g' fl', remove_node g n = Some g' /\
      sim g' {| a_nodes := zrem n (a_nodes a); a_edges := filter (keep_edge n) (a_edges a) |} fl'.
Proof. exact remove_node_sim. Qed.
Print Assumptions C08_remove_node.

Theorem C08_remove_node_absent :
  forall g a fl i, sim g a fl -> ~ In (Z.abs i) (a_nodes a) -> remove_node g i = Some g.
Proof. exact remove_node_noop. Qed.
Print Assumptions C08_remove_node_absent.

(* ---- all histories ---- *)

(* for every history of (sign-correct) insertions and removals from the empty graph: no loop runs out
   of fuel, every id returned by the implementation is accepted by the abstract multigraph (positive /
   negative, not in use), failed edge insertions change nothing, and the final graph is well-formed and
   observably equal to the abstract multigraph reached by the same operations *)
Theorem C08_history_refines :
  forall ops : list gop, Forall gop_ok ops ->
    exists g a, grun graph_new a_empty ops = Some (g, a) /\ wf g /\ observations_agree g a /\ agraph_ok a.
Proof. exact history_refines. Qed.
Print Assumptions C08_history_refines.

Theorem C08_history_sim :
  forall ops : list gop, Forall gop_ok ops ->
    forall g a fl, sim g a fl -> exists g' a' fl', grun g a ops = Some (g', a') /\ sim g' a' fl'.
Proof. exact grun_sim. Qed.
Print Assumptions C08_history_sim.

(* ---- consequences of wf alone (no abstract graph in the statement) ---- *)

Theorem C08_wf_preserved :
  forall g, wf g ->
    wf (snd (insert_node g)) /\
    (forall f t i g', 0 <= f -> 0 <= t -> insert_edge g f t = Some (i, g') -> wf g') /\
    (forall e, e <= 0 -> exists g', remove_edge g e = Some g' /\ wf g') /\
    (forall n, 0 <= n -> exists g', remove_node g n = Some g' /\ wf g').
Proof. exact wf_preserved_all. Qed.
Print Assumptions C08_wf_preserved.

(* the adjacency iterators (edge_list on fuel = capacity) list exactly the edges of the node, each
   once, and the stored degree is their number *)
Theorem C08_wf_adjacency :
  forall g n, wf g -> 0 < n -> is_node g n = true ->
    (NoDup (out_edges g n) /\
     (forall e, In e (out_edges g n) <-> e < 0 /\ is_edge g e = true /\ edge_from g e = n) /\
     edge_count_from g n = Z.of_nat (length (out_edges g n))) /\
    (NoDup (in_edges g n) /\
     (forall e, In e (in_edges g n) <-> e < 0 /\ is_edge g e = true /\ edge_to g e = n) /\
     edge_count_to g n = Z.of_nat (length (in_edges g n))).
Proof. exact wf_adjacency. Qed.
Print Assumptions C08_wf_adjacency.

Theorem C08_wf_edge_ends :
  forall g e, wf g -> is_edge g e = true ->
    0 < edge_from g e /\ is_node g (edge_from g e) = true /\
    0 < edge_to g e /\ is_node g (edge_to g e) = true.
Proof. exact wf_edge_ends. Qed.
Print Assumptions C08_wf_edge_ends.

(* ---- DbImpl level: the cascade of remove (theories/DbModel.v remove_id / remove_q / remove_node_db) ----
   `remove_id d id` is DbImpl::remove_id: a node is removed with its alias, every edge listed by node_edges
   (out-list, then in-list without self-loops) is removed one by one with its values, then the node and its
   values.  On a well-formed graph it never fails (no EFuel, no NotFound) and afterwards the node and every
   incident edge are no longer elements, their key-value lists are empty, the node's alias does not resolve,
   no element appeared, and the node count dropped by one. *)

Theorem C08_db_cascade :
  forall (d : db) (n : Z),
    wf (gr d) -> 0 < n -> graph_index (gr d) n = true ->
    exists d',
      remove_id d n = (d', ROk true) /\
      wf (gr d') /\
      graph_index (gr d') n = false /\ kvs_get (vals d') n = [] /\
      (forall e, In e (out_edges (gr d) n) \/ In e (in_edges (gr d) n) ->
         graph_index (gr d') e = false /\ kvs_get (vals d') e = []) /\
      (forall al, imap_key (aliases d) n = Some al -> imap_value (aliases d') al = None) /\
      (forall i, graph_index (gr d') i = true -> graph_index (gr d) i = true) /\
      node_count (gr d') = node_count (gr d) - 1.
Proof. exact remove_id_node_cascade. Qed.
Print Assumptions C08_db_cascade.

(* the same through the alias (remove_q (QAlias a)): afterwards the alias does not resolve *)
Theorem C08_db_cascade_alias :
  forall (d : db) (a : bytes) (n : Z),
    wf (gr d) -> imap_value (aliases d) a = Some n -> 0 < n -> graph_index (gr d) n = true ->
    exists d',
      remove_q d (QAlias a) = (d', ROk true) /\
      wf (gr d') /\
      graph_index (gr d') n = false /\ kvs_get (vals d') n = [] /\
      (forall e, In e (out_edges (gr d) n) \/ In e (in_edges (gr d) n) ->
         graph_index (gr d') e = false /\ kvs_get (vals d') e = []) /\
      imap_value (aliases d') a = None /\
      (forall i, graph_index (gr d') i = true -> graph_index (gr d) i = true) /\
      node_count (gr d') = node_count (gr d) - 1.
Proof. exact remove_alias_node_cascade. Qed.
Print Assumptions C08_db_cascade_alias.

(* removing an edge: exactly that element disappears, with its values *)
Theorem C08_db_cascade_edge :
  forall (d : db) (e : Z),
    wf (gr d) -> e < 0 -> graph_index (gr d) e = true ->
    exists d',
      remove_id d e = (d', ROk true) /\
      wf (gr d') /\
      graph_index (gr d') e = false /\ kvs_get (vals d') e = [] /\
      (forall i, graph_index (gr d') i = true <-> graph_index (gr d) i = true /\ i <> e) /\
      node_count (gr d') = node_count (gr d).
Proof. exact remove_id_edge_cascade. Qed.
Print Assumptions C08_db_cascade_edge.

(* remove_id never fails on a well-formed graph, whatever the id; DbImpl's graph mutations keep wf *)
Theorem C08_db_remove_total :
  forall (d : db) (id : Z),
    wf (gr d) -> exists d' b, remove_id d id = (d', ROk b) /\ wf (gr d') /\ graph_index (gr d') id = false.
Proof. exact remove_id_total. Qed.
Print Assumptions C08_db_remove_total.

Theorem C08_db_mutations_wf :
  forall d : db, wf (gr d) ->
    wf (gr (snd (insert_node_db d))) /\
    (forall f t i d', 0 <= f -> 0 <= t -> insert_edge_db d f t = ROk (i, d') -> wf (gr d')) /\
    (forall id, wf (gr (fst (remove_id d id)))).
Proof. exact db_mutations_wf. Qed.
Print Assumptions C08_db_mutations_wf.

(* nodes 1 2 3 (1 aliased "a"), edges 1->2 (-4), 2->1 (-5), 1->1 (-6), 2->3 (-7), values on node 1 and on
   edges -4 -6 -7; removing node 1 removes -4 -5 -6, their values and the alias; 2, 3, -7 and its value stay *)
Example C08_db_cascade_nonvacuous :
  elements (gr ex_db) = [1; 2; 3; -4; -5; -6; -7] /\
  imap_value (aliases ex_db) [x61] = Some 1 /\
  out_edges (gr ex_db) 1 = [-6; -4] /\ in_edges (gr ex_db) 1 = [-6; -5] /\
  match remove_id ex_db 1 with
  | (d', ROk true) =>
      elements (gr d') = [2; 3; -7] /\ node_count (gr d') = 2 /\
      imap_value (aliases d') [x61] = None /\
      kvs_get (vals d') 1 = [] /\ kvs_get (vals d') (-4) = [] /\ kvs_get (vals d') (-6) = [] /\
      kvs_get (vals d') (-7) = [(DI64 7, DI64 70)] /\
      out_edges (gr d') 2 = [-7] /\ in_edges (gr d') 2 = []
  | _ => False
  end.
Proof. exact ex_cascade. Qed.
Print Assumptions C08_db_cascade_nonvacuous.

(* ---- non-vacuity and the sign witness ---- *)

(* insertions, a failing edge insertion (endpoint 9 missing), an edge removal with slot reuse, removal
   of node 2 which has a self-loop, an incoming and an outgoing edge, reuse of the freed slots, parallel edges *)
Example C08_nonvacuous :
  match grun graph_new a_empty
          [GInsertNode; GInsertNode; GInsertNode; GInsertEdge 1 2; GInsertEdge 2 2; GInsertEdge 3 2;
           GInsertEdge 1 9; GRemoveEdge (-4); GInsertEdge 2 1; GRemoveNode 2; GInsertNode; GInsertEdge 2 2;
           GInsertEdge 1 2; GInsertEdge 1 2] with
  | Some (g, a) =>
      elements g = [1; 2; 3; -4; -5; -6] /\ a_nodes a = [2; 3; 1] /\
      a_edges a = [(4, (1, 2)); (5, (1, 2)); (6, (2, 2))] /\
      out_edges g 1 = [-4; -5] /\ in_edges g 2 = [-4; -5; -6] /\ out_edges g 2 = [-6] /\
      edge_count_from g 2 = 1 /\ edge_count_to g 2 = 3 /\ node_count g = 3
  | None => False
  end.
Proof. exact ex_history. Qed.
Print Assumptions C08_nonvacuous.

(* the raw insert_edge accepts the negated id of a node as an endpoint and then writes a slot that is
   not an edge: ids must carry the sign of their kind (DbImpl guarantees it) *)
Example C08_raw_negative_endpoint_witness :
  let g2 := snd (insert_node (snd (insert_node graph_new))) in
  match insert_edge g2 (-1) 2 with
  | Some (i, g3) => i = -3 /\ is_edge g3 (-3) = false /\ is_node g3 3 = true
  | None => False
  end.
Proof. exact ex_raw_negative_endpoint. Qed.
Print Assumptions C08_raw_negative_endpoint_witness.

(* ---- DbImpl level, all histories -------------------------------------------------------------
   FULL STATEMENT: after EVERY history of queries and transactions from the empty database (failing
   ones and their rollback included) the graph of the database is well formed (wf), i.e. every query of
   Queries.v reaches the graph only through steps that the abstract multigraph accepts.

   PROVED (C08_db_history_wf_partial; theories/HistoryAtomicProofs.v, via the joint invariant of
   C09/C10/C11 + C13): wf (gr d) after every history of
     HQuery q            (Db::exec / exec_mut: one query as its own transaction, rolled back when it fails)
     HTxn qs fail_at_end (transaction_mut: the queries qs, then commit, or rollback when one of them fails or
                          a failure is injected at the end)
   of ALL query kinds.  Rollback is covered: every undo command reaches the graph only through
   insert_node / insert_edge / remove_edge / remove_node with the sign of the id's kind
   (C08_db_rollback_wf).  C08_db_query_wf: the state after any single query inside a transaction
   (whatever its outcome) is wf.
   MISSING for the full statement: histories containing an insert list that names a key twice
   (`item_ok` = C09's quantifier: the proof goes through the joint invariant, whose unique-keys and
   exact-index components are needed to know that the ids returned by index searches exist);
   `bounded` = the capacity stays <= 2^63 (ids fit i64; beyond it the model's unbounded slot numbers
   collide with the free-list sentinel i64::MIN, so this hypothesis is part of the model's validity). *)
From Agdb Require Import Queries Revisions DbInvProofs QueryInvProofs AliasProofs TraversalLiveProofs DbInvariantProofs
  RollbackInvProofs HistoryAtomicProofs.

Theorem C08_db_query_wf :
  forall d q, query_ok q -> Inv d -> wf (gr (fst (exec_in_txn rv_fixed d q))).
Proof.
  intros d q Hq Hd. apply (QueryInvProofs.exec_in_txn_Inv rv_fixed search_live_fixed eq_refl d q Hq Hd).
Qed.
Print Assumptions C08_db_query_wf.

Theorem C08_db_rollback_wf :
  forall d d', rollback rv_fixed d = ROk d' -> uok d -> wf (gr d) -> alias_bij d -> wf (gr d').
Proof. intros d d' H Hu Hw Hb. exact (proj1 (rollback_wf_bij rv_fixed d d' H Hu Hw Hb)). Qed.
Print Assumptions C08_db_rollback_wf.

Theorem C08_db_history_wf_partial :
  forall its, Forall item_ok its -> bounded rv_fixed db_new its -> wf (gr (run_items rv_fixed db_new its)).
Proof. exact history_wf_fixed. Qed.
Print Assumptions C08_db_history_wf_partial.
