(* C31 — Every node applies committed actions once each and in log order.
   Pinned statements only; model theories/ExecSched.v, proofs theories/ExecSchedProofs.v.

   FULL STATEMENT: on every node, for every sequence of commits and every interleaving of the execution
   tasks the node starts, the executed trace is the committed log in increasing index order with each
   index exactly once, so nodes that committed the same log reach the same server and database state.

   The model has two execution disciplines (ExecSched.discipline):
     FifoWorker    = the code after the fix: commit `ClusterStorage::execute_log` sends the entry to ONE worker
                     task (unbounded mpsc channel) that runs `exec; notify; log_executed` entry by entry;
     SpawnPerEntry = the pinned code: one independent `tokio::spawn` per entry.
   For FifoWorker the full safety statement is proved (C31_fifo_order, C31_fifo_same_state, C31_once); the
   pinned discipline is refuted (C31_spawn_refuted) and proved only for the complement of the known class
   `commit-spawns-several-tasks` (C31_spawn_partial).  Liveness ("every started entry is eventually
   executed") is not a safety property and is out of scope.  Hypothesis on the log: the indices of the
   appended log are strictly increasing (Raft log; C28). *)
From Coq Require Import List NArith Bool Sorted.
From Agdb Require Import ExecSched ExecSchedProofs.
Import ListNotations.
Import ExecM.
Open Scope N_scope.

(* FULL (FifoWorker, no restart): for every log, every list of events (any commits, any scheduler choices,
   any timing of the executed-marks) the executed trace is a prefix of the log — hence strictly increasing
   in index, every index at most once — and it is exactly the committed entries minus the ones still queued *)
Theorem C31_fifo_order :
  forall (lg : log) (evs : list event),
    StronglySorted N.lt (indices lg) -> no_restart evs = true ->
    let s := run FifoWorker lg evs in
    prefix (trace s) (indices lg) /\ StronglySorted N.lt (trace s) /\ NoDup (trace s) /\
    committed s = trace s ++ tasks s.
Proof. exact fifo_order. Qed.
Print Assumptions C31_fifo_order.

(* FULL (FifoWorker): two nodes of the same log — whatever their commit calls and schedules — have executed
   traces of which one is a prefix of the other; once both have executed the same committed entries their
   traces, and therefore the states reached by applying the actions, are equal *)
Theorem C31_fifo_traces_comparable :
  forall (lg : log) (evs1 evs2 : list event),
    StronglySorted N.lt (indices lg) -> no_restart evs1 = true -> no_restart evs2 = true ->
    prefix (trace (run FifoWorker lg evs1)) (trace (run FifoWorker lg evs2)) \/
    prefix (trace (run FifoWorker lg evs2)) (trace (run FifoWorker lg evs1)).
Proof. exact fifo_traces_comparable. Qed.
Print Assumptions C31_fifo_traces_comparable.

Theorem C31_fifo_same_state :
  forall (S : Type) (apply : S -> N -> S) (s0 : S) (lg : log) (evs1 evs2 : list event),
    StronglySorted N.lt (indices lg) -> no_restart evs1 = true -> no_restart evs2 = true ->
    committed (run FifoWorker lg evs1) = committed (run FifoWorker lg evs2) ->
    tasks (run FifoWorker lg evs1) = [] -> tasks (run FifoWorker lg evs2) = [] ->
    trace (run FifoWorker lg evs1) = trace (run FifoWorker lg evs2) /\
    db_state apply s0 lg (trace (run FifoWorker lg evs1)) = db_state apply s0 lg (trace (run FifoWorker lg evs2)).
Proof. exact fifo_same_state. Qed.
Print Assumptions C31_fifo_same_state.

(* FULL (both disciplines): without restart every index is executed at most once, and only committed
   entries of the log are executed *)
Theorem C31_once :
  forall (d : discipline) (lg : log) (evs : list event),
    NoDup (indices lg) -> no_restart evs = true ->
    NoDup (trace (run d lg evs)) /\
    forall i, In i (trace (run d lg evs)) -> In i (committed (run d lg evs)) /\ In i (indices lg).
Proof.
  intros d lg evs Hnd Hnr. split.
  - now apply once_no_restart.
  - intros i. now apply executed_are_committed.
Qed.
Print Assumptions C31_once.

(* FULL (both disciplines), the exact bound across restarts: an index is executed at most once plus the
   number of restarts at which it was pending (its exec step had run but `log_executed` had not happened);
   in particular at most 1 + (number of restarts) times *)
Theorem C31_once_restart :
  forall (d : discipline) (lg : log) (evs : list event) (i : N),
    NoDup (indices lg) ->
    (count_occ N.eq_dec (trace (run d lg evs)) i <= 1 + reexec_budget d lg init evs i)%nat /\
    (reexec_budget d lg init evs i <= restarts evs)%nat.
Proof.
  intros d lg evs i Hnd. split.
  - now apply once_budget.
  - eapply reexec_budget_le_restarts; [exact Hnd|apply K_init].
Qed.
Print Assumptions C31_once_restart.

(* one crash: at most twice, and twice only for an entry pending at the crash; an entry marked executed is
   never executed again; with the single worker at most ONE entry is pending at any time *)
Theorem C31_once_one_crash :
  forall (d : discipline) (lg : log) (evs1 evs2 : list event) (i : N),
    NoDup (indices lg) -> no_restart evs1 = true -> no_restart evs2 = true ->
    (count_occ N.eq_dec (trace (run d lg (evs1 ++ Restart :: evs2))) i
       <= 1 + count_occ N.eq_dec (pending (run d lg evs1)) i)%nat /\
    (count_occ N.eq_dec (pending (run d lg evs1)) i <= 1)%nat.
Proof. exact once_one_crash. Qed.
Print Assumptions C31_once_one_crash.

Theorem C31_marked_never_again :
  forall (d : discipline) (lg : log) (evs1 evs2 : list event) (i : N),
    NoDup (indices lg) -> In i (executed (run d lg evs1)) ->
    count_occ N.eq_dec (trace (run d lg (evs1 ++ evs2))) i = count_occ N.eq_dec (trace (run d lg evs1)) i.
Proof. exact marked_never_again. Qed.
Print Assumptions C31_marked_never_again.

Theorem C31_fifo_one_pending :
  forall (lg : log) (evs : list event), (length (pending (run FifoWorker lg evs)) <= 1)%nat.
Proof. exact fifo_pending_le1. Qed.
Print Assumptions C31_fifo_one_pending.

(* FULL (FifoWorker, restarts included): the executed trace stays weakly increasing — the only possible
   repetition is the entry that was pending at a crash, re-executed before anything later runs *)
Theorem C31_fifo_restart_order :
  forall (lg : log) (evs : list event),
    StronglySorted N.lt (indices lg) ->
    StronglySorted N.le (trace (run FifoWorker lg evs)).
Proof. exact fifo_restart_order. Qed.
Print Assumptions C31_fifo_restart_order.

(* REFUTED for the pinned discipline: one commit call covering two entries starts two independent tasks;
   the schedule running the second first executes index 2 before index 1 *)
Theorem C31_spawn_refuted :
  let lg := [(1, 10); (2, 20)] in
  let evs := [Commit 2; RunTask 2; RunTask 1] in
  StronglySorted N.lt (indices lg) /\ no_restart evs = true /\
  trace (run SpawnPerEntry lg evs) = [2; 1] /\
  trace (run FifoWorker lg evs) = [1] /\
  ~ (forall (lg : log) (evs : list event),
       StronglySorted N.lt (indices lg) -> no_restart evs = true ->
       StronglySorted N.lt (trace (run SpawnPerEntry lg evs))).
Proof.
  cbn zeta.
  assert (Hs : StronglySorted N.lt (indices [(1, 10); (2, 20)])).
  { cbn. repeat constructor. }
  repeat split; try exact Hs; try (vm_compute; reflexivity).
  intros H. specialize (H [(1, 10); (2, 20)] [Commit 2; RunTask 2; RunTask 1] Hs eq_refl).
  vm_compute in H. apply StronglySorted_inv in H as [_ H]. apply Forall_inv in H. discriminate H.
Qed.
Print Assumptions C31_spawn_refuted.

(* PARTIAL for the pinned discipline (complement of the known class `commit-spawns-several-tasks`): order
   holds whenever every Commit finds no started entry waiting and starts at most one *)
Theorem C31_spawn_partial :
  forall (lg : log) (evs : list event),
    StronglySorted N.lt (indices lg) -> no_restart evs = true -> paced lg init evs ->
    let s := run SpawnPerEntry lg evs in
    prefix (trace s) (indices lg) /\ StronglySorted N.lt (trace s) /\ NoDup (trace s) /\
    committed s = trace s ++ tasks s.
Proof. exact spawn_paced_order. Qed.
Print Assumptions C31_spawn_partial.

(* ---- non-vacuity *)

(* the single worker under an adversarial scheduler: the run requests for 3 and 2 are refused until their turn *)
Example C31_fifo_nonvacuous :
  let lg := [(1, 10); (2, 20); (3, 30)] in
  let evs := [Commit 3; RunTask 3; RunTask 2; RunTask 1; RunTask 3; MarkExecuted 1; RunTask 3; RunTask 2;
              MarkExecuted 2; RunTask 3] in
  StronglySorted N.lt (indices lg) /\ no_restart evs = true /\
  trace (run FifoWorker lg evs) = [1; 2; 3] /\ trace (run SpawnPerEntry lg evs) = [3; 2; 1].
Proof. cbn zeta. repeat split; try (vm_compute; reflexivity). cbn. repeat constructor. Qed.
Print Assumptions C31_fifo_nonvacuous.

(* a paced history exists and executes something *)
Example C31_spawn_partial_nonvacuous :
  let lg := [(1, 10); (2, 20)] in
  let evs := [Commit 1; RunTask 1; Commit 2; RunTask 2; MarkExecuted 2; MarkExecuted 1] in
  paced lg init evs /\ no_restart evs = true /\ trace (run SpawnPerEntry lg evs) = [1; 2] /\
  ~ paced lg init [Commit 2; RunTask 2; RunTask 1].
Proof.
  cbn zeta. repeat split; try (vm_compute; reflexivity); try (vm_compute; auto).
  intros H. vm_compute in H. destruct H as [[_ H] _]. apply le_S_n in H. inversion H.
Qed.
Print Assumptions C31_spawn_partial_nonvacuous.

(* the restart bound is attained: a crash between the exec step and the executed-mark runs entry 1 twice *)
Example C31_restart_bound_attained :
  let lg := [(1, 10); (2, 20)] in
  let evs1 := [Commit 2; RunTask 1] in
  let evs2 := [RunTask 1; MarkExecuted 1; RunTask 2] in
  trace (run FifoWorker lg (evs1 ++ Restart :: evs2)) = [1; 1; 2] /\
  pending (run FifoWorker lg evs1) = [1] /\
  reexec_budget FifoWorker lg init (evs1 ++ Restart :: evs2) 1 = 1%nat.
Proof. cbn zeta. repeat split; vm_compute; reflexivity. Qed.
Print Assumptions C31_restart_bound_attained.
